----------------------------- MODULE ChainStore -----------------------------
(***************************************************************************)
(* C14: issuance chains stored outside the backend (hash-addressed,        *)
(* de-duplicated, cached) must be invisible to readers.                    *)
(*                                                                         *)
(* Two instances receive the same submissions: D keeps the full chain in   *)
(* the backend leaf, X keeps SHA-256(chain) in the leaf, the chain in a    *)
(* store and recently used chains in an LRU cache that is filled from a    *)
(* detached goroutine (its completion is the separate action CacheSetFires,*)
(* so it interleaves with everything).  The specification gives, for every *)
(* step, X's reply and whether X touches the store; D's reply is always    *)
(* the full chain.  The harness compares X with D byte for byte.           *)
(*                                                                         *)
(* One process serves several logs (constant Logs): every log has its own  *)
(* backend tree, its own storage table and its own cache, built by the     *)
(* same constructor from the same (process-wide) options.  Every variable  *)
(* below is a function of the log; an action on one log leaves the others  *)
(* as they are (LogsIndependent), in particular "in the cache of log l"    *)
(* stands for "stored in the table of log l" and for nothing else.         *)
(*                                                                         *)
(* The storage layer below the cache is a refinement detail selected by    *)
(* the constant Dialect: "memory" (a map: Add assigns), "mysql" (INSERT;   *)
(* a duplicate key is refused with error 1062, which Add swallows),        *)
(* "postgresql" (INSERT ... ON CONFLICT DO NOTHING: zero rows, no error).  *)
(* Where the dialects differ observably the specification says how: the    *)
(* de-duplication path (reply.path), what a re-Add does to a damaged row,  *)
(* the error classes of a SQL connection (statement error, cancellation    *)
(* in flight and after the commit, a lost connection that database/sql     *)
(* replaces without the caller noticing, a database that is down), and     *)
(* what the layer itself hands to the service (reply.layer).               *)
(*                                                                         *)
(* Defect # "none" switches a named defect on IN THE MODEL (never in the   *)
(* instances used for replay): TLC must then refute AckedServable /        *)
(* RangeWhole, which shows that those properties are not vacuous for the   *)
(* retry-after-a-failed-Add, several-logs and page-completion-order        *)
(* dimensions.                                                             *)
(***************************************************************************)
EXTENDS Integers, Sequences, FiniteSets, TLC

CONSTANTS
  Logs,       \* the logs served by one process, each with its own tree, storage and cache
  Certs,      \* leaf certificates
  ChainOf,    \* [Certs -> chain id]: several certificates share an issuance chain ("c0" = empty chain, leaf-only path)
  NoCache,    \* TRUE: the noop cache
  Cap,        \* LRU capacity: 0 = unbounded, n > 0 = n entries
  MaxTree,
  MaxFaults,
  Dialect,    \* storage layer: "memory" | "mysql" | "postgresql"
  Defect      \* "none" | "cacheOnFailedAdd" | "sharedCache" | "pageLastWins"

ASSUME Dialect \in {"memory", "mysql", "postgresql"}
ASSUME Defect \in {"none", "cacheOnFailedAdd", "sharedCache", "pageLastWins"}
SQL == Dialect # "memory"

\* what the storage layer does with an Add of a key the table already holds
DedupPath == CASE Dialect = "memory" -> "rewrite"                 \* the map entry is assigned again
               [] Dialect = "mysql" -> "dupKeyError"              \* INSERT refused with ER_DUP_ENTRY (1062); Add treats exactly that as success
               [] OTHER -> "conflictSkipped"                      \* ON CONFLICT DO NOTHING: no row written, no error

\* error classes of the storage layer.  Hard: the caller of Add / FindByKey gets an error.
\*   addError / findError   the statement is answered with an error (any but the unique violation), nothing executed
\*   addCancel / findCancel the request context is cancelled while the statement is in flight, nothing executed
\*   addLateCancel          the INSERT is executed, the context is cancelled before the result reaches the caller
\*   findRowsError          the query is accepted, reading its result set fails
\*   addConnDown / findConnDown   every connection (and every new one) fails
\* Soft: addConnLost / findConnLost - the connection is lost before the statement is sent (driver.ErrBadConn);
\*   database/sql sends it again on another connection and the caller notices nothing.
AddFaultsHard == IF SQL THEN {"addError", "addCancel", "addLateCancel", "addConnDown"} ELSE {"addError"}
AddFaultsSoft == IF SQL THEN {"addConnLost"} ELSE {}
FindFaultsHard == IF SQL THEN {"findError", "findCancel", "findRowsError", "findConnDown"} ELSE {"findError"}
FindFaultsSoft == IF SQL THEN {"findConnLost"} ELSE {}
AddFaults == AddFaultsHard \cup AddFaultsSoft
FindFaults == FindFaultsHard \cup FindFaultsSoft

Chains == {ChainOf[c] : c \in Certs}

\* get-entries pages.  The leaves of a page are fixed up one by one or all at once - the specification does not say;
\* Orders is the order in which the per-leaf work of a page COMPLETES (materialized as latencies of the storage
\* lookups): by index, against the index, every leaf that cannot be fixed first, every such leaf last.  The reply
\* does not depend on it (RangeOrderIrrelevant).
Orders == {"asc", "desc", "failFast", "failSlow"}
\* one leaf of the page as the backend returned it cannot be fixed at all: its extra data is none of the four layouts
\* (random bytes / a hash layout cut short), is absent, the whole leaf is empty, or it names a hash nothing was ever
\* stored under.  pos = 0: the page is as stored.
GarbleClasses == {"garbageExtra", "truncatedHash", "noExtraData", "emptyLeaf", "unknownHash"}
NoGarble == [pos |-> 0, class |-> "none"]

VARIABLES
  queued,     \* [Logs -> Seq(Certs)]: submitted, not yet integrated (same in D and X: de-duplication is by certificate)
  tree,       \* [Logs -> Seq([cert, layout])]: integrated entries; layout "hash" (written by X) or "full" (legacy, written in direct mode)
  known,      \* [Logs -> set of certificates the backend has seen]
  store,      \* [Logs -> set of chain ids in X's storage]
  bad,        \* [Logs -> [chain id -> corruption class]] for corrupted rows ("ok" otherwise)
  lost,       \* [Logs -> set of chain ids]: rows removed by storage damage (DropRow) and not stored again since
  cache,      \* [Logs -> Seq(chain id)], least recently used first
  pending,    \* [Logs -> Seq(chain id)]: detached cache.Set calls not yet executed
  faults,     \* faults injected so far (process-wide)
  hist, last

vars == <<queued, tree, known, store, bad, lost, cache, pending, faults, hist, last>>

InCache(l, h) == \E i \in 1..Len(cache[l]) : cache[l][i] = h
\* what the service of log l takes for "in my cache"
Hit(l, h) == ~NoCache /\ IF Defect = "sharedCache" THEN \E m \in Logs : InCache(m, h) ELSE InCache(l, h)
Without(s, h) == SelectSeq(s, LAMBDA x : x # h)
Touch(l, h) == Append(Without(cache[l], h), h)                  \* a hit moves the entry to the most-recent end
Put(l, h) == IF NoCache THEN cache[l]
             ELSE LET c1 == Append(Without(cache[l], h), h)
                  IN IF Cap > 0 /\ Len(c1) > Cap THEN Tail(c1) ELSE c1      \* evict the least recently used

Step(op, args, reply) == [op |-> op, args |-> args, reply |-> reply]
Record(s) == last' = s /\ hist' = Append(hist, s)

Init == /\ queued = [l \in Logs |-> <<>>] /\ tree = [l \in Logs |-> <<>>] /\ known = [l \in Logs |-> {}]
        /\ store = [l \in Logs |-> {}] /\ bad = [l \in Logs |-> [h \in Chains |-> "ok"]] /\ lost = [l \in Logs |-> {}]
        /\ cache = [l \in Logs |-> <<>>] /\ pending = [l \in Logs |-> <<>>] /\ faults = 0
        /\ hist = <<>> /\ last = [op |-> "Init"]

\* add-chain on both instances of log l.  X: BuildLogLeaf stores the chain (unless the cache already has it), then queues.
\* reply.add: the storage layer is called; reply.path: what it does; reply.layer: what it returns to the service;
\* reply.stored: the table of log l holds the chain when the submission is answered.
\* A submission that follows a failed one (the client's retry, or another leaf of the same issuer) is this same action:
\* a failed Add leaves no trace (AddErrorIs5xx), so the retry meets the cache as it was and calls Add again.
Submit(l, c, fault) ==
  LET h == ChainOf[c]
      hit == Hit(l, h)
      present == h \in store[l]
  IN /\ fault \in {"none"} \cup AddFaults
     /\ fault # "none" => faults < MaxFaults /\ ~hit       \* an Add fault can only strike when Add is called
     /\ IF fault \in AddFaultsHard
        THEN /\ faults' = faults + 1
             \* a statement that was executed before the cancellation has written its row (if there was none)
             /\ store' = IF fault = "addLateCancel" THEN [store EXCEPT ![l] = @ \cup {h}] ELSE store
             /\ bad' = IF fault = "addLateCancel" /\ ~present THEN [bad EXCEPT ![l][h] = "ok"] ELSE bad
             /\ lost' = IF fault = "addLateCancel" THEN [lost EXCEPT ![l] = @ \ {h}] ELSE lost
             \* the defect: the cache is told about a chain whose Add failed
             /\ pending' = IF Defect = "cacheOnFailedAdd" /\ ~NoCache THEN [pending EXCEPT ![l] = Append(@, h)] ELSE pending
             /\ UNCHANGED <<queued, tree, known, cache>>
             /\ Record(Step("Submit", [log |-> l, cert |-> c, fault |-> fault],
                            [status |-> 500, add |-> TRUE, path |-> "error", layer |-> "error", stored |-> h \in store'[l]]))
        ELSE /\ store' = IF hit THEN store ELSE [store EXCEPT ![l] = @ \cup {h}]
             \* memory: a re-Add assigns the entry again (and so repairs a damaged one); SQL: the row that is there stays as it is
             /\ bad' = IF hit \/ (SQL /\ present) THEN bad ELSE [bad EXCEPT ![l][h] = "ok"]
             /\ lost' = IF hit THEN lost ELSE [lost EXCEPT ![l] = @ \ {h}]
             /\ cache' = IF hit /\ InCache(l, h) THEN [cache EXCEPT ![l] = Touch(l, h)] ELSE cache
             /\ pending' = IF hit \/ NoCache THEN pending ELSE [pending EXCEPT ![l] = Append(@, h)]
             /\ queued' = IF c \in known[l] THEN queued ELSE [queued EXCEPT ![l] = Append(@, c)]
             /\ known' = [known EXCEPT ![l] = @ \cup {c}]
             /\ faults' = IF fault = "none" THEN faults ELSE faults + 1
             /\ UNCHANGED tree
             /\ Record(Step("Submit", [log |-> l, cert |-> c, fault |-> fault],
                            [status |-> 200, add |-> ~hit,
                             path |-> IF hit THEN "hit" ELSE IF present THEN DedupPath ELSE "inserted",
                             layer |-> IF hit THEN "none" ELSE "ok",
                             stored |-> h \in store'[l]]))

Sequence(l, k) ==
  /\ k \in 1..Len(queued[l]) /\ Len(tree[l]) + k <= MaxTree
  /\ tree' = [tree EXCEPT ![l] = @ \o [i \in 1..k |-> [cert |-> queued[l][i], layout |-> "hash"]]]
  /\ queued' = [queued EXCEPT ![l] = SubSeq(@, k + 1, Len(@))]
  /\ UNCHANGED <<known, store, bad, lost, cache, pending, faults>>
  /\ Record(Step("Sequence", [log |-> l, k |-> k], [status |-> 0]))

\* an entry written before external storage was switched on: full chain in the leaf
Legacy(l, c) ==
  /\ c \notin known[l] /\ Len(tree[l]) < MaxTree
  /\ tree' = [tree EXCEPT ![l] = Append(@, [cert |-> c, layout |-> "full"])]
  /\ known' = [known EXCEPT ![l] = @ \cup {c}]
  /\ UNCHANGED <<queued, store, bad, lost, cache, pending, faults>>
  /\ Record(Step("Legacy", [log |-> l, cert |-> c], [status |-> 0]))

\* get-entries (via = "entries") or get-entry-and-proof (via = "proof") for index i (1-based here) on X
\* reply.find: the storage layer is called; reply.layer: what it returns ("data" = the row's bytes as they are in
\* the table, intact or damaged: the layer does not judge them; "error": no bytes at all)
Read(l, i, via, fault) ==
  LET e == tree[l][i]
      h == ChainOf[e.cert]
      hit == Hit(l, h)
      needStore == e.layout = "hash" /\ ~hit
      layer == IF fault \in FindFaultsHard \/ h \notin store[l] THEN "error" ELSE "data"      \* a missing row is an error, never empty data
  IN /\ i \in 1..Len(tree[l])
     /\ fault \in {"none"} \cup FindFaults
     /\ fault # "none" => faults < MaxFaults /\ needStore
     /\ faults' = IF fault = "none" THEN faults ELSE faults + 1
     /\ IF ~needStore
        THEN /\ cache' = IF e.layout = "hash" /\ InCache(l, h) THEN [cache EXCEPT ![l] = Touch(l, h)] ELSE cache
             /\ UNCHANGED pending
             /\ Record(Step("Read", [log |-> l, index |-> i - 1, via |-> via, fault |-> fault],
                            [status |-> 200, cert |-> e.cert, find |-> FALSE, layer |-> "none"]))
        ELSE IF layer = "error" \/ bad[l][h] # "ok"
        THEN /\ UNCHANGED <<cache, pending>>
             /\ Record(Step("Read", [log |-> l, index |-> i - 1, via |-> via, fault |-> fault],
                            [status |-> 500, cert |-> e.cert, find |-> TRUE, layer |-> layer]))
        ELSE /\ pending' = IF NoCache THEN pending ELSE [pending EXCEPT ![l] = Append(@, h)]
             /\ UNCHANGED cache
             /\ Record(Step("Read", [log |-> l, index |-> i - 1, via |-> via, fault |-> fault],
                            [status |-> 200, cert |-> e.cert, find |-> TRUE, layer |-> layer]))
     /\ UNCHANGED <<queued, tree, known, store, bad, lost>>

\* get-entries over several indices i..j: the entries are resolved one after the other, the request fails at the first
\* one that cannot be resolved (what was resolved before keeps its effect on the cache); an injected storage fault
\* strikes the first storage lookup of the request.  ls: what the storage layer returned, lookup by lookup.
\* g: the leaf (position, class) that the backend returned garbled, NoGarble for none.
\* ws: the lookups that handed back an intact row - each of them is followed by a detached cache write (started also
\* when the cache is the noop cache, which then forgets it).
RECURSIVE RangeFold(_, _, _, _, _, _, _, _, _)
RangeFold(l, k, j, ca, pe, fl, ls, g, ws) ==
  IF k > j THEN [ok |-> TRUE, cache |-> ca, pending |-> pe, layers |-> ls, fl |-> fl, sets |-> ws]
  ELSE LET e == tree[l][k]
           h == ChainOf[e.cert]
           hit == ~NoCache /\ \E x \in 1..Len(ca) : ca[x] = h
       IN IF k = g.pos
          THEN IF g.class = "unknownHash"      \* a well-formed hash layout: the lookup is made and finds nothing
               THEN [ok |-> FALSE, cache |-> ca, pending |-> pe, layers |-> Append(ls, "error"), fl |-> FALSE, sets |-> ws]
               ELSE [ok |-> FALSE, cache |-> ca, pending |-> pe, layers |-> ls, fl |-> fl, sets |-> ws]
          ELSE IF e.layout = "full" THEN RangeFold(l, k + 1, j, ca, pe, fl, ls, g, ws)
          ELSE IF hit THEN RangeFold(l, k + 1, j, Append(Without(ca, h), h), pe, fl, ls, g, ws)
          ELSE IF fl \/ h \notin store[l]
               THEN [ok |-> FALSE, cache |-> ca, pending |-> pe, layers |-> Append(ls, "error"), fl |-> FALSE, sets |-> ws]
          ELSE IF bad[l][h] # "ok"
               THEN [ok |-> FALSE, cache |-> ca, pending |-> pe, layers |-> Append(ls, "data"), fl |-> FALSE, sets |-> ws]
          ELSE RangeFold(l, k + 1, j, ca, IF NoCache THEN pe ELSE Append(pe, h), fl, Append(ls, "data"), g, ws + 1)

\* can the leaf at index k of a page be fixed (on its own, in the current state)
Fixable(l, k, g) == LET h == ChainOf[tree[l][k].cert]
                    IN k # g.pos /\ (tree[l][k].layout = "full" \/ InCache(l, h) \/ (h \in store[l] /\ bad[l][h] = "ok"))
\* the leaf whose work completes last under a completion order
LastFinisher(l, i, j, order, g) ==
  CASE order = "asc" -> j
    [] order = "desc" -> i
    [] order = "failFast" -> IF \E k \in i..j : Fixable(l, k, g) THEN CHOOSE k \in i..j : Fixable(l, k, g) ELSE j
    [] OTHER -> IF \E k \in i..j : ~Fixable(l, k, g) THEN CHOOSE k \in i..j : ~Fixable(l, k, g) ELSE j

ReadRange(l, i, j, fault, order, g) ==
  /\ i \in 1..Len(tree[l]) /\ j \in 1..Len(tree[l])
  /\ order \in Orders
  /\ IF g = NoGarble THEN i < j ELSE i <= j /\ g.pos \in i..j /\ g.class \in GarbleClasses
  /\ fault \in {"none"} \cup FindFaults
  /\ LET r == RangeFold(l, i, j, cache[l], pending[l], fault \in FindFaultsHard, <<>>, g, 0)
         \* the defect: the outcome of the leaf that completes last is the outcome of the page
         ok == IF Defect = "pageLastWins" THEN Fixable(l, LastFinisher(l, i, j, order, g), g) ELSE r.ok
     IN /\ fault \in FindFaultsHard => faults < MaxFaults /\ ~r.fl      \* the fault can only strike when a lookup happens
        /\ fault \in FindFaultsSoft => faults < MaxFaults /\ Len(r.layers) > 0
        /\ faults' = IF fault = "none" THEN faults ELSE faults + 1
        /\ cache' = [cache EXCEPT ![l] = r.cache] /\ pending' = [pending EXCEPT ![l] = r.pending]
        /\ Record(Step("ReadRange", [log |-> l, index |-> i - 1, to |-> j - 1, fault |-> fault, order |-> order,
                                     garble |-> [pos |-> g.pos - 1, class |-> g.class]],
                       [status |-> IF ok THEN 200 ELSE 500, finds |-> Len(r.layers), layers |-> r.layers,
                        sets |-> r.sets]))
  /\ UNCHANGED <<queued, tree, known, store, bad, lost>>

\* the detached goroutine runs
CacheSetFires(l) ==
  /\ Len(pending[l]) > 0
  /\ cache' = [cache EXCEPT ![l] = Put(l, Head(pending[l]))]
  /\ pending' = [pending EXCEPT ![l] = Tail(@)]
  /\ UNCHANGED <<queued, tree, known, store, bad, lost, faults>>
  /\ Record(Step("CacheSetFires", [log |-> l, chain |-> Head(pending[l])], [status |-> 0]))

\* storage damage
DropRow(l, h) ==
  /\ h \in store[l] /\ faults < MaxFaults
  /\ store' = [store EXCEPT ![l] = @ \ {h}] /\ lost' = [lost EXCEPT ![l] = @ \cup {h}] /\ faults' = faults + 1
  /\ UNCHANGED <<queued, tree, known, bad, cache, pending>>
  /\ Record(Step("DropRow", [log |-> l, chain |-> h], [status |-> 0]))

Corrupt(l, h, class) ==
  /\ h \in store[l] /\ bad[l][h] = "ok" /\ faults < MaxFaults
  /\ bad' = [bad EXCEPT ![l][h] = class] /\ faults' = faults + 1
  /\ UNCHANGED <<queued, tree, known, store, lost, cache, pending>>
  /\ Record(Step("Corrupt", [log |-> l, chain |-> h, class |-> class], [status |-> 0]))

\* the process is restarted, or another replica with its own (cold) caches takes over: stores and backends are
\* shared and survive; the caches of all its logs and the detached writes still on their way die with the process
Restart ==
  /\ faults < MaxFaults
  /\ cache' = [l \in Logs |-> <<>>] /\ pending' = [l \in Logs |-> <<>>] /\ faults' = faults + 1
  /\ UNCHANGED <<queued, tree, known, store, bad, lost>>
  /\ Record(Step("Restart", [k |-> 0], [status |-> 0]))

\* "swapped": the row holds the well-formed chain value of another key
CorruptClasses == {"trailing", "notDER", "truncated", "contentFlip", "empty", "swapped"}

Garbles(i, j, Gs) == {NoGarble} \cup [pos : i..j, class : Gs]

\* Os / Gs: the completion orders and garble classes explored (Next: all of them)
NextWith(Os, Gs) ==
  \/ \E l \in Logs, c \in Certs, f \in {"none"} \cup AddFaults : Submit(l, c, f)
  \/ \E l \in Logs, k \in 1..MaxTree : Sequence(l, k)
  \/ \E l \in Logs, c \in Certs : Legacy(l, c)
  \/ \E l \in Logs, i \in 1..MaxTree, v \in {"entries", "proof"}, f \in {"none"} \cup FindFaults : Read(l, i, v, f)
  \/ \E l \in Logs, i \in 1..MaxTree, j \in 1..MaxTree, f \in {"none"} \cup FindFaults, o \in Os : \E g \in Garbles(i, j, Gs) : ReadRange(l, i, j, f, o, g)
  \/ \E l \in Logs : CacheSetFires(l)
  \/ \E l \in Logs, h \in Chains : DropRow(l, h)
  \/ \E l \in Logs, h \in Chains, k \in CorruptClasses : Corrupt(l, h, k)
  \/ Restart

Next == NextWith(Orders, GarbleClasses)

Spec == Init /\ [][Next]_vars

\* what a front end with a cold cache (after Restart, or another replica) can serve from the current state
ServableCold(l, i) == tree[l][i].layout = "full" \/ (ChainOf[tree[l][i].cert] \in store[l] /\ bad[l][ChainOf[tree[l][i].cert]] = "ok")

LogOf(s) == s.args.log

(* ---------------- properties ---------------- *)
\* a reply of 200 always carries the chain of the certificate stored at that index (what D serves):
\* here by construction of Read; stated so that TLC evaluates it on every transition
SameAsDirect == [][last'.op = "Read" /\ last'.reply.status = 200 => last'.reply.cert = tree[LogOf(last')][last'.args.index + 1].cert]_vars

\* a read that succeeds without the cache had an intact row; a damaged or missing row is an error, never data
FaultIsError == [][(last'.op = "Read" /\ last'.reply.find /\ last'.reply.status = 200) =>
                      LET h == ChainOf[last'.reply.cert] IN h \in store[LogOf(last')] /\ bad[LogOf(last')][h] = "ok"]_vars

\* a range is served only when every one of its entries is: whole or error, never a part with something else in it -
\* whatever the position of the leaf that cannot be fixed and whatever the order in which the per-leaf work completes
RangeWhole == [][(last'.op = "ReadRange" /\ last'.reply.status = 200) =>
                    /\ last'.args.garble.class = "none"
                    /\ \A k \in last'.args.index + 1..last'.args.to + 1 :
                         LET l == LogOf(last')
                             h == ChainOf[tree[l][k].cert]
                         IN tree[l][k].layout = "full" \/ (h \in store[l] /\ bad[l][h] = "ok") \/ (\E x \in 1..Len(cache[l]) : cache[l][x] = h)]_vars
\* a leaf the backend returned garbled is an error of the page, at every position
GarbledLeafIsError == [][(last'.op = "ReadRange" /\ last'.args.garble.class # "none") => last'.reply.status = 500]_vars
\* the reply to a page is a function of the state and the request, not of the completion order
RangeOrderIrrelevant ==
  [][last'.op = "ReadRange" =>
       LET l == LogOf(last')
           g == [pos |-> last'.args.garble.pos + 1, class |-> last'.args.garble.class]
           r == RangeFold(l, last'.args.index + 1, last'.args.to + 1, cache[l], pending[l], last'.args.fault \in FindFaultsHard, <<>>, g, 0)
       IN last'.reply.status = (IF r.ok THEN 200 ELSE 500) /\ last'.reply.layers = r.layers /\ last'.reply.sets = r.sets
          /\ (~NoCache => r.sets = Len(pending'[l]) - Len(pending[l]))]_vars

\* legacy entries never need the store
LegacyUnchanged == [][(last'.op = "Read" /\ tree[LogOf(last')][last'.args.index + 1].layout = "full") =>
                         last'.reply.status = 200 /\ ~last'.reply.find]_vars

\* durability, whatever the cache state: a submission is acknowledged (and its leaf queued) only once the store has
\* the chain, and rows leave the store only through storage damage.  Together: every acknowledged hash-layout
\* entry can be resolved from the store alone, which is what makes a cold cache (Restart, another replica,
\* eviction) harmless.
AckAfterStore == [][(last'.op = "Submit" /\ last'.reply.status = 200 /\ last'.reply.add) => ChainOf[last'.args.cert] \in store'[LogOf(last')]]_vars
\* ... also when the submission was answered from the cache: the table of THAT log holds the chain unless storage
\* damage removed the row (a retry after a failed Add, a submission to another log of the process, a submission
\* after a restart all have to store the chain themselves)
AckedIsStored == [][(last'.op = "Submit" /\ last'.reply.status = 200) =>
                      LET l == LogOf(last') h == ChainOf[last'.args.cert]
                      IN (h \in store'[l] \/ h \in lost'[l]) /\ last'.reply.stored = (h \in store'[l])]_vars
\* the same as a state invariant over everything acknowledged so far (this is what the named defects break)
AckedServable == \A l \in Logs :
                   /\ \A i \in 1..Len(tree[l]) : tree[l][i].layout = "hash" => (ChainOf[tree[l][i].cert] \in store[l] \/ ChainOf[tree[l][i].cert] \in lost[l])
                   /\ \A i \in 1..Len(queued[l]) : ChainOf[queued[l][i]] \in store[l] \/ ChainOf[queued[l][i]] \in lost[l]
\* ... and a cache hit stands for "stored": cache and detached writes only ever carry chains the store holds; every
\* action except storage damage preserves that (stated as the inductive step so that it needs no history)
CacheWithinStore(ca, pe, st) == (\A i \in 1..Len(ca) : ca[i] \in st) /\ (\A i \in 1..Len(pe) : pe[i] \in st)
CacheFromStore == [][\A l \in Logs : (CacheWithinStore(cache[l], pending[l], store[l]) /\ last'.op # "DropRow") => CacheWithinStore(cache'[l], pending'[l], store'[l])]_vars
\* without storage damage: whatever a cache holds or is about to be told, the table of the same log holds
CacheStandsForStored == \A l \in Logs : CacheWithinStore(cache[l], pending[l], store[l] \cup lost[l])
StoreMonotone == [][last'.op # "DropRow" => \A l \in Logs : store[l] \subseteq store'[l]]_vars
\* nothing but storage damage makes an integrated entry unservable for a cold front end
ServableStays == [][\A l \in Logs : \A i \in 1..Len(tree[l]) : (ServableCold(l, i) /\ last'.op \notin {"DropRow", "Corrupt"}) => ServableCold(l, i)']_vars
RestartIsCold == [][last'.op = "Restart" => \A l \in Logs : cache'[l] = <<>> /\ pending'[l] = <<>>]_vars
\* the logs of a process share nothing: a step on one log leaves every other log's tree, table, cache and detached
\* writes as they are (a restart takes all caches of the process down, and nothing else)
LogsIndependent == [][\A m \in Logs : (last'.op # "Restart" /\ m # LogOf(last')) =>
                          /\ queued'[m] = queued[m] /\ tree'[m] = tree[m] /\ known'[m] = known[m] /\ store'[m] = store[m]
                          /\ bad'[m] = bad[m] /\ lost'[m] = lost[m] /\ cache'[m] = cache[m] /\ pending'[m] = pending[m]]_vars

(* ---------------- the storage layer (per Dialect) ---------------- *)
\* de-duplication: an Add of a key the table already holds (the same chain hash from another leaf, or from the same
\* leaf again) is a success for the caller, takes the dialect's de-duplication path, and leaves the table as it is -
\* in the SQL dialects down to the row's bytes (a damaged row stays damaged: nothing is written)
DedupIsSuccess == [][(last'.op = "Submit" /\ last'.reply.add /\ last'.args.fault \notin AddFaultsHard /\ ChainOf[last'.args.cert] \in store[LogOf(last')])
                        => /\ last'.reply.status = 200 /\ last'.reply.path = DedupPath /\ last'.reply.layer = "ok"
                           /\ store' = store
                           /\ SQL => bad' = bad]_vars
FirstAddInserts == [][(last'.op = "Submit" /\ last'.reply.add /\ last'.args.fault \notin AddFaultsHard /\ ChainOf[last'.args.cert] \notin store[LogOf(last')])
                        => last'.reply.path = "inserted" /\ ChainOf[last'.args.cert] \in store'[LogOf(last')] /\ bad'[LogOf(last')][ChainOf[last'.args.cert]] = "ok"]_vars
\* any other storage error on Add: the submission is answered 5xx (so: no SCT), nothing is queued, the certificate
\* does not become known to the backend, no cache write is started - neither now nor when the request is over
AddErrorIs5xx == [][(last'.op = "Submit" /\ last'.args.fault \in AddFaultsHard)
                       => /\ last'.reply.status = 500 /\ last'.reply.layer = "error"
                          /\ queued' = queued /\ known' = known /\ cache' = cache /\ pending' = pending /\ tree' = tree]_vars
\* an acknowledged submission called the layer and got "ok", or found the chain in the cache
AckNeedsLayerOk == [][(last'.op = "Submit" /\ last'.reply.status = 200) => last'.reply.layer = IF last'.reply.add THEN "ok" ELSE "none"]_vars
\* any storage error on FindByKey: the read is answered 5xx, never data
FindErrorIs5xx == [][/\ (last'.op = "Read" /\ (last'.args.fault \in FindFaultsHard \/ last'.reply.layer = "error")) => last'.reply.status = 500
                     /\ (last'.op = "ReadRange" /\ (last'.args.fault \in FindFaultsHard \/ \E k \in 1..Len(last'.reply.layers) : last'.reply.layers[k] = "error"))
                           => last'.reply.status = 500]_vars
\* a missing row is an error of the layer (never "data", in particular never empty chain data)
MissingRowIsError == [][(last'.op = "Read" /\ last'.reply.find /\ ChainOf[last'.reply.cert] \notin store[LogOf(last')]) => last'.reply.layer = "error" /\ last'.reply.status = 500]_vars
\* a connection lost before the statement was sent is invisible: the reply is the one without the fault
SoftFaultInvisible ==
  [][/\ (last'.op = "Submit" /\ last'.args.fault \in AddFaultsSoft) => last'.reply.status = 200 /\ last'.reply.layer = "ok" /\ ChainOf[last'.args.cert] \in store'[LogOf(last')]
     /\ (last'.op = "Read" /\ last'.args.fault \in FindFaultsSoft)
           => LET h == ChainOf[last'.reply.cert] IN last'.reply.status = (IF h \in store[LogOf(last')] /\ bad[LogOf(last')][h] = "ok" THEN 200 ELSE 500)]_vars
\* only the classes of the dialect occur
FaultClasses == last.op \in {"Submit", "Read", "ReadRange"} => last.args.fault \in {"none"} \cup AddFaults \cup FindFaults

\* the cache only ever holds chains that were stored (it cannot invent data)
CacheSound == \A l \in Logs : \A i \in 1..Len(cache[l]) : cache[l][i] \in Chains
CacheBounded == Cap > 0 => \A l \in Logs : Len(cache[l]) <= Cap
=============================================================================
