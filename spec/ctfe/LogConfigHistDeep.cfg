\* thorough tier, history layer: longer sessions (run with -simulate)
CONSTANTS
  MaxSize = 4
  FrozenSize = 2
  HDepth = 24
INIT SimInit
NEXT SimNext
INVARIANTS HistLaw ExportWalk
CHECK_DEADLOCK FALSE
