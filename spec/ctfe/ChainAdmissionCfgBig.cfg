\* thorough: lists of up to four names
CONSTANTS
  Depth = 1
  MaxList = 4
INIT Init
NEXT Next
INVARIANTS Laws Export
CHECK_DEADLOCK FALSE
