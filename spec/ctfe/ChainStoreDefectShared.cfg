CONSTANTS
  Logs = {"X", "Y"}
  Defect = "sharedCache"
  Certs = {"x1", "x2", "p1"}
  ChainOf <- MCChainOf
  NoCache = FALSE
  Cap = 1
  MaxTree = 1
  MaxFaults = 0
  Depth = 0
  Dialect = "memory"
INIT Init
NEXT Next
VIEW StateView
CONSTRAINT PendingBound
INVARIANTS AckedServable
CHECK_DEADLOCK FALSE
