------------------------- MODULE MCChainAdmissionLog -------------------------
(* Instances of ChainAdmissionLog.                                                                                    *)
(*  - ChainAdmissionLogSmall.cfg: exhaustive, two logs, a handful of configurations and chains around the expiry of   *)
(*    the leaf; the laws hold.  ChainAdmissionLogPinFirst.cfg / ChainAdmissionLogMemo.cfg: the same with a log that    *)
(*    pins the clock of its first request / memoises verdicts by (log, leaf, route): TLC must report the laws          *)
(*    violated (the laws have teeth).                                                                                  *)
(*  - ChainAdmissionLogSim.cfg: random walks (run with -simulate, -workers 1): three logs are set up (two share the    *)
(*    trusted pool and differ in their options: one rejects expired, one unexpired certificates; the third is drawn    *)
(*    freely and may pin a time), then the clock ticks and chains are submitted with repetition: the chain served      *)
(*    last again (to another log / route / at another instant), a perturbation of the current base chain, the base     *)
(*    again (valid - mutated - valid on the same certificates), a new base.  Every finished walk is exported (WALK)    *)
(*    with the verdict of every request and the instants at which the request, alone, is admitted.                     *)
EXTENDS ChainAdmissionLog

CONSTANT Steps        \* length of an exported walk (entries of hist)
VARIABLE base         \* simulation: the base chain the walk currently varies

(* ---------- exhaustive small instance ---------- *)
Lenient(o) == ~o.start.p /\ ~o.limit.p /\ ~o.onlyCA /\ o.ekus = {} /\ o.rejExts = {}
FirstOf(S) == CHOOSE k \in S : \A j \in S : k <= j
SmallRows ==
  LET row(e, u) == FirstOf({k \in 1..NOpts : Lenient(OptTab[k]) /\ OptTab[k].rejExp = e /\ OptTab[k].rejUnexp = u})
      windowed == FirstOf({k \in 1..NOpts : LET o == OptTab[k] IN /\ o.rejExp /\ ~o.rejUnexp /\ ~o.start.p /\ o.limit = At(5)
                                                                  /\ ~o.onlyCA /\ o.ekus = {"server"} /\ o.rejExts = {}})
  IN {row(FALSE, FALSE), row(TRUE, FALSE), row(FALSE, TRUE), windowed}
PinnedRow == FirstOf({k \in 1..NOpts : Lenient(OptTab[k]) /\ OptTab[k].rejExp /\ ~OptTab[k].rejUnexp})
SmallConfigs == {[T |-> "T1", k |-> k, pin |-> NoBound] : k \in SmallRows} \cup {[T |-> "T1", k |-> PinnedRow, pin |-> At(4)]}
\* thorough: both trusted pools, every row pinned and unpinned
BigConfigs == {[T |-> t, k |-> k, pin |-> p] : t \in {"T1", "T2"}, k \in SmallRows, p \in {NoBound, At(4)}}
SmallChains == {<<"L2", "I2", "I1">>, <<"L2", "I2", "I1~f">>, <<"L2", "I2", "I1x">>, <<"LP", "P", "I1">>, <<"I2", "I1", "R1">>}
SmallStarts == {3}
SmallInit == Init /\ base = <<>>
SmallNext == Next /\ UNCHANGED base
SmallView == <<clock, cfg, mem, last>>

(* ---------- simulation ---------- *)
TimeRows(e, u) == {k \in 1..NOpts : LET o == OptTab[k] IN /\ o.rejExp = e /\ o.rejUnexp = u /\ Configurable(k)
                                                          /\ o.start \in {NoBound, At(4)} /\ o.limit \in {NoBound, At(5)}
                                                          /\ ~o.onlyCA}
ExpRows == TimeRows(TRUE, FALSE)
UnexpRows == TimeRows(FALSE, TRUE)
AnyRows == {k \in 1..NOpts : Configurable(k)}
SimBases == Bases \cup PlainBases

\* base chains that are in order for a trusted pool (constant level: evaluated once)
\* and whose leaf is a certificate or a precertificate
OKBases == [t \in TNames |-> LET S == {b \in SimBases : Kind(Cert[b[1]]) # "malformed" /\ ChainOK(Recs(b), TRecs(t))}
                             IN IF S = {} THEN SimBases ELSE S]
Half(S, P(_), coin) == LET R == {k \in S : P(k)} IN IF coin = 1 /\ R # {} THEN R ELSE S

SimSetUp ==
  \E t1 \in {RandomElement(TNames)}, t3 \in {RandomElement(TNames)}, c1 \in {RandomElement(1..2)}, c2 \in {RandomElement(1..2)},
     k3 \in {RandomElement(AnyRows)}, p \in {RandomElement(1..4)}, t0 \in {RandomElement(2..4)} :
    \* half of the time options that ValidateChain can be handed directly as well
    \E b \in {RandomElement(OKBases[t1])}, k1 \in {RandomElement(Half(ExpRows, Expressible, c1))},
       k2 \in {RandomElement(Half(UnexpRows, Expressible, c2))} :
      LET pin3 == IF p = 1 /\ Expressible(k3) THEN At(4) ELSE IF p = 2 /\ Expressible(k3) THEN At(5) ELSE NoBound
      IN /\ SetUp(<<[T |-> t1, k |-> k1, pin |-> NoBound], [T |-> t1, k |-> k2, pin |-> NoBound],
                    [T |-> t3, k |-> k3, pin |-> pin3]>>, t0)
         /\ base' = b

\* the route that fits the kind of the leaf (the other endpoint refuses whatever the rest says)
Fitting(ch) == IF ~Cert[ch[1]].parses THEN "validate"
               ELSE IF Kind(Cert[ch[1]]) = "precert" THEN "add-pre-chain" ELSE "add-chain"
\* three steps in ten let time pass; the others submit: the chain served last again (3), a perturbation of the base
\* (2), the base itself (1), a new base (1; three times in four one that is in order for logs 1 and 2).  Logs 1 and
\* 2 (whose verdicts follow the clock) are asked twice as often as log 3; one time in four ValidateChain directly
\* (where the options allow), otherwise two times in three the fitting endpoint.
SimStep ==
  /\ cfg # NotSetUp /\ Len(hist) < Steps
  /\ \E w \in {RandomElement(1..10)}, x \in {RandomElement(1..3)}, lw \in {RandomElement(1..5)}, rw \in {RandomElement(1..3)}, vw \in {RandomElement(1..4)},
        q \in {RandomElement(Perturb(base))}, nb \in {RandomElement(SimBases)}, ob \in {RandomElement(OKBases[cfg[1].T])},
        bw \in {RandomElement(1..4)} :
       LET d == IF x = 3 THEN 2 ELSE 1
           l == IF lw <= 2 THEN 1 ELSE IF lw <= 4 THEN 2 ELSE 3
           fresh == IF bw = 1 THEN nb ELSE ob
           ch == CASE w <= 6 -> IF last = None THEN base ELSE last.ch
                   [] w <= 8 -> q.ch
                   [] w = 9  -> base
                   [] OTHER  -> fresh
       IN IF w <= 3 /\ clock + d <= MaxClock
          THEN Tick(d) /\ UNCHANGED base
          ELSE /\ \E r0 \in {RandomElement(RoutesOf(cfg[l]))} :
                    Serve(l, ch, IF vw = 1 /\ "validate" \in RoutesOf(cfg[l]) THEN "validate"
                                 ELSE IF rw <= 2 /\ Fitting(ch) \in RoutesOf(cfg[l]) THEN Fitting(ch) ELSE r0)
               /\ base' = IF w = 10 THEN fresh ELSE base

\* Simulation evaluates invariants on every candidate successor: the export hangs on a unique closing step.
End == [op |-> "end"]
Finish == /\ Len(hist) = Steps
          /\ hist' = Append(hist, End)
          /\ UNCHANGED <<clock, cfg, mem, last, base>>
SimInit == Init /\ base = <<>>
SimNext == (cfg = NotSetUp /\ SimSetUp) \/ SimStep \/ Finish

CfgRow(c) == [T |-> c.T, k |-> c.k, pin |-> IF c.pin.p THEN c.pin.v ELSE -1]
ExportWalk == (Len(hist) = Steps + 1) =>
  PrintT(<<"WALK", ToJson([logs |-> [l \in LogIds |-> CfgRow(cfg[l])], steps |-> SubSeq(hist, 1, Steps), maxClock |-> MaxClock])>>)
=============================================================================
