CONSTANTS
  MaxSize = 4
  FrozenSize = 2
  Depth = 12
INIT InitInst
NEXT SimNext
INVARIANTS ExportFinished
CHECK_DEADLOCK FALSE
