\* development aid: TLC must find a history on which a memo that ignores the frozen STH's timestamp answers wrongly
CONSTANTS
  MaxSize = 4
  FrozenSize = 2
  HDepth = 14
INIT SimInit
NEXT SimNext
INVARIANTS HistLaw MemoTsAgrees
CHECK_DEADLOCK FALSE
