CONSTANTS
  MaxSize = 5
  FrozenSize = 2
  Depth = 20
INIT InitInst
NEXT SimNext
INVARIANTS ExportFinished
CHECK_DEADLOCK FALSE
