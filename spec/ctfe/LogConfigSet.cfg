CONSTANTS
  MaxSize = 4
  FrozenSize = 2
  Depth = 0
INIT InitSet
NEXT Stay
INVARIANTS ExportSet
CHECK_DEADLOCK FALSE
