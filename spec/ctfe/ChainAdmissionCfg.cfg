\* quick: every configured EKU list of up to three names over five
CONSTANTS
  Depth = 1
  MaxList = 3
INIT Init
NEXT Next
INVARIANTS Laws Export
CHECK_DEADLOCK FALSE
