\* MaxWord = 7807: 2^63-1-7807 is divisible by 3000 = lcm(1,2,3,4,1000)
CONSTANTS
  MaxWord = 7807
  Maxes = {1, 2, 3, 4, 1000}
  K = 3
INIT Init
NEXT Next
INVARIANTS Laws CodeEqSpec
CHECK_DEADLOCK FALSE
