----------------------------- MODULE LogConfig -----------------------------
(***************************************************************************)
(* C15 - "Configuration validation is total and the instance matches its   *)
(* configuration" (trillian/ctfe/config.go, instance.go, handlers.go       *)
(* Handlers(), sth.go).                                                    *)
(*                                                                         *)
(* Part 1 (case analysis).  A log configuration is a record of FIELD       *)
(* STATES, not of bytes: every field of configpb.LogConfig that the        *)
(* property speaks about is absent / empty / negative / syntactically odd  *)
(* / well-formed.  Valid(c) is the conjunction of the property text, one   *)
(* definition per conjunct.  Where the text is silent and the code has a   *)
(* definite behaviour the clause carries a NAMED definition marked         *)
(* "(named)".  The harness materializes each record as a configpb message  *)
(* (text and binary form) and compares the validators' accept/reject with  *)
(* Valid; a panic is a violation whatever Valid says (totality).           *)
(*                                                                         *)
(* Part 2 (state machine).  An instance built from an accepted             *)
(* configuration: its endpoint set, and which STH it serves while the      *)
(* backend tree grows and (for a mirror) the STH storage learns new source *)
(* STHs.                                                                   *)
(***************************************************************************)
EXTENDS Integers, Sequences, FiniteSets, TLC

(* ======================= Part 1: field states ========================== *)
PubKeyStates  == {"absent", "garbage", "ecdsa", "rsa"}
PrivKeyStates == {"absent", "badAny", "ok"}        \* badAny: an Any that does not unpack; ok: key matching pubKey's kind
FrozenStates  == {"absent", "okSigned", "badSig", "badHashLen"}
\* "badSig" is a CLASS: the frozen STH does not verify under the configured public key.  Verification reads the key, the
\* three signed fields and the signature value; the STH fails when any ONE of them is not what went into the genuine
\* signature, the others (in particular the signature bytes) being exactly those of a genuine STH.  The spellings name the
\* component that differs ("sig": the signature bytes themselves; "key": genuinely signed, by another key of the same
\* kind).  In products with other field groups the class stands for its spellings (the harness rotates through them);
\* FrozenSweep (MCLogConfig) presents every spelling by name.
BadSigSpellings == {"badSig:timestamp", "badSig:size", "badSig:root", "badSig:sig", "badSig:key"}
FrozenFine    == FrozenStates \cup BadSigSpellings
\* A NotAfter bound is absent or a protobuf Timestamp, i.e. a PAIR (seconds, nanos): the instant is seconds + nanos/10^9,
\* nanos always counting forward (also before the epoch).  Both components are ranks of classes of concrete values:
SecRanks      == -2..3   \* -2: before year 1 (out of range); -1: before the epoch; 0: the epoch second; 1 < 2: later seconds;
                         \*  3: after year 9999 (out of range)
NanoRanks     == -1..3   \* -1: negative (out of range); 0: whole second; 1 < 2: inside the second; 3: >= 10^9 (out of range)
TsAbsent      == [p |-> FALSE, sec |-> 0, nanos |-> 0]
Ts(s, n)      == [p |-> TRUE, sec |-> s, nanos |-> n]
TsStates      == {TsAbsent} \cup [p : {TRUE}, sec : SecRanks, nanos : NanoRanks]
                 \* Ts(0, 0): the field is present and empty (the epoch)
DelayStates   == {-1, 0, 5, 10}                    \* ranks of classes of int32 seconds: negative, zero, two positive values a < b
                                                    \* (materialized at several scales up to the ends of the int32 range)
EkuStates     == {"none", "known", "unknown", "any", "unknownThenAny", "anyThenUnknown"}
                 \* any: the literal Any among known names; the last two: an unknown name before / after Any
BackendStates == {"trillian", "ctfe"}              \* extra_data_issuance_chain_storage_backend
\* ctfe_storage_connection_string is judged by its SHAPE (below, "the connection string"): a field state is the NAME of a shape
PrefixStates  == {"", "a", "b"}                     \* proto3 string: absent = empty

(* ---------------- the shape of the external-storage connection string ---------------- *)
\* The string reads  <word> [ "://" <data source name> ]; further "://" may occur inside the data source name.  The shape
\* says which word leads, how many separators there are and where the surplus one sits, and what the driver's own parser
\* makes of the data source name.  Every shape is materialized in several concrete spellings (harness/c15 conn.go).
ConnSchemes == {"none",                              \* nothing before the separator / no leading scheme word (also: the empty string)
                "mysql", "postgres", "postgresql",   \* the schemes the storage layer knows
                "mysql+", "postgres+",               \* a known scheme with something appended (mysqlx, postgresqlx, mysql+tcp)
                "upper",                             \* a known scheme in another letter case (MYSQL, PostgreSQL)
                "prefix",                            \* a proper prefix of a known scheme (my, postgre)
                "other"}                             \* any other word (spanner, sqlite)
SupportedSchemes == {"mysql", "postgres", "postgresql"}
\* where the SECOND separator sits (seps = 2 stands for "two or more"): "scheme": the scheme is written twice
\* (mysql://mysql://...); otherwise inside that part of the data source name
ConnExtras  == {"-", "scheme", "user", "password", "addr", "path", "params"}
\* the data source name as its driver's parser sees it (without the surplus separator): accepted, empty, refused.  With
\* seps = 0 it is what follows the word after a lesser glue (":", ":/", " "), "empty" being the bare word
ConnRests   == {"ok", "empty", "bad"}
ShapeWF(s)  == /\ (s.seps = 2) <=> (s.extra # "-")
               /\ s.seps = 2 => s.rest # "empty"
ConnShapes  == {s \in [scheme : ConnSchemes, seps : 0..2, extra : ConnExtras, rest : ConnRests] : ShapeWF(s)}
ConnName(s) == s.scheme \o "/" \o ToString(s.seps) \o "/" \o s.extra \o "/" \o s.rest
Shape(sc, n, x, r) == [scheme |-> sc, seps |-> n, extra |-> x, rest |-> r]

\* (named) EmptyDsnIsAllDefaults: both drivers read an empty data source name as "every default"; it parses
DriverParses(s) == s.rest \in {"ok", "empty"}
\* (named) UsableMeansStorageOpens: a connection string is usable when the storage layer, given this string, gets as far as
\* dialling the database: the word before the ONLY separator of the string is exactly a scheme the storage layer knows and
\* the driver's parser accepts the data source name.  Anything else makes the server exit at instance set-up.
Usable(s) == s.scheme \in SupportedSchemes /\ s.seps = 1 /\ DriverParses(s)
\* The decision structure of the storage layer itself (storage.NewIssuanceChainStorage, storage/mysql open, storage/postgresql
\* open followed by the first connection), as a cross-check of Usable (MCLogConfig: StorageLayerAgrees); the harness runs
\* the real constructors on every concrete spelling and compares (binding of the oracle to the code).
StorageOpens(s) ==
  LET parts == s.seps + 1 IN                                     \* strings.Split(dsn, "://")
  IF s.scheme \in {"mysql", "mysql+"}                            \* strings.HasPrefix(dbConn, "mysql")
    THEN parts = 2 /\ s.scheme = "mysql" /\ DriverParses(s)
  ELSE IF s.scheme \in {"postgres", "postgresql", "postgres+"}   \* strings.HasPrefix(dbConn, "postgres")
    THEN parts = 2 /\ s.scheme \in {"postgres", "postgresql"} /\ DriverParses(s)
  ELSE FALSE                                                     \* unsupported driver

ConnStates  == {ConnName(s) : s \in ConnShapes}                  \* the field states: names of shapes
ShapeOf     == [n \in ConnStates |-> CHOOSE s \in ConnShapes : ConnName(s) = n]
ConnEmpty   == ConnName(Shape("none", 0, "-", "empty"))          \* the empty string (proto3: absent)
ConnMysqlOK == ConnName(Shape("mysql", 1, "-", "ok"))
ConnPgOK    == ConnName(Shape("postgres", 1, "-", "ok"))
\* in products with other field groups: the empty string, a usable string of either family, a data source name the driver
\* refuses, the scheme word without separator, an unknown scheme, a second separator inside the user name
ConnCore    == {ConnEmpty, ConnMysqlOK, ConnName(Shape("mysql", 1, "-", "bad")), ConnName(Shape("mysql", 0, "-", "empty")),
                ConnPgOK, ConnName(Shape("other", 1, "-", "ok")), ConnName(Shape("mysql", 2, "user", "ok"))}

\* the groups of fields that one conjunct of Valid reads
KeyGroup     == [pubKey : PubKeyStates, privKey : PrivKeyStates, isMirror : BOOLEAN, frozenSth : FrozenStates]
WindowGroup  == [start : TsStates, limit : TsStates]
DelayGroup   == [mmd : DelayStates, expected : DelayStates]
RejectGroup  == [rejectExpired : BOOLEAN, rejectUnexpired : BOOLEAN]
EkuGroup     == [ekus : EkuStates]
StorageGroup == [backend : BackendStates, connStr : ConnCore]      \* every shape: ConnSweep (MCLogConfig)
IdentGroup   == [logId : {0, 1}, prefix : PrefixStates, isReadonly : BOOLEAN]

(* ---------------- the conjuncts of "well-formed" ---------------- *)
PubKeyParses(c) == c.pubKey \in {"ecdsa", "rsa"}

\* keys present and parseable as the log kind requires (mirror: public key only)
KeysOK(c) ==
  IF c.isMirror
    THEN PubKeyParses(c) /\ c.privKey = "absent"
    ELSE c.privKey = "ok"
\* (named) PresentPubKeyParses: a regular log may omit the public key, but one that is present must parse
PresentPubKeyParses(c) == c.pubKey # "garbage"

\* frozen STH: verifies under the public key (so there must be one, and the STH must be well-formed)
FrozenOK(c) == c.frozenSth # "absent" => (PubKeyParses(c) /\ c.frozenSth = "okSigned")

\* NotAfter window ordered: the order of instants, i.e. lexicographic on (seconds, nanos) - two bounds inside the same
\* second are ordered by their nanos, two bounds in different seconds by the seconds whatever the nanos
TsWellFormed(t) == t.sec \in -1..2 /\ t.nanos \in 0..2           \* (named) BoundsAreTimestamps: a present bound is a valid Timestamp
TsBefore(a, b)  == a.sec < b.sec \/ (a.sec = b.sec /\ a.nanos < b.nanos)
WindowOK(c) ==
  /\ c.start.p => TsWellFormed(c.start)
  /\ c.limit.p => TsWellFormed(c.limit)
  /\ (c.start.p /\ c.limit.p) => ~TsBefore(c.limit, c.start)     \* (named) EqualBoundsAllowed: start = limit passes
\* (named) ValidatedCarriesWindow: the validated configuration (what the instance is built from) repeats the configured
\* bounds exactly, to the nanosecond, and has none where none is configured
ValidatedWindow(c) == [start |-> c.start, limit |-> c.limit]

\* merge delays non-negative and ordered
DelaysOK(c) == c.mmd >= 0 /\ c.expected >= 0 /\ c.expected <= c.mmd

\* not rejecting every certificate
NotRejectAll(c) == ~(c.rejectExpired /\ c.rejectUnexpired)

\* only known EKU names
EkusOK(c) == c.ekus \notin {"unknown", "unknownThenAny", "anyThenUnknown"}

\* a usable external-storage connection string when that backend is selected
UsableConn == {ConnName(s) : s \in {x \in ConnShapes : Usable(x)}}
StorageOK(c) == c.backend = "ctfe" => c.connStr \in UsableConn
\* (named) ConnIgnoredForTrillian: with the default backend the string is not examined (the implication above)
\* (named) ValidatedCarriesStorage: the validated configuration repeats the selected backend and, for the external one, the
\* connection string, byte for byte (it is what the instance opens)

\* (named) TreeIdPresent: log_id = 0 is "absent" and refused
TreeIdPresent(c) == c.logId # 0

Clauses(c) == [keys |-> KeysOK(c) /\ PresentPubKeyParses(c), frozen |-> FrozenOK(c), window |-> WindowOK(c),
               delays |-> DelaysOK(c), reject |-> NotRejectAll(c), ekus |-> EkusOK(c), storage |-> StorageOK(c),
               treeId |-> TreeIdPresent(c)]

\* ValidateLogConfig
Valid(c) == LET k == Clauses(c) IN \A f \in DOMAIN k : k[f]

(* ---------------- sets of configurations ---------------- *)
Range(s) == {s[i] : i \in 1..Len(s)}
Unique(s) == \A i, j \in 1..Len(s) : i # j => s[i] # s[j]

\* ValidateLogConfigs (one backend): all valid, non-empty unique prefixes, unique tree IDs
SetClauses(logs) ==
  [logs     |-> \A i \in 1..Len(logs) : Valid(logs[i]),
   prefixes |-> /\ \A i \in 1..Len(logs) : logs[i].prefix # ""
                /\ Unique([i \in 1..Len(logs) |-> logs[i].prefix]),
   treeIds  |-> Unique([i \in 1..Len(logs) |-> logs[i].logId])]
ValidSet(logs) == LET k == SetClauses(logs) IN \A f \in DOMAIN k : k[f]

\* uniquely named backends with unique non-empty specifications
BackendsOK(bs) ==
  /\ \A i \in 1..Len(bs) : bs[i].name # "" /\ bs[i].spec # ""
  /\ Unique([i \in 1..Len(bs) |-> bs[i].name])
  /\ Unique([i \in 1..Len(bs) |-> bs[i].spec])

\* ValidateLogMultiConfig.  m = [bPresent, backends, lPresent, logs]
\* (named) AbsentIsEmpty: an absent Backends / LogConfigs message is the empty set; the conjuncts then hold vacuously
MultiClauses(m) ==
  [backends |-> BackendsOK(m.backends),
   logs     |-> \A i \in 1..Len(m.logs) : Valid(m.logs[i]),
   prefixes |-> /\ \A i \in 1..Len(m.logs) : m.logs[i].prefix # ""
                /\ Unique([i \in 1..Len(m.logs) |-> m.logs[i].prefix]),                         \* unique globally
   refs     |-> \A i \in 1..Len(m.logs) : \E j \in 1..Len(m.backends) : m.backends[j].name = m.logs[i].backendName,
   treeIds  |-> Unique([i \in 1..Len(m.logs) |-> <<m.logs[i].backendName, m.logs[i].logId>>])]  \* unique per backend
ValidMulti(m) == LET k == MultiClauses(m) IN \A f \in DOMAIN k : k[f]

\* (named) LoaderRefusesEmpty: LogConfigFromFile / MultiLogConfigFromFile refuse a file without log configs
\* (and, for the multi form, without backends) before validation is reached
LoadableSet(logs) == Len(logs) > 0
LoadableMulti(m) == Len(m.logs) > 0 /\ Len(m.backends) > 0

(* ---------------- the endpoints of an instance ---------------- *)
ReadEndpoints == {"get-sth", "get-sth-consistency", "get-proof-by-hash", "get-entries", "get-roots", "get-entry-and-proof"}
AddEndpoints  == {"add-chain", "add-pre-chain"}
\* exposes the two submission endpoints if and only if the log is neither a mirror nor read-only
Handlers(c) == ReadEndpoints \cup (IF ~c.isMirror /\ ~c.isReadonly THEN AddEndpoints ELSE {})

(* ===================== Part 2: the instance ============================ *)
CONSTANTS MaxSize,     \* backend tree sizes and source STH sizes 0..MaxSize
          FrozenSize   \* tree size of the frozen STH

None == [k |-> "none"]
Kinds == [isMirror : BOOLEAN, isReadonly : BOOLEAN, frozen : BOOLEAN]

VARIABLES
  kind,     \* the accepted configuration, as far as the instance is concerned
  backend,  \* size of the Trillian tree behind the instance (only grows)
  source,   \* sizes of the source-log STHs the mirror's STH storage holds
  served,   \* what the last get-sth returned
  hist      \* history (for replay)

ivars == <<kind, backend, source, served, hist>>

Max(S) == CHOOSE x \in S : \A y \in S : y <= x

\* what get-sth answers
Serve(k, b, src) ==
  IF k.frozen THEN [k |-> "frozen", size |-> FrozenSize]                     \* (named) FrozenTakesPrecedence, also for mirrors
  ELSE IF k.isMirror THEN
         LET ok == {s \in src : s <= b} IN
         IF ok = {} THEN [k |-> "error", size |-> 0]                           \* storage has nothing it may show yet
         ELSE [k |-> "source", size |-> Max(ok)]                               \* signed by the source log
  ELSE [k |-> "own", size |-> b]                                               \* signed by the log's own key

Grow(n) == /\ backend + n <= MaxSize
           /\ backend' = backend + n
           /\ UNCHANGED <<kind, source, served>>
           /\ hist' = Append(hist, [op |-> "Grow", n |-> n, backend |-> backend', reply |-> None])

Learn(s) == /\ s \notin source
            /\ source' = source \cup {s}
            /\ UNCHANGED <<kind, backend, served>>
            /\ hist' = Append(hist, [op |-> "Learn", n |-> s, backend |-> backend, reply |-> None])

Get == /\ served' = Serve(kind, backend, source)
       /\ UNCHANGED <<kind, backend, source>>
       /\ hist' = Append(hist, [op |-> "Get", n |-> 0, backend |-> backend, reply |-> served'])

InstInit == /\ kind \in Kinds
            /\ backend = 0
            /\ source = {}
            /\ served = None
            /\ hist = <<>>

InstNext == \/ \E n \in 1..MaxSize : Grow(n)
            \/ \E s \in 0..MaxSize : kind.isMirror /\ Learn(s)
            \/ Get

\* a frozen log only ever serves its frozen STH
FrozenOnly == kind.frozen /\ served # None => served = [k |-> "frozen", size |-> FrozenSize]
\* a mirror never serves an STH larger than its backend tree.  For a mirror that is also frozen the two
\* sentences of the property can contradict each other (frozen size > backend size); the clause is
\* stated for live mirrors, FrozenOnly covers frozen ones.
MirrorClamped == (kind.isMirror /\ ~kind.frozen /\ served # None /\ served.k # "error") =>
                    served.k = "source" /\ served.size <= backend
\* evaluated on the Get transition itself
MirrorClampedAct == [][(kind.isMirror /\ ~kind.frozen /\ served' # served /\ served'.k # "error") =>
                          served'.size <= backend' /\ served'.size \in source']_ivars
FrozenAcrossGrowth == [][kind.frozen /\ served # None => served' = served]_ivars
=============================================================================
