CONSTANTS
  Logs = {"X"}
  Defect = "pageLastWins"
  Certs = {"x1", "x2", "p1"}
  ChainOf <- MCChainOf
  NoCache = FALSE
  Cap = 1
  MaxTree = 2
  MaxFaults = 1
  Depth = 0
  Dialect = "memory"
INIT Init
NEXT Next
VIEW StateView
CONSTRAINT PendingBound
PROPERTIES RangeWhole
CHECK_DEADLOCK FALSE
