\* thorough: two stacked perturbations
CONSTANTS
  Depth = 2
INIT Init
NEXT Next
INVARIANTS Laws Export
CHECK_DEADLOCK FALSE
