CONSTANTS
  TreeSize = 9
  MaxPage = 7
  Small = TRUE
  SmallLens = {1, 2, 3, 4, 5, 6, 7, 8, 9}
  Pattern <- MCPatternMid
  Lens <- MCLens
  StartSet <- MCStartSet
  Caps <- MCCaps
  Dialects = {"memory"}
  Workers = {1, 2, 3, 4}
  MaxFaults = 1
  Threshold = 3
  Defect = "none"
  Depth = 1
INIT InitAny
NEXT NextPage
VIEW StateView
INVARIANTS CacheFromLookups
PROPERTIES PageWhole UnfixableIsError PlanIrrelevant LegacyNeedsNoLookup ConfigFixed PageLeavesState
CHECK_DEADLOCK FALSE
