CONSTANTS
  TreeSize = 7
  MaxPage = 6
  Small = TRUE
  SmallLens = {1, 2, 3, 4, 5, 6, 7}
  Pattern <- MCPatternSmall
  Lens <- MCLens
  StartSet <- MCStartSet
  Caps <- MCCaps
  Dialects = {"memory"}
  Workers = {1, 2, 4}
  MaxFaults = 1
  Threshold = 3
  Defect = "none"
  Depth = 1
INIT InitAny
NEXT NextPage
VIEW StateView
INVARIANTS CacheFromLookups
PROPERTIES PageWhole UnfixableIsError PlanIrrelevant LegacyNeedsNoLookup ConfigFixed PageLeavesState
CHECK_DEADLOCK FALSE
