----------------------------- MODULE CTFETrace -----------------------------
(***************************************************************************)
(* Trace validation for concurrent clients of the real front end           *)
(* instances of one log (two ctfe.Instances over one reference backend).   *)
(*                                                                         *)
(* A request is three events: Inv (the client sends it to a front end),    *)
(* Call (the backend serves the RPC made for it - the reference backend    *)
(* executes RPCs under one mutex, so the order of the Call events is the   *)
(* linearization order - possibly refusing it, or performing it and        *)
(* losing the reply) and Ret (the client has the HTTP reply).  The harness *)
(* logs the three kinds in real-time order, tags every RPC with the        *)
(* request it was made for, parks chosen RPCs inside the backend until     *)
(* other requests have arrived and only then lets them fail, and projects  *)
(* real bytes back onto the specification's values.                        *)
(*                                                                         *)
(* Call must be the CTFE.tla action for that request in the state the      *)
(* backend is in at that moment; Ret must carry exactly the reply that     *)
(* action produced (OwnBackendCall).  A request that made no backend call  *)
(* may only be answered with what the front end can know by itself         *)
(* (parameter errors, the empty consistency proof, the roots); a get-sth   *)
(* without a call of its own is acceptable only if it reports a tree head  *)
(* that some successful root fetch delivered to this front end while the   *)
(* request was pending (SharedFetch: the only sound way to coalesce), or   *)
(* the failure of such a fetch - never a head from before the request.     *)
(* The specification's invariants are checked on every state passed.       *)
(***************************************************************************)
EXTENDS CTFE, Json, IOUtils

Trace == ndJsonDeserialize(IOEnv.TRACE_FILE)

VARIABLES
  l,      \* position in the trace
  pend    \* requests in flight: id -> [inv, called, reply, seen, failed]
tvars == <<now, clk, stored, queue, tree, rootTs, sigc, issued, sths, roots, hist, last, l, pend>>
cvars == <<now, clk, stored, queue, tree, rootTs, sigc, issued, sths, roots, hist, last>>

Ev(name) == l <= Len(Trace) /\ Trace[l].ev = name
Adv == l' = l + 1
NoPend == [x \in {} |-> 0]
Without(f, k) == [x \in DOMAIN f \ {k} |-> f[x]]

TraceInit == Init /\ l = 1 /\ pend = NoPend /\ TLCSet(1, 1)

TraceReset ==
  /\ Ev("Reset") /\ Adv
  /\ now' = 0 /\ clk' = [f \in FrontEnds |-> 0] /\ stored' = [c \in Certs |-> None] /\ queue' = <<>> /\ tree' = <<>>
  /\ rootTs' = [tick |-> 0, rem |-> 0] /\ sigc' = [f \in FrontEnds |-> [input |-> NoHead, sig |-> NoHead]]
  /\ issued' = {} /\ sths' = {} /\ roots' = {[size |-> 0, tick |-> 0]}
  /\ hist' = <<>> /\ last' = [op |-> "Init"]
  /\ DOMAIN pend = {} /\ pend' = NoPend       \* traces are cut where nothing is in flight

TraceTick == Ev("Tick") /\ Adv /\ Tick /\ UNCHANGED pend

TraceClockSet == Ev("ClockSet") /\ Adv /\ LET e == Trace[l] IN ClockSet(e.fe, e.t) /\ UNCHANGED pend

TraceSequence == Ev("Sequence") /\ Adv /\ LET e == Trace[l] IN Sequence(e.k, e.rem) /\ UNCHANGED pend

TraceResign == Ev("Resign") /\ Adv /\ LET e == Trace[l] IN Resign(e.rem) /\ UNCHANGED pend

(* ---- a request is sent ---- *)
TraceInv ==
  /\ Ev("Inv") /\ Adv
  /\ LET e == Trace[l] IN
     /\ e.id \notin DOMAIN pend
     /\ pend' = pend @@ (e.id :> [inv |-> e, called |-> FALSE, reply |-> [status |-> 0], seen |-> {}, failed |-> {}])
  /\ UNCHANGED cvars

(* ---- the backend serves the RPC made for a request ---- *)
Matching(i) == (i.ep = "add-pre-chain") = (Kind(i.cert) = "precert")

\* the CTFE.tla action of request i with the outcome x of its backend call; only for requests that reach the backend
Serve(i, x) ==
  CASE i.op = "AddChain" -> Matching(i) /\ x \in AddFaults \ {"sign"} /\ AddChain(i.cert, i.ep, i.fe, x)
    [] i.op = "GetSTH" -> x \in ReadFaults /\ GetSTH(i.fe, x)
    [] i.op = "GetConsistency" -> ConsistencyReaches(i.first, i.second) /\ x \in ReadFaults /\ GetConsistency(i.first, i.second, i.fe, x)
    [] i.op = "GetProofByHash" -> ProofByHashReaches(i.size) /\ x \in ReadFaults /\ GetProofByHash(i.cert, i.ts, i.size, i.fe, x)
    [] i.op = "GetEntries" -> EntriesReaches(i.start, i.end) /\ x \in ReadFaults /\ GetEntries(i.start, i.end, i.fe, x)
    [] i.op = "GetEntryAndProof" -> EntryAndProofReaches(i.index, i.size) /\ x \in ReadFaults /\ GetEntryAndProof(i.index, i.size, i.fe, x)
    [] OTHER -> FALSE       \* get-roots talks to no backend

\* what the other pending get-sth requests of the same front end may learn from this root fetch
Learn(q, id, i, x) ==
  IF q # id /\ i.op = "GetSTH" /\ pend[q].inv.op = "GetSTH" /\ pend[q].inv.fe = i.fe
  THEN IF x = "none" THEN [pend[q] EXCEPT !.seen = @ \cup {TreeHead}]
       ELSE [pend[q] EXCEPT !.failed = @ \cup {FaultStatus(x)}]
  ELSE pend[q]

TraceCall ==
  /\ Ev("Call") /\ Adv
  /\ LET e == Trace[l] IN
     /\ e.id \in DOMAIN pend
     /\ ~pend[e.id].called                       \* one backend call per request
     /\ Serve(pend[e.id].inv, e.fault)
     /\ pend' = [q \in DOMAIN pend |->
                   IF q = e.id THEN [pend[q] EXCEPT !.called = TRUE, !.reply = last'.reply]
                   ELSE Learn(q, e.id, pend[e.id].inv, e.fault)]

(* ---- the reply reaches the client ---- *)
Entries(e) == [i \in 1..Len(e.entries) |-> [cert |-> e.entries[i].cert, ts |-> e.entries[i].ts]]

\* the reply of a request that made its backend call is the one the specification computed at that call
Explained(i, r, e) ==
  /\ r.status = e.status
  /\ e.status = 200 =>
       CASE i.op = "AddChain" -> r.ts = e.ts
         [] i.op = "GetSTH" -> r.size = e.size /\ r.ts = e.ts
         [] i.op = "GetProofByHash" -> r.index = e.index
         [] i.op = "GetEntries" -> r.entries = Entries(e)
         [] i.op = "GetEntryAndProof" -> r.entry = [cert |-> e.entry.cert, ts |-> e.entry.ts]
         [] OTHER -> TRUE

\* what a front end may answer without a backend call of the request's own
WithoutCall(p, e) ==
  LET i == p.inv IN
  CASE i.op = "AddChain" -> ~Matching(i) /\ e.status = 400
    [] i.op = "GetSTH" -> IF e.status = 200 THEN [size |-> e.size, ts |-> e.ts] \in p.seen   \* SharedFetch
                          ELSE e.status \in p.failed
    [] i.op = "GetConsistency" -> ~ConsistencyReaches(i.first, i.second) /\ e.status = (IF i.first > i.second THEN 400 ELSE 200)
    [] i.op = "GetProofByHash" -> ~ProofByHashReaches(i.size) /\ e.status = 400
    [] i.op = "GetEntries" -> ~EntriesReaches(i.start, i.end) /\ e.status = 400
    [] i.op = "GetEntryAndProof" -> ~EntryAndProofReaches(i.index, i.size) /\ e.status = 400
    [] i.op = "GetRoots" -> e.status = 200
    [] OTHER -> FALSE

TraceRet ==
  /\ Ev("Ret") /\ Adv
  /\ LET e == Trace[l] IN
     /\ e.id \in DOMAIN pend
     /\ LET p == pend[e.id] IN IF p.called THEN Explained(p.inv, p.reply, e) ELSE WithoutCall(p, e)
     /\ pend' = Without(pend, e.id)
  /\ UNCHANGED cvars

TraceNext == TraceReset \/ TraceTick \/ TraceClockSet \/ TraceSequence \/ TraceResign \/ TraceInv \/ TraceCall \/ TraceRet

TraceView == <<now, clk, stored, queue, tree, rootTs, l>>
HighWater == TLCSet(1, IF TLCGet(1) < l THEN l ELSE TLCGet(1))
TraceAccepted ==
  IF TLCGet(1) = Len(Trace) + 1 THEN TRUE
  ELSE /\ PrintT(<<"STUCK", ToJson([line |-> TLCGet(1), event |-> Trace[TLCGet(1)]])>>)
       /\ FALSE
TraceAppendOnly == [][Ev("Reset") \/ IsPrefix(tree, tree')]_tvars

\* C08 over the history: an SCT appears only through a submission whose backend call answered
TraceSCTOnlyOn200 == [][Ev("Reset") \/ (issued' # issued => (last'.op = "AddChain" /\ last'.reply.status = 200))]_tvars
=============================================================================
