----------------------------- MODULE CTFETrace -----------------------------
(***************************************************************************)
(* Trace validation for concurrent clients of one real ctfe.Instance.      *)
(* Every HTTP request makes at most one backend RPC and the reference      *)
(* backend executes RPCs under one mutex, so the order in which the        *)
(* backend saw the calls is the linearization order.  The harness tags     *)
(* each request, joins the backend's call log with the HTTP replies and    *)
(* projects real bytes back onto the specification's values (certificate   *)
(* ids and ticks).  Each event must be the CTFE.tla action with exactly    *)
(* the logged reply; the specification's invariants are checked on every   *)
(* state the execution passed through.                                     *)
(***************************************************************************)
EXTENDS CTFE, Json, IOUtils

Trace == ndJsonDeserialize(IOEnv.TRACE_FILE)

VARIABLE l
tvars == <<now, stored, queue, tree, rootTs, issued, sths, roots, hist, last, l>>

Ev(name) == l <= Len(Trace) /\ Trace[l].ev = name
Adv == l' = l + 1

TraceInit == Init /\ l = 1 /\ TLCSet(1, 1)

TraceReset ==
  /\ Ev("Reset") /\ Adv
  /\ now' = 0 /\ stored' = [c \in Certs |-> None] /\ queue' = <<>> /\ tree' = <<>>
  /\ rootTs' = [tick |-> 0, rem |-> 0] /\ issued' = {} /\ sths' = {} /\ roots' = {[size |-> 0, tick |-> 0]}
  /\ hist' = <<>> /\ last' = [op |-> "Init"]

TraceTick == Ev("Tick") /\ Adv /\ Tick

TraceSequence == Ev("Sequence") /\ Adv /\ LET e == Trace[l] IN Sequence(e.k, e.rem)

TraceResign == Ev("Resign") /\ Adv /\ LET e == Trace[l] IN Resign(e.rem)

TraceAddChain ==
  /\ Ev("AddChain") /\ Adv
  /\ LET e == Trace[l] IN
     /\ AddChain(e.cert, e.ep)
     /\ last'.reply.status = e.status
     /\ (e.status = 200 => last'.reply.ts = e.ts)

TraceGetSTH ==
  /\ Ev("GetSTH") /\ Adv
  /\ LET e == Trace[l] IN GetSTH /\ last'.reply.size = e.size /\ last'.reply.ts = e.ts

TraceGetConsistency ==
  /\ Ev("GetConsistency") /\ Adv
  /\ LET e == Trace[l] IN GetConsistency(e.first, e.second) /\ last'.reply.status = e.status

TraceGetProofByHash ==
  /\ Ev("GetProofByHash") /\ Adv
  /\ LET e == Trace[l] IN
     /\ GetProofByHash(e.cert, e.ts, e.size)
     /\ last'.reply.status = e.status
     /\ (e.status = 200 => last'.reply.index = e.index)

Entries(e) == [i \in 1..Len(e.entries) |-> [cert |-> e.entries[i].cert, ts |-> e.entries[i].ts]]

TraceGetEntries ==
  /\ Ev("GetEntries") /\ Adv
  /\ LET e == Trace[l] IN
     /\ GetEntries(e.start, e.end)
     /\ last'.reply.status = e.status
     /\ (e.status = 200 => last'.reply.entries = Entries(e))

TraceGetEntryAndProof ==
  /\ Ev("GetEntryAndProof") /\ Adv
  /\ LET e == Trace[l] IN
     /\ GetEntryAndProof(e.index, e.size)
     /\ last'.reply.status = e.status
     /\ (e.status = 200 => last'.reply.entry = [cert |-> e.entry.cert, ts |-> e.entry.ts])

TraceNext == TraceReset \/ TraceTick \/ TraceSequence \/ TraceResign \/ TraceAddChain \/ TraceGetSTH \/ TraceGetConsistency
             \/ TraceGetProofByHash \/ TraceGetEntries \/ TraceGetEntryAndProof

TraceView == <<now, stored, queue, tree, rootTs, l>>
HighWater == TLCSet(1, IF TLCGet(1) < l THEN l ELSE TLCGet(1))
TraceAccepted ==
  IF TLCGet(1) = Len(Trace) + 1 THEN TRUE
  ELSE /\ PrintT(<<"STUCK", ToJson([line |-> TLCGet(1), event |-> Trace[TLCGet(1)]])>>)
       /\ FALSE
TraceAppendOnly == [][Ev("Reset") \/ IsPrefix(tree, tree')]_tvars
=============================================================================
