----------------------------- MODULE EntryShapes -----------------------------
(***************************************************************************)
(* What a stored log entry must decode to, as a function of the shape of   *)
(* the submission (C06 last sentence, C07 last sentence, C01).             *)
(*                                                                         *)
(* CTFE.tla treats certificates as tokens; this module opens the token:    *)
(* which hierarchy issued the leaf, which of its certificates the          *)
(* submitter sent along (root omitted / included / a cross-signed twin of  *)
(* a trusted root followed or not by the root that signed it), whether the *)
(* leaf is a precertificate issued directly or through a precertificate    *)
(* signing certificate, which key type it carries, whether it has an       *)
(* oddity the lax parser reports as non-fatal, and where the log keeps     *)
(* issuance chains, and in which form the value-dependent fields of its    *)
(* TBSCertificate are written (validity on both sides of 1950 / 2000 /     *)
(* 2050 and in 9999, serial numbers around the sign octet, an extension    *)
(* identifier with large arcs).  For each shape the module says            *)
(*   - the validated paths the log may store (ChainAdmission!Paths),       *)
(*   - the entry type,                                                     *)
(*   - which certificate's key the issuer_key_hash of a precert entry      *)
(*     names and whose name / authority key id the logged TBS carries.     *)
(*   - how validity and serial number stand in the logged entry.           *)
(* TLC checks the laws below on every shape and exports every shape; the   *)
(* harness builds each one with real keys, submits it to a real instance,  *)
(* sequences, reads it back over get-entries and get-entry-and-proof and   *)
(* decodes it with the library's entry parser.                             *)
(***************************************************************************)
EXTENDS ChainAdmission, Integers, Json, TLC

CA(id, subj, issuer, key, signer) ==
  [id |-> id, parses |-> TRUE, subj |-> subj, issuer |-> issuer, key |-> key, signer |-> signer, isCA |-> TRUE,
   ekus |-> {}, poison |-> "none", notAfter |-> 5, exts |-> {}]
Leaf(id, issuer, signer, poison) ==
  [id |-> id, parses |-> TRUE, subj |-> id, issuer |-> issuer, key |-> "k" \o id, signer |-> signer, isCA |-> FALSE,
   ekus |-> {}, poison |-> poison, notAfter |-> 4, exts |-> {}]

R1  == CA("R1",  "R1", "R1", "kR1", "kR1")
R2  == CA("R2",  "R2", "R2", "kR2", "kR2")
R1x == CA("R1x", "R1", "R2", "kR1", "kR2")            \* R1's name and key, signed by R2
I1  == CA("I1",  "I1", "R1", "kI1", "kR1")
I2  == CA("I2",  "I2", "I1", "kI2", "kI1")
P   == [CA("P",  "P",  "I1", "kP",  "kI1") EXCEPT !.ekus = {"ct"}]      \* precertificate signing certificate
Pf  == [CA("Pf", "Pf", "I1", "kPf", "kI1") EXCEPT !.ekus = {"ct"}]      \* the same with a keyid+issuer+serial AKI
Pm  == [CA("Pm", "Pm", "I1", "kPm", "kI1") EXCEPT !.ekus = {"server", "ct"}]   \* the CT usage listed after another one

(* ---------- the extended key usages of the certificate that signed the (pre)certificate ---------- *)
\* RFC 6962 3.1: "the Precertificate ... signed by ... a Precertificate Signing Certificate: a CA certificate ... with
\* the Extended Key Usage: Certificate Transparency, OID 1.3.6.1.4.1.11129.2.4.4".  RFC 5280 4.2.1.12: ExtKeyUsageSyntax
\* ::= SEQUENCE SIZE (1..MAX) OF KeyPurposeId - a LIST of purposes, in whatever order and company the CA wrote them.
\* What makes the signer of a precertificate a precertificate signing certificate is that the CT purpose is A MEMBER of
\* that list: neither its position nor the other members matter - in particular anyExtendedKeyUsage next to it takes
\* nothing away (and anyExtendedKeyUsage alone adds nothing: a CA good "for any purpose" is a real issuer).
\* The dimension: the list as written.  EkuSeq names it per certificate; the .ekus field ChainAdmission reads is its
\* set of members.  Purposes: "ct", "any" (anyExtendedKeyUsage 2.5.29.37.0), "server", "client" (id-kp 1 / 2).
EkuSeq == [P |-> <<"ct">>, Pf |-> <<"ct">>, Pm |-> <<"server", "ct">>,
           Pca |-> <<"ct", "any">>, Pac |-> <<"any", "ct">>, Pcs |-> <<"ct", "server">>, Pacc |-> <<"any", "ct", "client">>,
           Ia |-> <<"any">>, Is |-> <<"server">>, Ias |-> <<"any", "server">>]
EkuCA(id) == [CA(id, id, "I1", "k" \o id, "kI1") EXCEPT !.ekus = Range(EkuSeq[id])]
\* precertificate signing certificates: the CT purpose with anyExtendedKeyUsage after / before it, with a specific
\* purpose after it (Pm has one before it), between anyExtendedKeyUsage and a specific purpose
Pca == EkuCA("Pca")   Pac == EkuCA("Pac")   Pcs == EkuCA("Pcs")   Pacc == EkuCA("Pacc")
\* real issuers whose own list must not be mistaken for one: anyExtendedKeyUsage alone, a specific purpose alone, both
Ia == EkuCA("Ia")   Is == EkuCA("Is")   Ias == EkuCA("Ias")
SignerEkuSeq(c) == IF c.id \in DOMAIN EkuSeq THEN EkuSeq[c.id] ELSE <<>>
HasCT(q) == \E i \in DOMAIN q : q[i] = "ct"

\* issuance: the certificates between the leaf and R1, leaf side first
Issuance == [underI1 |-> <<I1>>, underI2 |-> <<I2, I1>>, viaP |-> <<P, I1>>, viaPf |-> <<Pf, I1>>, viaPm |-> <<Pm, I1>>,
             viaPca |-> <<Pca, I1>>, viaPac |-> <<Pac, I1>>, viaPcs |-> <<Pcs, I1>>, viaPacc |-> <<Pacc, I1>>,
             underIa |-> <<Ia, I1>>, underIs |-> <<Is, I1>>, underIas |-> <<Ias, I1>>]
Issuances == DOMAIN Issuance
\* the issuances of the list dimension (independent of the other dimensions: plain representatives, with and without
\* the root in the submission, every storage mode)
EkuIssuances == {"viaPca", "viaPac", "viaPcs", "viaPacc", "underIa", "underIs", "underIas"}
\* what the submitter appends after the intermediates
Tails == {"noroot", "root", "cross", "crossroot"}
TailOf == [noroot |-> <<>>, root |-> <<R1>>, cross |-> <<R1x>>, crossroot |-> <<R1x, R2>>]
Kinds == {"x509", "precert"}
Keys == {"p256", "p384", "rsa2048", "ed25519"}
Quirks == {"none", "ip3", "emptyAIA"}          \* a 3-byte iPAddress name / an empty AuthorityInfoAccess: non-fatal for the lax parser
Storages == {"direct", "lru1", "lruBig", "noop"}   \* chains in the backend leaf / outside it behind an LRU of 1, a roomy LRU, no cache
Trusts == [T1 |-> {R1}, T12 |-> {R1, R2}]
\* the octets of the leaf element on the wire: exactly one DER certificate; one certificate whose serial number has a
\* superfluous leading zero octet (not DER; the lenient parser takes it); either of them followed by further octets
\* inside the same chain element (then the element is not a certificate)
Wires == {"exact", "laxSerial", "trailing", "laxSerialTrailing"}
IsCertificate(wire) == wire \in {"exact", "laxSerial"}

\* where the poison extension sits among the precertificate's extensions: last (what an encoder that appends it
\* produces), directly before the authority key identifier with further extensions after that, or first.  The logged
\* TBSCertificate is the submitted one with exactly the poison taken out and, behind a precertificate signing
\* certificate, issuer and authority key identifier replaced IN PLACE: every other extension keeps its bytes and its
\* position whatever the order (law OrderIrrelevant: the expected entry does not depend on this dimension other than
\* through the submitted bytes; the harness derives it independently).
Orders == {"std", "poisonBeforeAki", "poisonFirst"}

(* ---------- fields of the TBSCertificate as the CA wrote them ---------- *)
\* An X.509 entry is the submitted certificate; a precert entry is its TBSCertificate with the poison gone (and issuer /
\* authority key identifier replaced behind a precertificate signing certificate).  Whoever derives the entry by taking
\* the TBSCertificate apart and writing it again must write every other field exactly as the CA did; the fields whose
\* DER form depends on their VALUE are the dimension here.
\*
\* Validity (RFC 5280 4.1.2.5): "CAs conforming to this profile MUST always encode certificate validity dates through
\* the year 2049 as UTCTime; certificate validity dates in 2050 or later MUST be encoded as GeneralizedTime."  UTCTime
\* has two year digits read as 19YY for YY >= 50, so nothing before 1950 can be written with it either.  The years on
\* both sides of every change of form (1950, 2000 - where the two digits wrap -, 2050) and the last year there is, each
\* at its first, a middle and its last second.  (Years, Edges, Written: as spec/codec/EntryOfChain.tla, which has this
\* dimension for the library's entry functions (C04); here it reaches add-chain / add-pre-chain of a real instance.)
Years == {1949, 1950, 1999, 2000, 2049, 2050, 2051, 9999}
Edges == {"first", "mid", "last"}      \* 1 January 00:00:00, 1 June 12:00:00, 31 December 23:59:59, all UTC
TimeForms == [y : Years, edge : Edges]
InUTCRange(y) == 1950 <= y /\ y < 2050
\* how a conforming CA writes the time, and therefore how it stands in the submission AND in the logged entry
Written(tf) == [tag |-> IF InUTCRange(tf.y) THEN "UTCTime" ELSE "GeneralizedTime",
                yd |-> IF InUTCRange(tf.y) THEN 2 ELSE 4, y |-> tf.y, edge |-> tf.edge]
EdgeRank == [first |-> 0, mid |-> 1, last |-> 2]
NotAfterOK(nb, na) == nb.y < na.y \/ (nb.y = na.y /\ EdgeRank[nb.edge] <= EdgeRank[na.edge])
\* the validity every other shape carries (harness/pki defaults)
StdValidity == [nb |-> [y |-> 2020, edge |-> "first"], na |-> [y |-> 2040, edge |-> "first"]]
OddValidities == {v \in [nb : TimeForms, na : TimeForms] : NotAfterOK(v.nb, v.na)}
\* Other value-dependent encodings of the TBSCertificate:
\*   serial number, an INTEGER in the fewest octets, with a leading zero octet exactly when the top bit of the first
\*   value octet is set (RFC 5280 4.1.2.2: positive, at most 20 octets): 1, 127, 128, 2^159 - 1;
\*   an extension whose identifier has arcs that need several base-128 octets (2.999.2147483647.1).
TbsForms == {"std", "serialOne", "serial7f", "serial80", "serialMax20", "bigOidExt"}
\* content octets of the serial number INTEGER in the submission and in the logged entry (0: not singled out)
SerialLen(f) == CASE f = "serialOne" -> 1 [] f = "serial7f" -> 1 [] f = "serial80" -> 2 [] f = "serialMax20" -> 20 [] OTHER -> 0

\* the issuances through a precertificate signing certificate.  Written out (TLC would evaluate a comprehension anew for
\* every shape); EkuDimensionComplete checks that it IS the set of issuances whose signer lists the CT purpose - membership
\* of that purpose in the signer's list, nothing else.
PreIssuers == {"viaP", "viaPf", "viaPm", "viaPca", "viaPac", "viaPcs", "viaPacc"}
Shapes0 == {s \in [kind : Kinds, iss : Issuances \ EkuIssuances, tail : Tails, key : Keys, quirk : Quirks, storage : Storages, trust : DOMAIN Trusts, wire : Wires, order : Orders] :
             /\ (s.order # "std" => /\ s.kind = "precert" /\ s.iss \in {"underI1", "viaP", "viaPf"} /\ s.tail \in {"noroot", "root"}
                                     /\ s.quirk = "none" /\ s.key = "p256" /\ s.trust = "T1" /\ s.wire = "exact")
             /\ (s.iss \in PreIssuers => s.kind = "precert")
             /\ (s.tail \in {"cross", "crossroot"} => s.trust = "T12")
             \* the wire oddities are independent of the other dimensions: one representative combination each
             /\ (s.wire # "exact" => /\ s.iss \in {"underI1", "viaP"} /\ s.tail = "noroot" /\ s.quirk = "none"
                                     /\ s.key = "p256" /\ s.trust = "T1")}
           \* the extended key usage lists: plain representatives, root omitted / included, every storage mode, both kinds
           \* under a real issuer
           \cup {s \in [kind : Kinds, iss : EkuIssuances, tail : {"noroot", "root"}, key : {"p256"}, quirk : {"none"}, storage : Storages,
                        trust : {"T1"}, wire : {"exact"}, order : {"std"}] : s.iss \in PreIssuers => s.kind = "precert"}
With(s, v, f) == [kind |-> s.kind, iss |-> s.iss, tail |-> s.tail, key |-> s.key, quirk |-> s.quirk, storage |-> s.storage,
                  trust |-> s.trust, wire |-> s.wire, order |-> s.order, valid |-> v, tbs |-> f]
\* the field forms are independent of the other dimensions: they ride on one plain representative of each way an entry
\* is derived (an X.509 entry; a precert entry issued directly; one behind a precertificate signing certificate with
\* either form of authority key identifier)
FieldReps == {s \in Shapes0 : /\ s.tail = "noroot" /\ s.key = "p256" /\ s.quirk = "none" /\ s.storage = "direct" /\ s.trust = "T1"
                              /\ s.wire = "exact" /\ s.order = "std"
                              /\ \/ (s.kind = "x509" /\ s.iss = "underI1")
                                 \/ (s.kind = "precert" /\ s.iss \in {"underI1", "viaP", "viaPf"})}
Shapes == {With(s, StdValidity, "std") : s \in Shapes0}
          \cup {With(s, v, "std") : s \in FieldReps, v \in OddValidities}
          \cup {With(s, StdValidity, f) : s \in FieldReps, f \in TbsForms \ {"std"}}

LeafOf(s) == [Leaf("L", Issuance[s.iss][1].subj, Issuance[s.iss][1].key, IF s.kind = "precert" THEN "ok" ELSE "none")
                EXCEPT !.parses = IsCertificate(s.wire)]
Submitted(s) == <<LeafOf(s)>> \o Issuance[s.iss] \o TailOf[s.tail]
Trusted(s) == Trusts[s.trust]

\* the paths the log may store
Stored(s) == Paths(Submitted(s), Trusted(s))
\* precert entries: the final issuer is the first certificate after the leaf that is not a precertificate signing certificate
ViaPreIssuer(s) == s.iss \in PreIssuers
FinalIssuerPos(s) == IF ViaPreIssuer(s) THEN 3 ELSE 2

(* ---------------- laws ---------------- *)
\* NAMED CLAUSE PrecertNeedsDER.  An X.509 entry carries the submitted octets verbatim, so a leaf that only the lenient
\* parser takes is logged as it stands.  A precert entry is computed from the TBSCertificate (poison removed, issuer
\* rewritten), which the code only does for DER: a precertificate that is not DER passes chain validation and is then
\* refused (400) when the entry is built.  The properties speak of canonical TBSCertificates (C03) and of what a 200
\* promises (C01); the refusal is recorded here, not asserted as a defect.
Buildable(s) == s.kind = "precert" => s.wire \notin {"laxSerial", "laxSerialTrailing"}
Admit1(s) == ChainOK(Submitted(s), Trusted(s)) /\ Buildable(s)
\* every shape of the table with a well-formed leaf element passes chain validation, and the code's search hands on
\* exactly allowed paths
Admissible(s) == /\ ChainOK(Submitted(s), Trusted(s)) = IsCertificate(s.wire)   \* an element that is not one certificate is refused
                 /\ CodeShape(Submitted(s), Trusted(s)) /\ PathLaw(Submitted(s), Trusted(s))
\* here the stored path is determined: the submission, plus the one trusted issuer of its last certificate when that
\* one is not trusted itself.  In particular a cross-signed twin of a trusted root is kept and followed by the root
\* that signed it (never replaced by the trusted certificate of the same name and key).
StoredPathOf(s) ==
  LET ch == Submitted(s)
  IN CASE s.tail = "noroot"    -> Append(ch, R1)
       [] s.tail = "root"      -> ch
       [] s.tail = "cross"     -> Append(ch, R2)
       [] s.tail = "crossroot" -> ch
Determined(s) == Admit1(s) => Stored(s) = {StoredPathOf(s)}
\* the final issuer of a precertificate is a CA that is not itself a precertificate signing certificate
FinalIssuerOK(s) == s.kind = "precert" =>
  LET c == StoredPathOf(s)[FinalIssuerPos(s)] IN c.isCA /\ "ct" \notin c.ekus

\* NAMED LAW EkuMembershipDecides (C01: "the final issuer's key hash, also when a dedicated precert-signing issuer was
\* used"; RFC 6962 3.1 / 3.2).  The signer of a precertificate is a precertificate signing certificate exactly when the
\* CT purpose is a member of its extended key usage list; then the entry names the NEXT certificate of the path (key
\* hash, issuer name, authority key identifier), otherwise the signer itself.  Any two signers whose lists have the
\* same answer to "is the CT purpose in it" give the same position, whatever else the lists hold and in whatever order.
EkuMembershipDecides(s) ==
  LET q == SignerEkuSeq(Submitted(s)[2]) IN
    /\ Range(q) = Submitted(s)[2].ekus
    /\ ViaPreIssuer(s) = HasCT(q)
    /\ (s.kind = "precert" /\ Admit1(s)) =>
          /\ (HasCT(q) => StoredPathOf(s)[FinalIssuerPos(s)] = Submitted(s)[3])
          /\ (~HasCT(q) => StoredPathOf(s)[FinalIssuerPos(s)] = Submitted(s)[2])
    \* every permutation / extension of a list with the CT purpose is a list with the CT purpose (no member masks another)
    /\ \A t \in DOMAIN EkuSeq : (Range(EkuSeq[t]) = Range(q) /\ q # <<>>) => HasCT(EkuSeq[t]) = HasCT(q)
\* the dimension is populated: the CT purpose alone, before and after anyExtendedKeyUsage, before and after a specific
\* purpose, between both; and lists without it that hold anyExtendedKeyUsage alone, a specific purpose alone, both
EkuDimensionComplete ==
  /\ PreIssuers = {i \in Issuances : HasCT(SignerEkuSeq(Issuance[i][1]))}
  /\ \E t \in DOMAIN EkuSeq : EkuSeq[t] = <<"ct">>
  /\ \E t \in DOMAIN EkuSeq : Len(EkuSeq[t]) = 2 /\ EkuSeq[t][1] = "ct" /\ EkuSeq[t][2] = "any"
  /\ \E t \in DOMAIN EkuSeq : Len(EkuSeq[t]) = 2 /\ EkuSeq[t][1] = "any" /\ EkuSeq[t][2] = "ct"
  /\ \E t \in DOMAIN EkuSeq : Len(EkuSeq[t]) = 2 /\ EkuSeq[t][1] = "ct" /\ EkuSeq[t][2] \notin {"ct", "any"}
  /\ \E t \in DOMAIN EkuSeq : Len(EkuSeq[t]) = 2 /\ EkuSeq[t][2] = "ct" /\ EkuSeq[t][1] \notin {"ct", "any"}
  /\ \E t \in DOMAIN EkuSeq : Len(EkuSeq[t]) = 3 /\ EkuSeq[t][2] = "ct" /\ EkuSeq[t][1] = "any"
  /\ \E t \in DOMAIN EkuSeq : EkuSeq[t] = <<"any">>
  /\ \E t \in DOMAIN EkuSeq : ~HasCT(EkuSeq[t]) /\ "any" \notin Range(EkuSeq[t])
  /\ \E t \in DOMAIN EkuSeq : ~HasCT(EkuSeq[t]) /\ "any" \in Range(EkuSeq[t]) /\ Len(EkuSeq[t]) > 1
  /\ EkuIssuances \subseteq Issuances /\ \A i \in EkuIssuances : Issuance[i][1].id \in DOMAIN EkuSeq

\* NAMED LAW FieldsVerbatim (C01: "the RFC 6962 entry an independent client derives from the submitted chain"; 3.2: "the
\* TBSCertificate component of the Precertificate - that is, without the signature and the poison extension").  The
\* logged entry carries validity and serial number in the form the CA wrote: UTCTime exactly for 1950 .. 2049, four
\* year digits otherwise, the serial number in as many octets as the submission has.
LoggedValidity(s) == <<Written(s.valid.nb), Written(s.valid.na)>>
FieldsVerbatim(s) ==
  \A i \in 1..2 : LET w == LoggedValidity(s)[i] IN
     /\ (w.tag = "UTCTime" <=> (w.y >= 1950 /\ w.y <= 2049)) /\ (w.tag = "GeneralizedTime" <=> w.yd = 4)
     /\ (w.y = 2050 => w.tag = "GeneralizedTime") /\ (w.y = 2049 => w.tag = "UTCTime")
     /\ (w.y = 1949 => w.tag = "GeneralizedTime") /\ (w.y = 1950 => w.tag = "UTCTime")
\* the field forms change neither admission nor the stored path nor the issuer a precert entry names
FieldsDoNotMatter(s) ==
  LET b == With(s, StdValidity, "std") IN
    Admit1(s) = Admit1(b) /\ StoredPathOf(s) = StoredPathOf(b) /\ FinalIssuerPos(s) = FinalIssuerPos(b)

Ids(p) == [i \in 1..Len(p) |-> p[i].id]
Case(s) == [shape |-> s, admit |-> Admit1(s), submitted |-> Ids(Submitted(s)), path |-> Ids(StoredPathOf(s)),
            trusted |-> {c.id : c \in Trusted(s)},
            entryType |-> IF s.kind = "precert" THEN "precert_entry" ELSE "x509_entry",
            finalIssuer |-> IF s.kind = "precert" THEN StoredPathOf(s)[FinalIssuerPos(s)].id ELSE "",
            viaPreIssuer |-> ViaPreIssuer(s),
            \* the extended key usage list of the certificate that signed the leaf, as written (<<>>: no such extension)
            signerEkus |-> SignerEkuSeq(Submitted(s)[2]),
            validity |-> LoggedValidity(s), serialLen |-> SerialLen(s.tbs)]
=============================================================================
