\* every single-config case: Valid (from the property text) = CodeAccepts (decision structure of config.go); export
CONSTANTS
  MaxSize = 4
  FrozenSize = 2
  Depth = 0
INIT InitSingle
NEXT Stay
INVARIANTS TypeOKSingle TextMatchesCode ExportSingle
CHECK_DEADLOCK FALSE
