CONSTANTS
  Logs = {"X", "Y"}
  Defect = "none"
  Certs = {"x1", "x2", "x3", "p1", "p2"}
  ChainOf <- MCChainOf
  NoCache = FALSE
  Cap = 1
  MaxTree = 5
  MaxFaults = 4
  Depth = 36
  Dialect = "mysql"
INIT Init
NEXT SimNext
INVARIANTS ExportFinished CacheSound CacheBounded FaultClasses AckedServable CacheStandsForStored
CHECK_DEADLOCK FALSE
