CONSTANTS
  TreeSize = 9
  MaxPage = 7
  Small = TRUE
  SmallLens = {1, 3, 8}
  Pattern <- MCPatternMid
  Lens <- MCLens
  StartSet <- MCStartSet
  Caps <- MCCaps
  Dialects = {"memory"}
  Workers = {1, 2}
  MaxFaults = 2
  Threshold = 3
  Defect = "none"
  Depth = 1
INIT Init
NEXT NextHist
VIEW StateView
INVARIANTS CacheFromLookups
PROPERTIES PageWhole UnfixableIsError PlanIrrelevant LegacyNeedsNoLookup ConfigFixed PageLeavesState
CHECK_DEADLOCK FALSE
