\* documentation of finding F4: the computation before the repair (TLC reports OldCodeEqSpec violated)
CONSTANTS
  MaxWord = 7807
  Maxes = {1, 2, 3, 4, 1000}
  K = 3
INIT Init
NEXT Next
INVARIANTS OldCodeEqSpec
CHECK_DEADLOCK FALSE
