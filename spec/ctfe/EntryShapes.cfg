CONSTANTS
  KeySet = {"p256", "rsa2048"}
  StorageSet = {"direct", "lru1"}
INIT Init
NEXT Next
INVARIANTS LawAdmissible LawDetermined LawFinalIssuer LawCrossKept Export
CHECK_DEADLOCK FALSE
