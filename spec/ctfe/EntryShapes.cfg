CONSTANTS
  KeySet = {"p256", "rsa2048"}
  StorageSet = {"direct", "lru1"}
  Big = FALSE
INIT Init
NEXT Next
INVARIANTS LawAdmissible LawDetermined LawFinalIssuer LawCrossKept LawFieldsVerbatim LawEkuMembership Export
CHECK_DEADLOCK FALSE
