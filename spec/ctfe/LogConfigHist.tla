--------------------------- MODULE LogConfigHist ---------------------------
(***************************************************************************)
(* C15, history layer - validation is a FUNCTION of the configuration.     *)
(*                                                                         *)
(* LogConfig.tla decides one configuration.  The property quantifies over  *)
(* configurations, not over processes: "accepts it exactly when it is      *)
(* well-formed" leaves no room for anything but the message that is        *)
(* presented - not for what the process validated before it.  A server     *)
(* validates many configurations in one process (every log of a set, the   *)
(* set again when the instances are built, a reloaded file), so the        *)
(* sentence is about behaviours:                                           *)
(*                                                                         *)
(*   Function     for every sequence of validations, every validation      *)
(*                returns what it returns alone (Alone = Valid / ValidSet  *)
(*                / ValidMulti of LogConfig.tla); equal configurations get *)
(*                equal verdicts wherever they stand in the history        *)
(*   OfPresented  (named) what an accepted validation hands on (public     *)
(*                key, frozen STH, NotAfter window) is that of the         *)
(*                configuration presented to THIS call, and the instance   *)
(*                built from it serves THIS frozen STH                     *)
(*   ArgsKept     (named) a validation does not modify the message         *)
(*                                                                         *)
(* A session is one process and one pair of keys of one kind.  Every call  *)
(* presents a configuration that differs from the previous one in ONE      *)
(* component (or in none: validate twice; or goes back to the one before:  *)
(* valid - altered - valid).  The frozen STH is presented component by     *)
(* component: the public key it is checked under, the three signed fields  *)
(* (timestamp, tree size, root hash), the signature value and the length   *)
(* of the hash.  Signatures are the ideal ones: a signature value IS the   *)
(* tuple (key, timestamp, size, root) it was made over, or garbage; an STH *)
(* verifies exactly when the presented key and fields are that tuple.  So  *)
(* "bad signature" has one spelling per component, and in each of them the *)
(* signature bytes are those of a genuine STH.                             *)
(*                                                                         *)
(* What makes a history tell a function from a non-function is modelled    *)
(* explicitly, as in codec/SigVerifyHist: Memo(x) is an implementation     *)
(* that remembers its previous call and answers from memory whenever the   *)
(* new configuration agrees with the remembered one on every component     *)
(* EXCEPT x (a memo of verified signatures keyed too coarsely, a cache of  *)
(* parsed keys by prefix, a package-level set of seen prefixes).  The      *)
(* ghost `exposed` collects the (x, direction) for which the history so    *)
(* far makes Memo(x) answer differently from the function; the driver      *)
(* demands that the exported walks expose every component that can change  *)
(* the verdict, in both directions (stale accept, stale reject).           *)
(***************************************************************************)
EXTENDS LogConfig

CONSTANT HDepth   \* validations per session

VARIABLES
  calls,    \* the validations made so far, with the verdicts of each
  last,     \* arguments and verdicts of the previous call (what a memo would hold)
  exposed   \* ghost: the coarse memos this history tells from the function
hvars == <<calls, last, exposed>>

NoLast == [args |-> <<>>, res |-> <<>>]

(* ---------- what is presented ---------- *)
\* the public key of a session: absent, unparseable, one of the session's two keys k1 / k2 (same kind), or a parseable
\* key of the other kind that never signed anything
HPubStates == {"absent", "garbage", "k1", "k2", "other"}
Garbage    == [k |-> 0, ts |-> 0, size |-> 0, root |-> 0]         \* a signature value that is valid for nothing
SigOf(k, t, s, r) == [k |-> k, ts |-> t, size |-> s, root |-> r]  \* THE signature of key k over (t, s, r)
SigIds     == [k : 1..2, ts : 1..2, size : 1..2, root : 1..2] \cup {Garbage}
SthRecs    == [ts : 1..2, size : 1..2, root : 1..2, sig : SigIds, hashOk : BOOLEAN]

PlainFields == {"logId", "prefix", "isReadonly", "privKey", "isMirror", "start", "limit", "mmd", "expected",
                "rejectExpired", "rejectUnexpired", "ekus", "backend", "connStr"}
SthFields   == {"sthTs", "sthSize", "sthRoot", "sthSig", "sthHashOk"}
Components  == PlainFields \cup {"pubKey", "sthP"} \cup SthFields

\* A presented configuration: p.f the plain fields (field states of LogConfig.tla), p.pub the key, p.sthP whether a
\* frozen STH is configured, p.sth its components.  `kt` is the kind of the session's keys.
KeyNo(pub) == IF pub = "k1" THEN 1 ELSE IF pub = "k2" THEN 2 ELSE 0
Verifies(p) == /\ p.sth.hashOk
               /\ KeyNo(p.pub) # 0
               /\ p.sth.sig = SigOf(KeyNo(p.pub), p.sth.ts, p.sth.size, p.sth.root)
\* the class of LogConfig.tla the frozen STH falls into
SthClass(p) == IF ~p.sthP THEN "absent"
               ELSE IF ~p.sth.hashOk THEN "badHashLen"
               ELSE IF Verifies(p) THEN "okSigned"
               ELSE "badSig"
OtherKind(kt) == IF kt = "ecdsa" THEN "rsa" ELSE "ecdsa"
PubClass(p, kt) == CASE p.pub \in {"k1", "k2"} -> kt [] p.pub = "other" -> OtherKind(kt) [] OTHER -> p.pub
\* the record of field states that LogConfig.tla judges
CfgOf(p, kt) == [x \in PlainFields \cup {"pubKey", "frozenSth", "backendName"} |->
                   CASE x = "pubKey" -> PubClass(p, kt) [] x = "frozenSth" -> SthClass(p) [] x = "backendName" -> ""
                     [] OTHER -> p.f[x]]
WrapMulti(x) == [bPresent |-> TRUE, backends |-> <<[name |-> "default", spec |-> "spec"]>>, lPresent |-> TRUE,
                 logs |-> <<[x EXCEPT !.backendName = "default"]>>]

\* THE LAW.  What a call returns alone: the verdicts of ValidateLogConfig, of ValidateLogConfigs on the one-element set
\* and of ValidateLogMultiConfig on the wrapped configuration.  Nothing but p occurs on the right-hand side.
Alone(p, kt) == LET c == CfgOf(p, kt) IN <<Valid(c), ValidSet(<<c>>), ValidMulti(WrapMulti(c))>>
\* why not: the failing conjuncts of each of the three verdicts (for fingerprints)
FailedIn(k) == {f \in DOMAIN k : ~k[f]}
WhyNot(p, kt) == LET c == CfgOf(p, kt) IN
                 <<FailedIn(Clauses(c)), FailedIn(SetClauses(<<c>>)), FailedIn(MultiClauses(WrapMulti(c)))>>
\* (named) OfPresented: what an accepted call hands on
NoSth == [ts |-> 0, size |-> 0, root |-> 0, sig |-> Garbage]
HandsOn(p, kt) ==
  LET c == CfgOf(p, kt) IN
  IF ~Valid(c) THEN [accepted |-> FALSE, pub |-> "absent", sth |-> NoSth, window |-> ValidatedWindow([start |-> TsAbsent, limit |-> TsAbsent])]
  ELSE [accepted |-> TRUE, pub |-> p.pub,
        sth |-> IF p.sthP THEN [ts |-> p.sth.ts, size |-> p.sth.size, root |-> p.sth.root, sig |-> p.sth.sig] ELSE NoSth,
        window |-> ValidatedWindow(c)]

\* the arguments component by component (what a cache key could be computed from).  Components that are not part of the
\* message (the parts of an absent STH) read as hidden.
Hidden == "-"
Args(p) ==
  [x \in Components |->
     CASE x \in PlainFields -> p.f[x]
       [] x = "pubKey"    -> p.pub
       [] x = "sthP"      -> p.sthP
       [] x = "sthTs"     -> IF p.sthP THEN <<p.sth.ts>> ELSE <<>>
       [] x = "sthSize"   -> IF p.sthP THEN <<p.sth.size>> ELSE <<>>
       [] x = "sthRoot"   -> IF p.sthP THEN <<p.sth.root>> ELSE <<>>
       [] x = "sthSig"    -> IF p.sthP THEN <<p.sth.sig>> ELSE <<>>
       [] OTHER           -> IF p.sthP THEN <<p.sth.hashOk>> ELSE <<>>]
Drop(x, a) == [a EXCEPT ![x] = Hidden]
Changed(a, b) == {x \in Components : a[x] # b[x]}

(* ---------- the non-functions a history must tell apart ---------- *)
\* Memo(x): answers from memory when everything but component x is as in the previous call
MemoAnswer(x, prev, args, res) ==
  IF prev # NoLast /\ Drop(x, prev.args) = Drop(x, args) THEN prev.res ELSE res
\* direction of the disagreement: the memo accepts what must be rejected / rejects what must be accepted
Dirs(stale, res) ==
  {d \in {"accept", "reject"} : \E i \in 1..3 : stale[i] # res[i] /\ stale[i] = (d = "accept")}
NewlyExposed(prev, args, res) ==
  UNION {{<<x, d>> : d \in Dirs(MemoAnswer(x, prev, args, res), res)} : x \in Components}
\* Every component but two can change a verdict on its own: the read-only flag is not examined by validation, and
\* whether a frozen STH is configured changes all of its components at once (a memo that leaves the whole STH out of its
\* key is exposed by any one of them).
Required == (Components \ {"isReadonly", "sthP"}) \X {"accept", "reject"}

(* ---------- behaviours ---------- *)
HInit == calls = <<>> /\ last = NoLast /\ exposed = {}

\* the process validates p (`rot`: with which entry point and in which form the harness begins; the order of entry points
\* is part of the history).  The verdicts are Alone: neither `last` nor `calls` occurs in them.
Call(p, kt, rot) ==
  LET args == Args(p)
      res == Alone(p, kt)
  IN /\ calls' = Append(calls, [p |-> p, kt |-> kt, rot |-> rot, args |-> args, res |-> res, hands |-> HandsOn(p, kt),
                                changed |-> IF last = NoLast THEN {} ELSE Changed(last.args, args)])
     /\ last' = [args |-> args, res |-> res]
     /\ exposed' = exposed \cup NewlyExposed(last, args, res)

(* ---------- the laws over a history ---------- *)
IsCall(h) == "p" \in DOMAIN h
Newest == calls[Len(calls)]
\* equal configurations, equal verdicts and equal hand-ons, wherever in the history
Functional == Len(calls) > 0 /\ IsCall(Newest) =>
                \A i \in 1..(Len(calls) - 1) : calls[i].args = Newest.args =>
                   calls[i].res = Newest.res /\ calls[i].hands = Newest.hands
\* every call, whatever preceded it, returns what it returns alone
EachAlone == Len(calls) > 0 /\ IsCall(Newest) =>
                /\ Newest.res = Alone(Newest.p, Newest.kt)
                /\ Newest.hands = HandsOn(Newest.p, Newest.kt)
\* the bridge to the one-call table: a frozen STH is accepted only if it verifies under the presented key, and an accepted
\* call hands on the presented STH
FrozenVerifies == Len(calls) > 0 /\ IsCall(Newest) =>
                    LET p == Newest.p IN
                    /\ (Newest.res[1] /\ p.sthP) => Verifies(p)
                    /\ (Newest.res[1] /\ p.sthP) => Newest.hands.sth.sig = SigOf(KeyNo(p.pub), p.sth.ts, p.sth.size, p.sth.root)
                    /\ Newest.res[2] => Newest.res[1]
                    /\ Newest.res[3] => Newest.res[1]
ExposedSound == exposed \subseteq (Components \X {"accept", "reject"})
HistLaw == Functional /\ EachAlone /\ FrozenVerifies /\ ExposedSound
=============================================================================
