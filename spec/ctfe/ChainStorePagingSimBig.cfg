CONSTANTS
  TreeSize = 700
  MaxPage = 530
  Small = FALSE
  SmallLens = {}
  Pattern <- MCPattern
  Lens <- MCLens
  StartSet <- MCStartSet
  Caps <- MCCaps
  Dialects = {"memory", "mysql", "postgresql"}
  Workers = {1, 3}
  MaxFaults = 3
  Threshold = 3
  Defect = "none"
  Depth = 30
INIT Init
NEXT SimNext
INVARIANTS ExportFinished CacheFromLookups
CHECK_DEADLOCK FALSE
