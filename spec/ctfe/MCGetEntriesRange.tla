------------------------- MODULE MCGetEntriesRange -------------------------
EXTENDS GetEntriesRange, Json
Export == PrintT(<<"CASE", ToJson([c |-> c, expect |-> S(c)])>>)
=============================================================================
