\* every window over the instants 1..8 (start / limit absent or present) x four rests of the options x eight leaves
CONSTANTS
  Depth = 1
INIT Init
NEXT Next
INVARIANTS Laws Export
CHECK_DEADLOCK FALSE
