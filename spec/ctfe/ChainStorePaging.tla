-------------------------- MODULE ChainStorePaging --------------------------
(***************************************************************************)
(* C14, the PAGE dimension of get-entries over external chain storage.     *)
(*                                                                         *)
(* ChainStore.tla explores long histories on trees of up to five leaves.   *)
(* Here the tree is long (TreeSize leaves laid out by a periodic Pattern   *)
(* of entry type x issuance chain x leaf layout) and what is explored is   *)
(* the shape of one response: its LENGTH (classes around powers of two and *)
(* multiples of four, the configured limit MaxPage, the whole tree), its   *)
(* START (aligned, unaligned, ending exactly at the head of the tree,      *)
(* running over the head: the last, partial page), the cache configuration *)
(* and state it meets (noop / unbounded / one entry; cold, partly warm,    *)
(* warm), and one leaf that cannot be fixed at a position class of a long  *)
(* page.  Property text: EVERY entry served carries the extra_data of the  *)
(* default mode - the first, the middle and the last ones of a response of *)
(* any length.                                                             *)
(*                                                                         *)
(* The property says nothing on how the per-leaf work of a response (the   *)
(* hash in the stored leaf is replaced by the chain) is organised.  The    *)
(* specification therefore lets it be split among any number of workers    *)
(* (Workers) by contiguous stripes or round robin, the workers finishing   *)
(* in any order (one action per worker), and states what must hold of      *)
(* every such organisation:                                                *)
(*   PartitionCovers  the parts of the workers cover every position        *)
(*   PageWhole        a response answered 200 has as many entries as the   *)
(*                    default mode serves and none of them is left in the  *)
(*                    stored (hash) form                                   *)
(*   UnfixableIsError a leaf that cannot be fixed, at any position and     *)
(*                    in any worker's part, makes the response an error    *)
(*   PlanIrrelevant   status, length and the number of storage lookups are *)
(*                    a function of the state and the request alone        *)
(* Named clauses where the property is silent and the code is definite:    *)
(*   Clip,    a response has at most MaxPage entries, a maximally sized    *)
(*   Align    request ends at the next multiple of MaxPage, the tree ends  *)
(*            at its head (the default mode is the oracle for the number)  *)
(*   Lookups  a leaf in hash form whose chain the cache does not hold      *)
(*            costs exactly one storage lookup, every time (the cache is   *)
(*            filled from detached writes only, none lands inside the      *)
(*            request)                                                     *)
(* Defect # "none" switches a named defect on IN THE MODEL only: TLC must  *)
(* refute PageWhole / UnfixableIsError (non-vacuity).                      *)
(***************************************************************************)
EXTENDS Integers, Sequences, FiniteSets, TLC

CONSTANTS
  TreeSize,     \* integrated leaves: indices 0 .. TreeSize - 1
  MaxPage,      \* the instance's limit on the entries of one get-entries response
  Pattern,      \* Seq([kind, chain, layout]): leaf i is Pattern[(i % Len(Pattern)) + 1]
  Lens,         \* requested lengths explored
  StartSet(_),  \* starts explored for a requested length
  Caps,         \* cache configurations: -1 noop, 0 LRU without bound, 1 LRU of one entry
  Dialects,     \* storage layers below the cache (materialized by the harness; the page laws do not depend on it)
  Workers,      \* numbers of workers the per-leaf work of a response may be split among
  MaxFaults,
  Threshold,    \* defects only: responses longer than this are split among workers
  Defect        \* "none" | "tailDropped" | "laterWorkerErrorLost"

ASSUME Defect \in {"none", "tailDropped", "laterWorkerErrorLost"}
ASSUME TreeSize > 0 /\ MaxPage > 0 /\ Caps \subseteq {-1, 0, 1}

Leaf(i) == Pattern[(i % Len(Pattern)) + 1]
Chains == {Pattern[k].chain : k \in 1..Len(Pattern)}
GarbleClasses == {"garbageExtra", "truncatedHash", "noExtraData", "emptyLeaf", "unknownHash"}
CorruptClasses == {"trailing", "notDER", "truncated", "contentFlip", "empty", "swapped"}
Splits == {"stripes", "roundRobin"}
None == [start |-> -1]

Min(a, b) == IF a < b THEN a ELSE b
\* Clip and Align: at most MaxPage entries; a request for at least that many ("maximally sized") is cut at the next
\* multiple of MaxPage (the default of the front end's align_getentries flag; spec/ctfe/GetEntriesRange.tla, C07); the
\* backend returns what the tree has
Count(s, want) ==
  LET w == Min(want, MaxPage)
      end == s + w - 1
      cut == IF w = MaxPage THEN end - (((end % MaxPage) + 1) % MaxPage) ELSE end
  IN Min(cut, TreeSize - 1) - s + 1

VARIABLES
  cap, dialect,   \* configuration: chosen at Init, never changed
  cache,          \* set of chains the cache holds
  pending,        \* chains with detached cache writes on their way
  lost, bad,      \* chains whose row was removed / damaged (bad: [chain -> class], "ok" otherwise)
  faults,
  page,           \* the response in the making, None between requests
  hist, last

vars == <<cap, dialect, cache, pending, lost, bad, faults, page, hist, last>>

Hit(h) == cap # -1 /\ h \in cache
Damaged(h) == h \in lost \/ bad[h] # "ok"
\* positions are relative to the start of the response: 0 .. n - 1
NeedsLookup(s, k) == Leaf(s + k).layout = "hash" /\ ~Hit(Leaf(s + k).chain)
Unfixable(s, k, g) == k = g.pos \/ (NeedsLookup(s, k) /\ Damaged(Leaf(s + k).chain))
NoGarble == [pos |-> -1, class |-> "none"]

\* the part of worker w (1..plan.w) of a response of n leaves
Part(plan, n, w) ==
  LET W == plan.w
      q == (n + W - 1) \div W                                           \* stripe length, rounded UP
  IN IF Defect = "tailDropped" /\ n > Threshold /\ W > 1
     THEN {k \in 0..n - 1 : k \div (n \div W) = w - 1}                  \* the defect: rounded down, the last n % W positions are nobody's
     ELSE IF plan.split = "stripes" THEN {k \in 0..n - 1 : k \div q = w - 1}
     ELSE {k \in 0..n - 1 : k % W = w - 1}

PartitionCovers == \A n \in 1..Min(MaxPage, TreeSize), W \in Workers, sp \in Splits :
                     UNION {Part([w |-> W, split |-> sp], n, w) : w \in 1..W} = 0..n - 1

Step(op, args, reply) == [op |-> op, args |-> args, reply |-> reply]
Record(s) == last' = s /\ hist' = Append(hist, s)

Init == /\ cap \in Caps /\ dialect \in Dialects
        /\ cache = {} /\ pending = {} /\ lost = {} /\ bad = [h \in Chains |-> "ok"] /\ faults = 0
        /\ page = None /\ hist = <<>> /\ last = [op |-> "Init"]

\* get-entries(s, s + want - 1) arrives; the backend returns n leaves in their stored form
Request(s, want, plan, g, fault) ==
  LET n == Count(s, want)
  IN /\ page = None /\ s \in 0..TreeSize - 1 /\ want > 0
     /\ plan.w \in Workers /\ plan.split \in Splits
     /\ g = NoGarble \/ (g.pos \in 0..n - 1 /\ g.class \in GarbleClasses)
     \* a storage fault strikes one lookup of the request: there must be one
     /\ fault => faults < MaxFaults /\ g = NoGarble /\ \E k \in 0..n - 1 : NeedsLookup(s, k)
     /\ faults' = IF fault THEN faults + 1 ELSE faults
     /\ page' = [start |-> s, want |-> want, n |-> n, plan |-> plan, garble |-> g, fault |-> fault,
                 done |-> {}, finished |-> {}, failed |-> FALSE]
     /\ UNCHANGED <<cap, dialect, cache, pending, lost, bad, hist, last>>

\* worker w goes through its part in index order and stops at the first leaf it cannot fix
Work(w) ==
  /\ page # None /\ w \in 1..page.plan.w /\ w \notin page.finished
  /\ LET part == Part(page.plan, page.n, w)
         stuck == {k \in part : Unfixable(page.start, k, page.garble)}
         dealt == IF stuck = {} THEN part ELSE {k \in part : \A b \in stuck : k < b}
         err == stuck # {} /\ (Defect = "laterWorkerErrorLost" => w = 1)
     IN page' = [page EXCEPT !.done = @ \cup dealt, !.finished = @ \cup {w}, !.failed = @ \/ err]
  /\ UNCHANGED <<cap, dialect, cache, pending, lost, bad, faults, hist, last>>

\* every worker has finished: the response goes out
Respond ==
  /\ page # None /\ page.finished = 1..page.plan.w
  /\ LET s == page.start
         ok == ~page.failed /\ ~page.fault
         looked == {k \in 0..page.n - 1 : NeedsLookup(s, k)}
     IN /\ pending' = IF ok /\ cap # -1 THEN pending \cup {Leaf(s + k).chain : k \in looked} ELSE pending
        /\ Record(Step("Page", [start |-> s, to |-> s + page.want - 1, workers |-> page.plan.w, split |-> page.plan.split,
                                garble |-> page.garble, fault |-> page.fault],
                       [status |-> IF ok THEN 200 ELSE 500, count |-> page.n, finds |-> Cardinality(looked),
                        unfixed |-> page.n - Cardinality(page.done)]))
  /\ page' = None
  /\ UNCHANGED <<cap, dialect, cache, lost, bad, faults>>

\* a single entry over either read endpoint (the sibling entry point of the per-leaf work), anywhere in the long tree
Read(i, via) ==
  /\ page = None /\ i \in 0..TreeSize - 1 /\ via \in {"entries", "proof"}
  /\ LET ok == ~Unfixable(i, 0, NoGarble)
     IN /\ pending' = IF ok /\ cap # -1 /\ NeedsLookup(i, 0) THEN pending \cup {Leaf(i).chain} ELSE pending
        /\ Record(Step("Read", [index |-> i, via |-> via],
                       [status |-> IF ok THEN 200 ELSE 500, count |-> 1, finds |-> IF NeedsLookup(i, 0) THEN 1 ELSE 0, unfixed |-> 0]))
  /\ UNCHANGED <<cap, dialect, cache, lost, bad, faults, page>>

\* the detached writes of chain h land
Fire(h) ==
  /\ page = None /\ h \in pending /\ cap # -1
  /\ cache' = IF cap = 1 THEN {h} ELSE cache \cup {h}
  /\ pending' = pending \ {h}
  /\ UNCHANGED <<cap, dialect, lost, bad, faults, page>>
  /\ Record(Step("Fire", [chain |-> h], [status |-> 0]))

DropRow(h) ==
  /\ page = None /\ h \in Chains /\ ~Damaged(h) /\ faults < MaxFaults
  /\ lost' = lost \cup {h} /\ faults' = faults + 1
  /\ UNCHANGED <<cap, dialect, cache, pending, bad, page>>
  /\ Record(Step("DropRow", [chain |-> h], [status |-> 0]))

Corrupt(h, class) ==
  /\ page = None /\ h \in Chains /\ ~Damaged(h) /\ faults < MaxFaults /\ class \in CorruptClasses
  /\ bad' = [bad EXCEPT ![h] = class] /\ faults' = faults + 1
  /\ UNCHANGED <<cap, dialect, cache, pending, lost, page>>
  /\ Record(Step("Corrupt", [chain |-> h, class |-> class], [status |-> 0]))

\* the operator puts the row back as it was
Repair(h) ==
  /\ page = None /\ Damaged(h)
  /\ lost' = lost \ {h} /\ bad' = [bad EXCEPT ![h] = "ok"]
  /\ UNCHANGED <<cap, dialect, cache, pending, faults, page>>
  /\ Record(Step("Repair", [chain |-> h], [status |-> 0]))

Restart ==
  /\ page = None /\ (cache # {} \/ pending # {})
  /\ cache' = {} /\ pending' = {}
  /\ UNCHANGED <<cap, dialect, lost, bad, faults, page>>
  /\ Record(Step("Restart", [k |-> 0], [status |-> 0]))

\* (with one worker the split says nothing)
Plans == {pl \in [w : Workers, split : Splits] : pl.w = 1 => pl.split = "stripes"}
\* a response in the making.  Gs: garble classes explored; GPos(n): garble positions explored in a response of n leaves
PageActions(Gs, GPos(_)) ==
  \/ /\ page = None
     /\ \E want \in Lens : \E s \in StartSet(want) : \E plan \in Plans :
           \/ \E fault \in BOOLEAN : Request(s, want, plan, NoGarble, fault)
           \/ \E p \in GPos(Count(s, want)), c \in Gs : Request(s, want, plan, [pos |-> p, class |-> c], FALSE)
  \/ /\ page # None
     /\ \/ \E w \in (1..page.plan.w) \ page.finished : Work(w)
        \/ Respond
\* between responses.  Cs: classes of row damage explored
RestActions(Cs) ==
  /\ page = None
  /\ \/ \E i \in 0..TreeSize - 1, v \in {"entries", "proof"} : Read(i, v)
     \/ \E h \in Chains : Fire(h) \/ DropRow(h) \/ Repair(h)
     \/ \E h \in Chains, c \in Cs : Corrupt(h, c)
     \/ Restart

(* ---------------- properties ---------------- *)
IsPage(s) == s.op = "Page"
\* a response answered 200: as many entries as the default mode serves, none left in the stored form
PageWhole == [][(IsPage(last') /\ last'.reply.status = 200) =>
                   /\ last'.reply.unfixed = 0
                   /\ last'.reply.count = Count(last'.args.start, last'.args.to - last'.args.start + 1)]_vars
\* a leaf that cannot be fixed - at any position, in any worker's part - makes the response an error
UnfixableIsError == [][IsPage(last') =>
                         LET s == last'.args.start
                         IN ((\E k \in 0..last'.reply.count - 1 : Unfixable(s, k, last'.args.garble)) \/ last'.args.fault) => last'.reply.status = 500]_vars
\* status, length and lookups do not depend on how the work was split or in which order the workers finished
PlanIrrelevant == [][IsPage(last') =>
                       LET s == last'.args.start
                           n == Count(s, last'.args.to - s + 1)
                           err == last'.args.fault \/ \E k \in 0..n - 1 : Unfixable(s, k, last'.args.garble)
                       IN /\ last'.reply.count = n
                          /\ last'.reply.status = (IF err THEN 500 ELSE 200)
                          /\ last'.reply.finds = Cardinality({k \in 0..n - 1 : NeedsLookup(s, k)})]_vars
\* legacy leaves (full chain in the leaf) never need the storage, wherever they lie in a response
LegacyNeedsNoLookup == [][IsPage(last') =>
                            last'.reply.finds <= Cardinality({k \in 0..last'.reply.count - 1 : Leaf(last'.args.start + k).layout = "hash"})]_vars
\* the cache only ever learns chains from lookups that succeeded
CacheFromLookups == cache \subseteq Chains /\ pending \subseteq Chains /\ (cap = 1 => Cardinality(cache) <= 1) /\ (cap = -1 => cache = {} /\ pending = {})
ConfigFixed == [][cap' = cap /\ dialect' = dialect]_vars
=============================================================================
