CONSTANTS
  TreeSize = 300
  MaxPage = 270
  Small = FALSE
  SmallLens = {}
  Pattern <- MCPattern
  Lens <- MCLens
  StartSet <- MCStartSet
  Caps <- MCCaps
  Dialects = {"memory", "mysql", "postgresql"}
  Workers = {1, 3}
  MaxFaults = 3
  Threshold = 3
  Defect = "none"
  Depth = 22
INIT Init
NEXT SimNext
INVARIANTS ExportFinished CacheFromLookups
CHECK_DEADLOCK FALSE
