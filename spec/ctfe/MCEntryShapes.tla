--------------------------- MODULE MCEntryShapes ---------------------------
(* Case analysis of EntryShapes: one state per shape; the laws are invariants; every shape is exported. *)
EXTENDS EntryShapes
CONSTANTS KeySet, StorageSet
VARIABLE s
Init == s \in {x \in Shapes : x.key \in KeySet /\ x.storage \in StorageSet}
Next == UNCHANGED s
LawAdmissible == Admissible(s)
LawDetermined == Determined(s)
LawFinalIssuer == FinalIssuerOK(s)
\* the cross-signed twin is never swallowed: it is in the stored path whenever it was submitted
LawCrossKept == s.tail \in {"cross", "crossroot"} => \E i \in 1..Len(StoredPathOf(s)) : StoredPathOf(s)[i] = R1x
Export == PrintT(<<"CASE", ToJson(Case(s))>>)
=============================================================================
