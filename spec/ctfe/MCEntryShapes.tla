--------------------------- MODULE MCEntryShapes ---------------------------
(* Case analysis of EntryShapes: one state per shape; the laws are invariants; every shape is exported. *)
EXTENDS EntryShapes
CONSTANTS KeySet, StorageSet, Big
VARIABLE s
\* validity: the small instance pairs the first second of a year with the last second of a year (either way round) on
\* every pair of years; the big one takes every pair of instants
EdgePairs == IF Big THEN Edges \X Edges ELSE {<<"first", "last">>, <<"last", "first">>}
Init == s \in {x \in Shapes : /\ x.key \in KeySet /\ x.storage \in StorageSet
                               /\ (x.valid # StdValidity => <<x.valid.nb.edge, x.valid.na.edge>> \in EdgePairs)}
Next == UNCHANGED s
LawAdmissible == Admissible(s)
LawDetermined == Determined(s)
LawFinalIssuer == FinalIssuerOK(s)
\* the cross-signed twin is never swallowed: it is in the stored path whenever it was submitted
LawCrossKept == s.tail \in {"cross", "crossroot"} => \E i \in 1..Len(StoredPathOf(s)) : StoredPathOf(s)[i] = R1x
LawFieldsVerbatim == FieldsVerbatim(s) /\ FieldsDoNotMatter(s)
LawEkuMembership == EkuMembershipDecides(s)
ASSUME EkuDimensionComplete
Export == PrintT(<<"CASE", ToJson(Case(s))>>)
=============================================================================
