-------------------------------- MODULE CTFE --------------------------------
(***************************************************************************)
(* The CT log front end (trillian/ctfe) over its log backend, as a client  *)
(* sees it: the eight RFC 6962 endpoints as actions over an append-only    *)
(* backend that de-duplicates submissions and integrates them in batches.  *)
(*                                                                         *)
(* Abstraction.  A submission is identified by its leaf certificate        *)
(* (c \in Certs); Kind[c] says whether it is an X.509 certificate or a     *)
(* precertificate.  The log entry of a stored submission is the pair       *)
(* (certificate, timestamp); hashes, signatures, DER and TLS bytes are     *)
(* re-attached by the harness (real keys, independent RFC 6962 encoders    *)
(* and Merkle tree).  Time is a tick counter; a backend root carries a     *)
(* nanosecond timestamp (tick, remainder) which the front end must         *)
(* truncate to the tick (milliseconds in the implementation).              *)
(*                                                                         *)
(* Histories, faults, schedules.  One log is served by several front end   *)
(* instances (FrontEnds) over the same backend and the same key; each has  *)
(* its own clock, which may be set to ANY value (forward, backward, behind *)
(* or ahead of the other instance and of the backend's clock), and its own *)
(* memory of the last tree head it signed.  Every request names the        *)
(* instance that serves it and what goes wrong while it is served: the log *)
(* signer fails (an HSM / KMS that is transiently unavailable), the        *)
(* backend refuses the call, or the backend performs the call and its      *)
(* reply is lost.  A failed request may change the backend (a lost reply)  *)
(* but leaves nothing in the front end that a later request is served      *)
(* from.                                                                   *)
(***************************************************************************)
EXTENDS Integers, Sequences, FiniteSets, TLC

CONSTANTS
  Certs,           \* leaf certificates that may be submitted
  Precerts,        \* the subset that are precertificates
  MaxClock,        \* clocks run over 0..MaxClock
  MaxTree,         \* sequencing stops at this tree size
  FrontEnds,       \* front end instances of the one log
  CacheWriteFirst  \* FALSE: the specification.  TRUE: the ordering defect "remember the new tree head as signed
                   \* before the signer has answered", kept so that TLC can show STHVerifies is not vacuous

None == -1   \* (TLC cannot compare a string with a number)
Kind(c) == IF c \in Precerts THEN "precert" ELSE "x509"
Endpoints == {"add-chain", "add-pre-chain"}
Rems == {0, 999999}   \* sub-millisecond remainder classes of a root timestamp

\* what can go wrong while one request is served
RpcFaults == {"unavailable", "deadline", "exhausted", "internal"}   \* the backend refuses the call with this gRPC condition
ReadFaults == {"none"} \cup RpcFaults
STHFaults == {"none", "sign"} \cup RpcFaults                         \* "sign": the log signer returns an error
AddFaults == {"none", "sign", "lostReply"} \cup RpcFaults            \* "lostReply": the backend stored the leaf, the reply timed out
FaultStatus(x) == CASE x = "unavailable" -> 503
                    [] x \in {"deadline", "lostReply"} -> 504
                    [] x = "exhausted" -> 429
                    [] OTHER -> 500

VARIABLES
  now,      \* the backend's clock tick (stamps roots)
  clk,      \* [FrontEnds -> tick]: each front end's own clock (stamps fresh submissions)
  stored,   \* [Certs -> tick or None]: the backend's de-duplication table (leaf by identity hash)
  queue,    \* Seq(Certs): queued, not yet integrated
  tree,     \* Seq(Certs): integrated leaves, append-only
  rootTs,   \* [tick, rem]: timestamp of the published root (nanoseconds in the implementation)
  sigc,     \* [FrontEnds -> [input, sig]]: the tree head a front end signed last and the signature it got for it
  issued,   \* set of [cert, ts]: SCTs handed out (history)
  sths,     \* set of [size, ts, sig]: STHs served (history); sig = the tree head the signature was made over
  roots,    \* set of [size, tick]: roots the backend published (history)
  hist, last

bvars == <<now, stored, queue, tree, rootTs>>
vars == <<now, clk, stored, queue, tree, rootTs, sigc, issued, sths, roots, hist, last>>

Size == Len(tree)
IndexOf(c) == CHOOSE i \in 1..Len(tree) : tree[i] = c      \* 1-based; only when c is in the tree
InTree(c) == \E i \in 1..Len(tree) : tree[i] = c
Entry(i) == [cert |-> tree[i], ts |-> stored[tree[i]]]     \* the stored log entry at 0-based index i-1

NoHead == [size |-> None, ts |-> None]
TreeHead == [size |-> Size, ts |-> rootTs.tick]                \* the tree head an STH must carry and be signed over

Step(op, args, reply) == [op |-> op, args |-> args, reply |-> reply,
                          pre |-> [size |-> Size, queued |-> Len(queue), now |-> now, clk |-> clk]]
Record(s) == /\ last' = s
             /\ hist' = Append(hist, s)

Init == /\ now = 0
        /\ clk = [f \in FrontEnds |-> 0]
        /\ stored = [c \in Certs |-> None]
        /\ queue = <<>>
        /\ tree = <<>>
        /\ rootTs = [tick |-> 0, rem |-> 0]
        /\ sigc = [f \in FrontEnds |-> [input |-> NoHead, sig |-> NoHead]]
        /\ issued = {}
        /\ sths = {}
        /\ roots = {[size |-> 0, tick |-> 0]}
        /\ hist = <<>>
        /\ last = [op |-> "Init"]

(* ---------------- environment ---------------- *)
Tick == /\ now < MaxClock
        /\ now' = now + 1
        /\ UNCHANGED <<clk, stored, queue, tree, rootTs, sigc, issued, sths, roots>>
        /\ Record(Step("Tick", [x |-> 0], [status |-> 0]))

\* a front end's clock is set: it runs on, is stepped back (NTP, a VM restored from a snapshot), or simply
\* differs from the clock of the instance that served an earlier request
ClockSet(f, t) ==
  /\ t \in 0..MaxClock
  /\ t # clk[f]
  /\ clk' = [clk EXCEPT ![f] = t]
  /\ UNCHANGED <<now, stored, queue, tree, rootTs, sigc, issued, sths, roots>>
  /\ Record(Step("ClockSet", [fe |-> f, t |-> t], [status |-> 0]))

\* the backend integrates the first k queued leaves and publishes a root stamped with its clock
Sequence(k, rem) ==
  /\ k \in 1..Len(queue)
  /\ Len(tree) + k <= MaxTree
  /\ tree' = tree \o SubSeq(queue, 1, k)
  /\ queue' = SubSeq(queue, k + 1, Len(queue))
  /\ rootTs' = [tick |-> now, rem |-> rem]
  /\ roots' = roots \cup {[size |-> Len(tree) + k, tick |-> now]}
  /\ UNCHANGED <<now, clk, stored, sigc, issued, sths>>
  /\ Record(Step("Sequence", [k |-> k, rem |-> rem], [status |-> 0]))

\* the backend re-issues its root for an unchanged tree with a fresh timestamp (Trillian signs a new root
\* when the previous one gets old); the front end must serve the new timestamp under a signature over it
Resign(rem) ==
  /\ rootTs.tick < now
  /\ rootTs' = [tick |-> now, rem |-> rem]
  /\ roots' = roots \cup {[size |-> Len(tree), tick |-> now]}
  /\ UNCHANGED <<now, clk, stored, queue, tree, sigc, issued, sths>>
  /\ Record(Step("Resign", [rem |-> rem], [status |-> 0]))

(* ---------------- submission (C01) ---------------- *)
\* A fresh submission is stamped with the clock of the front end that serves it; a duplicate repeats the stored
\* timestamp WHATEVER that front end's clock says (DupIgnoresClock).  The leaf reaches the backend unless the
\* call is refused; an SCT exists only if the backend answered and the signer signed (SCTOnlyOn200).
AddChain(c, ep, f, flt) ==
  LET matches == (ep = "add-pre-chain") = (Kind(c) = "precert")
      dup == stored[c] # None
      ts == IF dup THEN stored[c] ELSE clk[f]
      reaches == matches /\ flt \notin RpcFaults         \* the backend has the leaf (new or already)
      status == IF ~matches THEN 400 ELSE IF flt = "none" THEN 200 ELSE FaultStatus(flt)
  IN /\ stored' = IF reaches THEN [stored EXCEPT ![c] = ts] ELSE stored
     /\ queue' = IF reaches /\ ~dup THEN Append(queue, c) ELSE queue
     /\ issued' = IF status = 200 THEN issued \cup {[cert |-> c, ts |-> ts]} ELSE issued
     /\ UNCHANGED <<now, clk, tree, rootTs, sigc, sths, roots>>
     /\ Record(Step("AddChain", [cert |-> c, ep |-> ep, fe |-> f, fault |-> flt],
                    IF status = 200 THEN [status |-> 200, ts |-> ts, dup |-> dup]
                    ELSE [status |-> status, ts |-> None, dup |-> dup]))

(* ---------------- reads (C06, C07) ---------------- *)
\* get-sth fetches the backend's root and signs the tree head, unless it is the head this front end signed last
\* (SignedHeadNeedsNoSigner: the remembered signature is served and the signer is not consulted).  A refused
\* backend call or a failing signer gives an error and changes nothing (FailedRequestLeavesNothing).
GetSTH(f, flt) ==
  LET hit == sigc[f].input = TreeHead
  IN IF flt \in RpcFaults
     THEN /\ UNCHANGED <<now, clk, stored, queue, tree, rootTs, sigc, issued, sths, roots>>
          /\ Record(Step("GetSTH", [fe |-> f, fault |-> flt], [status |-> FaultStatus(flt), size |-> None, ts |-> None, sig |-> NoHead]))
     ELSE IF hit
     THEN /\ sths' = sths \cup {[size |-> TreeHead.size, ts |-> TreeHead.ts, sig |-> sigc[f].sig]}
          /\ UNCHANGED <<now, clk, stored, queue, tree, rootTs, sigc, issued, roots>>
          /\ Record(Step("GetSTH", [fe |-> f, fault |-> flt], [status |-> 200, size |-> Size, ts |-> rootTs.tick, sig |-> sigc[f].sig]))
     ELSE IF flt = "sign"
     THEN /\ sigc' = IF CacheWriteFirst THEN [sigc EXCEPT ![f].input = TreeHead] ELSE sigc
          /\ UNCHANGED <<now, clk, stored, queue, tree, rootTs, issued, sths, roots>>
          /\ Record(Step("GetSTH", [fe |-> f, fault |-> flt], [status |-> 500, size |-> None, ts |-> None, sig |-> NoHead]))
     ELSE /\ sigc' = [sigc EXCEPT ![f] = [input |-> TreeHead, sig |-> TreeHead]]
          /\ sths' = sths \cup {[size |-> TreeHead.size, ts |-> TreeHead.ts, sig |-> TreeHead]}
          /\ UNCHANGED <<now, clk, stored, queue, tree, rootTs, issued, roots>>
          /\ Record(Step("GetSTH", [fe |-> f, fault |-> flt], [status |-> 200, size |-> Size, ts |-> rootTs.tick, sig |-> TreeHead]))

\* a read that reaches the backend while the backend refuses the call answers the fault's status, whatever it
\* would have answered otherwise; a read answered without the backend is not affected by the state of the backend
Faulted(flt, reaches, reply) == IF reaches /\ flt \in RpcFaults THEN [status |-> FaultStatus(flt)] ELSE reply

\* first = 0 is answered with an empty proof without consulting the backend
ConsistencyReaches(f, s) == f <= s /\ f > 0
GetConsistency(f, s, fe, flt) ==
  LET reply == IF f > s THEN [status |-> 400]
               ELSE IF f = 0 THEN [status |-> 200, proof |-> "empty"]
               ELSE IF s > Size THEN [status |-> 400]
               ELSE [status |-> 200, proof |-> "cons"]       \* the consistency proof between prefixes f and s
  IN /\ UNCHANGED <<now, clk, stored, queue, tree, rootTs, sigc, issued, sths, roots>>
     /\ Record(Step("GetConsistency", [first |-> f, second |-> s, fe |-> fe, fault |-> flt],
                    Faulted(flt, ConsistencyReaches(f, s), reply)))

\* the hash is the one a client computes from certificate c and an SCT with timestamp t
ProofByHashReaches(n) == n >= 1
GetProofByHash(c, t, n, fe, flt) ==
  LET reply == IF n < 1 THEN [status |-> 400]
               ELSE IF n > Size THEN [status |-> 404]
               ELSE IF InTree(c) /\ stored[c] = t /\ IndexOf(c) <= n
                    THEN [status |-> 200, index |-> IndexOf(c) - 1]
                    ELSE [status |-> 404]
  IN /\ UNCHANGED <<now, clk, stored, queue, tree, rootTs, sigc, issued, sths, roots>>
     /\ Record(Step("GetProofByHash", [cert |-> c, ts |-> t, size |-> n, fe |-> fe, fault |-> flt],
                    Faulted(flt, ProofByHashReaches(n), reply)))

EntriesReaches(s, e) == s <= e
GetEntries(s, e, fe, flt) ==
  LET reply == IF s > e THEN [status |-> 400]
               ELSE IF s >= Size THEN [status |-> 400]
               ELSE [status |-> 200,
                     entries |-> [i \in 1..((IF e < Size THEN e ELSE Size - 1) - s + 1) |-> Entry(s + i)]]
  IN /\ UNCHANGED <<now, clk, stored, queue, tree, rootTs, sigc, issued, sths, roots>>
     /\ Record(Step("GetEntries", [start |-> s, end |-> e, fe |-> fe, fault |-> flt],
                    Faulted(flt, EntriesReaches(s, e), reply)))

EntryAndProofReaches(i, n) == ~(n < 1 \/ i >= n)
GetEntryAndProof(i, n, fe, flt) ==
  LET reply == IF n < 1 \/ i >= n THEN [status |-> 400]
               ELSE IF n > Size THEN [status |-> 400]
               ELSE [status |-> 200, entry |-> Entry(i + 1)]
  IN /\ UNCHANGED <<now, clk, stored, queue, tree, rootTs, sigc, issued, sths, roots>>
     /\ Record(Step("GetEntryAndProof", [index |-> i, size |-> n, fe |-> fe, fault |-> flt],
                    Faulted(flt, EntryAndProofReaches(i, n), reply)))

GetRoots(fe) ==
  /\ UNCHANGED <<now, clk, stored, queue, tree, rootTs, sigc, issued, sths, roots>>
  /\ Record(Step("GetRoots", [fe |-> fe, fault |-> "none"], [status |-> 200]))

Sizes == 0..(MaxTree + 1)
Next ==
  \/ Tick
  \/ \E f \in FrontEnds, t \in 0..MaxClock : ClockSet(f, t)
  \/ \E k \in 1..MaxTree, r \in Rems : Sequence(k, r)
  \/ \E r \in Rems : Resign(r)
  \/ \E c \in Certs, ep \in Endpoints, f \in FrontEnds, x \in AddFaults : AddChain(c, ep, f, x)
  \/ \E f \in FrontEnds, x \in STHFaults : GetSTH(f, x)
  \/ \E f \in Sizes, s \in Sizes, fe \in FrontEnds, x \in ReadFaults : GetConsistency(f, s, fe, x)
  \/ \E c \in Certs, t \in 0..MaxClock, n \in Sizes, fe \in FrontEnds, x \in ReadFaults : GetProofByHash(c, t, n, fe, x)
  \/ \E s \in Sizes, e \in Sizes, fe \in FrontEnds, x \in ReadFaults : GetEntries(s, e, fe, x)
  \/ \E i \in Sizes, n \in Sizes, fe \in FrontEnds, x \in ReadFaults : GetEntryAndProof(i, n, fe, x)
  \/ \E fe \in FrontEnds : GetRoots(fe)

Spec == Init /\ [][Next]_vars

(* ---------------- properties ---------------- *)
IsPrefix(a, b) == Len(a) <= Len(b) /\ \A i \in 1..Len(a) : a[i] = b[i]

TypeOK == /\ now \in 0..MaxClock
          /\ clk \in [FrontEnds -> 0..MaxClock]
          /\ \A c \in Certs : stored[c] \in (0..MaxClock) \cup {None}
          /\ Len(tree) <= MaxTree

\* C06: the history only grows
AppendOnly == [][IsPrefix(tree, tree')]_vars

\* C06: an STH reports the backend's tree size and its timestamp truncated to the tick
STHFaithful == \A s \in sths : \E r \in roots : r.size = s.size /\ r.tick = s.ts

\* C06: every STH served verifies: its signature was made over the tree head it carries - also after requests that
\* failed at the signer or at the backend, on every front end
STHVerifies == \A s \in sths : s.sig = [size |-> s.size, ts |-> s.ts]

\* the same two, said of the step that serves the STH (so that an exhaustive check need not carry the histories):
\* it carries the backend's tree head as it is when the request is served and a signature over exactly that head
STHStep == [][(hist' # hist /\ last'.op = "GetSTH" /\ last'.reply.status = 200)
                => /\ last'.reply.size = Size /\ last'.reply.ts = rootTs.tick
                   /\ last'.reply.sig = [size |-> last'.reply.size, ts |-> last'.reply.ts]
                   /\ [size |-> Size, tick |-> rootTs.tick] \in roots]_vars

\* what a front end remembers as signed is signed (the inductive reason for STHVerifies)
SignedHeadCoherent == \A f \in FrontEnds : sigc[f].sig = sigc[f].input

\* C01: every SCT for the same certificate carries the same (the first) timestamp
DupStable == \A a, b \in issued : a.cert = b.cert => a.ts = b.ts

\* C01/C06: the stored entry of an issued SCT is (that certificate, that timestamp)
SCTBindsStored == \A x \in issued : stored[x.cert] = x.ts

\* C01: the backend never re-stamps an entry, and the SCT of a duplicate carries the stored timestamp although the
\* clock of the front end that serves it may read anything (earlier than, equal to, later than the stored one)
StoredNeverRestamped == [][\A c \in Certs : stored[c] # None => stored'[c] = stored[c]]_vars
DupIgnoresClock == [][(last'.op = "AddChain" /\ last'.reply.status = 200 /\ last'.reply.dup)
                        => last'.reply.ts = stored[last'.args.cert]]_vars

\* C08: an SCT is handed out only by a submission that answers 200
SCTOnlyOn200 == [][issued' # issued => (last'.op = "AddChain" /\ last'.reply.status = 200)]_vars

\* C06/C08: a request that did not answer 200 leaves nothing in a front end (FailedRequestLeavesNothing)
FailedRequestLeavesNothing ==
  [][(hist' # hist /\ last'.op \notin {"Init", "End"} /\ last'.reply.status \notin {0, 200}) => sigc' = sigc]_vars

\* C06: once sequenced, the certificate of an issued SCT sits at exactly one index
SingleIndex == \A x \in issued : InTree(x.cert) =>
                  Cardinality({i \in 1..Len(tree) : tree[i] = x.cert}) = 1

\* everything integrated was submitted and everything queued is stored
QueueSound == /\ \A i \in 1..Len(tree) : stored[tree[i]] # None
              /\ \A i \in 1..Len(queue) : stored[queue[i]] # None /\ ~InTree(queue[i])

\* C06: two served STHs describe prefixes of one history (by AppendOnly the smaller tree is a prefix
\* of the larger); their timestamps are those of published roots
=============================================================================
