-------------------------------- MODULE CTFE --------------------------------
(***************************************************************************)
(* The CT log front end (trillian/ctfe) over its log backend, as a client  *)
(* sees it: the eight RFC 6962 endpoints as actions over an append-only    *)
(* backend that de-duplicates submissions and integrates them in batches.  *)
(*                                                                         *)
(* Abstraction.  A submission is identified by its leaf certificate        *)
(* (c \in Certs); Kind[c] says whether it is an X.509 certificate or a     *)
(* precertificate.  The log entry of a stored submission is the pair       *)
(* (certificate, timestamp); hashes, signatures, DER and TLS bytes are     *)
(* re-attached by the harness (real keys, independent RFC 6962 encoders    *)
(* and Merkle tree).  Time is a tick counter; a backend root carries a     *)
(* nanosecond timestamp (tick, remainder) which the front end must         *)
(* truncate to the tick (milliseconds in the implementation).              *)
(***************************************************************************)
EXTENDS Integers, Sequences, FiniteSets, TLC

CONSTANTS
  Certs,       \* leaf certificates that may be submitted
  Precerts,    \* the subset that are precertificates
  MaxClock,    \* the clock runs 0..MaxClock
  MaxTree      \* sequencing stops at this tree size

None == -1   \* (TLC cannot compare a string with a number)
Kind(c) == IF c \in Precerts THEN "precert" ELSE "x509"
Endpoints == {"add-chain", "add-pre-chain"}
Rems == {0, 999999}   \* sub-millisecond remainder classes of a root timestamp

VARIABLES
  now,      \* clock tick
  stored,   \* [Certs -> tick or None]: the backend's de-duplication table (leaf by identity hash)
  queue,    \* Seq(Certs): queued, not yet integrated
  tree,     \* Seq(Certs): integrated leaves, append-only
  rootTs,   \* [tick, rem]: timestamp of the published root (nanoseconds in the implementation)
  issued,   \* set of [cert, ts]: SCTs handed out (history)
  sths,     \* set of [size, ts]: STHs served (history)
  roots,    \* set of [size, tick]: roots the backend published (history)
  hist, last

bvars == <<now, stored, queue, tree, rootTs>>
vars == <<now, stored, queue, tree, rootTs, issued, sths, roots, hist, last>>

Size == Len(tree)
IndexOf(c) == CHOOSE i \in 1..Len(tree) : tree[i] = c      \* 1-based; only when c is in the tree
InTree(c) == \E i \in 1..Len(tree) : tree[i] = c
Entry(i) == [cert |-> tree[i], ts |-> stored[tree[i]]]     \* the stored log entry at 0-based index i-1

Step(op, args, reply) == [op |-> op, args |-> args, reply |-> reply, pre |-> [size |-> Size, queued |-> Len(queue), now |-> now]]
Record(s) == /\ last' = s
             /\ hist' = Append(hist, s)

Init == /\ now = 0
        /\ stored = [c \in Certs |-> None]
        /\ queue = <<>>
        /\ tree = <<>>
        /\ rootTs = [tick |-> 0, rem |-> 0]
        /\ issued = {}
        /\ sths = {}
        /\ roots = {[size |-> 0, tick |-> 0]}
        /\ hist = <<>>
        /\ last = [op |-> "Init"]

(* ---------------- environment ---------------- *)
Tick == /\ now < MaxClock
        /\ now' = now + 1
        /\ UNCHANGED <<stored, queue, tree, rootTs, issued, sths, roots>>
        /\ Record(Step("Tick", [x |-> 0], [status |-> 0]))

\* the backend integrates the first k queued leaves and publishes a root stamped with its clock
Sequence(k, rem) ==
  /\ k \in 1..Len(queue)
  /\ Len(tree) + k <= MaxTree
  /\ tree' = tree \o SubSeq(queue, 1, k)
  /\ queue' = SubSeq(queue, k + 1, Len(queue))
  /\ rootTs' = [tick |-> now, rem |-> rem]
  /\ roots' = roots \cup {[size |-> Len(tree) + k, tick |-> now]}
  /\ UNCHANGED <<now, stored, issued, sths>>
  /\ Record(Step("Sequence", [k |-> k, rem |-> rem], [status |-> 0]))

\* the backend re-issues its root for an unchanged tree with a fresh timestamp (Trillian signs a new root
\* when the previous one gets old); the front end must serve the new timestamp under a signature over it
Resign(rem) ==
  /\ rootTs.tick < now
  /\ rootTs' = [tick |-> now, rem |-> rem]
  /\ roots' = roots \cup {[size |-> Len(tree), tick |-> now]}
  /\ UNCHANGED <<now, stored, queue, tree, issued, sths>>
  /\ Record(Step("Resign", [rem |-> rem], [status |-> 0]))

(* ---------------- submission (C01) ---------------- *)
AddChain(c, ep) ==
  LET matches == (ep = "add-pre-chain") = (Kind(c) = "precert")
      ts == IF stored[c] # None THEN stored[c] ELSE now     \* a duplicate repeats the stored timestamp
  IN IF ~matches
     THEN /\ UNCHANGED <<now, stored, queue, tree, rootTs, issued, sths, roots>>
          /\ Record(Step("AddChain", [cert |-> c, ep |-> ep], [status |-> 400]))
     ELSE /\ stored' = [stored EXCEPT ![c] = ts]
          /\ queue' = IF stored[c] = None THEN Append(queue, c) ELSE queue
          /\ issued' = issued \cup {[cert |-> c, ts |-> ts]}
          /\ UNCHANGED <<now, tree, rootTs, sths, roots>>
          /\ Record(Step("AddChain", [cert |-> c, ep |-> ep],
                         [status |-> 200, ts |-> ts, dup |-> stored[c] # None]))

(* ---------------- reads (C06, C07) ---------------- *)
GetSTH ==
  /\ sths' = sths \cup {[size |-> Size, ts |-> rootTs.tick]}
  /\ UNCHANGED <<now, stored, queue, tree, rootTs, issued, roots>>
  /\ Record(Step("GetSTH", [x |-> 0], [status |-> 200, size |-> Size, ts |-> rootTs.tick]))

\* first = 0 is answered with an empty proof without consulting the backend
GetConsistency(f, s) ==
  LET reply == IF f > s THEN [status |-> 400]
               ELSE IF f = 0 THEN [status |-> 200, proof |-> "empty"]
               ELSE IF s > Size THEN [status |-> 400]
               ELSE [status |-> 200, proof |-> "cons"]       \* the consistency proof between prefixes f and s
  IN /\ UNCHANGED <<now, stored, queue, tree, rootTs, issued, sths, roots>>
     /\ Record(Step("GetConsistency", [first |-> f, second |-> s], reply))

\* the hash is the one a client computes from certificate c and an SCT with timestamp t
GetProofByHash(c, t, n) ==
  LET reply == IF n < 1 THEN [status |-> 400]
               ELSE IF n > Size THEN [status |-> 404]
               ELSE IF InTree(c) /\ stored[c] = t /\ IndexOf(c) <= n
                    THEN [status |-> 200, index |-> IndexOf(c) - 1]
                    ELSE [status |-> 404]
  IN /\ UNCHANGED <<now, stored, queue, tree, rootTs, issued, sths, roots>>
     /\ Record(Step("GetProofByHash", [cert |-> c, ts |-> t, size |-> n], reply))

GetEntries(s, e) ==
  LET reply == IF s > e THEN [status |-> 400]
               ELSE IF s >= Size THEN [status |-> 400]
               ELSE [status |-> 200,
                     entries |-> [i \in 1..((IF e < Size THEN e ELSE Size - 1) - s + 1) |-> Entry(s + i)]]
  IN /\ UNCHANGED <<now, stored, queue, tree, rootTs, issued, sths, roots>>
     /\ Record(Step("GetEntries", [start |-> s, end |-> e], reply))

GetEntryAndProof(i, n) ==
  LET reply == IF n < 1 \/ i >= n THEN [status |-> 400]
               ELSE IF n > Size THEN [status |-> 400]
               ELSE [status |-> 200, entry |-> Entry(i + 1)]
  IN /\ UNCHANGED <<now, stored, queue, tree, rootTs, issued, sths, roots>>
     /\ Record(Step("GetEntryAndProof", [index |-> i, size |-> n], reply))

GetRoots ==
  /\ UNCHANGED <<now, stored, queue, tree, rootTs, issued, sths, roots>>
  /\ Record(Step("GetRoots", [x |-> 0], [status |-> 200]))

Sizes == 0..(MaxTree + 1)
Next ==
  \/ Tick
  \/ \E k \in 1..MaxTree, r \in Rems : Sequence(k, r)
  \/ \E r \in Rems : Resign(r)
  \/ \E c \in Certs, ep \in Endpoints : AddChain(c, ep)
  \/ GetSTH
  \/ \E f \in Sizes, s \in Sizes : GetConsistency(f, s)
  \/ \E c \in Certs, t \in 0..MaxClock, n \in Sizes : GetProofByHash(c, t, n)
  \/ \E s \in Sizes, e \in Sizes : GetEntries(s, e)
  \/ \E i \in Sizes, n \in Sizes : GetEntryAndProof(i, n)
  \/ GetRoots

Spec == Init /\ [][Next]_vars

(* ---------------- properties ---------------- *)
IsPrefix(a, b) == Len(a) <= Len(b) /\ \A i \in 1..Len(a) : a[i] = b[i]

TypeOK == /\ now \in 0..MaxClock
          /\ \A c \in Certs : stored[c] \in (0..MaxClock) \cup {None}
          /\ Len(tree) <= MaxTree

\* C06: the history only grows
AppendOnly == [][IsPrefix(tree, tree')]_vars

\* C06: an STH reports the backend's tree size and its timestamp truncated to the tick
STHFaithful == \A s \in sths : \E r \in roots : r.size = s.size /\ r.tick = s.ts

\* C01: every SCT for the same certificate carries the same (the first) timestamp
DupStable == \A a, b \in issued : a.cert = b.cert => a.ts = b.ts

\* C01/C06: the stored entry of an issued SCT is (that certificate, that timestamp)
SCTBindsStored == \A x \in issued : stored[x.cert] = x.ts

\* C06: once sequenced, the certificate of an issued SCT sits at exactly one index
SingleIndex == \A x \in issued : InTree(x.cert) =>
                  Cardinality({i \in 1..Len(tree) : tree[i] = x.cert}) = 1

\* everything integrated was submitted and everything queued is stored
QueueSound == /\ \A i \in 1..Len(tree) : stored[tree[i]] # None
              /\ \A i \in 1..Len(queue) : stored[queue[i]] # None /\ ~InTree(queue[i])

\* C06: two served STHs describe prefixes of one history (by AppendOnly the smaller tree is a prefix
\* of the larger); their timestamps are those of published roots
=============================================================================
