\* quick tier, history layer: sessions of HDepth validations in one process (run with -simulate)
CONSTANTS
  MaxSize = 4
  FrozenSize = 2
  HDepth = 14
INIT SimInit
NEXT SimNext
INVARIANTS HistLaw ExportWalk
CHECK_DEADLOCK FALSE
