------------------------- MODULE MCChainStorePaging -------------------------
EXTENDS ChainStorePaging, Json
CONSTANTS Depth, Small, SmallLens

\* The tree: entry types x issuance chains x layouts in a period of 9 (prime to 2, 4, 8, 16: every chain, the
\* legacy leaves and both entry types come to lie at every residue of a stripe or block of a response).
\* cA: one intermediate; cB: two RSA intermediates; c0: the empty chain (a trusted root logged alone); cC: another issuer.
\* "full": a leaf written before external storage was switched on (the whole chain in the leaf).
MCPattern == <<[kind |-> "x509", chain |-> "cA", layout |-> "hash"],
               [kind |-> "precert", chain |-> "cB", layout |-> "hash"],
               [kind |-> "x509", chain |-> "cB", layout |-> "hash"],
               [kind |-> "precert", chain |-> "cA", layout |-> "hash"],
               [kind |-> "x509", chain |-> "c0", layout |-> "hash"],
               [kind |-> "x509", chain |-> "cA", layout |-> "full"],
               [kind |-> "precert", chain |-> "cC", layout |-> "hash"],
               [kind |-> "x509", chain |-> "cC", layout |-> "hash"],
               [kind |-> "precert", chain |-> "cB", layout |-> "full"]>>
\* the exhaustive instances: two chains in a period of 3 (quick), three chains in a period of 5 (thorough)
MCPatternSmall == <<[kind |-> "x509", chain |-> "cA", layout |-> "hash"],
                    [kind |-> "precert", chain |-> "cB", layout |-> "hash"],
                    [kind |-> "x509", chain |-> "cA", layout |-> "full"]>>
MCPatternMid == <<[kind |-> "x509", chain |-> "cA", layout |-> "hash"],
                  [kind |-> "precert", chain |-> "cB", layout |-> "hash"],
                  [kind |-> "x509", chain |-> "c0", layout |-> "hash"],
                  [kind |-> "x509", chain |-> "cA", layout |-> "full"],
                  [kind |-> "precert", chain |-> "cA", layout |-> "hash"]>>

\* Lengths.  Where an implementation changes its way of working with the length of a response (a threshold, a batch or
\* stripe size) is not known to the specification: the classes are laid around the powers of two and some multiples
\* of four (+- 1..3: every residue of 2, 3, 4 on both sides), round decimal sizes, the limit and the whole tree.
Near(S, d) == {s + e : s \in S, e \in (0 - d)..d}
Pow2 == {1, 2, 4, 8, 16, 32, 64, 128, 256, 512}
MCLens == IF Small THEN SmallLens
          ELSE {n \in Near(Pow2, 3) \cup Near({12, 20, 48, 100, 200}, 3) \cup {50, 75, 150, 250} \cup Near({MaxPage}, 2)
                          \cup {MaxPage + 30, TreeSize, 1000} : n >= 1 /\ (n <= TreeSize \/ n \in {MaxPage + 30, 1000})}
\* Starts: aligned, unaligned, deep in the tree, ending exactly at the head, running over the head (the last, partial
\* page: 1, 2, 3, 7 leaves short), the last leaf
MCStartSet(want) == IF Small THEN 0..TreeSize - 1
                    ELSE {s \in {0, 1, 2, 3, 5, 32, 33, 64, 67, 100, TreeSize - want - 1, TreeSize - want, TreeSize - want + 1,
                                 TreeSize - want + 2, TreeSize - want + 3, TreeSize - want + 7, TreeSize - 1} : s >= 0 /\ s < TreeSize}

ASSUME Defect = "none" => PartitionCovers

\* cache configurations: noop, LRU without bound, LRU of one entry
MCCaps == {-1, 0, 1}

\* position classes of the leaf that cannot be fixed: first, second, the middle, inside the last few, the last
GPosClasses(n) == {p \in {0, 1, n \div 2, n - 4, n - 3, n - 2, n - 1} : p >= 0 /\ p < n}
GPosSmall(n) == {p \in {0, n \div 2, n - 1} : p >= 0 /\ p < n}

Next == PageActions(GarbleClasses, GPosClasses) \/ RestActions(CorruptClasses)
StateView == <<cap, dialect, cache, pending, lost, bad, faults, page>>

\* Exhaustive instances.  A response leaves the resting state (cache, rows) as it is (PageLeavesState) and adds to the
\* detached writes only; the two dimensions are therefore explored one by one:
\* (1) ChainStorePaging.cfg: ONE response of every length x start x plan x worker completion order x unfixable leaf
\*     (one garble class without and one with a lookup would behave alike here: one class) from EVERY resting state
\*     (InitAny: every cache content the configuration allows, at most one damaged row)
InitAny == /\ cap \in Caps /\ dialect \in Dialects
           /\ cache \in {c \in SUBSET Chains : (cap = -1 => c = {}) /\ (cap = 1 => Cardinality(c) <= 1)}
           /\ pending = {} /\ faults = 0 /\ page = None /\ hist = <<>> /\ last = [op |-> "Init"]
           /\ \E d \in {"none", "lost", "bad"}, h \in Chains :      \* (a damaged row and a lost one: one class, alternately)
                /\ d = "bad" => h = CHOOSE x \in Chains : TRUE
                /\ d = "lost" => h # CHOOSE x \in Chains : TRUE
                /\ lost = IF d = "lost" THEN {h} ELSE {}
                /\ bad = [x \in Chains |-> IF d = "bad" /\ x = h THEN "notDER" ELSE "ok"]
NextPage == Len(hist) = 0 /\ PageActions({"garbageExtra"}, GPosSmall)
\* (2) ChainStorePagingHist.cfg: every history of the resting state (detached writes landing, rows lost, damaged and
\*     put back, restarts, single reads) with responses of the lengths the instance's Lens names
NextHist == PageActions({"unknownHash"}, GPosSmall) \/ RestActions({"notDER", "swapped"})
PageLeavesState == [][IsPage(last') => cache' = cache /\ lost' = lost /\ bad' = bad /\ pending \subseteq pending']_vars

End == [op |-> "End"]
Finish == page = None /\ Len(hist) = Depth /\ hist' = Append(hist, End)
          /\ UNCHANGED <<cap, dialect, cache, pending, lost, bad, faults, page, last>>
ExportFinished == (Len(hist) = Depth + 1) =>
                     PrintT(<<"BEH", ToJson([cap |-> cap, dialect |-> dialect, tree |-> TreeSize, maxPage |-> MaxPage,
                                            pattern |-> Pattern, steps |-> SubSeq(hist, 1, Depth)])>>)

Draw(S) == RandomElement(S)
DrawGarble(n) == IF RandomElement(1..6) = 1 THEN [pos |-> RandomElement(GPosClasses(n)), class |-> RandomElement(GarbleClasses)] ELSE NoGarble
SimRequest ==
  \E want \in {Draw(Lens)} : \E s \in {Draw(StartSet(want))} : \E plan \in {Draw(Plans)} : \E g \in {DrawGarble(Count(s, want))} :
     IF g = NoGarble /\ RandomElement(1..12) = 1
     THEN Request(s, want, plan, g, TRUE) \/ Request(s, want, plan, g, FALSE)
     ELSE Request(s, want, plan, g, FALSE)

SimNext ==
  \/ Finish
  \/ /\ Len(hist) < Depth
     /\ IF page # None
        THEN IF page.finished # 1..page.plan.w THEN \E w \in {Draw((1..page.plan.w) \ page.finished)} : Work(w) ELSE Respond
        \* a damaged row is put back soon (most responses should meet intact rows)
        ELSE IF (\E h \in Chains : Damaged(h)) /\ RandomElement(1..5) <= 2 THEN \E h \in {Draw({x \in Chains : Damaged(x)})} : Repair(h)
        ELSE \E kind \in {RandomElement(1..24)} :
             CASE kind \in 1..14 -> SimRequest
               [] kind \in 15..18 -> IF pending # {} /\ cap # -1 THEN \E h \in {Draw(pending)} : Fire(h) ELSE SimRequest
               [] kind = 19 -> IF faults < MaxFaults /\ \E h \in Chains : ~Damaged(h)
                               THEN \E h \in {Draw({x \in Chains : ~Damaged(x)})} : DropRow(h) ELSE SimRequest
               [] kind = 20 -> IF faults < MaxFaults /\ \E h \in Chains : ~Damaged(h)
                               THEN \E h \in {Draw({x \in Chains : ~Damaged(x)})}, c \in {Draw(CorruptClasses)} : Corrupt(h, c) ELSE SimRequest
               [] kind = 21 -> IF cache # {} \/ pending # {} THEN Restart ELSE SimRequest
               [] OTHER -> \E i \in {Draw(0..TreeSize - 1)}, v \in {Draw({"entries", "proof"})} : Read(i, v)
=============================================================================
