\* NEGATIVE instance: a log that pins the clock of its first request (the options written through a pointer); TLC must
\* report JudgedAlone violated
CONSTANTS
  Depth = 1
  Steps = 0
  LogIds = {1, 2}
  MaxClock = 6
  Memory = "pinFirstClock"
  Configs <- SmallConfigs
  WalkChains <- SmallChains
  StartClocks <- SmallStarts
INIT SmallInit
NEXT SmallNext
VIEW SmallView
INVARIANTS JudgedAlone
CHECK_DEADLOCK FALSE
