\* MaxWord = 22807: 2^63-1-7807 is divisible by 3000 = lcm(1,2,3,4,1000)
CONSTANTS
  MaxWord = 22807
  Maxes = {1, 2, 3, 4, 5, 8, 10, 1000}
  K = 6
INIT Init
NEXT Next
INVARIANTS Laws CodeEqSpec
CHECK_DEADLOCK FALSE
