------------------------ MODULE GetEntriesRangeInt ------------------------
(***************************************************************************)
(* The range computation of get-entries (C07) on TRUE 64-bit integers,     *)
(* for Apalache (SMT, unbounded integers): the same word arithmetic as     *)
(* GetEntriesRange.tla!CodeRange, but with the real modulus 2^64 instead   *)
(* of the scaled word TLC needs.  Apalache checks the laws of the property *)
(* text for ALL int64 start / end (symbolically, --length=0: every initial *)
(* state) for one batch size per run (Max is fixed by a CInit predicate so *)
(* that % Max stays linear arithmetic).                                    *)
(*                                                                         *)
(* The W* predicates are witness classes: `--inv=NotW<k>` makes Apalache   *)
(* return a concrete int64 request of that class, which the driver sends   *)
(* to the real get-entries handler (expected range computed from the       *)
(* property text with Python's unbounded integers).                        *)
(*                                                                         *)
(* OldCount is the computation before the repair of the overflow defect    *)
(* (32d76eb): Apalache reports start=0, end=2^63-1 for it.                 *)
(***************************************************************************)
EXTENDS Integers

CONSTANT
  \* @type: Int;
  Max

VARIABLES
  \* @type: Int;
  start,
  \* @type: Int;
  end,
  \* @type: Bool;
  align

Two62 == 4611686018427387904
Two63 == 9223372036854775808
Two64 == 18446744073709551616
MaxInt == Two63 - 1
MinInt == -Two63

Wrap(x) == ((x + Two63) % Two64) - Two63
\* Go's % truncates toward zero (sign of the dividend)
GoMod(a, b) == IF a >= 0 THEN a % b ELSE -((-a) % b)

Valid == ~(start < 0 \/ end < 0 \/ start > end)

\* parseGetEntriesRange + the count computation of getEntries, every intermediate result wrapped to int64
CodeCount ==
  LET span == Wrap(end - start)
      end1 == IF span >= Max THEN Wrap(Wrap(start + Max) - 1) ELSE end
      span1 == IF span >= Max THEN Max - 1 ELSE span
      end2 == IF align /\ span1 >= Max - 1
              THEN Wrap(end1 - GoMod(Wrap(GoMod(end1, Max) + 1), Max))
              ELSE end1
  IN Wrap(Wrap(end2 + 1) - start)

OldCount ==
  LET count == Wrap(Wrap(end - start) + 1)
      end1 == IF count > Max THEN Wrap(Wrap(start + Max) - 1) ELSE end
      end2 == IF align /\ count >= Max
              THEN Wrap(end1 - GoMod(Wrap(end1 + 1), Max))
              ELSE end1
  IN Wrap(Wrap(end2 + 1) - start)

CInit1 == Max = 1
CInit2 == Max = 2
CInit3 == Max = 3
CInit4 == Max = 4
CInit5 == Max = 5
CInit7 == Max = 7
CInit10 == Max = 10
CInit64 == Max = 64
CInit256 == Max = 256
CInit1000 == Max = 1000
CInit1024 == Max = 1024
CInit65535 == Max = 65535
CInit2147483647 == Max = 2147483647
CInitTwo62 == Max = Two62
CInitMaxInt == Max = MaxInt

Init == /\ start \in Int /\ start >= MinInt /\ start <= MaxInt
        /\ end \in Int /\ end >= MinInt /\ end <= MaxInt
        /\ align \in BOOLEAN
Next == UNCHANGED <<start, end, align>>

Min(a, b) == IF a < b THEN a ELSE b

\* the property text: a non-empty range that begins at start, ends no later than end, spans at most Max;
\* without alignment (or when fewer than Max are asked for) it is exactly min(asked, Max); alignment coercion
\* ends the range at the last index x <= start+Max-1 with (x+1) % Max = 0 (so it only ever shortens)
Law(cnt) ==
  LET want == end - start + 1
      e1 == Min(end, start + Max - 1) IN
  Valid =>
     /\ cnt >= 1
     /\ cnt <= Max
     /\ start + cnt - 1 <= end
     /\ (~align \/ want < Max) => cnt = Min(want, Max)
     /\ (align /\ want >= Max) => /\ (start + cnt) % Max = 0
                                  /\ start + cnt - 1 + Max > e1
LawNew == Law(CodeCount)
LawOld == Law(OldCount)

(* ---------------- witness classes (negated as "invariants") ---------------- *)
Want == end - start + 1
NotW01 == ~(Valid /\ start = 0 /\ end = MaxInt)
NotW02 == ~(Valid /\ start = MaxInt /\ end = MaxInt)
NotW03 == ~(Valid /\ start > Two62 /\ Want = Max)
NotW04 == ~(Valid /\ start > Two62 /\ Want = Max + 1 /\ align)
NotW05 == ~(Valid /\ start > Two62 /\ Want = Max - 1 /\ align)
NotW06 == ~(Valid /\ start > Two62 /\ Want > Max /\ align /\ start % Max # 0 /\ end < MaxInt)
NotW07 == ~(Valid /\ start > Two62 /\ Want > Max /\ align /\ start % Max = 0)
NotW08 == ~(Valid /\ end = MaxInt /\ Want >= Max /\ align /\ start > 0)
NotW09 == ~(Valid /\ end = MaxInt /\ Want >= Max /\ ~align /\ start > 0)
NotW10 == ~(Valid /\ start < Two62 /\ start > 1000000 /\ end > Two62 + Two62 \div 2 /\ align)
NotW11 == ~(start < 0 /\ end >= 0 /\ start > MinInt)
NotW12 == ~(start = MinInt /\ end = MaxInt)
NotW13 == ~(start >= 0 /\ end >= 0 /\ start > end /\ start > Two62 /\ end > Two62)
NotW14 == ~(start >= 0 /\ end < 0 /\ end > MinInt)
NotW15 == ~(Valid /\ end = MaxInt /\ start = MaxInt - Max + 1 /\ align)
NotW16 == ~(Valid /\ end = MaxInt /\ start = MaxInt - Max /\ align)
=============================================================================
