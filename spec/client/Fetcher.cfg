\* exhaustive safety: every configuration x every short-read length x every interleaving x growth x <= 2 errors
CONSTANTS
  MaxSize = 5
  Workers = {1, 2}
  MaxErrors = 2
  ErrKinds <- OneErr
  KeepHist = FALSE
  Configs <- AllConfigs
  Batches = {1, 2, 3}
  NW = 2
  InitSizes = {0, 1, 2, 3, 4, 5}
  MaxRejects = 0
INIT MCInit
NEXT MCNext
INVARIANTS TypeOK Accounting AtMostOnce NoOutOfRange Complete StopPrefix ContinuousNoGap ErrFetchesNothing
CHECK_DEADLOCK FALSE
