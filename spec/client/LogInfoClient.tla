--------------------------- MODULE LogInfoClient ---------------------------
(***************************************************************************)
(* C06, the second observation point: "client.LogClient and                *)
(* ctutil.LogInfo against that instance", calls "issued sequentially or    *)
(* concurrently".                                                          *)
(*                                                                         *)
(*   "every entry served for index i in a tree of size n comes with a      *)
(*    served audit path that verifies against that tree's root.  Every     *)
(*    certificate for which an SCT was issued is, once sequenced, found by *)
(*    the leaf hash a client computes from the certificate and the SCT     *)
(*    alone, at a single index"                                            *)
(*                                                                         *)
(* One ctutil.LogInfo is SHARED by several goroutines (as in               *)
(* ctutil/sctscan, where parallel matchers share one LogInfo per log)      *)
(* while the log GROWS.  The LogInfo caches one signed tree head (LastSTH / *)
(* SetSTH); VerifyInclusion fetches a fresh one and caches it,             *)
(* VerifyInclusionLatest uses the cached one (fetching only when there is  *)
(* none), VerifyInclusionAt is given size and root by its caller.  A call  *)
(* is not atomic: Begin, then server round trips (get-sth,                 *)
(* get-proof-by-hash) as separate steps, then Return; the cached STH may   *)
(* be replaced between any two steps of a call by another goroutine.       *)
(*                                                                         *)
(* The log is honest and append-only: its n-th certificate is the number   *)
(* n (index n-1), certificate 0 has an SCT but is never sequenced.  An STH *)
(* is [size, tree]: tree "log" is the head of the log at that size (the    *)
(* root is a function of the size), tree "fork" is a head of the same size *)
(* over other leaves (only a caller can bring one in: SetSTH /             *)
(* VerifyInclusionAt).  A call holds the STH it works with (sth); what the *)
(* call verifies the served path against is the root of THAT head.         *)
(*                                                                         *)
(* Laws (from the property text):                                          *)
(*   NeverMissing   a certificate that is in the tree the call's STH       *)
(*                  describes, with the SCT's timestamp, answered by the   *)
(*                  honest path for (index, size), is reported included    *)
(*                  at its real index - whatever other goroutines did to   *)
(*                  the cached STH meanwhile                               *)
(*   SoundIndex     included is reported only for a certificate that is in *)
(*                  that tree, with the honest path, at its real index     *)
(*                  (a path for another index/size, another index, a head  *)
(*                  over other leaves, another timestamp: error)           *)
(*   Forward        heads fetched from the log never run ahead of it and   *)
(*                  only move forward                                      *)
(* NAMED CLAUSES (the property is silent, the code has a definite          *)
(* behaviour):                                                             *)
(*   CacheLaw       (last set wins) the cached STH changes only where a    *)
(*                  call stores one - SetSTH, or a call that fetched a     *)
(*                  head - and to that head: it is whatever was last set   *)
(*   FetchOnlyWhenNeeded  VerifyInclusionLatest asks for an STH only when  *)
(*                  none is cached, and then caches the one it got;        *)
(*                  VerifyInclusion always asks, and caches before it asks *)
(*                  for the path; a failed get-sth leaves the cache alone  *)
(*   HandedOutStable (binding only) an STH object handed out by LastSTH or *)
(*                  given to SetSTH is never written to afterwards         *)
(*                                                                         *)
(* Aliased = TRUE switches a defect on in the MODEL (non-vacuity): a call  *)
(* of VerifyInclusion(Latest) does not hold the root of its own head but   *)
(* looks it up in the cache when the path arrives.  TLC must then refute   *)
(* NeverMissing (LogInfoClientDefect.cfg).                                 *)
(***************************************************************************)
EXTENDS Integers, Sequences, FiniteSets, TLC

CONSTANTS
  Callers,     \* goroutines sharing the LogInfo (1..N)
  MaxSize,     \* the log grows up to MaxSize certificates
  InitSize,    \* ... from InitSize
  MaxCalls,    \* calls begun in one behaviour
  Lies,        \* TRUE: the server may also fail a request or answer get-proof-by-hash with a wrong path / index
  Aliased      \* TRUE: the modelled defect (see above)

VARIABLES
  size,        \* number of certificates sequenced
  cached,      \* the STH the LogInfo holds (NoSTH: none)
  calls,       \* [Callers -> call record]
  budget       \* calls that may still begin

vars == <<size, cached, calls, budget>>

(* ------------------------------------------------------------- values *)
NoSTH == [size |-> -1, tree |-> "none"]
LogHead(n) == [size |-> n, tree |-> "log"]
Fork(n) == [size |-> n, tree |-> "fork"]
STHs == {NoSTH} \cup {LogHead(n) : n \in 0..MaxSize} \cup {Fork(n) : n \in 1..MaxSize}

Ok(i) == [ok |-> TRUE, idx |-> i]
Void == [ok |-> TRUE, idx |-> -1]      \* success of a call that reports no index
Err == [ok |-> FALSE, idx |-> -1]
NoRes == [ok |-> FALSE, idx |-> -2]

Methods == {"VI", "VIL", "VIAt", "Set", "Last", "SCT"}
Incl == {"VI", "VIL", "VIAt"}
Certs == 0..MaxSize
Stamps == {"sct", "other"}          \* the timestamp the caller passes: the SCT's, or another one
SCTs == {"valid", "otherCert"}      \* VerifySCTSignature: the SCT issued for this certificate / for another one
ProofClasses == {"honest", "fail", "badpath", "badindex"}

IdleCall == [m |-> "none", cert |-> 0, ts |-> "sct", arg |-> NoSTH, sct |-> "none", phase |-> "idle",
             sth |-> NoSTH, sc |-> "none", pc |-> "none", res |-> NoRes]

Phases == {"idle", "begin", "wantSTH", "gotSTH", "wantProof", "done"}

TypeOK ==
  /\ size \in InitSize..MaxSize
  /\ cached \in STHs
  /\ budget \in 0..MaxCalls
  /\ \A g \in Callers : LET cl == calls[g] IN
       /\ cl.m \in Methods \cup {"none"} /\ cl.cert \in Certs /\ cl.ts \in Stamps /\ cl.arg \in STHs
       /\ cl.phase \in Phases /\ cl.sth \in STHs
       /\ cl.sc \in {"none", "ok", "fail"} /\ cl.pc \in ProofClasses \cup {"none", "absent"}

Init ==
  /\ size = InitSize
  /\ cached = NoSTH
  /\ calls = [g \in Callers |-> IdleCall]
  /\ budget = MaxCalls

(* --------------------------------------------------------------- steps *)
\* the heads a caller can know of when it begins a call: the log's own up to now, or one over other leaves
KnownHeads == {LogHead(n) : n \in 0..size} \cup {Fork(n) : n \in 1..size}

Begin(g, m, c, ts, arg, sct) ==
  /\ calls[g].phase = "idle" /\ budget > 0
  /\ m \in Methods /\ c \in Certs /\ ts \in Stamps
  /\ CASE m = "VIAt" -> arg \in KnownHeads /\ sct = "none"
       [] m = "Set"  -> arg \in KnownHeads \cup {NoSTH} /\ sct = "none" /\ c = 0 /\ ts = "sct"
       [] m = "Last" -> arg = NoSTH /\ sct = "none" /\ c = 0 /\ ts = "sct"
       [] m = "SCT"  -> arg = NoSTH /\ sct \in SCTs /\ ts = "sct"
       [] OTHER      -> arg = NoSTH /\ sct = "none"
  /\ calls' = [calls EXCEPT ![g] =
       [IdleCall EXCEPT !.m = m, !.cert = c, !.ts = ts, !.arg = arg, !.sct = sct,
          !.phase = CASE m = "VI" -> "wantSTH"        \* asks the log for its head
                      [] m = "VIAt" -> "wantProof"    \* asks for the path at the size it was given
                      [] m = "SCT" -> "done"          \* no shared state, no round trip
                      [] OTHER -> "begin",            \* VIL, Set, Last: touch the cache next
          !.sth = IF m = "VIAt" THEN arg ELSE NoSTH,
          !.res = IF m = "SCT" THEN (IF sct = "valid" THEN Void ELSE Err) ELSE NoRes]]
  /\ budget' = budget - 1
  /\ UNCHANGED <<size, cached>>

\* VerifyInclusionLatest reads the cache (LastSTH)
ReadCache(g) ==
  /\ calls[g].m = "VIL" /\ calls[g].phase = "begin"
  /\ calls' = [calls EXCEPT ![g] = IF cached = NoSTH THEN [@ EXCEPT !.phase = "wantSTH"]
                                   ELSE [@ EXCEPT !.phase = "wantProof", !.sth = cached]]
  /\ UNCHANGED <<size, cached, budget>>

\* SetSTH / LastSTH take effect
Lin(g) ==
  /\ calls[g].m \in {"Set", "Last"} /\ calls[g].phase = "begin"
  /\ IF calls[g].m = "Set"
     THEN /\ cached' = calls[g].arg
          /\ calls' = [calls EXCEPT ![g].phase = "done", ![g].res = Void]
     ELSE /\ UNCHANGED cached
          /\ calls' = [calls EXCEPT ![g].phase = "done", ![g].res = Void, ![g].sth = cached]
  /\ UNCHANGED <<size, budget>>

\* the log answers get-sth: its head NOW
ServeSTH(g, cls) ==
  /\ calls[g].phase = "wantSTH"
  /\ cls \in {"ok"} \cup (IF Lies THEN {"fail"} ELSE {})
  /\ calls' = [calls EXCEPT ![g] = IF cls = "ok" THEN [@ EXCEPT !.phase = "gotSTH", !.sth = LogHead(size), !.sc = "ok"]
                                   ELSE [@ EXCEPT !.phase = "done", !.sc = "fail", !.res = Err]]
  /\ UNCHANGED <<size, cached, budget>>

\* the call caches the head it fetched (SetSTH), then asks for the path at that size
Store(g) ==
  /\ calls[g].phase = "gotSTH"
  /\ cached' = calls[g].sth
  /\ calls' = [calls EXCEPT ![g].phase = "wantProof"]
  /\ UNCHANGED <<size, budget>>

\* what the honest log knows about hash (cert, stamp) in its first n leaves
Present(cl) == cl.ts = "sct" /\ cl.cert >= 1 /\ cl.cert <= cl.sth.size /\ cl.sth.size <= size

\* the root the call checks the path against: that of the head it holds (Aliased: looked up in the cache)
RootOf(s) == <<s.size, s.tree>>
RootUsed(cl) == IF Aliased /\ cl.m \in {"VI", "VIL"} /\ cached # NoSTH THEN RootOf(cached) ELSE RootOf(cl.sth)

\* the log answers get-proof-by-hash(hash, n); the call verifies and decides
ServeProof(g, cls) ==
  /\ calls[g].phase = "wantProof"
  /\ cls \in {"honest"} \cup (IF Lies THEN ProofClasses ELSE {})
  /\ LET cl == calls[g]
         n == cl.sth.size
         eff == IF ~Present(cl) THEN "absent" ELSE cls      \* not among the first n leaves (or no such tree): refused
         idx == IF eff = "badindex" THEN cl.cert ELSE cl.cert - 1
         proves == IF eff = "badpath" THEN <<-1, -1>> ELSE <<cl.cert - 1, n>>    \* the (index, size) the path is the path of
         verifies == proves = <<idx, n>> /\ RootUsed(cl) = <<n, "log">>
         res == IF eff \in {"absent", "fail"} THEN Err ELSE IF verifies THEN Ok(idx) ELSE Err
     IN /\ (cls # "honest" => Present(cl))      \* (a refusal is a refusal whatever the server's mood)
        /\ calls' = [calls EXCEPT ![g].phase = "done", ![g].pc = eff, ![g].res = res]
  /\ UNCHANGED <<size, cached, budget>>

Return(g) ==
  /\ calls[g].phase = "done"
  /\ calls' = [calls EXCEPT ![g] = IdleCall]
  /\ UNCHANGED <<size, cached, budget>>

\* a sequencing step of the log
Grow ==
  /\ size < MaxSize
  /\ size' = size + 1
  /\ UNCHANGED <<cached, calls, budget>>

BeginAny(g) ==
  \/ \E m \in {"VI", "VIL"}, c \in Certs, ts \in Stamps : Begin(g, m, c, ts, NoSTH, "none")
  \/ \E c \in Certs, ts \in Stamps, a \in KnownHeads : Begin(g, "VIAt", c, ts, a, "none")
  \/ \E a \in KnownHeads \cup {NoSTH} : Begin(g, "Set", 0, "sct", a, "none")
  \/ Begin(g, "Last", 0, "sct", NoSTH, "none")
  \/ \E c \in Certs, s \in SCTs : Begin(g, "SCT", c, "sct", NoSTH, s)

Internal(g) == ReadCache(g) \/ Lin(g) \/ Store(g) \/ Return(g)
Served(g) == (\E cls \in {"ok", "fail"} : ServeSTH(g, cls)) \/ (\E cls \in ProofClasses : ServeProof(g, cls))

Next == Grow \/ \E g \in Callers : BeginAny(g) \/ Internal(g) \/ Served(g)

Spec == Init /\ [][Next]_vars

(* ---------------------------------------------------------------- laws *)
Finished(cl) == cl.phase = "done" /\ cl.m \in Incl

\* the certificate is in the tree the call's STH describes
Described(cl) == cl.sth.tree = "log" /\ cl.sth.size <= size /\ cl.ts = "sct" /\ cl.cert >= 1 /\ cl.cert <= cl.sth.size

NeverMissing == \A g \in Callers : LET cl == calls[g] IN
  (Finished(cl) /\ Described(cl) /\ cl.pc = "honest") => cl.res = Ok(cl.cert - 1)

SoundIndex == \A g \in Callers : LET cl == calls[g] IN
  (Finished(cl) /\ cl.res.ok) => Described(cl) /\ cl.pc = "honest" /\ cl.res.idx = cl.cert - 1

\* every call that ends has a verdict; a refused / failed round trip is an error
Verdict == \A g \in Callers : LET cl == calls[g] IN
  cl.phase = "done" => /\ cl.res # NoRes
                       /\ (cl.sc = "fail" \/ cl.pc \in {"absent", "fail", "badpath", "badindex"}) => cl.res = Err

CacheNotAhead == cached.size <= size

\* the cache is whatever was last set: it changes only where a call stores, to that call's head
CacheLaw == [][cached' # cached =>
                 \E g \in Callers : \/ calls[g].phase = "gotSTH" /\ cached' = calls[g].sth /\ calls'[g].phase = "wantProof"
                                    \/ calls[g].m = "Set" /\ calls[g].phase = "begin" /\ cached' = calls[g].arg]_vars

\* heads fetched from the log only move forward
Forward == [][size' >= size /\ \A g \in Callers : (calls[g].phase = "wantSTH" /\ calls'[g].phase = "gotSTH") =>
                                                     calls'[g].sth = LogHead(size)]_vars

FetchOnlyWhenNeeded ==
  [][\A g \in Callers : (calls[g].phase # "wantSTH" /\ calls'[g].phase = "wantSTH") =>
        calls'[g].m = "VI" \/ (calls'[g].m = "VIL" /\ cached = NoSTH)]_vars

\* a call that holds a head keeps it until it ends
HeldStable == [][\A g \in Callers : (calls[g].phase = "wantProof" /\ calls'[g].phase \in {"wantProof", "done"}) =>
                                       calls'[g].sth = calls[g].sth]_vars

\* with fair goroutines and a server that answers, every call returns
Fair == /\ \A g \in Callers : WF_vars(Internal(g)) /\ WF_vars(Served(g))
Terminates == \A g \in Callers : (calls[g].phase # "idle") ~> (calls[g].phase = "idle")
=============================================================================
