\* thorough tier, exhaustive: two calls on the representative lists (what one call hands back or moves is untouched by the next)
CONSTANTS
  ShardLists <- MCFewLists
  Deployments <- MCDepFew
  Instants = {0, 1, 2, 3, 4}
  Scenes = {"submit"}
  ChainKinds = {"x509", "precert", "precertPreIssuer"}
  Firsts = {"cert", "lax", "garbage", "none"}
  Statuses = {200, 204, 400, 404, 500}
  FinalClasses = {"valid", "validWithExtensions", "sigByOther", "idOfOther", "validForOther", "sigCorrupt", "sigOverOtherChain", "sigOverOtherType", "sigOverOtherTimestamp", "sigTrailingTLS", "idLen31", "idLen0"}
  RetryStatuses = {408, 429, 503}
  RetryAfterForms = {"zero", "bare"}
  UndecodableBodies = {"notJSON", "wrongType"}
  AfterRetryStatuses = {200, 400}
  MaxAnswers = 2
  MaxCalls = 2
  MaxMult = 8
  RootAnswers = {}
  CtxMayEnd = FALSE
INIT Init
NEXT Next
VIEW StateView
INVARIANTS TypeOK ListsAreWellFormed WindowsPartitionSpan RoutedToOneShard OnlyVerifiedSCT PausesAreLocal RootsUnion
PROPERTIES OnlyFrom200 ErrorsCarryResponse NoPartialResults NoCrossTalk
CHECK_DEADLOCK FALSE
