\* export (thorough): server classes - all retryable statuses, two repetitions
CONSTANTS
  ShardLists <- MCFewLists
  Deployments <- MCDepAll
  Instants = {0, 1, 2, 3, 4}
  Scenes = {"submit"}
  ChainKinds = {"x509", "precert", "precertPreIssuer"}
  Firsts = {"cert", "lax"}
  Statuses = {200, 204, 400, 404, 500}
  FinalClasses = {"valid", "validWithExtensions", "sigByOther", "idOfOther", "validForOther", "sigCorrupt", "sigOverOtherChain", "sigOverOtherType", "sigOverOtherTimestamp", "sigTrailingTLS", "idLen31", "idLen0"}
  RetryStatuses = {408, 429, 503}
  RetryAfterForms = {"zero"}
  UndecodableBodies = {"notJSON", "wrongType", "truncatedJSON", "empty"}
  AfterRetryStatuses = {200, 400}
  MaxAnswers = 3
  MaxCalls = 1
  MaxMult = 8
  RootAnswers = {}
  CtxMayEnd = FALSE
INIT Init
NEXT Next
VIEW ExportView
INVARIANTS ExportCase RoutedToOneShard OnlyVerifiedSCT
CHECK_DEADLOCK FALSE
