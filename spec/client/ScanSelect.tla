----------------------------- MODULE ScanSelect -----------------------------
(***************************************************************************)
(* Which entries a scan owes a callback (shared by Scanner.tla,            *)
(* ScannerFanout.tla, ScanClasses.tla and FetcherTrace.tla).               *)
(*                                                                         *)
(* C16: "the scanner invokes the certificate or precertificate callback    *)
(* exactly once for every entry its matcher selects".  Log CONTENT is a    *)
(* dimension of that statement: real logs are full of (pre-)certificates   *)
(* that are not quite what the standards say.  An entry is described by    *)
(* the DEFECTS its (pre-)certificate carries; a defect belongs to the      *)
(* LAYER at which a reader meets it:                                       *)
(*   "der"    the outer structure (Certificate / TBSCertificate) is BER    *)
(*            that a strict DER decoder refuses and a lenient decoder      *)
(*            reads unambiguously (a padded INTEGER, an empty OID)         *)
(*   "field"  the content of one field breaks that field's own syntax or   *)
(*            profile (an iPAddress of three octets, an empty access       *)
(*            description list, '@' in a PrintableString); the             *)
(*            certificate around it reads                                  *)
(*   "fatal"  no certificate can be read from the bytes at all (cut short, *)
(*            trailing octets, month 13, a SET where a SEQUENCE belongs)   *)
(* Defects of the layers "der" and "field" are TOLERABLE.                  *)
(*                                                                         *)
(* What the reader makes of an entry (ParseClass):                         *)
(*   "clean"    no defect                                                  *)
(*   "nonfatal" tolerable defects only, any number, of one layer or of     *)
(*              several layers at once: the certificate is read, together  *)
(*              with complaints                                            *)
(*   "fatal"    at least one fatal defect (whatever else)                  *)
(* Named clause TolerableComposes: the property does not say what          *)
(* "selects" means for a certificate with defects; the code's reader       *)
(* (x509.ParseCertificate / ParseTBSCertificate, x509.IsFatal) reads every *)
(* certificate whose defects are tolerable one by one, so no COMBINATION   *)
(* of tolerable defects makes an entry unreadable - the class of an entry  *)
(* is a function of whether it has a fatal defect, not of how many         *)
(* complaints the layers add up to.                                        *)
(*                                                                         *)
(* Matcher types: a "matcher" (scanner.Matcher) is asked about the parsed  *)
(* certificate / precertificate, a "leaf" matcher (scanner.LeafMatcher)    *)
(* about the raw leaf.                                                     *)
(*                                                                         *)
(* `wants` is the matcher's verdict on the entry (together with the        *)
(* PrecertOnly option) when it is asked.  A "matcher" cannot be asked about *)
(* a fatally broken entry, so it selects none of those; an entry that      *)
(* parses with non-fatal errors is put to the matcher like a clean one.    *)
(***************************************************************************)
LOCAL INSTANCE Naturals
LOCAL INSTANCE FiniteSets
LOCAL INSTANCE Sequences

(* ------------------------------------------------ the defect catalogue *)
DerDefects   == {"serial-pad", "version-pad", "extid-empty"}
FieldDefects == {"san-ip3", "aia-empty", "sia-empty", "eku-empty", "name-printable"}
FatalDefects == {"cut", "trailing", "time-month13", "outer-set"}
TolerableDefects == DerDefects \cup FieldDefects
AllDefects == TolerableDefects \cup FatalDefects
LayerOf(d) == IF d \in DerDefects THEN "der" ELSE IF d \in FieldDefects THEN "field" ELSE "fatal"

\* the profile of a set of defects: how many of each tolerable layer, whether a fatal one
ProfileOf(ds) == [der |-> Cardinality(ds \cap DerDefects), field |-> Cardinality(ds \cap FieldDefects),
                  fatal |-> ds \cap FatalDefects # {}]
Profiles == [der : 0..2, field : 0..2, fatal : BOOLEAN]

\* what the reader makes of it
ParseClassOf(p) == IF p.fatal THEN "fatal" ELSE IF p.der + p.field = 0 THEN "clean" ELSE "nonfatal"

\* the name of a profile: its layers, "fatal" first ("clean" for none) - what traces and exported worlds carry
Rep(s, n) == IF n = 0 THEN <<>> ELSE IF n = 1 THEN <<s>> ELSE <<s, s>>
RECURSIVE Join(_)
Join(parts) == IF Len(parts) = 1 THEN parts[1] ELSE parts[1] \o "+" \o Join(Tail(parts))
ClassName(p) == LET parts == (IF p.fatal THEN <<"fatal">> ELSE <<>>) \o Rep("der", p.der) \o Rep("field", p.field)
                IN IF parts = <<>> THEN "clean" ELSE Join(parts)

\* the classes the models and worlds use (a class is a profile, written as its name)
ClassProfiles == {p \in Profiles : p.der + p.field <= 3 /\ (p.fatal => p.der + p.field <= 2)}
Classes == {ClassName(p) : p \in ClassProfiles}
\* (a table, so that TLC evaluates the names once)
ClassTable == [cl \in Classes |-> CHOOSE p \in ClassProfiles : ClassName(p) = cl]
ProfileOfClass(class) == ClassTable[class]
ParseClass(class) == ParseClassOf(ProfileOfClass(class))
NonFatalClasses == {cl \in Classes : ParseClass(cl) = "nonfatal"}
FatalClasses == {cl \in Classes : ParseClass(cl) = "fatal"}

MatcherTypes == {"matcher", "leaf"}

IsAsked(class, mtype) == mtype = "leaf" \/ ParseClass(class) # "fatal"
Selected(wants, class, mtype) == wants /\ IsAsked(class, mtype)

(* ------------------------------------------------------------------ laws *)
\* names are unambiguous
ClassNamesLaw == \A p, q \in ClassProfiles : ClassName(p) = ClassName(q) => p = q

\* TolerableComposes: the union of two readable descriptions is readable; a fatal defect is never healed by company
TolerableComposes ==
  \A p, q \in ClassProfiles :
     LET pq == [der |-> p.der + q.der, field |-> p.field + q.field, fatal |-> p.fatal \/ q.fatal] IN
     /\ (ParseClassOf(p) # "fatal" /\ ParseClassOf(q) # "fatal") => ParseClassOf(pq) # "fatal"
     /\ (ParseClassOf(p) = "fatal" \/ ParseClassOf(q) = "fatal") => ParseClassOf(pq) = "fatal"

\* a Matcher-type matcher is asked about exactly the readable entries, a leaf matcher about all
AskedLaw == \A cl \in Classes : /\ IsAsked(cl, "leaf")
                                /\ IsAsked(cl, "matcher") = (ParseClass(cl) \in {"clean", "nonfatal"})
=============================================================================
