----------------------------- MODULE ScanSelect -----------------------------
(***************************************************************************)
(* Which entries a scan owes a callback (shared by Scanner.tla and         *)
(* FetcherTrace.tla).                                                      *)
(*                                                                         *)
(* Entry classes, by how the (pre-)certificate inside the entry parses:    *)
(*   "clean"    without complaint                                          *)
(*   "nonfatal" the parser yields the certificate together with non-fatal  *)
(*              errors only (real logs are full of such certificates)      *)
(*   "fatal"    it is not a certificate at all                             *)
(* Matcher types: a "matcher" (scanner.Matcher) is asked about the parsed  *)
(* certificate / precertificate, a "leaf" matcher (scanner.LeafMatcher)    *)
(* about the raw leaf.                                                     *)
(*                                                                         *)
(* `wants` is the matcher's verdict on the entry (together with the        *)
(* PrecertOnly option) when it is asked.  A "matcher" cannot be asked about *)
(* a fatally broken entry, so it selects none of those; an entry that      *)
(* parses with non-fatal errors is put to the matcher like a clean one.    *)
(***************************************************************************)
Classes == {"clean", "nonfatal", "fatal"}
MatcherTypes == {"matcher", "leaf"}

IsAsked(class, mtype) == mtype = "leaf" \/ class # "fatal"
Selected(wants, class, mtype) == wants /\ IsAsked(class, mtype)
=============================================================================
