----------------------------- MODULE MCScanner -----------------------------
(* Model-checking instance of Scanner: entry i is an X.509 entry when i is even and a precertificate entry when  *)
(* odd; entry classes (ScanSelect.tla) cycle readable with defects of two layers at once / clean / fatal in the  *)
(* company of a tolerable defect / one tolerable defect; the matcher wants every entry whose index is not 1      *)
(* modulo 4; both matcher types are explored (so wanted entries that a Matcher-type matcher is never asked about *)
(* occur).                                                                                                      *)
EXTENDS Scanner

CONSTANTS Batches, NW, InitSizes

MCKind(i) == IF i % 2 = 0 THEN "x509" ELSE "precert"
MCClass(i) == CASE i % 4 = 0 -> "der+field" [] i % 4 = 1 -> "clean" [] i % 4 = 2 -> "fatal+der" [] OTHER -> "field"
ASSUME \A i \in 0..8 : MCClass(i) \in Classes
ASSUME ClassNamesLaw /\ TolerableComposes /\ AskedLaw
MCWants(i) == i % 4 # 1

EffEnd(c) == IF c.end = 0 \/ c.end > c.init THEN c.init ELSE c.end
ScanConfigs == {c \in [start : 0..MaxSize, end : 0..MaxSize, batch : Batches, nw : 1..NW, cont : BOOLEAN, init : InitSizes] :
                  /\ c.end <= c.init
                  /\ c.cont => c.start <= EffEnd(c)}
OneErr == {"5xx"}
=============================================================================
