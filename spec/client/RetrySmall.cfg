\* quick exhaustive: 2 callers sharing one client, scripts <= 3 responses (+ 503 for ever under a context end)
CONSTANTS
  Callers = {1, 2}
  MaxMult = 3
  Base = 1
  J = 2
  MaxLen = 3
  Record = FALSE
  Retain = TRUE
  Starts = {0, 1}
  CtxChoices = {3, 9}
  HCs = {"plain"}
  WireRich = FALSE
  Rich = FALSE
  Sim = FALSE
INIT MCInit
NEXT MCNext
VIEW StateView
INVARIANTS TypeOK CtxResult RetainedOwn OneResultPerCall IdsDistinct
PROPERTIES FirstGood200 RetryOnlyOn OthersImmediate HonoursRetryAfter CapPlusJitter NoDelayOn408 WaitIsBackoffPlusJitter UntilInWindow PendingOnlyExtended MultMonotone NoPostAfterCtx PromptCtxSafe RedirectNotOK SpellingIrrelevant HandedBack ResultsAreValues
CHECK_DEADLOCK FALSE
