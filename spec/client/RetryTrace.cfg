\* trace validation with the constants of the code: time unit 1 ms, cap 2^7 s = 128 s, jitter < 250 ms
CONSTANTS
  Callers = {1, 2, 3}
  MaxMult = 8
  Base = 1000
  J = 250
  MaxLen = 0
  Record = FALSE
INIT TraceInit
NEXT TraceNext
VIEW TraceView
CONSTRAINT HighWater
INVARIANTS TraceTypeOK CtxResult
PROPERTIES TraceClauses
POSTCONDITION TraceAccepted
CHECK_DEADLOCK FALSE
