\* trace validation with the constants of the code: time unit 1 ms, cap 2^7 s = 128 s, jitter < 250 ms
CONSTANTS
  Callers = {1, 2, 3}
  MaxMult = 8
  Base = 1000
  J = 250
  MaxLen = 0
  Record = FALSE
  Retain = TRUE
INIT TraceInit
NEXT TraceNext
VIEW TraceView
CONSTRAINT HighWater
\* RetainedOwn / OneResultPerCall / IdsDistinct are stated at the hand-out in ResultsAreValuesStep (TraceClauses) and in the
\* guard of Post: as invariants they are quadratic in the length of a process history
INVARIANTS TraceTypeOK CtxResult
PROPERTIES TraceClauses
POSTCONDITION TraceAccepted
CHECK_DEADLOCK FALSE
