\* thorough tier, exhaustive: every well-formed list over instants 0..6, answers with and without Retry-After
CONSTANTS
  ShardLists <- MCAllLists
  Deployments <- MCDepFew
  Instants = {0, 1, 2, 3, 4, 5, 6}
  Scenes = {"submit"}
  ChainKinds = {"x509", "precert", "precertPreIssuer"}
  Firsts = {"cert", "lax", "garbage", "none"}
  Statuses = {200, 204, 400, 404, 500}
  FinalClasses = {"valid", "validWithExtensions", "sigByOther", "idOfOther", "validForOther", "sigCorrupt", "sigOverOtherChain", "sigOverOtherType", "sigOverOtherTimestamp", "sigTrailingTLS", "idLen31", "idLen0"}
  RetryStatuses = {408, 429, 503}
  RetryAfterForms = {"zero", "bare"}
  UndecodableBodies = {"notJSON", "wrongType"}
  AfterRetryStatuses = {200, 400}
  MaxAnswers = 2
  MaxCalls = 1
  MaxMult = 8
  RootAnswers = {}
  CtxMayEnd = FALSE
INIT Init
NEXT Next
VIEW StateView
INVARIANTS TypeOK ListsAreWellFormed WindowsPartitionSpan RoutedToOneShard OnlyVerifiedSCT PausesAreLocal RootsUnion
PROPERTIES OnlyFrom200 ErrorsCarryResponse NoPartialResults NoCrossTalk
CHECK_DEADLOCK FALSE
