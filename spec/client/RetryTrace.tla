----------------------------- MODULE RetryTrace -----------------------------
(***************************************************************************)
(* Trace validation for C13 with the constants of the code (time unit ms). *)
(*                                                                         *)
(* The harness runs the real jsonclient / LogClient under virtual time     *)
(* over a scripted RoundTripper and records (in the order of the           *)
(* recorder's mutex; t = virtual ms since the start of the run):           *)
(*   Process {}                  a new process history: nothing has been   *)
(*                               sent, nobody keeps a result               *)
(*   Reset  {hc}                 a new client (a new trace) built on an    *)
(*                               http.Client configured hc, in the same    *)
(*                               process: what earlier clients returned is *)
(*                               still kept by their callers               *)
(*   Call   {c, no, t, ctxat}    caller c starts its no-th submission of   *)
(*                               the process; its context ends at ctxat    *)
(*                               (-1: never)                               *)
(*   Post   {c, t, id, w, sp, rak, rav} the RoundTripper received a request *)
(*                               (exchange id of the process: its body is   *)
(*                               unlike every other's, also in length)      *)
(*                               and answers with wire kind w (a 200 body  *)
(*                               spelled sp); Retry-After form rak: secs   *)
(*                               (rav seconds) | date (rav = the absolute  *)
(*                               instant in ms) | none.  What class the    *)
(*                               submission sees of it is the spec's       *)
(*                               Seen(hc, w, sp), not the harness' say     *)
(*   State  {t, mult, nb}        back-off state read through the verif     *)
(*                               hook when every goroutine was blocked     *)
(*   Return {c, t, res, id}      the submission returned ok | status | ctx *)
(*                               and what it returned (error with status   *)
(*                               and body / raw body, parsed response,     *)
(*                               SCT) IS what the server sent in exchange  *)
(*                               id (0: the context's error; -1: nothing   *)
(*                               the server ever sent)                     *)
(*   Inspect {c, t, seen}        after a return (c) and at the end of a    *)
(*                               client's life (c = 0) the harness looks   *)
(*                               again at EVERY result returned so far in  *)
(*                               the process, which it kept as the caller  *)
(*                               was handed it (the error value, the       *)
(*                               *http.Response, the body slice, the       *)
(*                               parsed struct, the SCT): seen = what each *)
(*                               of them IS now, [c, no, k, id]            *)
(* Everything else (the status switch with backoff.set, reading the        *)
(* not-before instant, the timer, the end of a context) is not observable: *)
(* those are silent steps and TLC searches for a placement.  The jitter of *)
(* a wait is not observable until its timer fires: the wait starts with    *)
(* until = the not-before instant read (StartWait(c, 0)) and the timer may *)
(* fire at until + j for any j in 0..J-1 (FireOK).  Time only moves to the *)
(* instant of the next event and never past a deadline of the model, so a  *)
(* request that comes too early or too late, a return that is not prompt,  *)
(* a wrong result or a wrong shared state leave the trace unexplained.     *)
(***************************************************************************)
EXTENDS Retry, Json, IOUtils

Trace == ndJsonDeserialize(IOEnv.TRACE_FILE)

VARIABLE l        \* next line of Trace to consume

tvars == <<hc, now, mult, notBefore, pc, ctxEnd, ctxDone, until, result, lastResp, n,
           lastPost, minNext, askUntil, hist, callNo, lastId, sent, retained, l>>

Fresh ==
  /\ hc = "plain"
  /\ now = 0 /\ mult = 0 /\ notBefore = 0 /\ askUntil = 0
  /\ pc = [c \in Callers |-> "idle"]
  /\ until = [c \in Callers |-> 0]
  /\ ctxEnd = [c \in Callers |-> NoEnd]
  /\ ctxDone = [c \in Callers |-> FALSE]
  /\ result = [c \in Callers |-> NoRes]
  /\ lastResp = [c \in Callers |-> NoResp]
  /\ n = [c \in Callers |-> 0]
  /\ lastPost = [c \in Callers |-> -1]
  /\ minNext = [c \in Callers |-> 0]
  /\ hist = << >>
  /\ callNo = [c \in Callers |-> 0]
  /\ lastId = [c \in Callers |-> 0]
  /\ sent = {} /\ retained = {}

TraceInit == Fresh /\ l = 1 /\ TLCSet(1, 1)

Ev(name) == l <= Len(Trace) /\ Trace[l].ev = name
Consume == l' = l + 1

\* a new process history
TraceProcess ==
  /\ Ev("Process")
  /\ \A c \in Callers : pc[c] = "idle"
  /\ callNo' = [c \in Callers |-> 0]
  /\ lastId' = [c \in Callers |-> 0]
  /\ sent' = {} /\ retained' = {}
  /\ Consume
  /\ UNCHANGED <<hc, now, mult, notBefore, pc, ctxEnd, ctxDone, until, result, lastResp, n, lastPost, minNext, askUntil, hist>>

\* a new client of the process: the process history goes on
TraceReset ==
  /\ Ev("Reset")
  /\ \A c \in Callers : pc[c] = "idle"
  /\ Trace[l].hc \in HCKinds /\ hc' = Trace[l].hc
  /\ now' = 0 /\ mult' = 0 /\ notBefore' = 0 /\ askUntil' = 0
  /\ Consume
  /\ UNCHANGED <<pc, ctxEnd, ctxDone, until, result, lastResp, n, lastPost, minNext, hist>>
  /\ UNCHANGED hvars

TraceCall ==
  /\ Ev("Call")
  /\ LET e == Trace[l] IN
     /\ e.t = now
     /\ pc[e.c] = "idle"
     /\ pc' = [pc EXCEPT ![e.c] = "posting"]
     /\ ctxEnd' = [ctxEnd EXCEPT ![e.c] = e.ctxat]
     /\ ctxDone' = [ctxDone EXCEPT ![e.c] = FALSE]
     /\ callNo' = [callNo EXCEPT ![e.c] = @ + 1]
     /\ e.no = callNo'[e.c]
  /\ Consume
  /\ UNCHANGED <<hc, now, mult, notBefore, until, result, lastResp, n, lastPost, minNext, askUntil, hist>>
  /\ UNCHANGED <<lastId, sent, retained>>

\* the delay a response asks for, measured at the instant of the response
Ov(e) == IF e.rak = "secs" THEN e.rav * Base ELSE IF e.rak = "date" THEN e.rav - now ELSE 0

TracePost ==
  /\ Ev("Post")
  /\ LET e == Trace[l] IN
     /\ e.t = now
     /\ \E k \in Seen(hc, e.w, e.sp) : Post(e.c, Wire(e.w, e.sp, e.rak, Ov(e)), k, e.id)
  /\ Consume

\* silent: the timer of c's wait fires (at until + j for some jitter j, or at once when that is past)
FireOK(c) == until[c] <= now /\ (now <= until[c] + (J - 1) \/ now = lastPost[c])
TraceFire(c) ==
  /\ Ev("Post") /\ Trace[l].c = c /\ Trace[l].t = now   \* its request is the next event
  /\ FireOK(c)
  /\ TimerFires(c)
  /\ UNCHANGED l

TraceSilent(c) ==
  /\ \/ Decide(c) \/ StartWait(c, 0) \/ CtxEnds(c) \/ CtxReturn(c) \/ PostCtx(c)
  /\ UNCHANGED l

TraceState ==
  /\ Ev("State")
  /\ LET e == Trace[l] IN e.t = now /\ e.mult = mult /\ e.nb = notBefore
  /\ Consume
  /\ UNCHANGED vars

\* the results kept so far, looked at again: each is what was returned
TraceInspect ==
  /\ Ev("Inspect")
  /\ LET e == Trace[l] IN
     /\ e.t = now
     /\ Inspect({[c |-> e.seen[i].c, no |-> e.seen[i].no, k |-> e.seen[i].k, id |-> e.seen[i].id] : i \in DOMAIN e.seen})
  /\ Consume
  /\ UNCHANGED vars

TraceReturn ==
  /\ Ev("Return")
  /\ LET e == Trace[l] IN
     /\ e.t = now
     /\ pc[e.c] = "done" /\ result[e.c].k = e.res
     \* what the caller was handed is the result the specification handed out
     /\ [c |-> e.c, no |-> callNo[e.c], k |-> e.res, id |-> e.id] \in retained
     /\ pc' = [pc EXCEPT ![e.c] = "idle"]
     /\ result' = [result EXCEPT ![e.c] = NoRes]
  /\ Consume
  /\ UNCHANGED <<hc, now, mult, notBefore, ctxEnd, ctxDone, until, lastResp, n, lastPost, minNext, askUntil, hist>>
  /\ UNCHANGED hvars

\* somebody has to move at this instant: time does not pass
TUrgent == \E c \in Callers :
             \/ pc[c] \in {"posting", "decided", "setdone", "done"}
             \/ pc[c] = "waiting" /\ (ctxDone[c] \/ now >= until[c] + (J - 1))
             \/ CtxPending(c) /\ now >= ctxEnd[c]
\* time moves to the instant of the next event, never past a timer's latest instant or a context end
TraceAdvance ==
  /\ l <= Len(Trace) /\ Trace[l].ev \notin {"Reset", "Process"}
  /\ LET t == Trace[l].t IN
     /\ t > now
     /\ ~TUrgent
     /\ \A c \in Callers : pc[c] = "waiting" => t <= until[c] + (J - 1)
     /\ \A c \in Callers : CtxPending(c) => t <= ctxEnd[c]
     /\ now' = t
  /\ UNCHANGED <<hc, mult, notBefore, pc, ctxEnd, ctxDone, until, result, lastResp, n, lastPost, minNext, askUntil, hist, l>>
  /\ UNCHANGED hvars

TraceNext == \/ TraceProcess \/ TraceReset \/ TraceCall \/ TracePost \/ TraceState \/ TraceInspect \/ TraceReturn \/ TraceAdvance
             \/ \E c \in Callers : TraceFire(c) \/ TraceSilent(c)

TraceView == <<hc, now, mult, notBefore, pc, ctxEnd, ctxDone, until, result, lastResp, lastPost, minNext, askUntil, l>>

\* high-water mark of consumed lines
HighWater == TLCSet(1, IF TLCGet(1) < l THEN l ELSE TLCGet(1))

TraceAccepted ==
  IF TLCGet(1) = Len(Trace) + 1 THEN TRUE
  ELSE /\ PrintT(<<"STUCK", ToJson([line |-> TLCGet(1), event |-> Trace[TLCGet(1)]])>>)
       /\ FALSE

\* the clauses of the property on every step the real execution took (a wait's jitter is
\* resolved when its timer fires, so WaitIsBackoffPlusJitter is FireOK here)
TraceTypeOK == TypeOK
TraceClauses ==
  [][(Ev("Reset") /\ l' = l + 1) \/ (Ev("Process") /\ l' = l + 1) \/
     ( /\ FirstGood200Step /\ RetryOnlyOnStep /\ OthersImmediateStep /\ HonoursRetryAfterStep
       /\ CapPlusJitterStep /\ NoDelayOn408Step /\ UntilInWindowStep /\ PendingOnlyExtendedStep
       /\ MultMonotoneStep /\ NoPostAfterCtxStep /\ PromptCtxSafeStep /\ RedirectNotOKStep
       /\ SpellingStep /\ HandedBackStep /\ ResultsAreValuesStep )]_tvars
=============================================================================
