\* thorough: methods x statuses x classes, fresh or replayed from sixteen classes of earlier answers; two calls, one repetition
CONSTANTS
  Statuses = {200, 204, 301, 400, 404, 429, 500}
  RetryStatuses = {408, 429, 503}
  RetryBodies = {"valid", "notJSON"}
  UndecodableBodies = {"wrongType", "empty"}
  AfterRetryStatuses = {200, 204, 301, 400, 404, 500}
  MaxAnswers = 2
  MaxCalls = 2
  CarryLayers = {"http", "json", "signed"}
  X509Chains = {"x509", "x509b"}
  KeyOptions = {"der", "pem", "bothSame", "bothDifferent"}
  ShapeChains = {}
  ProbeClasses = {}
  ReplaySources = {"valid", "validEmptyTree", "validWithExtensions", "sigCorrupt", "sigByOtherKey", "sigOverOtherSize", "sigOverOtherRoot", "sigOverOtherTimestamp", "sigMissing", "idLen0", "logIDForeign", "sigOverOtherChain", "sigOverSTHInput", "sigOverSCTInput", "rootHashLen31", "extBadBase64"}
INIT Init
NEXT Next
VIEW StateView
INVARIANTS TypeOK OnlyVerifiedSTH OnlyVerifiedSCT ConstructionLaw
PROPERTIES OnlyFrom200 ErrorsCarryResponse NoPartialResults NoCreditForHistory
CHECK_DEADLOCK FALSE
