-------------------------- MODULE MCTemporalClient --------------------------
(* Model-checking and export instances of TemporalClient. *)
EXTENDS TemporalClient, Json

\* every well-formed shard list of 1..3 shards whose bounds are instants of the model or absent
MCAllLists == {S \in UNION {[1..n -> Intervals(Instants)] : n \in 1..MaxShards} : WellFormedList(S)}
\* representatives: one bounded shard; two shards, open below; three shards, open above; three bounded shards
Lo == LeastInstant
MCFewLists == { <<Iv(At(Lo + 1), At(Lo + 3))>>,
                <<Iv(NoBound, At(Lo + 1)), Iv(At(Lo + 1), At(Lo + 3))>>,
                <<Iv(At(Lo), At(Lo + 1)), Iv(At(Lo + 1), At(Lo + 2)), Iv(At(Lo + 2), NoBound)>>,
                <<Iv(At(Lo + 1), At(Lo + 2)), Iv(At(Lo + 2), At(Lo + 3)), Iv(At(Lo + 3), At(Lo + 4))>> }
\* the roots scene does not look at windows: one list per length
MCListPerLength == { <<Iv(NoBound, NoBound)>>,
                     <<Iv(NoBound, At(Lo + 1)), Iv(At(Lo + 1), NoBound)>>,
                     <<Iv(NoBound, At(Lo + 1)), Iv(At(Lo + 1), At(Lo + 2)), Iv(At(Lo + 2), NoBound)>> }
MCThreeShards == { <<Iv(At(Lo), At(Lo + 1)), Iv(At(Lo + 1), At(Lo + 2)), Iv(At(Lo + 2), NoBound)>> }

ASSUME \A S \in MCAllLists \cup MCFewLists \cup MCListPerLength : ConstructorAccepts(S)

\* exhaustive check: history variables do not distinguish states
StateView == <<cfg, call, reqs, mult, Returned, ncalls>>

(* --- export --- *)
B(b) == IF b.p THEN b.v ELSE -1
CfgJson == [i \in 1..Len(cfg) |-> <<B(cfg[i].lower), B(cfg[i].upper)>>]

\* every completed single call as one case
ExportView == <<cfg, call, reqs, mult, Returned, ncalls, last>>
ExportCase == (last # None /\ last.k = "submit" /\ ncalls = 1) =>
                 PrintT(<<"TCASE", ToJson([shards |-> CfgJson, step |-> last])>>)
ExportRoots == (last # None /\ last.k = "roots" /\ ncalls = 1) =>
                 PrintT(<<"RCASE", ToJson([shards |-> CfgJson, step |-> last])>>)
\* sequences of submissions (pacing): the whole behaviour
SeqView == <<cfg, call, reqs, mult, Returned, ncalls, last, hist>>
ExportSeq == (last # None /\ ncalls = MaxCalls) => PrintT(<<"TBEH", ToJson([shards |-> CfgJson, steps |-> hist])>>)
=============================================================================
