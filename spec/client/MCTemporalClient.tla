-------------------------- MODULE MCTemporalClient --------------------------
(* Model-checking and export instances of TemporalClient. *)
EXTENDS TemporalClient, Json

\* every well-formed shard list of 1..3 shards whose bounds are instants of the model or absent
MCAllLists == {S \in UNION {[1..n -> Intervals(Instants)] : n \in 1..MaxShards} : WellFormedList(S)}
\* representatives: one bounded shard; two shards, open below; three shards, open above; three bounded shards
Lo == LeastInstant
MCFewLists == { <<Iv(At(Lo + 1), At(Lo + 3))>>,
                <<Iv(NoBound, At(Lo + 1)), Iv(At(Lo + 1), At(Lo + 3))>>,
                <<Iv(At(Lo), At(Lo + 1)), Iv(At(Lo + 1), At(Lo + 2)), Iv(At(Lo + 2), NoBound)>>,
                <<Iv(At(Lo + 1), At(Lo + 2)), Iv(At(Lo + 2), At(Lo + 3)), Iv(At(Lo + 3), At(Lo + 4))>> }
\* the roots scene does not look at windows: one list per length
MCListPerLength == { <<Iv(NoBound, NoBound)>>,
                     <<Iv(NoBound, At(Lo + 1)), Iv(At(Lo + 1), NoBound)>>,
                     <<Iv(NoBound, At(Lo + 1)), Iv(At(Lo + 1), At(Lo + 2)), Iv(At(Lo + 2), NoBound)>> }
MCThreeShards == { <<Iv(At(Lo), At(Lo + 1)), Iv(At(Lo + 1), At(Lo + 2)), Iv(At(Lo + 2), NoBound)>> }

\* deployments: every shard its own base URI and key (the classic one) ...
MCDepClassic == {[uri |-> <<1, 2, 3>>, key |-> <<1, 2, 3>>]}
\* ... and shared ones: one frontend with different keys / one key / a first or middle shard without key; one key behind
\* three frontends; two of three shards behind one frontend; URI shared with one neighbour, key with the other
MCDepOneFrontend == {[uri |-> <<1, 1, 1>>, key |-> <<1, 2, 3>>]}
MCDepShared == MCDepOneFrontend \cup
               {[uri |-> <<1, 1, 1>>, key |-> <<1, 1, 1>>],
                [uri |-> <<1, 2, 3>>, key |-> <<1, 1, 1>>],
                [uri |-> <<1, 1, 1>>, key |-> <<Unkeyed, 2, 3>>],
                [uri |-> <<1, 1, 1>>, key |-> <<1, Unkeyed, 3>>],
                [uri |-> <<1, 2, 1>>, key |-> <<1, 2, 3>>],
                [uri |-> <<1, 2, 2>>, key |-> <<1, 2, 1>>]}
MCDepAll == MCDepClassic \cup MCDepShared
MCDepFew == MCDepClassic \cup MCDepOneFrontend \cup {[uri |-> <<1, 1, 1>>, key |-> <<1, 1, 1>>]}
\* quick tier: the classic one, one frontend with different keys, (exports of the server classes:) one key behind three
\* frontends and a first shard without key behind a shared frontend
MCDepRoute == MCDepClassic \cup MCDepOneFrontend
MCDepQuick == MCDepRoute \cup {[uri |-> <<1, 2, 3>>, key |-> <<1, 1, 1>>], [uri |-> <<1, 1, 1>>, key |-> <<Unkeyed, 2, 3>>]}

ASSUME \A S \in MCAllLists \cup MCFewLists \cup MCListPerLength : ConstructorAccepts(S)

\* exhaustive check: history variables do not distinguish states
StateView == <<cfg, dep, call, reqs, mult, Returned, ncalls>>

(* --- export --- *)
B(b) == IF b.p THEN b.v ELSE -1
CfgJson == [i \in 1..Len(cfg) |-> <<B(cfg[i].lower), B(cfg[i].upper)>>]

\* every completed single call as one case
ExportView == <<cfg, dep, call, reqs, mult, Returned, ncalls, last>>
ExportCase == (last # None /\ last.k = "submit" /\ ncalls = 1) =>
                 PrintT(<<"TCASE", ToJson([shards |-> CfgJson, dep |-> dep, step |-> last])>>)
ExportRoots == (last # None /\ last.k = "roots" /\ ncalls = 1) =>
                 PrintT(<<"RCASE", ToJson([shards |-> CfgJson, dep |-> dep, step |-> last])>>)
\* sequences of submissions (pacing): the whole behaviour
SeqView == <<cfg, dep, call, reqs, mult, Returned, ncalls, last, hist>>
ExportSeq == (last # None /\ ncalls = MaxCalls) => PrintT(<<"TBEH", ToJson([shards |-> CfgJson, dep |-> dep, steps |-> hist])>>)
=============================================================================
