-------------------------- MODULE ScannerFanoutMC --------------------------
(* Instances of ScannerFanout: the log content, the case spaces (exhaustive laws, a deterministic cover of the     *)
(* (batch length, matcher workers, channel capacity) classes, seeded random draws from the full product).         *)
EXTENDS ScannerFanout, Json

CONSTANTS Sizes, Starts, Ends, Batches, Caps, Aligns, NMs, Bufs, NFs,
          LawBatches   \* the batch sizes of the exhaustive law check (the cover and the random draws use Batches)

\* the log: kinds in pairs (the second dozen the other way round), the classes of ScanSelect.tla with period 12 (readable
\* with one defect, with several of one layer, with defects of both layers at once; fatal alone and in tolerable
\* company), subject families in triples
MCKind(i) == IF ((i \div 2) + (i \div 12)) % 2 = 1 THEN "precert" ELSE "x509"
MCClass(i) == <<"clean", "der", "field", "der+field", "fatal", "clean", "field+field", "der+der", "fatal+der+field",
                "der+field+field", "der+der+field", "fatal+field">>[(i % 12) + 1]
MCFam(i) == IF (i \div 3) % 2 = 0 THEN "alpha" ELSE "beta"
ASSUME \A i \in Indices : MCClass(i) \in Classes
ASSUME ClassNamesLaw /\ TolerableComposes /\ AskedLaw

\* every (class of the log, kind) occurs, among them readable entries with defects of both layers at once; every
\* (kind, family) occurs among the entries a Matcher-type matcher gets to see
ASSUME \A i \in Indices : \A kd \in {"x509", "precert"} : \E j \in Indices : MCClass(j) = MCClass(i) /\ MCKind(j) = kd
ASSUME \A pc \in {"clean", "nonfatal", "fatal"} : \E i \in Indices : ParseClass(MCClass(i)) = pc
ASSUME \E i \in Indices : LET p == ProfileOfClass(MCClass(i)) IN ~p.fatal /\ p.der >= 1 /\ p.field >= 1
ASSUME \A kd \in {"x509", "precert"} : \A fm \in {"alpha", "beta"} :
          \E i \in Indices : ParseClass(MCClass(i)) # "fatal" /\ MCKind(i) = kd /\ MCFam(i) = fm
ASSUME ClassLaw

\* the harness builds its log from this record
ASSUME PrintT(<<"WORLD", ToJson([kind   |-> [i \in 1..WorldSize |-> MCKind(i - 1)],
                                 class  |-> [i \in 1..WorldSize |-> MCClass(i - 1)],
                                 fam    |-> [i \in 1..WorldSize |-> MCFam(i - 1)]])>>)

Pols == {[pol |-> "full", k |-> 0], [pol |-> "half", k |-> 0]}
          \cup {[pol |-> "cap", k |-> k] : k \in Caps} \cup {[pol |-> "align", k |-> k] : k \in Aligns}

Case(size, start, end, batch, p, nf, nm, buf, matcher, ponly) ==
  [size |-> size, start |-> start, end |-> end, batch |-> batch, pol |-> p.pol, k |-> p.k,
   nf |-> nf, nm |-> nm, buf |-> buf, matcher |-> matcher, ponly |-> ponly]

\* exhaustive: everything the expected outcome depends on (the laws do not mention nf / nm / buf)
LawCases == {Case(sz, st, en, b, p, 1, 1, 0, mt, po) :
               sz \in Sizes, st \in Starts, en \in Ends, b \in LawBatches, p \in Pols, mt \in MatcherNames, po \in BOOLEAN}

\* a cover: every batch length 1..Max(Batches) (and the shorter last batch of the range) against every number of
\* matcher workers, rendezvous and buffered, with a matcher that selects every entry / every entry that parses
Full == [pol |-> "full", k |-> 0]
CoverCases == {Case(WorldSize, 0, 0, b, Full, 1 + ((b + m) % 3), m, bf, IF bf = 0 THEN "every" ELSE "all", FALSE) :
                 b \in Batches, m \in NMs, bf \in {0, 3}}

\* (membership in CoverCases, spelled out: TLC would rebuild the set for every state)
IsCover(x) == /\ x.size = WorldSize /\ x.start = 0 /\ x.end = 0 /\ x.pol = "full" /\ ~x.ponly
              /\ x.batch \in Batches /\ x.nm \in NMs /\ x.buf \in {0, 3}
              /\ x.nf = 1 + ((x.batch + x.nm) % 3) /\ x.matcher = (IF x.buf = 0 THEN "every" ELSE "all")
ASSUME \A x \in CoverCases : IsCover(x)

\* the initial states LawCases \cup CoverCases, without building and sorting the union (the constant Cases stays empty)
MCInit == (c \in LawCases \/ c \in CoverCases) /\ done = FALSE

LawsHold == done => Laws     \* (on the successor: checked by the parallel workers)
ExportCover == (done /\ IsCover(c)) => PrintT(<<"CASE", ToJson(ExportOf(c))>>)

(* ---- simulation: seeded random draws from the full product, one case per behaviour ---- *)
NoCase == Case(-1, 0, 0, 1, Full, 1, 1, 0, "none", FALSE)
Pick(seq) == seq[RandomElement(1..Len(seq))]
SimSizes == <<WorldSize, WorldSize, WorldSize, WorldSize - 1, WorldSize - 5, 13, 6, 1>>
SimMatchers == <<"every", "every", "all", "all", "regex", "even", "odd", "none">>
Half == [pol |-> "half", k |-> 0]

SimInit == c = NoCase /\ done = FALSE
\* (the random parameters are bound once per step; a definition without parameters would be evaluated once per run)
Draw == /\ c.size = -1
        /\ \E ck \in {RandomElement(Caps)}, ak \in {RandomElement(Aligns)} :
             LET pols == <<Full, Full, Half, [pol |-> "cap", k |-> ck], [pol |-> "cap", k |-> ck], [pol |-> "align", k |-> ak]>> IN
             c' = Case(Pick(SimSizes), RandomElement(Starts), RandomElement(Ends), RandomElement(Batches), Pick(pols),
                       RandomElement(NFs), RandomElement(NMs), RandomElement(Bufs), Pick(SimMatchers), RandomElement(1..4) = 1)
        /\ UNCHANGED done
SimNext == Draw \/ (c.size # -1 /\ Finish)

\* (ReplyLaw depends on the policy and the batch size only and is checked exhaustively)
SimLawsHold == (c.size # -1 /\ done) => CaseOK(c) /\ PartitionLaw(c) /\ FanoutLaw(c)
ExportAll == (done /\ c.size # -1) => PrintT(<<"CASE", ToJson(ExportOf(c))>>)
=============================================================================
