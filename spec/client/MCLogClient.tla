---------------------------- MODULE MCLogClient ----------------------------
(* Model-checking and export instances of LogClient. *)
EXTENDS LogClient, Json

\* exhaustive check: history variables do not distinguish states
StateView == <<config, pending, served, Returned, ncalls>>

(* --- export: every completed call as one case; sequences of calls as behaviours --- *)
\* A first call is represented by (method, verdict, how it ended, whether it was repeated); the LAST call of a
\* behaviour is kept in full, so every (representative prefix, call) pair ends exactly one exported behaviour.
Abstract(s) == IF s = None THEN None ELSE <<s.method, s.expect, s.end, Len(s.answers), s.result.k>>
ExportView == <<config, pending, served, Returned, ncalls, IF ncalls >= MaxCalls THEN last ELSE Abstract(last),
                IF ncalls >= MaxCalls THEN <<>> ELSE [i \in 1..Len(hist) |-> Abstract(hist[i])]>>

\* quick tier: a first call is represented by (kind of method, value or error, repeated or not)
Coarse(s) == IF s = None THEN None ELSE <<Kind(s.method), s.result.k, Len(s.answers) > 1>>
ExportViewCoarse == <<config, pending, served, Returned, ncalls, IF ncalls >= MaxCalls THEN last ELSE Coarse(last),
                      IF ncalls >= MaxCalls THEN <<>> ELSE [i \in 1..Len(hist) |-> Coarse(hist[i])]>>

ExportCase == (last # None /\ ncalls = 1) => PrintT(<<"CASE", ToJson(last)>>)
ExportBehaviour == (last # None /\ ncalls = MaxCalls) => PrintT(<<"BEH", ToJson(hist)>>)

\* the key options matter to the signed endpoints: the others are exported under the two single-option configurations
CaseBound == (pending' # None /\ Kind(pending'.method) = "data") => config \in {"der", "pem"}

\* the entry-decoder cases (a pure table)
ExportEntryCases == (ncalls = 0 /\ pending = None /\ config = CHOOSE c \in KeyOptions : TRUE) =>
   \A c \in EntryClasses : PrintT(<<"ECASE", ToJson([class |-> c, raw |-> EntryExpect[c].raw, parsed |-> EntryExpect[c].parsed])>>)
=============================================================================
