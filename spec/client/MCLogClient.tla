---------------------------- MODULE MCLogClient ----------------------------
(* Model-checking and export instances of LogClient. *)
EXTENDS LogClient, Json

\* exhaustive check: history variables do not distinguish states
StateView == <<config, client, pending, served, Returned, ncalls>>

(* --- export: every completed call as one case; sequences of calls as behaviours --- *)
\* A first call is represented by (method, verdict, how it ended, whether it was repeated); the LAST call of a
\* behaviour is kept in full, so every (representative prefix, call) pair ends exactly one exported behaviour.
Abstract(s) == IF s = None THEN None ELSE <<s.method, s.expect, s.end, Len(s.answers), s.result.k>>
ExportView == <<config, client, pending, served, Returned, ncalls, IF ncalls >= MaxCalls THEN last ELSE Abstract(last),
                IF ncalls >= MaxCalls THEN <<>> ELSE [i \in 1..Len(hist) |-> Abstract(hist[i])]>>

\* quick tier: a first call is represented by (kind of method, value or error, repeated or not)
Coarse(s) == IF s = None THEN None ELSE <<Kind(s.method), s.result.k, Len(s.answers) > 1>>
ExportViewCoarse == <<config, client, pending, served, Returned, ncalls, IF ncalls >= MaxCalls THEN last ELSE Coarse(last),
                      IF ncalls >= MaxCalls THEN <<>> ELSE [i \in 1..Len(hist) |-> Coarse(hist[i])]>>

ExportBehaviour == (last # None /\ ncalls = MaxCalls) => PrintT(<<"BEH", ToJson(hist)>>)

\* every key option / every chain shape of the specification (cfg: KeyOptions <- AllKeyOptions, ShapeChains <- AllShapeChains)
AllKeyOptions == OptionNames
AllShapeChains == ShapeNames
\* The specification's verdicts depend on a key option only through (construction verdict, key verified with, which of the
\* two options are set): one option of every such class
KeyOptionClass(o) == <<Constructs(o), VerifKeyOf(o), Present(o.der), Present(o.pem)>>
RepresentativeKeyOptions == {(CHOOSE o \in OptionList : KeyOptionClass(o) = k).name : k \in {KeyOptionClass(o) : o \in OptionList}}

\* The key options matter to the signed endpoints: the others are exported under the two single-option configurations.
\* A client built from non-standard key material, and a precertificate chain of a non-default shape, are each probed with
\* one 200 answer of every class in ProbeClasses on the signed endpoints (the shapes under the option "der").
FinalAnswer(s) == s.answers[Len(s.answers)]
Probe(s) == s.end = "answered" /\ Len(s.answers) = 1 /\ FinalAnswer(s).status = 200 /\ FinalAnswer(s).class \in ProbeClasses
CaseBound ==
  /\ (pending' # None /\ Kind(pending'.method) = "data") => config.name \in {"der", "pem"}
  /\ config.name \notin BaseKeyOptions =>
        /\ pending' # None => pending'.answers = <<>> /\ pending'.chain \notin ShapeChains
        /\ last' # None => Probe(last')
  /\ (pending' # None /\ pending'.chain \in ShapeChains) => config.name = "der" /\ pending'.answers = <<>>
  /\ (last' # None /\ last'.chain \in ShapeChains) => Probe(last')

\* (TLC evaluates invariants on successors that the action constraint then discards: the guard repeats the bound)
CaseInBound(s) == /\ Kind(s.method) = "data" => s.config \in {"der", "pem"}
                  /\ (s.config \notin BaseKeyOptions \/ s.chain \in ShapeChains) => Probe(s)
                  /\ s.chain \in ShapeChains => s.config = "der"
ExportCase == (last # None /\ ncalls = 1 /\ CaseInBound(last)) => PrintT(<<"CASE", ToJson(last)>>)

\* the construction cases: one per key option (every option has the initial state in which the client exists)
ExportKeyCases == (ncalls = 0 /\ pending = None /\ client = "built") =>
   PrintT(<<"KCASE", ToJson([config |-> config.name, opt |-> OptionInfo(config)])>>)

\* the entry-decoder cases (a pure table)
ExportEntryCases == (ncalls = 0 /\ pending = None /\ client = "built" /\ config.name = CHOOSE c \in KeyOptions : TRUE) =>
   \A c \in EntryClasses : PrintT(<<"ECASE", ToJson([class |-> c, raw |-> EntryExpect[c].raw, parsed |-> EntryExpect[c].parsed])>>)
=============================================================================
