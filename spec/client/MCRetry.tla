------------------------------ MODULE MCRetry ------------------------------
(* Model-checking, liveness and simulation instances of Retry.                              *)
(* The server's script is chosen response by response (the state does not remember it, the  *)
(* history does): the first MaxLen responses of a caller are arbitrary, a caller whose      *)
(* context never ends gets a final (MaxLen-th) response that ends the submission, a caller  *)
(* with a context end gets "503 for ever" after its scripted prefix (infinite scripts).     *)
EXTENDS Retry, Json

CONSTANTS
  Starts,      \* instants at which a caller may start
  CtxChoices,  \* context ends (a context that never ends is always among the choices)
  Rich,        \* BOOLEAN: the larger alphabet of the thorough exhaustive config
  Sim          \* BOOLEAN: weighted alphabet of the simulation config

\* the alphabet of the exhaustive configs (Base = 1: one tick per second)
SmallAlphabet ==
  { Resp("ok", "none", 0), Resp("other", "none", 0), Resp("bad200", "none", 0), Resp("neterr", "none", 0),
    Resp("redir", "none", 0), Resp("s408", "none", 0), Resp("s429", "none", 0), Resp("s503", "none", 0),
    Resp("s503", "secs", 2 * Base), Resp("s429", "date", 3 * Base) }
  \cup (IF Rich THEN { Resp("s503", "secs", 0), Resp("s429", "secs", 6 * Base),
                       Resp("s408", "secs", 5 * Base) }   \* Retry-After on a 408 is not looked at
        ELSE {})

\* simulation (Base = 1000): a sequence, so that RandomElement over its indices is a weighted choice
SimAlphabet ==
  << Resp("ok", "none", 0), Resp("other", "none", 0),
     Resp("bad200", "none", 0), Resp("bad200", "none", 0), Resp("neterr", "none", 0), Resp("neterr", "none", 0),
     Resp("redir", "none", 0), Resp("s408", "none", 0), Resp("s408", "none", 0),
     Resp("s429", "none", 0), Resp("s503", "none", 0), Resp("s503", "none", 0), Resp("s429", "none", 0),
     Resp("s503", "secs", 0), Resp("s503", "secs", 1 * Base), Resp("s429", "secs", 3 * Base),
     Resp("s503", "secs", 7 * Base), Resp("s429", "secs", 200 * Base), Resp("s503", "secs", -2 * Base),
     Resp("s429", "date", 2 * Base), Resp("s503", "date", 5 * Base), Resp("s503", "date", 30 * Base),
     Resp("s408", "secs", 9 * Base) >>
SimSet == {SimAlphabet[i] : i \in 1..Len(SimAlphabet)}

Alphabet == IF Sim THEN SimSet ELSE SmallAlphabet
TailResp == Resp("s503", "none", 0)

RespChoices(c) ==
  IF n[c] >= MaxLen THEN {TailResp}
  ELSE IF n[c] = MaxLen - 1 /\ ctxEnd[c] = NoEnd THEN {r \in Alphabet : r.cls \in Terminal}
  ELSE Alphabet

MCInit ==
  /\ now = 0 /\ mult = 0 /\ notBefore = 0 /\ askUntil = 0
  /\ pc = [c \in Callers |-> "waiting"]
  /\ until \in [Callers -> Starts]
  /\ ctxEnd \in [Callers -> CtxChoices \cup {NoEnd}]
  /\ ctxDone = [c \in Callers |-> FALSE]
  /\ result = [c \in Callers |-> NoRes]
  /\ lastResp = [c \in Callers |-> NoResp]
  /\ n = [c \in Callers |-> 0]
  /\ lastPost = [c \in Callers |-> -1]
  /\ minNext = [c \in Callers |-> 0]
  /\ hist = IF Record THEN << [a |-> "Init", ctx |-> ctxEnd, start |-> until] >> ELSE << >>

MCNext ==
  \/ \E c \in Callers : CallerStep(c) \/ \E r \in RespChoices(c) : Post(c, r)
  \/ Advance

\* exhaustive check: the history does not distinguish states
StateView == <<now, mult, notBefore, pc, ctxEnd, ctxDone, until, result, lastResp, n,
               lastPost, minNext, askUntil>>

LiveSpec == MCInit /\ [][MCNext]_vars /\ \A c \in Callers : WF_vars(CallerStep(c))

(* ---- simulation: one random successor per caller and action, closing step exports ---- *)
AllDone == \A c \in Callers : pc[c] = "done"
End == [a |-> "End"]
Finish ==
  /\ AllDone /\ Record /\ hist[Len(hist)].a # "End"
  /\ hist' = Append(hist, End)
  /\ UNCHANGED <<now, mult, notBefore, pc, ctxEnd, ctxDone, until, result, lastResp, n,
                 lastPost, minNext, askUntil>>
SimResp(c) == IF n[c] >= MaxLen THEN TailResp
              ELSE IF n[c] = MaxLen - 1 /\ ctxEnd[c] = NoEnd
                     THEN RandomElement({r \in SimSet : r.cls \in Terminal})
                     ELSE \* the first response is never one that ends the submission (entries 1, 2)
                          SimAlphabet[RandomElement((IF n[c] = 0 THEN 3 ELSE 1)..Len(SimAlphabet))]
SimNext ==
  \/ \E c \in Callers :
        \/ PostCtx(c) \/ Decide(c) \/ TimerFires(c) \/ CtxEnds(c) \/ CtxReturn(c)
        \/ \E j \in {RandomElement(0..(J - 1))} : StartWait(c, j)
        \/ \E r \in {SimResp(c)} : Post(c, r)
  \/ Advance
  \/ Finish
ExportFinished == (Record /\ Len(hist) > 1 /\ hist[Len(hist)].a = "End") =>
                     PrintT(<<"BEH", ToJson(SubSeq(hist, 1, Len(hist) - 1))>>)
=============================================================================
