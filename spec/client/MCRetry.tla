------------------------------ MODULE MCRetry ------------------------------
(* Model-checking, liveness and simulation instances of Retry.                              *)
(* The server's script is chosen response by response (the state does not remember it, the  *)
(* history does): the first MaxLen responses of a caller are arbitrary, a caller whose      *)
(* context never ends gets a final (MaxLen-th) response that ends the submission, a caller  *)
(* with a context end gets "503 for ever" after its scripted prefix (infinite scripts).     *)
(* The http.Client configuration of the client is chosen once, in the initial state.        *)
EXTENDS Retry, Json

CONSTANTS
  Starts,      \* instants at which a caller may start
  CtxChoices,  \* context ends (a context that never ends is always among the choices)
  HCs,         \* http.Client configurations (a subset of HCKinds)
  Rich,        \* BOOLEAN: the larger alphabet of the thorough exhaustive config
  Sim,         \* BOOLEAN: weighted alphabet of the simulation config
  WireRich     \* BOOLEAN: every wire kind and several spellings (config RetryWire: all http.Client configurations)

ASSUME HCs \subseteq HCKinds

\* shorthands: a 200 with body spelled sp; a wire response without a body spelling
B200(sp) == Wire("b200", sp, "none", 0)
K(w, rak, ov) == Wire(w, NoSpell, rak, ov)

\* the alphabet of the exhaustive configs (Base = 1: one tick per second)
SmallAlphabet ==
  { B200("canon"), K("other", "none", 0), B200("html"), K("neterr", "none", 0),
    K("redir", "none", 0), K("s408", "none", 0), K("s429", "none", 0), K("s503", "none", 0),
    K("s503", "secs", 2 * Base), K("s429", "date", 3 * Base) }
  \cup (IF Rich THEN { K("s503", "secs", 0), K("s429", "secs", 6 * Base),
                       K("s408", "secs", 5 * Base) }   \* Retry-After on a 408 is not looked at
        ELSE {})
  \cup (IF WireRich THEN { B200("solidus"), B200("nested"), B200("nopad"), B200("tailgarbage"),
                           Wire("pres", "canon", "none", 0), Wire("pres", "uescape", "none", 0),
                           Wire("pres", "urlsafe", "none", 0), K("loop", "none", 0) }
        ELSE {})

\* simulation (Base = 1000): a sequence, so that RandomElement over its indices is a weighted choice.  The spellings
\* "ok?" / "bad?" stand for a legal / an illegal spelling drawn when the response is sent (Spelled)
SimAlphabet ==
  << B200("ok?"), K("other", "none", 0),
     B200("bad?"), B200("bad?"), B200("bad?"), K("neterr", "none", 0), K("neterr", "none", 0),
     K("redir", "none", 0), K("redir", "none", 0), K("s408", "none", 0), K("s408", "none", 0),
     Wire("pres", "ok?", "none", 0), Wire("pres", "bad?", "none", 0), K("loop", "none", 0),
     K("s429", "none", 0), K("s503", "none", 0), K("s503", "none", 0), K("s429", "none", 0),
     K("s503", "secs", 0), K("s503", "secs", 1 * Base), K("s429", "secs", 3 * Base),
     K("s503", "secs", 7 * Base), K("s429", "secs", 200 * Base), K("s503", "secs", -2 * Base),
     K("s429", "date", 2 * Base), K("s503", "date", 5 * Base), K("s503", "date", 30 * Base),
     K("s408", "secs", 9 * Base) >>
SimSet == {SimAlphabet[i] : i \in 1..Len(SimAlphabet)}
Spelled(r) == IF r.sp = "ok?" THEN [r EXCEPT !.sp = RandomElement(OkSpell)]
              ELSE IF r.sp = "bad?" THEN [r EXCEPT !.sp = RandomElement(BadSpell)]
              ELSE r

Alphabet == IF Sim THEN SimSet ELSE SmallAlphabet
TailResp == K("s503", "none", 0)
\* wire responses that end a submission through every http.Client
Ending(r) == (r.w = "b200" /\ r.sp \in OkSpell \cup {"ok?"}) \/ r.w = "other"

RespChoices(c) ==
  IF n[c] >= MaxLen THEN {TailResp}
  ELSE IF n[c] = MaxLen - 1 /\ ctxEnd[c] = NoEnd THEN {r \in Alphabet : Ending(r)}
  ELSE Alphabet

MCInit ==
  /\ hc \in HCs
  /\ now = 0 /\ mult = 0 /\ notBefore = 0 /\ askUntil = 0
  /\ pc = [c \in Callers |-> "waiting"]
  /\ until \in [Callers -> Starts]
  /\ ctxEnd \in [Callers -> CtxChoices \cup {NoEnd}]
  /\ ctxDone = [c \in Callers |-> FALSE]
  /\ result = [c \in Callers |-> NoRes]
  /\ lastResp = [c \in Callers |-> NoResp]
  /\ n = [c \in Callers |-> 0]
  /\ lastPost = [c \in Callers |-> -1]
  /\ minNext = [c \in Callers |-> 0]
  /\ hist = IF Record THEN << [a |-> "Init", ctx |-> ctxEnd, start |-> until, hc |-> hc] >> ELSE << >>
  /\ callNo = [c \in Callers |-> 1]
  /\ lastId = [c \in Callers |-> 0]
  /\ sent = {} /\ retained = {}

\* the exchanges of the process are numbered in the order the server answers them
NextId == Cardinality(sent) + 1

MCNext ==
  \/ \E c \in Callers : CallerStep(c) \/ \E r \in RespChoices(c) : \E k \in Seen(hc, r.w, r.sp) : Post(c, r, k, NextId)
  \/ Advance

\* exhaustive check: the history (hist; the process history callNo, lastId, sent, retained, which the clauses of the
\* retained-results layer are evaluated on at every transition) does not distinguish states
StateView == <<hc, now, mult, notBefore, pc, ctxEnd, ctxDone, until, result, lastResp, n,
               lastPost, minNext, askUntil>>

LiveSpec == MCInit /\ [][MCNext]_vars /\ \A c \in Callers : WF_vars(CallerStep(c))

(* ---- simulation: one random successor per caller and action, closing step exports ---- *)
AllDone == \A c \in Callers : pc[c] = "done"
End == [a |-> "End"]
Finish ==
  /\ AllDone /\ Record /\ hist[Len(hist)].a # "End"
  /\ hist' = Append(hist, End)
  /\ UNCHANGED <<hc, now, mult, notBefore, pc, ctxEnd, ctxDone, until, result, lastResp, n,
                 lastPost, minNext, askUntil>>
  /\ UNCHANGED hvars
SimResp(c) == IF n[c] >= MaxLen THEN TailResp
              ELSE IF n[c] = MaxLen - 1 /\ ctxEnd[c] = NoEnd
                     THEN Spelled(RandomElement({r \in SimSet : Ending(r)}))
                     ELSE \* the first response is never one that ends the submission (entries 1, 2)
                          Spelled(SimAlphabet[RandomElement((IF n[c] = 0 THEN 3 ELSE 1)..Len(SimAlphabet))])
SimNext ==
  \/ \E c \in Callers :
        \/ PostCtx(c) \/ Decide(c) \/ TimerFires(c) \/ CtxEnds(c) \/ CtxReturn(c)
        \/ \E j \in {RandomElement(0..(J - 1))} : StartWait(c, j)
        \/ \E r \in {SimResp(c)} : \E k \in {RandomElement(Seen(hc, r.w, r.sp))} : Post(c, r, k, NextId)
  \/ Advance
  \/ Finish
ExportFinished == (Record /\ Len(hist) > 1 /\ hist[Len(hist)].a = "End") =>
                     PrintT(<<"BEH", ToJson(SubSeq(hist, 1, Len(hist) - 1))>>)
=============================================================================
