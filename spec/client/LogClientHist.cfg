\* thorough: sequences of three calls, the server replaying from nine classes of earlier answers
CONSTANTS
  Statuses = {200}
  RetryStatuses = {}
  RetryBodies = {}
  UndecodableBodies = {}
  AfterRetryStatuses = {}
  MaxAnswers = 1
  MaxCalls = 3
  CarryLayers = {"http", "json", "signed"}
  X509Chains = {"x509", "x509b"}
  KeyOptions = {"der"}
  ShapeChains = {}
  ProbeClasses = {}
  ReplaySources = {"valid", "validEmptyTree", "validWithExtensions", "sigCorrupt", "sigByOtherKey", "sigOverOtherSize", "sigOverOtherRoot", "sigOverOtherTimestamp", "sigMissing"}
  HistFresh = {"valid", "validEmptyTree", "validWithExtensions", "sigCorrupt", "sigByOtherKey", "sigOverOtherSize", "sigOverOtherRoot", "sigOverOtherTimestamp", "sigMissing"}
INIT Init
NEXT Next
ACTION_CONSTRAINT HistBound
INVARIANTS TypeOK OnlyVerifiedSTH OnlyVerifiedSCT ConstructionLaw ExportHistory
PROPERTIES OnlyFrom200 ErrorsCarryResponse NoPartialResults NoCreditForHistory
CHECK_DEADLOCK FALSE
