------------------------------ MODULE LogClient ------------------------------
(***************************************************************************)
(* C12 - a log client holding the log key never hands back unverified      *)
(* signed data (client/logclient.go, client/getentries.go,                 *)
(* jsonclient/client.go, types.go, serialization.go, signatures.go).       *)
(*                                                                         *)
(* The environment is an adversarial log server: every request of the      *)
(* client is answered with [status, class], where the class names WHAT the *)
(* body is relative to the well-formed, correctly signed answer (the       *)
(* harness renders each class with real keys, certificates and encodings). *)
(* The client is the ideal RFC 6962 client configured with the log's key:  *)
(* one action per method of client.LogClient.  A submission (add-chain,    *)
(* add-pre-chain) asks again on a retryable status until a final answer    *)
(* arrives or the caller's context expires; every other method asks once.  *)
(*                                                                         *)
(* Abstraction.  A signed answer is described by independent deviations    *)
(* from the valid one (field lengths, the TLS form of the DigitallySigned,  *)
(* who signed, over which data, which id).  "Verifies" is a predicate on   *)
(* that description; the harness re-attaches SHA-256, ECDSA P-256 / RSA    *)
(* 2048 and checks everything the real client returns with std crypto over *)
(* an independent encoding of the SUBMITTED chain.                         *)
(*                                                                         *)
(* History.  The server remembers the signed answers it has given to THIS  *)
(* client (variable served) and may, in any later call, serve one of them   *)
(* again byte for byte, or cut its signature bytes out and attach them to   *)
(* another tree head / another SCT / an answer of the other kind.  A        *)
(* signature "verifies" for what THIS call asked and THIS answer says; that *)
(* an earlier call returned an object with the same bytes proves nothing.   *)
(*                                                                         *)
(* Outcomes are "ok" (a value is returned), "error", or "any" where the    *)
(* property is silent (see Ambiguous below): then only the safety part is  *)
(* demanded - if something is returned it must verify.                     *)
(***************************************************************************)
EXTENDS Integers, Sequences, FiniteSets, TLC

CONSTANTS
  Statuses,            \* HTTP status codes of final answers
  RetryStatuses,       \* exploration bound: the retryable statuses that are sent to submissions
  RetryBodies,         \* exploration bound: body classes sent along with a retryable status
  UndecodableBodies,   \* exploration bound: undecodable 200 bodies after which the repeated request is answered
  AfterRetryStatuses,  \* exploration bound: statuses of an answer to a repeated request
  MaxAnswers,          \* answers per call (repetitions + 1)
  MaxCalls,            \* calls per behaviour
  CarryLayers,         \* failure layers for which "the error carries status and body" is asserted
  X509Chains,          \* exploration bound: the chains submitted through add-chain ("x509", "x509b")
  KeyOptions,          \* exploration bound: how the client is given the log key (names in OptionList below)
  ProbeClasses,        \* exploration bound: body classes sent to a client built from non-standard key material / for a chain shape
  ShapeChains,         \* exploration bound: the precertificate chain shapes (names of AllShapes below) submitted through add-pre-chain
  ReplaySources        \* exploration bound: classes of earlier 200 answers of signed endpoints the server keeps to replay from

\* jsonclient.PostAndParseWithRetry: statuses on which a submission is made again
Retryable == {408, 429, 503}

None == [k |-> "none"]

(* ------------------------------ methods ------------------------------ *)
GetMethods == {"GetSTH", "GetSTHConsistency", "GetProofByHash", "GetEntries", "GetRawEntries",
               "GetEntryAndProof", "GetAcceptedRoots"}
AddMethods == {"AddChain", "AddPreChain"}
Methods == GetMethods \cup AddMethods
\* the submitted chain; the entry type is bound by the METHOD (x509_entry / precert_entry)
ChainsFor(m) == IF m = "AddChain" THEN X509Chains
                ELSE IF m = "AddPreChain" THEN {"precert", "precertPreIssuer"} \cup ShapeChains
                ELSE {"none"}

(* ------------------ the submitted precertificate chains -------------- *)
\* "an SCT whose signature does not verify for the chain ... it submitted": the entry of a precertificate chain is a
\* FUNCTION of the chain (RFC 6962 3.2: the TBSCertificate without the poison; behind a Precertificate Signing
\* Certificate with issuer and authority key identifier changed to the final issuer's), and the client has to compute
\* it for whatever well-formed chain it is given.  The dimensions of the chain that this function reads (the same as
\* spec/codec/EntryOfChain.tla and spec/ctfe/EntryShapes.tla, harness/pki Opts.ExtOrder):
\*   via     who signed the precertificate: the issuing CA directly, a Precertificate Signing Certificate (plain, with a
\*           keyid+issuer+serial authority key identifier, with the CT usage listed second)
\*   poison  where the CA put the poison extension: last ("std"), directly before the authority key identifier, first
\*   tail    the last ordinary extension: subjectAltName, or the authority key identifier itself (no subjectAltName)
\*   na      how notAfter is written: UTCTime (2049-12-31T23:59:59Z) or GeneralizedTime (2050-01-01T00:00:00Z)
\* "precert" and "precertPreIssuer" above are direct/std/san and preIssuer/std/san with a UTCTime notAfter.
PreVia == {"direct", "preIssuer", "preIssuerFullAki", "preIssuerCtSecond"}
PoisonAt == {"std", "poisonBeforeAki", "poisonFirst"}
TailExt == {"san", "aki"}
NotAfterForms == {"utc2049", "gen2050"}
AllShapes == [via : PreVia, poison : PoisonAt, tail : TailExt, na : NotAfterForms]
ShapeName(s) == "pre/" \o s.via \o "/" \o s.poison \o "/" \o s.tail \o "/" \o s.na
ShapeNames == {ShapeName(s) : s \in AllShapes}
ShapeOf(n) == CHOOSE s \in AllShapes : ShapeName(s) = n
\* the extensions as the CA wrote them, and what 3.2 leaves of them in the entry (same order, poison gone)
OrdinaryExts(s) == IF s.tail = "san" THEN <<"KU", "BC", "AKI", "SAN">> ELSE <<"KU", "BC", "AKI">>
WrittenExts(s) == CASE s.poison = "std" -> Append(OrdinaryExts(s), "POISON")
                    [] s.poison = "poisonBeforeAki" -> <<"KU", "BC", "POISON">> \o SubSeq(OrdinaryExts(s), 3, Len(OrdinaryExts(s)))
                    [] s.poison = "poisonFirst" -> <<"POISON">> \o OrdinaryExts(s)
EntryExts(s) == SelectSeq(WrittenExts(s), LAMBDA e : e # "POISON")
\* whose subject name / key identifier / key hash the entry carries: the CA that will issue the final certificate
EntryIssuer(s) == IF s.via = "direct" THEN "signer" ELSE "issuerOfSigner"
ShapeInfo(ch) == IF ch \in ShapeNames
                   THEN LET s == ShapeOf(ch) IN [k |-> "shape", via |-> s.via, poison |-> s.poison, tail |-> s.tail, na |-> s.na,
                                                 written |-> WrittenExts(s), entry |-> EntryExts(s), issuer |-> EntryIssuer(s)]
                   ELSE None
ASSUME ShapesSound ==
  /\ ShapeChains \subseteq ShapeNames
  /\ \A s \in AllShapes : /\ EntryExts(s) = OrdinaryExts(s)
                          /\ Cardinality({i \in DOMAIN WrittenExts(s) : WrittenExts(s)[i] = "POISON"}) = 1
                          /\ Len(WrittenExts(s)) = Len(EntryExts(s)) + 1

(* --------------------------- body classes ---------------------------- *)
\* JSON level, every endpoint
JsonBad == {"notJSON", "truncatedJSON", "wrongType", "empty", "badBase64"}
\* the property is silent: JSON followed by junk (json.Decoder on GET accepts it, json.Unmarshal on POST does not);
\* optional fields missing / a bare null on endpoints that carry no signed data
Ambiguous == {"trailingJunk", "missingOptional", "jsonNull"}
\* The body cannot be read to its end (the error carries what was read).  bodyReadError (GET only): the transfer breaks
\* inside the JSON text.  bodyCutAfterCompleteJSON: the transfer is cut short of its announced length AFTER a complete,
\* valid (correctly signed) JSON value has arrived - the reader yields the whole text and then io.ErrUnexpectedEOF.  It
\* is a truncated response all the same: GET methods fail with status and body, a submission asks again.
BodyCut == "bodyCutAfterCompleteJSON"
TransportBad == {"bodyReadError", BodyCut}

(* signed tree head: deviations from the valid answer *)
STHValid == [tree |-> "n", rootLen |-> 32, sigForm |-> "ok", alg |-> "ok", signer |-> "log", over |-> "same"]
STHClass ==
  [ valid                 |-> STHValid,
    validEmptyTree        |-> [STHValid EXCEPT !.tree = "empty"],
    trailingJunk          |-> STHValid,
    rootHashLen31         |-> [STHValid EXCEPT !.rootLen = 31],
    rootHashLen33         |-> [STHValid EXCEPT !.rootLen = 33],
    jsonNull              |-> [STHValid EXCEPT !.rootLen = 0, !.sigForm = "missing"],
    sigMissing            |-> [STHValid EXCEPT !.sigForm = "missing"],
    sigTrailingTLS        |-> [STHValid EXCEPT !.sigForm = "trailing"],
    sigTruncatedTLS       |-> [STHValid EXCEPT !.sigForm = "truncated"],
    sigAlgMismatch        |-> [STHValid EXCEPT !.alg = "mismatch"],
    sigCorrupt            |-> [STHValid EXCEPT !.signer = "nobody"],
    sigCorruptEmptyTree   |-> [STHValid EXCEPT !.signer = "nobody", !.tree = "empty"],
    sigByOtherKey         |-> [STHValid EXCEPT !.signer = "otherKey"],
    sigByOtherKeyEmptyTree|-> [STHValid EXCEPT !.signer = "otherKey", !.tree = "empty"],
    sigByOtherKeyType     |-> [STHValid EXCEPT !.signer = "otherKeyType"],
    sigOverOtherSize      |-> [STHValid EXCEPT !.over = "otherSize"],
    sigOverOtherRoot      |-> [STHValid EXCEPT !.over = "otherRoot"],
    sigOverOtherTimestamp |-> [STHValid EXCEPT !.over = "otherTimestamp"],
    sigOverSCTInput       |-> [STHValid EXCEPT !.over = "otherSignatureType"] ]

(* signed certificate timestamp *)
SCTValid == [ext |-> "empty", extForm |-> "ok", idLen |-> 32, id |-> "keyhash", version |-> "v1", sigForm |-> "ok", alg |-> "ok",
             signer |-> "log", over |-> "same"]
SCTClass ==
  [ valid                     |-> SCTValid,
    validWithExtensions       |-> [SCTValid EXCEPT !.ext = "some"],
    trailingJunk              |-> SCTValid,
    jsonNull                  |-> [SCTValid EXCEPT !.idLen = 0, !.sigForm = "missing"],
    idLen0                    |-> [SCTValid EXCEPT !.idLen = 0],
    idLen31                   |-> [SCTValid EXCEPT !.idLen = 31],
    idLen33                   |-> [SCTValid EXCEPT !.idLen = 33],
    logIDForeign              |-> [SCTValid EXCEPT !.id = "foreign"],
    logIDOneBitOff            |-> [SCTValid EXCEPT !.id = "foreign"],
    logIDForeignSignedByOwner |-> [SCTValid EXCEPT !.id = "foreign", !.signer = "otherKey"],
    versionOther              |-> [SCTValid EXCEPT !.version = "other"],
    extBadBase64              |-> [SCTValid EXCEPT !.extForm = "notBase64"],
    sigMissing                |-> [SCTValid EXCEPT !.sigForm = "missing"],
    sigTrailingTLS            |-> [SCTValid EXCEPT !.sigForm = "trailing"],
    sigTruncatedTLS           |-> [SCTValid EXCEPT !.sigForm = "truncated"],
    sigAlgMismatch            |-> [SCTValid EXCEPT !.alg = "mismatch"],
    sigCorrupt                |-> [SCTValid EXCEPT !.signer = "nobody"],
    sigCorruptWithExtensions  |-> [SCTValid EXCEPT !.signer = "nobody", !.ext = "some"],
    sigByOtherKey             |-> [SCTValid EXCEPT !.signer = "otherKey"],
    sigByOtherKeyType         |-> [SCTValid EXCEPT !.signer = "otherKeyType"],
    sigOverOtherChain         |-> [SCTValid EXCEPT !.over = "otherChain"],
    sigOverOtherType          |-> [SCTValid EXCEPT !.over = "otherType"],
    sigOverOtherTimestamp     |-> [SCTValid EXCEPT !.over = "otherTimestamp"],
    sigOverOtherExtensions    |-> [SCTValid EXCEPT !.over = "otherExtensions", !.ext = "some"],
    sigOverDroppedExtensions  |-> [SCTValid EXCEPT !.over = "otherExtensions"],
    sigOverNoExtensions       |-> [SCTValid EXCEPT !.over = "otherExtensions", !.ext = "some"],
    sigOverSubmittedNotFinal  |-> [SCTValid EXCEPT !.over = "otherChain"],
    sigOverSTHInput           |-> [SCTValid EXCEPT !.over = "otherSignatureType"] ]

(* log entries (leaf_input, extra_data): RFC 6962 3.4 / 4.6.  raw = ct.RawLogEntryFromLeaf (TLS level),   *)
(* parsed = ct.LogEntryFromLeaf (also parses the logged certificate).  Whatever the verdict, an entry that *)
(* IS returned must re-encode to exactly the input bytes.                                                  *)
\* The DER dimension.  A DER object sits inside a TLS vector in four places: the logged certificate of an X.509 entry,
\* the logged TBSCertificate of a precertificate entry (both in leaf_input), the submitted precertificate and the
\* chain elements (extra_data).  Independently, (a) the object parses as strict DER / only with the parser's lenient
\* fallback (e.g. a serial INTEGER that is not minimally encoded, as found in real logs) / not at all, and (b) the
\* vector holds nothing but the object / bytes after its end.  The parsed entry embeds a parse of the two leaf_input
\* objects: with bytes after the end that parse covers less than leaf_input carries, so the decoder has to fail
\* whichever way the object itself parses.  A lenient parse without trailing bytes is not judged (if an entry is
\* returned it must be consistent).  extra_data objects are opaque at this layer: not judged, but what is returned
\* must re-encode to the input.
DERWhere    == {"x509Cert", "precertTBS", "submittedPrecert", "chainElem"}
DERParse    == {"strict", "laxOnly", "fatal"}
DERTrailing == {"none", "some"}
DimName(w, p, t) == w \o "_" \o p \o "_" \o t
DimVerdict(w, p, t) ==
  LET clean == p = "strict" /\ t = "none" IN
  IF w \in {"submittedPrecert", "chainElem"}
    THEN [raw |-> IF clean THEN "ok" ELSE "any", parsed |-> IF clean THEN "ok" ELSE "any"]
    ELSE [raw    |-> IF clean THEN "ok" ELSE "any",
          parsed |-> IF p = "fatal" \/ t = "some" THEN "error" ELSE IF clean THEN "ok" ELSE "any"]
ParseDimExpect ==
  [n \in {DimName(w, p, t) : w \in DERWhere, p \in DERParse, t \in DERTrailing} |->
     LET c == CHOOSE c \in DERWhere \X DERParse \X DERTrailing : DimName(c[1], c[2], c[3]) = n
     IN DimVerdict(c[1], c[2], c[3])]

EntryExpect ==
  [ x509             |-> [raw |-> "ok",    parsed |-> "ok"],
    precert          |-> [raw |-> "ok",    parsed |-> "ok"],
    precertPreIssuer |-> [raw |-> "ok",    parsed |-> "ok"],
    x509EmptyChain   |-> [raw |-> "ok",    parsed |-> "ok"],
    x509WithExt      |-> [raw |-> "ok",    parsed |-> "ok"],
    leafTrailing     |-> [raw |-> "error", parsed |-> "error"],
    extraTrailing    |-> [raw |-> "error", parsed |-> "error"],
    leafTrailingPrecert     |-> [raw |-> "error", parsed |-> "error"],
    extraTrailingPrecert    |-> [raw |-> "error", parsed |-> "error"],
    leafTruncatedPrecert    |-> [raw |-> "error", parsed |-> "error"],
    extraTruncatedPrecert   |-> [raw |-> "error", parsed |-> "error"],
    extraOfOtherTypePrecert |-> [raw |-> "error", parsed |-> "error"],
    wrongLeafType    |-> [raw |-> "error", parsed |-> "error"],
    unknownEntryType |-> [raw |-> "error", parsed |-> "error"],
    leafTruncated    |-> [raw |-> "error", parsed |-> "error"],
    extraTruncated   |-> [raw |-> "error", parsed |-> "error"],
    leafEmpty        |-> [raw |-> "error", parsed |-> "error"],
    extraEmpty       |-> [raw |-> "error", parsed |-> "error"],
    extraOfOtherType |-> [raw |-> "error", parsed |-> "error"],
    zeroLengthCert   |-> [raw |-> "error", parsed |-> "error"],
    \* the logged certificate / TBSCertificate is not DER: the TLS level cannot know, the parsed entry cannot exist
    certNotDER       |-> [raw |-> "any",   parsed |-> "error"],
    tbsNotDER        |-> [raw |-> "any",   parsed |-> "error"],
    \* silent: DER followed by bytes inside the ASN.1Cert vector, opaque chain elements, other leaf version,
    \* the experimental JSON entry type of this code base
    certTrailingDER  |-> [raw |-> "any",   parsed |-> "any"],
    chainNotDER      |-> [raw |-> "any",   parsed |-> "any"],
    leafVersionOther |-> [raw |-> "any",   parsed |-> "any"],
    jsonEntryType    |-> [raw |-> "any",   parsed |-> "any"] ]
  @@ ParseDimExpect
EntryClasses == DOMAIN EntryExpect

Common == {"valid"} \cup JsonBad \cup {"trailingJunk"}
ClassesFor(m) ==
  IF m = "GetSTH" THEN (DOMAIN STHClass) \cup JsonBad \cup TransportBad
  ELSE IF m \in AddMethods THEN (DOMAIN SCTClass) \cup JsonBad \cup {BodyCut}
  ELSE IF m \in {"GetEntries", "GetRawEntries"}
         THEN Common \cup TransportBad \cup {"missingOptional", "jsonNull"} \cup (EntryClasses \ {"x509"})
  ELSE Common \cup TransportBad \cup {"missingOptional", "jsonNull"}

(* ---------------------- the client's configuration ------------------- *)
\* "A log client configured with the log's public key": jsonclient.Options carries the key in two places, PublicKeyDER
\* and PublicKey (PEM).  A slot holds [key, form].  Keys are tokens: "A" is the log's key (signer "log" of the classes,
\* id "keyhash"), "B" another key of the same type (signer "otherKey", id "foreign"), "C" a key of the other type, "U"
\* stands for material that holds no key RFC 6962 knows.  The FORM is the key-material dimension - how the slot's bytes
\* present the key:
\*   standard   "spki": the SubjectPublicKeyInfo RFC 6962 2.1.4 names - rsaEncryption with NULL parameters and >= 2048
\*              bits, id-ecPublicKey on P-256 with an uncompressed point
\*   lenient    the log's key can be read out of the bytes, but not in the way RFC 6962 / RFC 5280 prescribe: an RSA key
\*              under another algorithm identifier (id-RSAES-OAEP, id-RSASSA-PSS with absent / NULL parameters,
\*              rsaEncryption without the NULL, the obsolete 2.5.8.1.1, a private arc), a compressed EC point, a key of
\*              the right family with parameters 2.1.4 excludes (RSA 1024, P-384), bytes after the SubjectPublicKeyInfo;
\*              in the PEM option also: another label, a certificate of the key, PKCS#1, text around the block, the
\*              base64 without armour
\*   unusable   no such key in it: Ed25519, DSA, X25519, arbitrary bytes, a truncated SubjectPublicKeyInfo, an empty
\*              SEQUENCE; in the PEM option also: no block at all, an empty block, a private key
\*   absent     the option is not set (nil / empty)
Slot(k, f) == [key |-> k, form |-> f]
Absent == Slot("none", "absent")
LenientDerForms == {"rsaOAEP", "rsaPSS", "rsaPSSNull", "rsaNoNull", "rsaObsoleteOID", "rsaPrivateArcOID", "ecCompressed",
                    "weakParams", "trailingBytes"}
UnusableDerForms == {"ed25519", "dsa", "x25519", "garbage", "truncated", "emptySequence"}
LenientPemForms == {"pemOtherLabel", "pemCertificate", "pemPKCS1", "pemLeadingText", "pemTrailingText", "pemBareBase64"}
UnusablePemForms == {"pemNoBlock", "pemEmptyBlock", "pemPrivateKey"}
DerForms == LenientDerForms \cup UnusableDerForms
PemForms == DerForms \cup LenientPemForms \cup UnusablePemForms     \* every DER form also inside a "PUBLIC KEY" block
FormClass(f) == IF f = "spki" THEN "standard"
                ELSE IF f \in LenientDerForms \cup LenientPemForms THEN "lenient"
                ELSE IF f = "absent" THEN "absent" ELSE "unusable"
\* the forms that exist for one key type only (the key type is the harness's: an ECDSA and an RSA world)
FormKeyTypes(f) == IF f \in {"rsaOAEP", "rsaPSS", "rsaPSSNull", "rsaNoNull", "rsaObsoleteOID", "rsaPrivateArcOID", "pemPKCS1"} THEN {"rsa"}
                   ELSE IF f = "ecCompressed" THEN {"ecdsa"} ELSE {"ecdsa", "rsa"}
MaterialSlot(f) == Slot(IF FormClass(f) = "unusable" THEN "U" ELSE "A", f)
\* The ways to fill the two options.  The first four are the standard ones; then the log's key (or what stands in its
\* place) in every other form in one option, the other option absent or naming the log's key in the standard form.
\* (a key with parameters 2.1.4 excludes has no standard form to put into the other option)
NoStandardForm == {"weakParams"}
BaseKeyOptions == {"der", "pem", "bothSame", "bothDifferent"}
OptionList ==
  {  [name |-> "der",           der |-> Slot("A", "spki"), pem |-> Absent],
     [name |-> "pem",           der |-> Absent,            pem |-> Slot("A", "spki")],
     [name |-> "bothSame",      der |-> Slot("A", "spki"), pem |-> Slot("A", "spki")],
     [name |-> "bothDifferent", der |-> Slot("A", "spki"), pem |-> Slot("B", "spki")],   \* the PEM option names the very key the adversarial server also holds
     [name |-> "unconfigured",  der |-> Absent,            pem |-> Absent] }
  \cup {[name |-> "der:" \o f,            der |-> MaterialSlot(f),   pem |-> Absent]            : f \in DerForms}
  \cup {[name |-> "der:" \o f \o "+pemA", der |-> MaterialSlot(f),   pem |-> Slot("A", "spki")] : f \in DerForms \ NoStandardForm}
  \cup {[name |-> "pem:" \o f,            der |-> Absent,            pem |-> MaterialSlot(f)]   : f \in PemForms}
  \cup {[name |-> "pem:" \o f \o "+derA", der |-> Slot("A", "spki"), pem |-> MaterialSlot(f)]   : f \in PemForms \ NoStandardForm}
OptionNames == {o.name : o \in OptionList}
OptionNamed(n) == CHOOSE o \in OptionList : o.name = n
MaterialOptions == OptionNames \ (BaseKeyOptions \cup {"unconfigured"})

VARIABLE config      \* the option this client was built with: a member of OptionList (never changes)
VARIABLE client      \* the outcome of the construction: "built" | "refused" (never changes)
Present(s) == s.form # "absent"
Configured(o) == Present(o.der) \/ Present(o.pem)
\* NAMED CLAUSE DERWins ("If both opts.PublicKey and opts.PublicKeyDER are set, PublicKeyDER is used"): "the log's public
\* key" of the property is ONE key - the one signatures are verified with AND the one whose hash the log ID has to be.
DocSlot(o) == IF Present(o.der) THEN o.der ELSE o.pem
OtherSlot(o) == IF Present(o.der) THEN o.pem ELSE Absent
\* NAMED CLAUSE OnlyKeyItHas: when the documented option holds no key and the other one names a standard key, a client
\* that is built all the same verifies with that key (it is the only one it was given).
VerifKeyOf(o) == IF FormClass(DocSlot(o).form) \in {"standard", "lenient"} THEN DocSlot(o).key
                 ELSE IF FormClass(OtherSlot(o).form) = "standard" THEN OtherSlot(o).key ELSE "U"
VerifKey == VerifKeyOf(config)
\* THE CONSTRUCTION.  A client that holds a key verifies with it; so a key option the client cannot verify with must
\* make the construction fail - it must never yield a client without verifier:
\*     Configured => construction fails \/ everything the client ever returns verifies under that key
\*   "built"     both options standard (or absent): the client exists
\*   "any"       NAMED CLAUSE LenientMaterial: the key is readable but not in the prescribed form (or the unused option is
\*               not standard): the construction may fail; a client that is built verifies with that key, and may
\*               refuse what verifies ("ok" becomes "any")
\*   "refused"   no usable key: the construction fails, or the client returns no signed object at all (nothing
\*               verifies under "U")
\*   "unjudged"  no key configured: the premise of the property is false
Constructs(o) == IF ~Configured(o) THEN "unjudged"
                 ELSE IF VerifKeyOf(o) = "U" THEN "refused"
                 ELSE IF FormClass(DocSlot(o).form) = "standard" /\ FormClass(OtherSlot(o).form) \in {"standard", "absent"} THEN "built"
                 ELSE "any"
ClientChoices(o) == IF Constructs(o) = "built" THEN {"built"} ELSE {"built", "refused"}
OptionKeyTypes(o) == FormKeyTypes(o.der.form) \cap FormKeyTypes(o.pem.form)
OptionInfo(o) ==
  [der |-> o.der, pem |-> o.pem, construct |-> Constructs(o), verifkey |-> VerifKeyOf(o), keytypes |-> OptionKeyTypes(o)]
\* the verdict of Decide (below) under this client's construction: nothing verifies under "U" - not even what the
\* property leaves open for a client that holds the log's key; a lenient construction may refuse what verifies
Lenient(m, v) == IF VerifKey = "U" /\ m \in {"GetSTH", "AddChain", "AddPreChain"} THEN "error"
                 ELSE IF v = "ok" /\ Constructs(config) = "any" THEN "any" ELSE v
KeyOfSigner == [log |-> "A", otherKey |-> "B", otherKeyType |-> "C", nobody |-> "nobody"]
KeyOfId(r) == IF r.id = "keyhash" THEN "A" ELSE "B"

(* ------------------- what the property demands ----------------------- *)
\* the DigitallySigned is exactly one well-formed structure whose algorithm fits the key, made by the
\* log's key over the RFC 6962 input built from the fields of the answer (and, for an SCT, from the
\* submitted chain and the method's entry type)
SigVerifies(r) == r.sigForm = "ok" /\ r.alg = "ok" /\ KeyOfSigner[r.signer] = VerifKey /\ r.over = "same"
IdIsKeyHash(r) == r.idLen = 32 /\ KeyOfId(r) = VerifKey

\* the ideal client, one conjunct per check; the layer of the first failing check is reported
STHVerdict(r) ==
  IF r.rootLen # 32 \/ r.sigForm # "ok" THEN "error" ELSE IF SigVerifies(r) THEN "ok" ELSE "error"
\* AbsentId: an answer WITHOUT id is not judged (the repository's own fixtures omit it); if the client returns the
\* SCT it must attribute it to the configured key - the signature it has verified says nothing else.
SCTVerdict(r) ==
  IF r.idLen \notin {0, 32} \/ r.sigForm # "ok" \/ r.version # "v1" \/ r.extForm # "ok" THEN "error"
  ELSE IF ~SigVerifies(r) THEN "error"
  ELSE IF r.idLen = 0 THEN "any"
  ELSE IF KeyOfId(r) # VerifKey THEN "error"
  ELSE "ok"
\* what the returned value says, given the answer it was made from
\* (stale: fields the answer omits are the retained ones, which the client has verified like any others)
Reported(r, stale) ==
  IF "idLen" \notin DOMAIN r THEN r
  ELSE LET r1 == IF stale /\ r.sigForm = "missing" THEN [r EXCEPT !.sigForm = "ok"] ELSE r
       IN IF r1.idLen = 0 THEN [r1 EXCEPT !.idLen = 32, !.id = "keyhash"] ELSE r1

\* The response structure of a submission is reused across repetitions: when an earlier 200 body of the same call
\* failed to decode it may have been decoded in part, and fields that a later answer omits keep those values.  What
\* comes back then is stitched from two answers; the property only demands that it verifies.
OmitsFields == {"jsonNull", "sigMissing"}

Kind(m) == IF m = "GetSTH" THEN "sth" ELSE IF m \in AddMethods THEN "sct" ELSE "data"

(* ------------------- history: what the server replays ---------------- *)
\* An answer is [status, class, src].  src = None: the body is made for this request (the classes above).  Otherwise
\* src = [method, chain, class] names an earlier 200 answer given to this client (a member of `served`) and class says
\* what is taken from it:
\*   replayBody               the earlier body, byte for byte
\*   replaySigOther<Field>    the earlier body with ONE field altered (tree_size + 1 / the other root / timestamp + 1 /
\*                            extensions present <-> absent) and the signature bytes as they were
\*   replaySigOtherKind       the well-formed fields of this endpoint with the signature bytes of an earlier answer of
\*                            the other kind (an STH's signature in an SCT, an SCT's in an STH)
\* The earlier answer may have been genuine or not, accepted or not; the later call may be the same call repeated,
\* the same method with another chain, or another method.
ReplayDev == [ replayBody |-> "same", replaySigOtherSize |-> "otherSize", replaySigOtherRoot |-> "otherRoot",
               replaySigOtherTimestamp |-> "otherTimestamp", replaySigOtherExtensions |-> "otherExtensions" ]
ReplayClasses == (DOMAIN ReplayDev) \cup {"replaySigOtherKind"}

\* the earlier answers that can be replayed from: signed endpoints, classes with a definite description
SourceRec(s) == IF s.method = "GetSTH" THEN STHClass[s.class] ELSE SCTClass[s.class]
IsSource(m, cl) == /\ cl \in ReplaySources /\ cl \notin Ambiguous
                   /\ \/ m = "GetSTH" /\ cl \in DOMAIN STHClass
                      \/ m \in AddMethods /\ cl \in DOMAIN SCTClass

\* which replays of the earlier answer s an answer to method m can be
ReplaysFor(m, s) ==
  IF Kind(m) = "data" THEN {}
  ELSE IF Kind(m) # Kind(s.method) THEN
         \* (an earlier signature over the input of the other kind may by construction be one over THIS call's input)
         IF SourceRec(s).over # "otherSignatureType" THEN {"replaySigOtherKind"} ELSE {}
  ELSE IF m = "GetSTH" THEN {"replayBody", "replaySigOtherSize", "replaySigOtherRoot", "replaySigOtherTimestamp"}
  ELSE {"replayBody", "replaySigOtherTimestamp"}
       \* (whether two changes of the extensions cancel depends on their values: not described at this level)
       \cup (IF SourceRec(s).over # "otherExtensions" THEN {"replaySigOtherExtensions"} ELSE {})

\* The signature covers the earlier fields changed by `over`; the body now says the earlier fields changed by `dev`.
\* Each names the change of ONE field to ONE other value, so the two agree exactly when they are the same change.
Compose(over, dev) == IF dev = "same" THEN over
                      ELSE IF over = "same" THEN dev
                      ELSE IF over = dev THEN "same" ELSE "mixed"
\* the same thing said on the signed message itself (tree head: size, root, timestamp)
STHMsg(tree, ch) == [size |-> (IF tree = "empty" THEN 0 ELSE 7) + (IF ch = "otherSize" THEN 1 ELSE 0),
                     root |-> IF ch = "otherRoot" THEN "R2" ELSE IF tree = "empty" THEN "E" ELSE "R",
                     ts   |-> IF ch = "otherTimestamp" THEN 1 ELSE 0]
ASSUME ComposeSound ==
  \A tree \in {"n", "empty"} : \A over, dev \in {"same", "otherSize", "otherRoot", "otherTimestamp"} :
      (Compose(over, dev) = "same") <=> (STHMsg(tree, over) = STHMsg(tree, dev))

\* What a replayed answer IS for the call (m, ch) that receives it: the description of the earlier answer, re-read
\* against the input THIS call builds (its own chain and entry type, the fields THIS body carries).  The chains and the
\* entries "other chain" / "other type" / "not final" stand for are pairwise different, so a signature that covered
\* the earlier call's entry (or any deviation of it) covers no other call's entry.
SameCall(m, ch, s) == m = s.method /\ ch = s.chain
Relative(m, ch, cl, s) ==
  LET r == SourceRec(s)
      toggled(x) == IF cl = "replaySigOtherExtensions" THEN [x EXCEPT !.ext = IF r.ext = "empty" THEN "some" ELSE "empty"] ELSE x
  IN
  IF r.sigForm = "missing"
    THEN \* the earlier answer carried no signature: nothing is transplanted, the later one carries none either
         IF cl = "replaySigOtherKind" THEN [(IF m = "GetSTH" THEN STHValid ELSE SCTValid) EXCEPT !.sigForm = "missing"]
         ELSE toggled(r)
  ELSE IF cl = "replaySigOtherKind"
    THEN [(IF m = "GetSTH" THEN STHValid ELSE SCTValid)
            EXCEPT !.sigForm = r.sigForm, !.alg = r.alg, !.signer = r.signer, !.over = "otherSignatureType"]
  ELSE LET o == Compose(r.over, ReplayDev[cl]) IN
    IF m = "GetSTH" THEN [r EXCEPT !.over = o]
    ELSE LET o2 == IF SameCall(m, ch, s) THEN o ELSE IF o = "same" THEN "otherChain" ELSE "mixed"
         IN toggled([r EXCEPT !.over = o2])

\* the description of answer a as received by the call (m, ch)
Semantic(m, ch, a) ==
  IF a.src # None THEN Relative(m, ch, a.class, a.src)
  ELSE IF m = "GetSTH" /\ a.class \in DOMAIN STHClass THEN STHClass[a.class]
  ELSE IF m \in AddMethods /\ a.class \in DOMAIN SCTClass THEN SCTClass[a.class]
  ELSE [plain |-> a.class]

\* verdict on the final answer a = [status, class, src] of a call of method m with chain ch: <<outcome, layer>>;
\* stale: an undecodable 200 body was received earlier in the same call
Decide(m, ch, a, stale) ==
  IF a.status # 200 THEN <<"error", "http">>
  ELSE IF a.src # None THEN
         \* NAMED CLAUSE NoCreditForHistory: a replayed answer is judged as if it were the first this client ever saw
         LET r == Semantic(m, ch, a) IN
         IF m = "GetSTH" THEN <<STHVerdict(r), "signed">>
         ELSE IF stale /\ r.sigForm = "missing" THEN <<"any", "signed">>
         ELSE <<SCTVerdict(r), "signed">>
  ELSE IF a.class \in TransportBad THEN <<"error", "http">>
  ELSE IF a.class \in JsonBad THEN <<"error", "json">>
  ELSE IF m = "GetSTH" THEN
         IF a.class = "trailingJunk" THEN <<"any", "signed">> ELSE <<STHVerdict(STHClass[a.class]), "signed">>
  ELSE IF m \in AddMethods THEN
         IF a.class = "trailingJunk" \/ (stale /\ a.class \in OmitsFields) THEN <<"any", "signed">>
         ELSE <<SCTVerdict(SCTClass[a.class]), "signed">>
  ELSE IF a.class \in Ambiguous THEN <<"any", "json">>
  ELSE IF m = "GetEntries" /\ a.class \in EntryClasses THEN <<EntryExpect[a.class].parsed, "entry">>
  ELSE IF m = "GetRawEntries" /\ a.class \in EntryClasses THEN
         \* "only the JSON parsing done": malformed leaves are not this method's business either way
         <<IF EntryExpect[a.class].raw = "ok" THEN "ok" ELSE "any", "entry">>
  ELSE <<"ok", "none">>

(* ------------------------------ state -------------------------------- *)
VARIABLES
  pending,    \* None, or the call in progress: [method, chain, answers]
  served,     \* the server's memory: the signed 200 answers [method, chain, class] given to this client so far
  Returned,   \* history: every value handed back to a caller
  ncalls,     \* completed calls
  hist,       \* history: the completed calls (for replay)
  last        \* the call completed by the last step, None otherwise

vars == <<config, client, pending, served, Returned, ncalls, hist, last>>

Init == config \in {o \in OptionList : o.name \in KeyOptions} /\ client \in ClientChoices(config) /\ pending = None /\ served = {} /\ Returned = {} /\ ncalls = 0 /\ hist = <<>> /\ last = None

Invoke(m, ch) ==
  /\ pending = None /\ ncalls < MaxCalls
  /\ client = "built" /\ Configured(config)      \* no client, no calls; no key, no claim
  /\ pending' = [method |-> m, chain |-> ch, answers |-> <<>>]
  /\ last' = None
  /\ UNCHANGED <<config, client, served, Returned, ncalls, hist>>

\* the call ends: `end` tells how, `outcome` is the verdict, `returns` whether a value is handed back
Complete(answers, end, outcome, layer, returns) ==
  LET m == pending.method
      stale == \E i \in 1..(Len(answers) - 1) : answers[i].status = 200
      fin == IF answers = <<>> THEN None ELSE answers[Len(answers)]
      carry == IF outcome = "error" /\ end = "answered" /\ layer \in CarryLayers THEN "response"
               ELSE IF end # "answered" /\ answers = <<>> THEN "none"
               ELSE "unasserted"
      result == IF returns THEN [k |-> "value", what |-> Kind(m), resp |-> Reported(Semantic(m, pending.chain, fin), stale)]
                ELSE [k |-> "error", carries |-> IF end = "answered" THEN fin ELSE None]
      step == [config |-> config.name, opt |-> OptionInfo(config), method |-> m, chain |-> pending.chain, shape |-> ShapeInfo(pending.chain),
               answers |-> answers, end |-> end,
               expect |-> outcome, layer |-> layer, carry |-> carry, result |-> result]
  IN /\ pending' = None
     /\ UNCHANGED <<config, client>>
     /\ ncalls' = ncalls + 1
     /\ Returned' = IF returns THEN Returned \cup {[what |-> Kind(m), method |-> m, chain |-> pending.chain,
                                                    resp |-> Reported(Semantic(m, pending.chain, fin), stale)]}
                    ELSE Returned
     \* whatever the client made of it, the server now has this answer to draw on
     /\ served' = IF end = "answered" /\ fin.status = 200 /\ fin.src = None /\ IsSource(m, fin.class)
                    THEN served \cup {[method |-> m, chain |-> pending.chain, class |-> fin.class]}
                    ELSE served
     /\ last' = step
     /\ hist' = Append(hist, step)

\* A submission is made again (after a pause that is C13's subject) when the answer carries a retryable status,
\* and also when a 200 answer cannot be decoded as JSON: PostAndParseWithRetry treats every failure of PostAndParse
\* as transient - an undecodable body as well as one whose transfer was cut short.  The property is silent on the
\* repetition; the clause is named so that the replay follows the code.  Nothing may be returned from such an answer.
AsksAgain(m, st, cl) == m \in AddMethods /\ (st \in Retryable \/ (st = 200 /\ cl \in JsonBad \cup {BodyCut}))
\* exploration bound: which repeated requests get an answer (the others only see the context expire)
FollowedUp(a) == \/ a.status \in RetryStatuses /\ a.class \in RetryBodies
                 \/ a.status = 200 /\ a.class \in UndecodableBodies

\* exploration bound (ProbeClasses = {}: none): a client built from non-standard key material, and a call that submits one of
\* the chain shapes, get one answer: status 200 with a class in ProbeClasses
\* (IF, not \/: inside an action a disjunction is a branch)
ProbeBound(st, cl) == IF ProbeClasses = {} THEN TRUE
                      ELSE IF config.name \in BaseKeyOptions /\ pending.chain \notin ShapeChains THEN TRUE
                      ELSE st = 200 /\ cl \in ProbeClasses /\ pending.answers = <<>>
\* the server answers the outstanding request: with a body made for it (src = None) or out of an earlier answer
Answer(st, cl, src) ==
  /\ pending # None
  /\ Len(pending.answers) < MaxAnswers
  /\ IF src = None THEN cl \in ClassesFor(pending.method)
                   ELSE src \in served /\ cl \in ReplaysFor(pending.method, src)
  /\ ProbeBound(st, cl)
  /\ pending.answers # <<>> => FollowedUp(pending.answers[Len(pending.answers)]) /\ st \in AfterRetryStatuses \cup RetryStatuses
  /\ LET a == [status |-> st, class |-> cl, src |-> src]
         ans == Append(pending.answers, a)
         d0 == Decide(pending.method, pending.chain, a, \E i \in 1..Len(pending.answers) : pending.answers[i].status = 200)
         d == <<Lenient(pending.method, d0[1]), d0[2]>>
     IN IF AsksAgain(pending.method, st, cl)
          THEN \* the body is dropped, the request is made again
               /\ st \in Retryable => st \in RetryStatuses /\ cl \in RetryBodies
               /\ pending' = [pending EXCEPT !.answers = ans]
               /\ last' = None
               /\ UNCHANGED <<config, client, served, Returned, ncalls, hist>>
          ELSE /\ pending.answers = <<>> => st \in Statuses
               /\ cl \notin TransportBad \/ st = 200
               /\ \E returns \in (IF d[1] = "any" THEN BOOLEAN ELSE {d[1] = "ok"}) :
                      Complete(ans, "answered", d[1], d[2], returns)

\* the caller's context ends (before any answer, or while a submission waits to ask again)
Expire ==
  /\ pending # None
  /\ Complete(pending.answers, "expired", "error", "context", FALSE)

\* the connection breaks without a response (asserted for GET methods; a submission would ask again later,
\* which is C13's subject)
Drop ==
  /\ pending # None /\ pending.method \in GetMethods
  /\ Complete(pending.answers, "dropped", "error", "transport", FALSE)

Next == \/ \E m \in Methods : \E ch \in ChainsFor(m) : Invoke(m, ch)
        \/ \E st \in Statuses \cup RetryStatuses \cup AfterRetryStatuses :
              \/ \E cl \in UNION {ClassesFor(m) : m \in Methods} : Answer(st, cl, None)
              \/ \E src \in served : \E cl \in ReplayClasses : Answer(st, cl, src)
        \/ Expire
        \/ Drop

Spec == Init /\ [][Next]_vars

(* --------------------------- the property ---------------------------- *)
TypeOK == /\ DOMAIN config = {"name", "der", "pem"} /\ VerifKey \in {"A", "U"} /\ client \in ClientChoices(config)
          /\ pending = None \/ (pending.method \in Methods /\ Len(pending.answers) <= MaxAnswers)
          /\ ncalls \in 0..MaxCalls
          /\ \A s \in served : s.method \in {"GetSTH"} \cup AddMethods /\ s.chain \in ChainsFor(s.method) /\ IsSource(s.method, s.class)

\* Over sequences of calls: r.resp describes the returned object against the input of the call that returned it
\* (r.method, r.chain) - not against the call the bytes were first made for.
\* every STH ever handed back carries a 32-byte root and a signature of the configured key over its own fields
OnlyVerifiedSTH == \A r \in Returned : r.what = "sth" => r.resp.rootLen = 32 /\ SigVerifies(r.resp)

\* every SCT ever handed back verifies for the submitted chain and the method's entry type and names the configured key
OnlyVerifiedSCT == \A r \in Returned : r.what = "sct" => SigVerifies(r.resp) /\ IdIsKeyHash(r.resp) /\ r.resp.version = "v1"

\* THE CONSTRUCTION LAW: a key was configured => the construction failed \/ every signed object ever returned verifies
\* under that key (the two invariants above, VerifKey being the configured key); in particular a client built from
\* material that holds no usable key returns no signed object at all, and a client that does not exist returns nothing.
ConstructionLaw ==
  LET o == config IN
  /\ client = "refused" => Returned = {} /\ pending = None /\ ncalls = 0
  /\ (Configured(o) /\ Constructs(o) = "refused") => \A r \in Returned : r.what = "data"
  /\ (Configured(o) /\ client = "built") => \A r \in Returned : r.what \in {"sth", "sct"} => SigVerifies(r.resp) /\ VerifKey = "A"
  /\ Constructs(o) = "built" => client = "built"
  /\ ~Configured(o) => Returned = {}

\* a value is only ever produced by a 200 answer of the last request
OnlyFrom200 == [][(last' # None /\ last'.result.k = "value") =>
                     last'.end = "answered" /\ last'.answers[Len(last'.answers)].status = 200]_vars

\* malformed / truncated / over-long / wrongly typed / non-200: an error that carries the answer it was made from
ErrorsCarryResponse == [][(last' # None /\ last'.end = "answered" /\ last'.expect = "error" /\ last'.layer \in CarryLayers) =>
                             /\ last'.result.k = "error"
                             /\ last'.result.carries = last'.answers[Len(last'.answers)]
                             /\ last'.carry = "response"]_vars

\* an error hands back nothing, and what was handed back before is untouched by later calls
NoPartialResults == [][/\ (last' # None /\ last'.result.k = "error") => Returned' = Returned
                       /\ Returned \subseteq Returned']_vars

\* a replayed answer gets exactly the verdict it would get from a client that has never seen anything: what is
\* returned from it verifies for this call (above), and what verifies for this call and is well-formed is returned
NoCreditForHistory ==
  [][(last' # None /\ last'.end = "answered" /\ last'.answers[Len(last'.answers)].src # None
        /\ last'.answers[Len(last'.answers)].status = 200 /\ last'.expect # "any") =>
       LET a == last'.answers[Len(last'.answers)]
           r == Semantic(last'.method, last'.chain, a)
           good == IF last'.method = "GetSTH" THEN r.rootLen = 32 /\ SigVerifies(r)
                   ELSE SigVerifies(r) /\ IdIsKeyHash(r) /\ r.version = "v1" /\ r.extForm = "ok"
       IN (last'.result.k = "value") <=> good]_vars

\* the option table says what the text above says
ASSUME KeyOptionsSound ==
  /\ Cardinality({o.name : o \in OptionList}) = Cardinality(OptionList)
  /\ KeyOptions \subseteq OptionNames
  /\ \A c \in BaseKeyOptions : Constructs(OptionNamed(c)) = "built" /\ VerifKeyOf(OptionNamed(c)) = "A"
  /\ \A c \in MaterialOptions : LET o == OptionNamed(c) IN
        /\ Constructs(o) \in {"any", "refused"} /\ OptionKeyTypes(o) # {}
        /\ (Constructs(o) = "refused") <=> (VerifKeyOf(o) = "U")
        /\ FormClass(DocSlot(o).form) = "unusable" /\ ~Present(OtherSlot(o)) => Constructs(o) = "refused"
  /\ Constructs(OptionNamed("unconfigured")) = "unjudged"

\* the entry decoder never both fails to parse the logged certificate and returns a parsed entry
ASSUME EntryDecoderSound == \A c \in EntryClasses : EntryExpect[c].raw = "error" => EntryExpect[c].parsed = "error"
=============================================================================
