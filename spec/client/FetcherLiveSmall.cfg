\* quick liveness: fewer configurations
CONSTANTS
  MaxSize = 3
  Workers = {1, 2}
  MaxErrors = 1
  ErrKinds <- OneErr
  KeepHist = FALSE
  Configs <- AllConfigs
  Batches = {2}
  NW = 2
  InitSizes = {0, 2}
  MaxRejects = 0
SPECIFICATION MCFairSpec
INVARIANTS TypeOK Accounting
PROPERTIES Terminates ContinuousProgress
CHECK_DEADLOCK FALSE
