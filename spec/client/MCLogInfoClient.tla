-------------------------- MODULE MCLogInfoClient --------------------------
(* Model-checking and simulation instances of LogInfoClient.                                                       *)
(*                                                                                                                 *)
(* Exhaustive (LogInfoClient*.cfg): the fine-grained Next - every internal step of a call (reading the cache,      *)
(* storing the fetched head, returning) interleaves with every step of the other goroutines and of the log.        *)
(*                                                                                                                 *)
(* Replay (LogInfoClientSim.cfg): what a harness can schedule from outside are the beginnings of calls, the        *)
(* server's answers and the log's growth; between two of those a goroutine runs until it waits for the server or   *)
(* has returned.  SimNext is Next under that regime (a goroutine that can run, runs: the internal steps are taken  *)
(* eagerly), every behaviour of it is a behaviour of Next.  hist records every step with the state after it; the   *)
(* harness executes the schedulable steps and compares the rest.                                                   *)
EXTENDS LogInfoClient, Json

CONSTANT Depth      \* schedulable + internal steps of an exported behaviour before it is drained
VARIABLE hist
mcvars == <<size, cached, calls, budget, hist>>

(* ---- exhaustive ---- *)
PlainInit == Init /\ hist = <<>>
PlainNext == Next /\ UNCHANGED hist
StateView == vars
FairSpec == PlainInit /\ [][PlainNext]_mcvars /\ Fair

(* ---- the replay regime ---- *)
Running(g) == calls[g].phase \in {"begin", "gotSTH", "done"}
AnyRunning == \E g \in Callers : Running(g)
Post == [size |-> size, cached |-> cached, calls |-> calls]
H(op, g, cls, call) == hist' = Append(hist, [op |-> op, g |-> g, cls |-> cls, call |-> call, post |-> Post'])

RunStep == \E g \in Callers :
  /\ Running(g)
  /\ \/ ReadCache(g) /\ H("ReadCache", g, "", calls'[g])
     \/ Lin(g) /\ H("Lin", g, "", calls'[g])
     \/ Store(g) /\ H("Store", g, "", calls'[g])
     \/ Return(g) /\ H("Return", g, "", calls[g])

Ended == Len(hist) > 0 /\ hist[Len(hist)].op = "End"
Finish == ~Ended /\ hist' = Append(hist, [op |-> "End"]) /\ UNCHANGED vars
ExportFinished == Ended => PrintT(<<"BEH", ToJson(SubSeq(hist, 1, Len(hist) - 1))>>)

(* ---- simulation: one successor per step, a useful mix ---- *)
Pick(seq) == seq[RandomElement(1..Len(seq))]
IdleOnes == {g \in Callers : calls[g].phase = "idle"}
Options ==
  (IF budget > 0 /\ Len(hist) < Depth THEN {<<"begin", g>> : g \in IdleOnes} ELSE {})
    \cup {<<"sth", g>> : g \in {x \in Callers : calls[x].phase = "wantSTH"}}
    \cup {<<"proof", g>> : g \in {x \in Callers : calls[x].phase = "wantProof"}}
    \cup (IF size < MaxSize /\ Len(hist) < Depth THEN {<<"grow", 0>>} ELSE {})

\* (random parameters are bound once per step: a LET would re-draw at every use)
SimBegin(g) ==
  \E k \in {RandomElement(1..14)}, c \in {RandomElement(0..MaxSize)}, c2 \in {RandomElement(1..size)},
     ts \in {Pick(<<"sct", "sct", "sct", "sct", "other">>)},
     a \in {RandomElement(KnownHeads)}, n \in {RandomElement(0..size)}, s \in {Pick(<<"valid", "valid", "otherCert">>)},
     lg \in {RandomElement(1..3)} :
    LET cc == IF lg = 1 THEN c ELSE c2        \* mostly certificates that are sequenced by now
        hd == IF lg = 1 THEN a ELSE LogHead(n)   \* mostly heads of the log
    IN
    CASE k \in 1..4  -> Begin(g, "VI", cc, ts, NoSTH, "none") /\ H("Begin", g, "", calls'[g])
      [] k \in 5..9  -> Begin(g, "VIL", cc, ts, NoSTH, "none") /\ H("Begin", g, "", calls'[g])
      [] k = 10      -> Begin(g, "VIAt", cc, ts, hd, "none") /\ H("Begin", g, "", calls'[g])
      [] k \in 11..12 -> Begin(g, "Set", 0, "sct", IF lg = 3 /\ c = 0 THEN NoSTH ELSE hd, "none") /\ H("Begin", g, "", calls'[g])
      [] k = 13      -> Begin(g, "Last", 0, "sct", NoSTH, "none") /\ H("Begin", g, "", calls'[g])
      [] OTHER       -> Begin(g, "SCT", c, "sct", NoSTH, s) /\ H("Begin", g, "", calls'[g])

SimServeSTH(g) ==
  \E cls \in {IF Lies THEN Pick(<<"ok", "ok", "ok", "ok", "ok", "ok", "ok", "fail">>) ELSE "ok"} :
    ServeSTH(g, cls) /\ H("ServeSTH", g, cls, calls'[g])

SimServeProof(g) ==
  \E cls \in {IF Lies /\ Present(calls[g]) THEN Pick(<<"honest", "honest", "honest", "honest", "honest", "fail", "badpath", "badindex">>)
              ELSE "honest"} :
    ServeProof(g, cls) /\ H("ServeProof", g, cls, calls'[g])

SimNext ==
  /\ ~Ended
  /\ IF AnyRunning THEN RunStep
     ELSE IF Options = {} THEN Finish
     ELSE \E o \in {RandomElement(Options)} :
            CASE o[1] = "begin" -> SimBegin(o[2])
              [] o[1] = "sth"   -> SimServeSTH(o[2])
              [] o[1] = "proof" -> SimServeProof(o[2])
              [] OTHER          -> Grow /\ H("Grow", 0, "", IdleCall)

=============================================================================
