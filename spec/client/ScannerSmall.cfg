\* quick exhaustive: fewer configurations
CONSTANTS
  MaxSize = 3
  Workers = {1, 2}
  MaxErrors = 1
  ErrKinds <- OneErr
  KeepHist = FALSE
  Configs <- ScanConfigs
  Batches = {2}
  NW = 2
  InitSizes = {1, 3}
  Matchers = {1, 2}
  BufSize = 1
  Kind <- MCKind
  Class <- MCClass
  Wants <- MCWants
  MTypes = {"matcher", "leaf"}
INIT SInit
NEXT SNext
INVARIANTS TypeOK Accounting CallbackSound CallbackComplete ProcessedAll ScanComplete
CHECK_DEADLOCK FALSE
