--------------------------- MODULE ScannerFanout ---------------------------
(***************************************************************************)
(* C16, the configuration dimension of the fan-out: "... delivers every    *)
(* index of the range to the callback exactly once ... however many        *)
(* entries the log returns per request (from one up to the number asked    *)
(* for), for any batch size, number of parallel fetchers and matcher       *)
(* workers ...; the scanner invokes the certificate or precertificate      *)
(* callback exactly once for every entry its matcher selects."             *)
(*                                                                         *)
(* Fetcher.tla / Scanner.tla explore the interleavings for small batches   *)
(* and two matcher workers.  This module is the case analysis of the       *)
(* ARITHMETIC side of the same statement: how the length n of a batch the  *)
(* fetch callback receives relates to the number m of matcher workers and  *)
(* to the capacity b of the entries channel (n < m, n = m, m | n, a        *)
(* remainder with n < 2m or n >= 2m; rendezvous, b < n, b >= n), for       *)
(* batch sizes and worker counts far beyond what the behavioural models    *)
(* can enumerate.                                                          *)
(*                                                                         *)
(* A case is a complete scan whose outcome does not depend on scheduling:  *)
(* the log answers a get-entries request for [s, s+asked) by a reply       *)
(* POLICY, a function of (s, asked) alone:                                 *)
(*   "full"   everything asked for                                         *)
(*   "cap"    at most k entries per request                                *)
(*   "align"  up to the next index that is a multiple of k (logs that      *)
(*            serve from k-aligned pages)                                  *)
(*   "half"   half of what was asked for, rounded up                       *)
(* Then (Fetcher.tla: GenRange cuts [StartIndex, EndIndex) into ranges of  *)
(* BatchSize, a worker re-requests the remainder after a short read, a     *)
(* failed request is repeated unchanged) the multiset of batches the fetch *)
(* callback receives is a function of the case: Delivered(c).  What the    *)
(* scan owes is stated WITHOUT reference to batch size, policy, fetchers,  *)
(* matcher workers or channel capacity: Calls(c).                          *)
(*                                                                         *)
(* TLC checks the laws below on every case and exports cases (expected     *)
(* batches, expected callbacks, the fan-out classes the case exercises);   *)
(* harness/vt/c16 TestFanout runs every exported case through the real     *)
(* Scanner.Scan / Fetcher.Run.                                             *)
(***************************************************************************)
EXTENDS Integers, Sequences, FiniteSets, TLC, ScanSelect

CONSTANTS
  WorldSize,   \* the log holds at most WorldSize entries (indices 0..WorldSize-1)
  Kind(_),     \* Kind(i) \in {"x509", "precert"}
  Class(_),    \* Class(i) \in Classes (ScanSelect.tla)
  Fam(_),      \* Fam(i) \in {"alpha", "beta"}: the family of the subject name (what the regex matcher looks at)
  Cases        \* the case space: records
               \*   size, start, end, batch : tree size, StartIndex, EndIndex (0 = tree size), BatchSize
               \*   pol, k                  : reply policy of the log and its parameter
               \*   nf, nm, buf             : ParallelFetch, NumWorkers (matcher workers), BufferSize
               \*   matcher, ponly          : "all" | "none" | "regex" (Matcher-type matchers), "even" | "odd" | "every"
               \*                             (LeafMatcher-type matchers); PrecertOnly

Min(a, b) == IF a < b THEN a ELSE b
Indices == 0..(WorldSize - 1)
Policies == {"full", "cap", "align", "half"}
MatcherNames == {"all", "none", "regex", "even", "odd", "every"}

(* ------------------------------------------------------------ the fetch *)
\* Fetcher.tla, Prepare: the end of the range
End(c) == IF c.end = 0 \/ c.end > c.size THEN c.size ELSE c.end
InRange(c, i) == c.start <= i /\ i < End(c)

\* the log's answer to a request for `asked` entries from s on: how many it returns
Reply(c, s, asked) ==
  CASE c.pol = "full"  -> asked
    [] c.pol = "cap"   -> Min(asked, c.k)
    [] c.pol = "align" -> Min(asked, c.k - (s % c.k))
    [] c.pol = "half"  -> (asked + 1) \div 2

\* the fan-out class of a batch of n entries handed to m matcher workers over a channel of capacity b
Split(n, m) == CASE n < m       -> "fewer"        \* fewer entries than workers
                 [] n = m       -> "equal"
                 [] n % m = 0   -> "multiple"
                 [] n < 2 * m   -> "rem-lt2"      \* m < n < 2m
                 [] OTHER       -> "rem-ge2"      \* n >= 2m and m does not divide n
BufRel(n, b) == CASE b = 0 -> "rendezvous"
                  [] b < n -> "smaller"
                  [] OTHER -> "holds-batch"
FanClass(n, m, b) == [split |-> Split(n, m), buf |-> BufRel(n, b), m |-> m]

\* one range [s, e] of the generator in the hands of a worker (Fetcher.tla: Fetch, Deliver)
RECURSIVE Pieces(_, _, _)
Pieces(c, s, e) ==
  IF s > e THEN <<>>
  ELSE LET n == Reply(c, s, e - s + 1) IN
       <<[s |-> s, n |-> n, split |-> Split(n, c.nm), buf |-> BufRel(n, c.buf)]>> \o Pieces(c, s + n, e)

\* the generator (Fetcher.tla: GenRange)
RECURSIVE Ranges(_, _)
Ranges(c, s) ==
  IF s >= End(c) THEN <<>>
  ELSE LET e == s + Min(End(c) - s, c.batch) - 1 IN Pieces(c, s, e) \o Ranges(c, e + 1)

\* the batches the fetch callback receives (as a multiset: their order depends on scheduling when nf > 1)
Delivered(c) == Ranges(c, c.start)

Covers(b, i) == b.s <= i /\ i < b.s + b.n
\* how many of the batches d contain index i; the indices that reach the fan-out
TimesIn(d, i) == Cardinality({j \in 1..Len(d) : Covers(d[j], i)})
FannedIn(d) == {i \in Indices : TimesIn(d, i) > 0}

(* ------------------------------------------------------- the callbacks *)
Wants(c, i) ==
  /\ c.ponly => Kind(i) = "precert"
  /\ CASE c.matcher = "all"   -> TRUE
       [] c.matcher = "none"  -> FALSE
       [] c.matcher = "regex" -> \/ Kind(i) = "x509" /\ Fam(i) = "alpha"      \* certificates of family alpha,
                                 \/ Kind(i) = "precert" /\ Fam(i) = "beta"    \* precertificates of family beta
       [] c.matcher = "even"  -> i % 2 = 0                                   \* leaf matchers
       [] c.matcher = "odd"   -> i % 2 = 1
       [] c.matcher = "every" -> TRUE                                        \* (asked about fatally broken entries too)
MType(c) == IF c.matcher \in {"even", "odd", "every"} THEN "leaf" ELSE "matcher"
Sel(c, i) == Selected(Wants(c, i), Class(i), MType(c))

\* what the scan owes: one callback of the entry's kind for every selected entry of the range - and nothing else.
\* (No batch size, policy, fetcher / matcher-worker count or channel capacity occurs in this definition.)
Calls(c) == {[i |-> i, kind |-> Kind(i)] : i \in {j \in Indices : InRange(c, j) /\ Sel(c, j)}}

\* the classes of fan-out the case exercises
FanClasses(c) == LET d == Delivered(c) IN {FanClass(d[j].n, c.nm, c.buf) : j \in 1..Len(d)}

(* ------------------------------------------------------------------ laws *)
CaseOK(c) ==
  /\ c.size \in 0..WorldSize /\ c.start \in 0..WorldSize /\ c.end \in 0..WorldSize
  /\ c.batch >= 1 /\ c.nf >= 1 /\ c.nm >= 1 /\ c.buf >= 0
  /\ c.pol \in Policies /\ (c.pol \in {"cap", "align"} => c.k >= 1)
  /\ c.matcher \in MatcherNames /\ c.ponly \in BOOLEAN

\* the policies stay inside the property's domain: from one up to the number asked for
ReplyLaw(c) == \A s \in Indices : \A asked \in 1..c.batch : Reply(c, s, asked) \in 1..asked

\* every index of the range is in exactly one delivered batch, nothing else is in any (Fetcher.tla: Complete);
\* no batch is empty or longer than BatchSize
PartitionLaw(c) ==
  LET d == Delivered(c) IN
  /\ \A i \in Indices : TimesIn(d, i) = IF InRange(c, i) THEN 1 ELSE 0
  /\ \A j \in 1..Len(d) : d[j].n \in 1..c.batch

\* fan-out: the owed callbacks are exactly the selected entries among those the fetch callback received, each of
\* them received once (Scanner.tla: CallbackComplete / ScanComplete with cnt = TimesIn)
FanoutLaw(c) ==
  LET d == Delivered(c)
      calls == Calls(c) IN
  /\ {x.i : x \in calls} = {i \in FannedIn(d) : Sel(c, i)}
  /\ \A x \in calls : TimesIn(d, x.i) = 1 /\ x.kind = Kind(x.i)

\* the five split classes and three buffer classes are a partition of (n, m, b)
ClassLaw == \A n \in 1..(2 * WorldSize) : \A m \in 1..8 :
               /\ Split(n, m) \in {"fewer", "equal", "multiple", "rem-lt2", "rem-ge2"}
               /\ (Split(n, m) \in {"rem-lt2", "rem-ge2"}) = (n > m /\ n % m # 0)
               /\ (Split(n, m) = "rem-ge2") = (n \div m >= 2 /\ n % m # 0)

(* --------------------------------------------------------- the machine *)
VARIABLES c, done
cvars == <<c, done>>

Init == c \in Cases /\ done = FALSE
Finish == ~done /\ done' = TRUE /\ UNCHANGED c
Next == Finish
Spec == Init /\ [][Next]_cvars

Laws == CaseOK(c) /\ ReplyLaw(c) /\ PartitionLaw(c) /\ FanoutLaw(c)

ExportOf(x) == [c |-> x, rangeEnd |-> End(x), delivered |-> Delivered(x), calls |-> Calls(x), classes |-> FanClasses(x)]
=============================================================================
