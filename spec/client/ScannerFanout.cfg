\* exhaustive laws over (tree size, start, end, batch size, reply policy, matcher, PrecertOnly) + export of the cover
CONSTANTS
  WorldSize = 24
  Kind <- MCKind
  Class <- MCClass
  Fam <- MCFam
  Cases = {}
  Sizes = {0, 1, 6, 13, 19, 24}
  Starts = {0, 1, 4, 9}
  Ends = {0, 5, 17, 24}
  Batches = {1, 2, 3, 4, 5, 6, 7, 8, 9, 10, 11, 12, 13, 14, 15, 16}
  Caps = {1, 2, 3, 5, 7, 11}
  Aligns = {2, 3, 4, 5, 8}
  NMs = {1, 2, 3, 4, 5, 6}
  Bufs = {0, 1, 3, 16}
  NFs = {1, 2, 4}
  LawBatches = {1, 2, 3, 4, 5, 6, 7, 8, 9, 10, 11, 12, 13, 14, 15, 16}
INIT MCInit
NEXT Next
INVARIANTS LawsHold ExportCover
CHECK_DEADLOCK FALSE
