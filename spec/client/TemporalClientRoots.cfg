\* roots (thorough): 1..3 shards x every per-shard behaviour x every completion order x the context ending at any point; check and export
CONSTANTS
  ShardLists <- MCListPerLength
  Deployments <- MCDepClassic
  Instants = {0, 1, 2, 3, 4}
  Scenes = {"roots"}
  ChainKinds = {"x509", "precert", "precertPreIssuer"}
  Firsts = {"cert", "lax", "garbage", "none"}
  Statuses = {200, 204, 400, 404, 500}
  FinalClasses = {"valid", "validWithExtensions", "sigByOther", "idOfOther", "validForOther", "sigCorrupt", "sigOverOtherChain", "sigOverOtherType", "sigOverOtherTimestamp", "sigTrailingTLS", "idLen31", "idLen0"}
  RetryStatuses = {408, 429, 503}
  RetryAfterForms = {"zero"}
  UndecodableBodies = {"notJSON", "wrongType"}
  AfterRetryStatuses = {200, 400}
  MaxAnswers = 2
  MaxCalls = 1
  MaxMult = 8
  RootAnswers = {"setA", "setB", "setAll", "dupWithin", "sameSubject", "emptyList", "s500", "s404", "notJSON", "badBase64", "hang"}
  CtxMayEnd = TRUE
INIT Init
NEXT Next
VIEW ExportView
INVARIANTS TypeOK RootsUnion ExportRoots
PROPERTIES NoPartialResults NoCrossTalk
CHECK_DEADLOCK FALSE
