-------------------------- MODULE MCLogClientHist --------------------------
(* History instances of LogClient: sequences of calls on ONE client in which the server draws on the answers it has   *)
(* given before (served).  The bounds below only select which behaviours are explored / exported; the specification   *)
(* is LogClient.tla unchanged.                                                                                        *)
EXTENDS MCLogClient

CONSTANTS
  HistFresh      \* classes of the answers made for the request (the others are replays)

\* the signed endpoints, answered once with status 200 (cfg), never abandoned; a fresh answer is of a class in HistFresh
FinalOf(s) == s.answers[Len(s.answers)]
StepInBound(s) == /\ s.end = "answered" /\ s.method \in {"GetSTH"} \cup AddMethods
                  /\ FinalOf(s).src # None \/ FinalOf(s).class \in HistFresh
HistBound ==
  /\ pending' # None => pending'.method \in {"GetSTH"} \cup AddMethods
  /\ (pending' # None /\ pending'.answers # <<>>) =>
        LET a == pending'.answers[Len(pending'.answers)] IN a.src # None \/ a.class \in HistFresh
  /\ last' # None => StepInBound(last')

\* A behaviour is worth replaying when history is at work in it: some call after the first is answered out of an
\* earlier answer, or with a fresh answer to a call that was made before (same method and chain).
Uses(h) == \E i \in 2..Len(h) :
              \/ FinalOf(h[i]).src # None
              \/ \E j \in 1..(i-1) : h[j].method = h[i].method /\ h[j].chain = h[i].chain
\* (TLC evaluates invariants on successors that the action constraint then discards: the guard repeats the bound)
ExportHistory == (last # None /\ ncalls = MaxCalls /\ (\A i \in 1..Len(hist) : StepInBound(hist[i])) /\ Uses(hist))
                    => PrintT(<<"HBEH", ToJson(hist)>>)
=============================================================================
