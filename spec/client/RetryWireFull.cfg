\* thorough, exhaustive over the wire: every http.Client configuration, every wire kind (redirect chains that convert / preserve
\* the method, loops), several legal and illegal body spellings; 2 callers sharing one client, scripts <= 2 responses
CONSTANTS
  Callers = {1, 2}
  MaxMult = 3
  Base = 1
  J = 2
  MaxLen = 2
  Record = FALSE
  Retain = TRUE
  Starts = {0, 1}
  CtxChoices = {3}
  HCs = {"nil", "plain", "follow", "limit", "jar", "timeout", "uselast", "refuse"}
  WireRich = TRUE
  Rich = FALSE
  Sim = FALSE
INIT MCInit
NEXT MCNext
VIEW StateView
INVARIANTS TypeOK CtxResult RetainedOwn OneResultPerCall IdsDistinct
PROPERTIES FirstGood200 RetryOnlyOn OthersImmediate HonoursRetryAfter CapPlusJitter NoDelayOn408 WaitIsBackoffPlusJitter UntilInWindow PendingOnlyExtended MultMonotone NoPostAfterCtx PromptCtxSafe RedirectNotOK SpellingIrrelevant HandedBack ResultsAreValues
CHECK_DEADLOCK FALSE
