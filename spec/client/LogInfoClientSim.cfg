\* simulation: seeded behaviours under the replay regime, exported for harness/vt/c06
CONSTANTS
  Callers = {1, 2, 3}
  MaxSize = 4
  InitSize = 1
  MaxCalls = 10
  Lies = TRUE
  Aliased = FALSE
  Depth = 44
INIT PlainInit
NEXT SimNext
INVARIANTS TypeOK NeverMissing SoundIndex Verdict CacheNotAhead ExportFinished
CHECK_DEADLOCK FALSE
