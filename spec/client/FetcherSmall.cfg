\* quick exhaustive safety
CONSTANTS
  MaxSize = 4
  Workers = {1, 2}
  MaxErrors = 1
  ErrKinds <- OneErr
  KeepHist = FALSE
  Configs <- AllConfigs
  Batches = {1, 2, 3}
  NW = 2
  InitSizes = {0, 1, 2, 3, 4}
  MaxRejects = 0
INIT MCInit
NEXT MCNext
INVARIANTS TypeOK Accounting AtMostOnce NoOutOfRange Complete StopPrefix ContinuousNoGap ErrFetchesNothing
CHECK_DEADLOCK FALSE
