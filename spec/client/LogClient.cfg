\* exhaustive: methods x statuses x classes, up to three calls, submissions repeated once
CONSTANTS
  Statuses = {200, 204, 301, 400, 404, 429, 500}
  RetryStatuses = {408, 429, 503}
  RetryBodies = {"valid"}
  UndecodableBodies = {"wrongType"}
  AfterRetryStatuses = {200, 204, 301, 400, 404, 500}
  MaxAnswers = 2
  MaxCalls = 3
  CarryLayers = {"http", "json", "signed"}
  X509Chains = {"x509"}
  KeyOptions = {"bothDifferent"}
  ReplaySources = {}
INIT Init
NEXT Next
VIEW StateView
INVARIANTS TypeOK OnlyVerifiedSTH OnlyVerifiedSCT
PROPERTIES OnlyFrom200 ErrorsCarryResponse NoPartialResults NoCreditForHistory
CHECK_DEADLOCK FALSE
