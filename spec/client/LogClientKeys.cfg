\* quick: one key option of every class (construction verdict x key verified with x which options are set; the specification's
\* verdicts depend on the option through nothing else - LogClientKeysFull.cfg has all of them) x one call x every endpoint x every class, 200 / 404 answers
\* (one repetition of a submission); the construction law and the verification invariants on all of it
CONSTANTS
  Statuses = {200, 404}
  RetryStatuses = {429}
  RetryBodies = {"valid"}
  UndecodableBodies = {"wrongType"}
  AfterRetryStatuses = {200}
  MaxAnswers = 2
  MaxCalls = 1
  CarryLayers = {"http", "json", "signed"}
  X509Chains = {"x509"}
  KeyOptions <- RepresentativeKeyOptions
  ShapeChains = {}
  ProbeClasses = {}
  ReplaySources = {}
INIT Init
NEXT Next
VIEW StateView
INVARIANTS TypeOK OnlyVerifiedSTH OnlyVerifiedSCT ConstructionLaw
PROPERTIES OnlyFrom200 ErrorsCarryResponse NoPartialResults NoCreditForHistory
CHECK_DEADLOCK FALSE
