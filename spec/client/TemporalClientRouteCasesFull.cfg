\* export (thorough): routing - every list over 0..6
CONSTANTS
  ShardLists <- MCAllLists
  Deployments <- MCDepRoute
  Instants = {0, 1, 2, 3, 4, 5, 6}
  Scenes = {"submit"}
  ChainKinds = {"x509", "precert", "precertPreIssuer"}
  Firsts = {"cert", "lax", "garbage", "none"}
  Statuses = {200, 500}
  FinalClasses = {"valid", "validForOther"}
  RetryStatuses = {}
  RetryAfterForms = {"zero"}
  UndecodableBodies = {}
  AfterRetryStatuses = {}
  MaxAnswers = 1
  MaxCalls = 1
  MaxMult = 8
  RootAnswers = {}
  CtxMayEnd = FALSE
INIT Init
NEXT Next
VIEW ExportView
INVARIANTS ExportCase RoutedToOneShard OnlyVerifiedSCT
CHECK_DEADLOCK FALSE
