\* thorough: two goroutines, two calls, every interleaving of internal steps, answers, lies and growth;
\* safety, and liveness: fair goroutines and a server that answers => every call returns
CONSTANTS
  Callers = {1, 2}
  MaxSize = 2
  InitSize = 1
  MaxCalls = 2
  Lies = TRUE
  Aliased = FALSE
  Depth = 0
SPECIFICATION FairSpec
INVARIANTS TypeOK NeverMissing SoundIndex Verdict CacheNotAhead
PROPERTIES Terminates CacheLaw Forward FetchOnlyWhenNeeded HeldStable
CHECK_DEADLOCK FALSE
