------------------------------- MODULE Retry -------------------------------
(***************************************************************************)
(* C13: submission with retry (jsonclient.PostAndParseWithRetry, used by   *)
(* client.LogClient.AddChain / AddPreChain) follows the server's pacing    *)
(* and stops when it should.                                               *)
(*                                                                         *)
(* One client = one shared back-off state (mult, notBefore) used by every  *)
(* caller.  Time is logical: `now` only moves in Advance, and only when no *)
(* caller can take a step (every step of the code takes zero time; waiting *)
(* is the only thing that takes time).  Base = time units per second; the  *)
(* jitter added to a wait is any value in 0..J-1.                          *)
(*                                                                         *)
(* What the server does is a WIRE response [w, sp, rak, ov]: its kind, the  *)
(* spelling of the body of a 200, the form of its Retry-After header        *)
(* ("none" | "secs" | "date") and the delay the header asks for in time     *)
(* units *measured at the instant of the response* (seconds * Base, or date *)
(* - now).  Wire kinds:                                                     *)
(*   b200    status 200, body spelled sp     neterr  transport error        *)
(*   redir   a chain of redirects, at least one of which (301/302/303)      *)
(*           turns the POST into a GET; the target answers a perfect 200    *)
(*   pres    a chain of 307/308 redirects (the POST stays a POST); the      *)
(*           target answers 200 with a body spelled sp                      *)
(*   loop    redirects for ever                                             *)
(*   s408 / s429 / s503 / other (every other status)                        *)
(* What the submission loop SEES of it is a class (the classes the property *)
(* speaks about) and depends on two further dimensions:                     *)
(*   - the spelling sp of a 200 body: every legal JSON spelling (RFC 8259)  *)
(*     of the correct response is "a body that parses" (OkSpell), every     *)
(*     other body is unparsable (BadSpell; base64 without its padding or in *)
(*     the URL alphabet is not the base64 of RFC 6962 / RFC 4648 s4);       *)
(*   - the http.Client the caller handed to the client (hc): whether it     *)
(*     follows redirects (no CheckRedirect of its own, or one that lets     *)
(*     them pass), hands the 3xx back (ErrUseLastResponse) or refuses them. *)
(*   ok      200 whose body parses          bad200  200 whose body does not *)
(*   neterr  transport error                redir   a redirect made the     *)
(*   s408 / s429 / s503                             POST another method     *)
(*   other   every other status                                            *)
(* Named clauses for what the property text leaves open (the code has a    *)
(* definite behaviour): a redirected POST is handled like a transport      *)
(* error (RedirectIsError); Retry-After is only looked at on 429 / 503;    *)
(* the multiplier is never decreased by this path; a 3xx the caller's      *)
(* policy hands back is a status like any other (UseLastIsStatus); a       *)
(* redirect the policy refuses (the caller's, or net/http's limit of 10    *)
(* hops on a loop) is either a transport error or that 3xx status - never  *)
(* a success (RefusedIsNotOK; which of the two is left open: it depends on *)
(* whether the handed-back, already closed 3xx body can still be read).    *)
(*                                                                         *)
(* The retained-results layer (process history).  What a submission        *)
(* RETURNED is a value, not a view: the error (status AND body), the       *)
(* parsed response / SCT and the raw body the caller was handed stay what  *)
(* they were at the instant of return, whatever happens afterwards in the  *)
(* process - later submissions of the same caller on the same client,      *)
(* submissions of other callers sharing the client (concurrent or not),    *)
(* submissions through other clients of the process, retries of any of     *)
(* them.  Every exchange the server answers has an identity `id` (its      *)
(* body is distinguishable from the body of every other exchange of the    *)
(* process: `sent`); a returned result is the record [c, no, k, id]: the   *)
(* no-th submission of caller c ended with kind k carrying the response    *)
(* id (0 for the context's error).  `retained` holds every result handed   *)
(* out so far; it only grows (ResultsAreValues), has one result per        *)
(* submission (OneResultPerCall), and each result carries the response of  *)
(* its OWN submission, of the class that ends it (RetainedOwn).  A caller  *)
(* may look at the results it kept at any time: Inspect(seen) - what it    *)
(* sees is what was returned.  The process history outlives clients (a new *)
(* client in the same process does not change what earlier clients         *)
(* returned).                                                              *)
(***************************************************************************)
EXTENDS Integers, Sequences, FiniteSets, TLC

CONSTANTS
  Callers,   \* concurrent submissions sharing one client
  MaxMult,   \* largest multiplier (8 in the code: cap 2^(8-1) s = 128 s)
  Base,      \* time units per second
  J,         \* jitter values are 0..J-1 time units (250 ms in the code)
  MaxLen,    \* the per-caller request counter n saturates here (model checking only)
  Record,    \* BOOLEAN: keep the behaviour in hist
  Retain     \* BOOLEAN: keep the process history of exchanges and returned results (sent, retained)

NoEnd == -1          \* ctxEnd of a context that never ends

RECURSIVE Pow2(_)
Pow2(k) == IF k <= 0 THEN 1 ELSE 2 * Pow2(k - 1)
Cap == Base * Pow2(MaxMult - 1)
Max(a, b) == IF a >= b THEN a ELSE b
Min(a, b) == IF a <= b THEN a ELSE b
SetMin(S) == CHOOSE x \in S : \A y \in S : x <= y

Classes   == {"ok", "bad200", "neterr", "redir", "s408", "s429", "s503", "other"}
Retryable == {"bad200", "neterr", "redir", "s408", "s429", "s503"}
Terminal  == {"ok", "other"}
RAKinds   == {"none", "secs", "date"}

(* ---- the wire, the spelling of a 200 body, the caller's http.Client ---- *)
WireKinds == {"b200", "neterr", "redir", "pres", "loop", "s408", "s429", "s503", "other"}
\* legal spellings of the complete, correct response (RFC 8259): the canonical text; "/" written "\/"; characters of
\* string values written \uXXXX; characters of member names written \uXXXX; insignificant white space between tokens
\* and around the value; members in another order; unknown extra members (scalars); unknown extra members holding
\* objects / arrays that repeat the known names; white space after the value; all of these at once
OkSpell  == {"canon", "solidus", "uescape", "keyescape", "space", "order", "extra", "nested", "trailws", "combo"}
\* not a parsable response: not JSON at all; nothing; cut short; base64 members without padding; base64 members in the
\* URL alphabet; a member of the wrong JSON type; bytes after the value; an escape JSON does not have; a raw control
\* character inside a string; a character outside the base64 alphabet; an array instead of the object
BadSpell == {"html", "empty", "trunc", "nopad", "urlsafe", "wrongtype", "tailgarbage", "badescape", "ctrlchar",
             "b64garbage", "arraytop"}
NoSpell  == "-"
BodyClass(sp) == IF sp \in OkSpell THEN "ok" ELSE "bad200"
\* the caller's http.Client: none at all, a plain one, with a CheckRedirect of its own that lets redirects pass /
\* bounds the hops (above every finite chain here), with a cookie jar, with a Timeout (never reached: the server
\* answers at once) - all of these FOLLOW redirects; "uselast" hands the 3xx back, "refuse" refuses every redirect
Followers == {"nil", "plain", "follow", "limit", "jar", "timeout"}
HCKinds   == Followers \cup {"uselast", "refuse"}
Refused   == {"neterr", "other"}
\* the classes the submission loop may see of wire kind w (body spelled sp) through a client configured h
Seen(h, w, sp) ==
  CASE w = "b200"  -> {BodyClass(sp)}
    [] w = "redir" -> IF h \in Followers THEN {"redir"} ELSE IF h = "uselast" THEN {"other"} ELSE Refused
    [] w = "pres"  -> IF h \in Followers THEN {BodyClass(sp)} ELSE IF h = "uselast" THEN {"other"} ELSE Refused
    [] w = "loop"  -> IF h = "uselast" THEN {"other"} ELSE Refused
    [] OTHER       -> {w}
Wire(w, sp, rak, ov) == [w |-> w, sp |-> sp, rak |-> rak, ov |-> ov]
\* a response as the submission loop holds it: the class seen, and the wire response it came from
Resp(cls, r) == [cls |-> cls, rak |-> r.rak, ov |-> r.ov, w |-> r.w, sp |-> r.sp]
NoResp == [cls |-> "none", rak |-> "none", ov |-> 0, w |-> "none", sp |-> NoSpell]
\* the server asked for a specific delay
Asks(r) == r.cls \in {"s429", "s503"} /\ r.rak # "none"

Res(k) == [k |-> k]
NoRes == Res("none")

(* ---- the body of backoff.set under its mutex ---- *)
\* m, nb: the shared state; t: the instant; has/ov: the optional override
SetBackoff(m, nb, t, has, ov) ==
  IF nb > t
    THEN \* a back-off is pending: it is only ever extended, and only by an override
         [mult |-> m, nb |-> IF has /\ t + ov > nb THEN t + ov ELSE nb]
    ELSE IF has THEN [mult |-> m, nb |-> t + ov]
    ELSE LET m2 == IF m < MaxMult THEN m + 1 ELSE m
         IN  [mult |-> m2, nb |-> t + Base * Pow2(m2 - 1)]

VARIABLES
  hc,         \* the http.Client configuration of the client (fixed for the life of a client)
  now,        \* logical time
  mult,       \* shared: back-off multiplier 0..MaxMult
  notBefore,  \* shared: no request before this instant
  pc,         \* per caller: idle | posting | decided | setdone | waiting | done
  ctxEnd,     \* per caller: instant at which its context ends (deadline or cancel), NoEnd
  ctxDone,    \* per caller: its context has ended
  until,      \* per caller: instant its back-off timer fires
  result,     \* per caller: ok | status | ctx
  lastResp,   \* per caller: response being decided on
  n,          \* per caller: requests sent (saturates at MaxLen)
  \* history variables for the timing clauses
  lastPost,   \* per caller: instant of its last request (= the instant its current wait started), -1 before the first
  minNext,    \* per caller: lastPost + what the server asked for in reply to it
  askUntil,   \* shared: latest instant any response of the server asked anybody to wait for
  hist,       \* the behaviour (only when Record)
  \* the retained-results layer: history of the PROCESS (it outlives a client); only when Retain
  callNo,     \* per caller: which of its submissions this is (a caller's submissions follow each other)
  lastId,     \* per caller: identity of the response being decided on (the last one its submission received)
  sent,       \* the exchanges answered so far: [id, c, no, cls] - identity, whose submission, class seen
  retained    \* the results handed to callers so far, which they keep: [c, no, k, id]

shared == <<mult, notBefore>>
hvars == <<callNo, lastId, sent, retained>>
vars == <<hc, now, mult, notBefore, pc, ctxEnd, ctxDone, until, result, lastResp, n,
          lastPost, minNext, askUntil, hist, callNo, lastId, sent, retained>>

Log(e) == hist' = IF Record THEN Append(hist, e) ELSE hist

\* the result of c's current submission as the caller is handed it (and keeps it): kind k carrying response id
Kept(c, k) == [c |-> c, no |-> callNo[c], k |-> k, id |-> IF k = "ctx" THEN 0 ELSE lastId[c]]
\* the submission of c returns kind k: the result is handed out
Hand(c, k) == /\ retained' = IF Retain THEN retained \cup {Kept(c, k)} ELSE retained
              /\ UNCHANGED <<callNo, lastId, sent>>

(* ---- actions: one per critical section of the code ---- *)

\* a caller that has returned forgets its per-call bookkeeping
Clear(c) == /\ until' = [until EXCEPT ![c] = 0]
            /\ lastPost' = [lastPost EXCEPT ![c] = -1]
            /\ minNext' = [minNext EXCEPT ![c] = 0]

\* PostAndParse: one request/response exchange (the context is still alive); the wire response wr is seen as class k
\* id: the identity of this exchange (its body differs from the body of every other exchange of the process)
Post(c, wr, k, id) ==
  /\ pc[c] = "posting" /\ ~ctxDone[c]
  /\ k \in Seen(hc, wr.w, wr.sp)
  /\ \A s \in sent : s.id # id
  /\ lastId' = IF Retain THEN [lastId EXCEPT ![c] = id] ELSE lastId
  /\ sent' = IF Retain THEN sent \cup {[id |-> id, c |-> c, no |-> callNo[c], cls |-> k]} ELSE sent
  /\ UNCHANGED <<callNo, retained>>
  /\ LET r == Resp(k, wr) IN
     /\ pc' = [pc EXCEPT ![c] = "decided"]
     /\ lastResp' = [lastResp EXCEPT ![c] = r]
     /\ lastPost' = [lastPost EXCEPT ![c] = now]
     /\ minNext' = [minNext EXCEPT ![c] = IF Asks(r) THEN now + r.ov ELSE now]
     /\ n' = [n EXCEPT ![c] = Min(n[c] + 1, MaxLen)]
     /\ Log([a |-> "Post", c |-> c, t |-> now, cls |-> r.cls, w |-> r.w, sp |-> r.sp, rak |-> r.rak, ov |-> r.ov,
             mult |-> mult, nb |-> notBefore, id |-> id, no |-> callNo[c]])
  /\ UNCHANGED <<hc, now, mult, notBefore, ctxEnd, ctxDone, until, result, askUntil>>

\* PostAndParse with a context that has ended: the context's error, no request
PostCtx(c) ==
  /\ pc[c] = "posting" /\ ctxDone[c]
  /\ pc' = [pc EXCEPT ![c] = "done"]
  /\ result' = [result EXCEPT ![c] = Res("ctx")]
  /\ Log([a |-> "Ret", c |-> c, t |-> now, res |-> "ctx", id |-> 0, no |-> callNo[c]])
  /\ Clear(c)
  /\ Hand(c, "ctx")
  /\ UNCHANGED <<hc, now, mult, notBefore, ctxEnd, ctxDone, lastResp, n, askUntil>>

\* the status switch of PostAndParseWithRetry, including backoff.set under its mutex
Decide(c) ==
  /\ pc[c] = "decided"
  /\ LET r == lastResp[c] IN
     /\ lastResp' = [lastResp EXCEPT ![c] = NoResp]
     /\ IF r.cls \in Terminal THEN
          /\ pc' = [pc EXCEPT ![c] = "done"]
          /\ result' = [result EXCEPT ![c] = Res(IF r.cls = "ok" THEN "ok" ELSE "status")]
          /\ Log([a |-> "Ret", c |-> c, t |-> now, res |-> IF r.cls = "ok" THEN "ok" ELSE "status",
                  id |-> lastId[c], no |-> callNo[c]])
          /\ Clear(c)
          /\ Hand(c, IF r.cls = "ok" THEN "ok" ELSE "status")
          /\ UNCHANGED <<mult, notBefore, askUntil>>
        ELSE IF r.cls = "s408" THEN      \* retried without touching the back-off
          /\ pc' = [pc EXCEPT ![c] = "setdone"]
          /\ Log([a |-> "Set", c |-> c, t |-> now, mult |-> mult, nb |-> notBefore])
          /\ UNCHANGED <<mult, notBefore, askUntil, result, until, lastPost, minNext>>
          /\ UNCHANGED hvars
        ELSE
          LET s == SetBackoff(mult, notBefore, now, Asks(r), r.ov) IN
          /\ pc' = [pc EXCEPT ![c] = "setdone"]
          /\ mult' = s.mult
          /\ notBefore' = s.nb
          /\ askUntil' = IF Asks(r) THEN Max(askUntil, now + r.ov) ELSE askUntil
          /\ Log([a |-> "Set", c |-> c, t |-> now, mult |-> s.mult, nb |-> s.nb])
          /\ UNCHANGED <<result, until, lastPost, minNext>>
          /\ UNCHANGED hvars
  /\ UNCHANGED <<hc, now, ctxEnd, ctxDone, n>>

\* waitForBackoff: reads the shared not-before instant, adds this wait's jitter, arms the timer
StartWait(c, j) ==
  /\ pc[c] = "setdone"
  /\ pc' = [pc EXCEPT ![c] = "waiting"]
  /\ until' = [until EXCEPT ![c] = notBefore + j]
  /\ Log([a |-> "Wait", c |-> c, t |-> now, until |-> notBefore + j, j |-> j])
  /\ UNCHANGED <<hc, now, mult, notBefore, ctxEnd, ctxDone, result, lastResp, n, lastPost, minNext, askUntil>>
  /\ UNCHANGED hvars

TimerFires(c) ==
  /\ pc[c] = "waiting" /\ now >= until[c]
  /\ pc' = [pc EXCEPT ![c] = "posting"]
  /\ until' = [until EXCEPT ![c] = 0]
  /\ UNCHANGED <<hc, now, mult, notBefore, ctxEnd, ctxDone, result, lastResp, n, lastPost, minNext, askUntil, hist>>
  /\ UNCHANGED hvars

\* the caller's context ends (deadline reached or cancelled at that instant)
CtxEnds(c) ==
  /\ pc[c] \notin {"idle", "done"} /\ ~ctxDone[c]
  /\ ctxEnd[c] # NoEnd /\ now >= ctxEnd[c]
  /\ ctxDone' = [ctxDone EXCEPT ![c] = TRUE]
  /\ Log([a |-> "Ctx", c |-> c, t |-> now])
  /\ UNCHANGED <<hc, now, mult, notBefore, pc, ctxEnd, until, result, lastResp, n, lastPost, minNext, askUntil>>
  /\ UNCHANGED hvars

\* the select in waitForBackoff takes the context branch
CtxReturn(c) ==
  /\ pc[c] = "waiting" /\ ctxDone[c]
  /\ pc' = [pc EXCEPT ![c] = "done"]
  /\ result' = [result EXCEPT ![c] = Res("ctx")]
  /\ Log([a |-> "Ret", c |-> c, t |-> now, res |-> "ctx", id |-> 0, no |-> callNo[c]])
  /\ Clear(c)
  /\ Hand(c, "ctx")
  /\ UNCHANGED <<hc, now, mult, notBefore, ctxEnd, ctxDone, lastResp, n, askUntil>>

(* ---- time ---- *)
CtxPending(c) == pc[c] \notin {"idle", "done"} /\ ~ctxDone[c] /\ ctxEnd[c] # NoEnd
\* somebody can take a step at this instant: time does not pass
Urgent == \E c \in Callers :
            \/ pc[c] \in {"posting", "decided", "setdone"}
            \/ pc[c] = "waiting" /\ (now >= until[c] \/ ctxDone[c])
            \/ CtxPending(c) /\ now >= ctxEnd[c]
Deadlines == {until[c] : c \in {x \in Callers : pc[x] = "waiting"}}
             \cup {ctxEnd[c] : c \in {x \in Callers : CtxPending(x)}}
Advance ==
  /\ ~Urgent
  /\ Deadlines # {}
  /\ now' = SetMin(Deadlines)
  /\ UNCHANGED <<hc, mult, notBefore, pc, ctxEnd, ctxDone, until, result, lastResp, n, lastPost, minNext, askUntil, hist>>
  /\ UNCHANGED hvars

CallerStep(c) == \/ PostCtx(c) \/ Decide(c) \/ TimerFires(c) \/ CtxEnds(c) \/ CtxReturn(c)
                 \/ \E j \in 0..(J - 1) : StartWait(c, j)

(* ---- the property (C13) ---- *)
TypeOK ==
  /\ hc \in HCKinds
  /\ now \in Nat /\ mult \in 0..MaxMult /\ notBefore \in Int
  /\ \A c \in Callers :
       /\ pc[c] \in {"idle", "posting", "decided", "setdone", "waiting", "done"}
       /\ result[c].k \in {"none", "ok", "status", "ctx"}
       /\ (pc[c] = "done") = (result[c] # NoRes)
       /\ lastResp[c] = NoResp \/ (/\ pc[c] = "decided" /\ lastResp[c].cls \in Classes
                                     /\ lastResp[c].w \in WireKinds
                                     /\ lastResp[c].cls \in Seen(hc, lastResp[c].w, lastResp[c].sp))

\* a c-step that leaves "decided"
Decides(c) == pc[c] = "decided" /\ pc'[c] # "decided"
\* a c-step that sends a request
Posts(c) == pc[c] = "posting" /\ pc'[c] = "decided"

\* returns the first 200 whose body parses: success is only ever decided on such a response, and
\* such a response is never followed by anything but the return (with OthersImmediate below this makes
\* the returned response the first ok of the caller's script)
FirstGood200Step == \A c \in Callers :
                      /\ (result'[c].k = "ok" /\ result[c].k # "ok") => (pc[c] = "decided" /\ lastResp[c].cls = "ok")
                      /\ (Decides(c) /\ lastResp[c].cls = "ok") => (pc'[c] = "done" /\ result'[c].k = "ok")
FirstGood200 == [][FirstGood200Step]_vars

\* retries only after transport errors, unparsable 200 bodies, 408, 429, 503 (and a redirected POST)
RetryOnlyOnStep == \A c \in Callers :
                     (Decides(c) /\ pc'[c] = "setdone") => lastResp[c].cls \in Retryable
RetryOnlyOn == [][RetryOnlyOnStep]_vars

\* every other status is returned immediately as an error (carrying status and body: harness)
OthersImmediateStep == \A c \in Callers :
                         (Decides(c) /\ lastResp[c].cls = "other") =>
                             (pc'[c] = "done" /\ result'[c].k = "status" /\ now' = now)
OthersImmediate == [][OthersImmediateStep]_vars

\* never waits less than a server-supplied Retry-After
HonoursRetryAfterStep == \A c \in Callers : Posts(c) => now >= minNext[c]
HonoursRetryAfter == [][HonoursRetryAfterStep]_vars

\* when the server has not asked for more: never longer than the cap plus the jitter
CapPlusJitterStep == \A c \in Callers :
                       (Posts(c) /\ lastPost[c] >= 0) =>
                           now <= Max(lastPost[c] + Cap, askUntil) + (J - 1)
CapPlusJitter == [][CapPlusJitterStep]_vars

\* 408 is retried without added delay: it leaves the shared back-off untouched ...
NoDelayOn408Step == \A c \in Callers :
                      (Decides(c) /\ lastResp[c].cls = "s408") =>
                          (pc'[c] = "setdone" /\ mult' = mult /\ notBefore' = notBefore)
NoDelayOn408 == [][NoDelayOn408Step]_vars
\* ... and every wait ends as soon as the not-before instant read at its start plus jitter has passed
WaitIsBackoffPlusJitterStep == \A c \in Callers :
                                 (pc[c] = "waiting" /\ pc'[c] = "posting") =>
                                     /\ now = Max(until[c], lastPost[c])
WaitIsBackoffPlusJitter == [][WaitIsBackoffPlusJitterStep]_vars
UntilInWindowStep == \A c \in Callers :
                       (pc[c] = "setdone" /\ pc'[c] = "waiting") =>
                           (until'[c] >= notBefore /\ until'[c] <= notBefore + (J - 1))
UntilInWindow == [][UntilInWindowStep]_vars

\* a pending back-off is only ever extended
PendingOnlyExtendedStep == (notBefore > now /\ now' = now) => notBefore' >= notBefore
PendingOnlyExtended == [][PendingOnlyExtendedStep]_vars
MultMonotoneStep == mult' >= mult /\ mult' <= mult + 1
MultMonotone == [][MultMonotoneStep]_vars

\* once the context has ended: no further request, and no time passes before the caller has returned
NoPostAfterCtxStep == \A c \in Callers : ctxDone[c] => ~Posts(c)
NoPostAfterCtx == [][NoPostAfterCtxStep]_vars
PromptCtxSafeStep == now' # now => \A c \in Callers : (ctxDone[c] /\ pc[c] # "idle") => pc[c] = "done"
PromptCtxSafe == [][PromptCtxSafeStep]_vars
CtxResult == \A c \in Callers : result[c].k = "ctx" => ctxDone[c]
\* ... and it does return (liveness, weak fairness of every caller's steps)
PromptCtx == \A c \in Callers : (ctxDone[c] /\ pc[c] # "idle") ~> (pc[c] = "done")

\* a POST that a redirect turned into another method is never treated as success - through whatever http.Client the
\* caller supplied (the wire kind decides, not what the client made of it); nor is a redirect loop; where the client
\* followed the redirect, the converted POST is retried like a transport error (RedirectIsError)
RedirectNotOKStep == \A c \in Callers :
                       /\ (Decides(c) /\ lastResp[c].w \in {"redir", "loop"}) => result'[c].k # "ok"
                       /\ (Decides(c) /\ lastResp[c].cls = "redir") => (pc'[c] = "setdone" /\ result'[c] = NoRes)
RedirectNotOK == [][RedirectNotOKStep]_vars

\* "the first 200 response whose body parses" is about the response, not about its spelling: every legal spelling of
\* the correct body ends the submission with success, every other body of a 200 is retried - also at the far end of
\* method-preserving redirects the client followed
SpellingStep == \A c \in Callers :
                  (Decides(c) /\ (lastResp[c].w = "b200" \/ (lastResp[c].w = "pres" /\ hc \in Followers))) =>
                      /\ lastResp[c].sp \in OkSpell  => (pc'[c] = "done" /\ result'[c].k = "ok")
                      /\ lastResp[c].sp \in BadSpell => (pc'[c] = "setdone" /\ result'[c] = NoRes)
SpellingIrrelevant == [][SpellingStep]_vars
\* a 3xx the caller's policy hands back, and a refused redirect seen as its 3xx, are statuses like any other;
\* a refused redirect is otherwise a transport error
HandedBackStep == \A c \in Callers :
                    (Decides(c) /\ lastResp[c].w \in {"redir", "pres", "loop"} /\ hc \notin Followers) =>
                        \/ pc'[c] = "done" /\ result'[c].k = "status" /\ now' = now
                        \/ hc = "refuse" /\ pc'[c] = "setdone" /\ result'[c] = NoRes
HandedBack == [][HandedBackStep]_vars

(* ---- the retained-results layer: results are values, not views ---- *)
\* a caller looks at results it kept (any of them, at any time): each still is what was returned
Inspect(seen) == seen \subseteq retained
\* every result carries the response of its own submission - the one that ended it, of the class that ends a
\* submission that way - and the context's error carries none
RetainedOwn == \A x \in retained :
                 /\ x.k \in {"ok", "status", "ctx"}
                 /\ x.k = "ctx" => x.id = 0
                 /\ x.k # "ctx" => \E s \in sent : /\ s.id = x.id /\ s.c = x.c /\ s.no = x.no
                                                   /\ s.cls = (IF x.k = "ok" THEN "ok" ELSE "other")
\* the function law: one submission, one result
OneResultPerCall == \A x, y \in retained : (x.c = y.c /\ x.no = y.no) => x = y
\* identities identify: no two exchanges of the process share one
IdsDistinct == Cardinality({s.id : s \in sent}) = Cardinality(sent)
\* whatever happens later (requests, retries, returns of anybody, through any client of the process), a result that
\* was handed out stays what it was; and a step hands out at most the result of the submission that returns in it
ResultsAreValuesStep ==
  /\ retained \subseteq retained'
  /\ sent \subseteq sent'
  /\ \A x \in retained' \ retained : /\ pc[x.c] # "done" /\ pc'[x.c] = "done" /\ x.no = callNo[x.c]
                                     /\ x.k = result'[x.c].k
                                     /\ x.k # "ctx" => (pc[x.c] = "decided" /\ x.id = lastId[x.c])
                                     \* (RetainedOwn and OneResultPerCall, at the instant of the hand-out)
                                     /\ x.k = "ctx" => x.id = 0
                                     /\ x.k # "ctx" => [id |-> x.id, c |-> x.c, no |-> x.no,
                                                         cls |-> IF x.k = "ok" THEN "ok" ELSE "other"] \in sent
                                     /\ \A y \in retained : ~(y.c = x.c /\ y.no = x.no)
ResultsAreValues == [][ResultsAreValuesStep]_vars

\* every step clause at once (used by the trace specification on the steps of recorded executions)
AllStepClauses == /\ FirstGood200Step /\ RetryOnlyOnStep /\ OthersImmediateStep /\ HonoursRetryAfterStep
                  /\ CapPlusJitterStep /\ NoDelayOn408Step /\ WaitIsBackoffPlusJitterStep /\ UntilInWindowStep
                  /\ PendingOnlyExtendedStep /\ MultMonotoneStep /\ NoPostAfterCtxStep /\ PromptCtxSafeStep
                  /\ RedirectNotOKStep /\ SpellingStep /\ HandedBackStep /\ ResultsAreValuesStep
=============================================================================
