\* quick: the same laws over fewer tree sizes and policies + export of the cover
CONSTANTS
  WorldSize = 24
  Kind <- MCKind
  Class <- MCClass
  Fam <- MCFam
  Cases = {}
  Sizes = {0, 6, 24}
  Starts = {0, 4}
  Ends = {0, 17}
  Batches = {1, 2, 3, 4, 5, 6, 7, 8, 9, 10, 11, 12, 13, 14, 15, 16}
  Caps = {3, 7}
  Aligns = {5}
  NMs = {1, 2, 3, 4, 5, 6}
  Bufs = {0, 1, 3, 16}
  NFs = {1, 2, 4}
  LawBatches = {1, 2, 3, 5, 8, 13, 16}
INIT MCInit
NEXT Next
INVARIANTS LawsHold ExportCover
CHECK_DEADLOCK FALSE
