\* export: every single call (method x chain x answer script) as one CASE record; entry-decoder ECASE records
CONSTANTS
  Statuses = {200, 204, 301, 400, 404, 429, 500}
  RetryStatuses = {429}
  RetryBodies = {"valid"}
  UndecodableBodies = {"wrongType"}
  AfterRetryStatuses = {200, 400}
  MaxAnswers = 2
  MaxCalls = 1
  CarryLayers = {"http", "json", "signed"}
  X509Chains = {"x509"}
  KeyOptions <- AllKeyOptions
  ShapeChains <- AllShapeChains
  ProbeClasses = {"valid", "validEmptyTree", "validWithExtensions", "sigCorrupt", "sigByOtherKey", "sigByOtherKeyType", "sigMissing", "sigAlgMismatch", "logIDForeign", "idLen0", "sigOverOtherChain", "sigOverSubmittedNotFinal", "sigOverOtherType", "sigOverOtherRoot", "notJSON"}
  ReplaySources = {}
INIT Init
NEXT Next
VIEW ExportView
ACTION_CONSTRAINT CaseBound
INVARIANTS TypeOK OnlyVerifiedSTH OnlyVerifiedSCT ConstructionLaw ExportCase ExportEntryCases ExportKeyCases
PROPERTIES OnlyFrom200 ErrorsCarryResponse NoPartialResults
CHECK_DEADLOCK FALSE
