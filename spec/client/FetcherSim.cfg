\* simulation: complete runs exported as reply scripts for the harness
CONSTANTS
  MaxSize = 9
  Workers = {1, 2, 3}
  MaxErrors = 4
  ErrKinds <- ErrLabels
  KeepHist = TRUE
  Configs <- SimConfigs
  Batches = {1, 2, 3, 4}
  NW = 3
  InitSizes = {0, 1, 3, 4, 6, 9}
  MaxRejects = 2
INIT SimInit
NEXT SimNext
INVARIANTS ExportFinished SimComplete Accounting NoOutOfRange Contiguous
CHECK_DEADLOCK FALSE
