\* liveness of the scan (rendezvous channel between flatten and the matcher workers)
CONSTANTS
  MaxSize = 2
  Workers = {1, 2}
  MaxErrors = 1
  ErrKinds <- OneErr
  KeepHist = FALSE
  Configs <- ScanConfigs
  Batches = {2}
  NW = 2
  InitSizes = {1, 2}
  Matchers = {1, 2}
  BufSize = 0
  Kind <- MCKind
  Class <- MCClass
  Wants <- MCWants
  MTypes = {"matcher", "leaf"}
SPECIFICATION SFairSpec
INVARIANTS TypeOK CallbackSound CallbackComplete ProcessedAll ScanComplete
PROPERTIES ScanTerminates
CHECK_DEADLOCK FALSE
