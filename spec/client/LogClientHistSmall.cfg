\* quick tier: every sequence of three calls to the signed endpoints in which the server replays (parts of) what it answered before
CONSTANTS
  Statuses = {200}
  RetryStatuses = {}
  RetryBodies = {}
  UndecodableBodies = {}
  AfterRetryStatuses = {}
  MaxAnswers = 1
  MaxCalls = 3
  CarryLayers = {"http", "json", "signed"}
  X509Chains = {"x509", "x509b"}
  KeyOptions = {"der"}
  ShapeChains = {}
  ProbeClasses = {}
  ReplaySources = {"valid", "sigCorrupt", "sigOverOtherSize"}
  HistFresh = {"valid", "sigCorrupt", "sigOverOtherSize"}
INIT Init
NEXT Next
ACTION_CONSTRAINT HistBound
INVARIANTS TypeOK OnlyVerifiedSTH OnlyVerifiedSCT ConstructionLaw ExportHistory
PROPERTIES OnlyFrom200 ErrorsCarryResponse NoPartialResults NoCreditForHistory
CHECK_DEADLOCK FALSE
