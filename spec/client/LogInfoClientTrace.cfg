CONSTANTS
  Callers = {1, 2, 3}
  MaxSize = 6
  InitSize = 0
  MaxCalls = 100000
  Lies = TRUE
  Aliased = FALSE
INIT TraceInit
NEXT TraceNext
VIEW TraceView
CONSTRAINT HighWater
INVARIANTS TraceNeverMissing TraceSoundIndex TraceCacheNotAhead
POSTCONDITION TraceAccepted
CHECK_DEADLOCK FALSE
