\* thorough exhaustive: two goroutines, log up to 3, every interleaving of internal steps, answers, lies and growth
CONSTANTS
  Callers = {1, 2}
  MaxSize = 3
  InitSize = 1
  MaxCalls = 3
  Lies = TRUE
  Aliased = FALSE
  Depth = 0
INIT PlainInit
NEXT PlainNext
VIEW StateView
INVARIANTS TypeOK NeverMissing SoundIndex Verdict CacheNotAhead
PROPERTIES CacheLaw Forward FetchOnlyWhenNeeded HeldStable
CHECK_DEADLOCK FALSE
