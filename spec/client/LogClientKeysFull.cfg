\* thorough; exhaustive over the key-material dimension: every key option x one call x every endpoint x every class, 200 / 404 answers
\* (one repetition of a submission); the construction law and the verification invariants on all of it
CONSTANTS
  Statuses = {200, 404}
  RetryStatuses = {429}
  RetryBodies = {"valid"}
  UndecodableBodies = {"wrongType"}
  AfterRetryStatuses = {200}
  MaxAnswers = 2
  MaxCalls = 1
  CarryLayers = {"http", "json", "signed"}
  X509Chains = {"x509"}
  KeyOptions <- AllKeyOptions
  ShapeChains = {}
  ProbeClasses = {}
  ReplaySources = {}
INIT Init
NEXT Next
VIEW StateView
INVARIANTS TypeOK OnlyVerifiedSTH OnlyVerifiedSCT ConstructionLaw
PROPERTIES OnlyFrom200 ErrorsCarryResponse NoPartialResults NoCreditForHistory
CHECK_DEADLOCK FALSE
