---------------------------- MODULE ScanClasses ----------------------------
(***************************************************************************)
(* C16, the CONTENT dimension of "the scanner invokes the certificate or   *)
(* precertificate callback exactly once for every entry its matcher        *)
(* selects": the case analysis of ScanSelect.tla over entry DESCRIPTIONS.   *)
(*                                                                         *)
(* A case is one log entry: its kind (X.509 / precertificate) and the set  *)
(* of defects of the catalogue its (pre-)certificate carries - none, one,  *)
(* several of one layer, several of different layers at once, with or      *)
(* without a fatal one.  For every case the module says what the reader    *)
(* makes of it (ParseClass) and which matcher types are asked about it;    *)
(* with the matcher's verdict that is what a scan owes the entry:          *)
(*     Owed(c, wants, mtype) == wants /\ IsAsked(class, mtype)             *)
(* and the callback is the one of the entry's kind.                        *)
(*                                                                         *)
(* TLC checks the laws on every case and exports it; harness/vt/c16        *)
(* TestClasses builds every case with real DER (defects.go), fills logs    *)
(* with them and runs the real Scanner.Scan over those logs with Matcher-   *)
(* and LeafMatcher-type matchers: the callbacks made must be the owed ones.*)
(***************************************************************************)
EXTENDS Naturals, FiniteSets, Sequences, TLC, Json, ScanSelect

CONSTANTS Kinds,        \* {"x509", "precert"}
          MaxPerLayer   \* at most this many defects of one tolerable layer in one entry

Descriptions == {ds \in SUBSET AllDefects : /\ Cardinality(ds \cap DerDefects) <= MaxPerLayer
                                             /\ Cardinality(ds \cap FieldDefects) <= MaxPerLayer
                                             /\ Cardinality(ds \cap FatalDefects) <= 1
                                             /\ ProfileOf(ds) \in ClassProfiles}
Cases == [defects : Descriptions, kind : Kinds]

ClassOf(ds) == ClassName(ProfileOf(ds))
Owed(x, wants, mtype) == Selected(wants, ClassOf(x.defects), mtype)
Callback(x, wants, mtype) == IF Owed(x, wants, mtype) THEN x.kind ELSE "none"

(* ------------------------------------------------------------------ laws *)
\* the class of a description is decided by the presence of a fatal defect alone
FatalIffFatalDefect(x) == (ParseClass(ClassOf(x.defects)) = "fatal") = (x.defects \cap FatalDefects # {})

\* TolerableComposes on descriptions: one more tolerable defect - of the same layer or of another one - never changes
\* whether the entry is put to the matcher; removing one neither
ComposeLaw(x) ==
  \A d \in TolerableDefects :
     LET more == x.defects \cup {d}
         less == x.defects \ {d} IN
     /\ more \in Descriptions => \A mt \in MatcherTypes : IsAsked(ClassOf(more), mt) = IsAsked(ClassOf(x.defects), mt)
     /\ \A mt \in MatcherTypes : IsAsked(ClassOf(less), mt) = IsAsked(ClassOf(x.defects), mt)

\* what is owed does not depend on the kind, the callback made is the one of the kind; nothing is owed unless wanted
OwedLaw(x) ==
  /\ \A mt \in MatcherTypes : /\ Callback(x, TRUE, mt) \in {x.kind, "none"}
                             /\ Callback(x, FALSE, mt) = "none"
  /\ Callback(x, TRUE, "leaf") = x.kind
  /\ (Callback(x, TRUE, "matcher") = x.kind) = (x.defects \cap FatalDefects = {})

ASSUME ClassNamesLaw /\ TolerableComposes /\ AskedLaw
\* every class of ScanSelect.tla has a description, every description a class
ASSUME {ClassOf(ds) : ds \in Descriptions} = Classes
\* both layers at once, and each layer twice, occur among the readable descriptions
ASSUME \E ds \in Descriptions : ProfileOf(ds) = [der |-> 1, field |-> 1, fatal |-> FALSE]
ASSUME \E ds \in Descriptions : ProfileOf(ds) = [der |-> 2, field |-> 0, fatal |-> FALSE]
ASSUME \E ds \in Descriptions : ProfileOf(ds) = [der |-> 0, field |-> 2, fatal |-> FALSE]

ASSUME PrintT(<<"CATALOGUE", ToJson([der |-> DerDefects, field |-> FieldDefects, fatal |-> FatalDefects, classes |-> Classes])>>)

(* --------------------------------------------------------- the machine *)
VARIABLES c, done
cvars == <<c, done>>

Init == c \in Cases /\ done = FALSE
Finish == ~done /\ done' = TRUE /\ UNCHANGED c
Next == Finish
Spec == Init /\ [][Next]_cvars

LawsHold == done => FatalIffFatalDefect(c) /\ ComposeLaw(c) /\ OwedLaw(c)

ExportOf(x) == [defects |-> x.defects, kind |-> x.kind, class |-> ClassOf(x.defects),
                parse |-> ParseClass(ClassOf(x.defects)),
                askedMatcher |-> IsAsked(ClassOf(x.defects), "matcher"), askedLeaf |-> IsAsked(ClassOf(x.defects), "leaf")]
Export == done => PrintT(<<"CASE", ToJson(ExportOf(c))>>)
=============================================================================
