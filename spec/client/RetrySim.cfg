\* simulation with the constants of the code (ms): behaviours exported for replay
CONSTANTS
  Callers = {1, 2}
  MaxMult = 8
  Base = 1000
  J = 250
  MaxLen = 5
  Record = TRUE
  Retain = TRUE
  Starts = {0, 400, 1000, 2600}
  CtxChoices = {0, 700, 1500, 3100, 8000, 20000, 70000, 300000}
  HCs = {"nil", "plain", "follow", "limit", "jar", "timeout", "uselast", "refuse"}
  Rich = FALSE
  WireRich = FALSE
  Sim = TRUE
INIT MCInit
NEXT SimNext
INVARIANTS ExportFinished
CHECK_DEADLOCK FALSE
