\* thorough exhaustive: scripts <= 4 responses
CONSTANTS
  Callers = {1, 2}
  MaxMult = 3
  Base = 1
  J = 2
  MaxLen = 4
  Record = FALSE
  Retain = TRUE
  Starts = {0, 1}
  CtxChoices = {3, 9}
  HCs = {"plain"}
  WireRich = FALSE
  Rich = TRUE
  Sim = FALSE
INIT MCInit
NEXT MCNext
VIEW StateView
INVARIANTS TypeOK CtxResult RetainedOwn OneResultPerCall IdsDistinct
PROPERTIES FirstGood200 RetryOnlyOn OthersImmediate HonoursRetryAfter CapPlusJitter NoDelayOn408 WaitIsBackoffPlusJitter UntilInWindow PendingOnlyExtended MultMonotone NoPostAfterCtx PromptCtxSafe RedirectNotOK SpellingIrrelevant HandedBack ResultsAreValues
CHECK_DEADLOCK FALSE
