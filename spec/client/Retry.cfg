\* thorough exhaustive: scripts <= 4 responses
CONSTANTS
  Callers = {1, 2}
  MaxMult = 3
  Base = 1
  J = 2
  MaxLen = 4
  Record = FALSE
  Starts = {0, 1}
  CtxChoices = {3, 9}
  Rich = TRUE
  Sim = FALSE
INIT MCInit
NEXT MCNext
VIEW StateView
INVARIANTS TypeOK CtxResult
PROPERTIES FirstGood200 RetryOnlyOn OthersImmediate HonoursRetryAfter CapPlusJitter NoDelayOn408 WaitIsBackoffPlusJitter UntilInWindow PendingOnlyExtended MultMonotone NoPostAfterCtx PromptCtxSafe RedirectNotOK
CHECK_DEADLOCK FALSE
