\* simulation, a single caller (lock-step replay of state and windows)
CONSTANTS
  Callers = {1}
  MaxMult = 8
  Base = 1000
  J = 250
  MaxLen = 5
  Record = TRUE
  Retain = TRUE
  Starts = {0, 400, 1000, 2600}
  CtxChoices = {0, 700, 1500, 3100, 8000, 20000, 70000, 300000}
  HCs = {"nil", "plain", "follow", "limit", "jar", "timeout", "uselast", "refuse"}
  Rich = FALSE
  WireRich = FALSE
  Sim = TRUE
INIT MCInit
NEXT SimNext
INVARIANTS ExportFinished
CHECK_DEADLOCK FALSE
