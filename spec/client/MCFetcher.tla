----------------------------- MODULE MCFetcher -----------------------------
(* Model-checking and simulation instances of Fetcher. *)
EXTENDS Fetcher, Json

CONSTANTS
  Batches,     \* batch sizes explored
  NW,          \* up to NW parallel fetchers
  InitSizes,   \* tree sizes at the start of a run
  MaxRejects   \* simulation: budget of polls answered with a tree head that is not bigger

EffEnd(c) == IF c.end = 0 \/ c.end > c.init THEN c.init ELSE c.end
\* EndIndex > tree size behaves as EndIndex = 0: keep one representative
Canonical(c) == c.end <= c.init

MCConfigs == {c \in [start : 0..MaxSize, end : 0..MaxSize, batch : Batches, nw : 1..NW, cont : BOOLEAN, init : InitSizes] :
                 Canonical(c)}
\* plus a few with EndIndex beyond the tree (clipped by Prepare)
ClippedConfigs == {c \in [start : {0, 1}, end : {MaxSize}, batch : Batches, nw : {NW}, cont : BOOLEAN, init : InitSizes] :
                     c.init < MaxSize}
AllConfigs == MCConfigs \cup ClippedConfigs

\* Continuous runs that start beyond the end of the range the first tree head gives (StartIndex > tree size, or
\* EndIndex < StartIndex) are part of the model (the fetcher waits until the tree has grown past StartIndex), but the
\* code is known to deviate there (it rewinds to EndIndex); the harness probes that class separately
\* (TestBeyondTree), the replayed scripts stay inside.
InDomain(c) == c.cont => c.start <= EffEnd(c)
SimConfigs == {c \in AllConfigs : InDomain(c)}

\* "deadline" / "canceled": the request timed out or was abandoned on its own (an error wrapping context.DeadlineExceeded /
\* context.Canceled) while the run's context is alive - a transient error like the others, to be retried
ErrLabels == {"429", "5xx", "net", "unavail", "deadline", "canceled"}
OneErr == {"5xx"}

(* ---- exhaustive ---- *)
\* (the simulation variables declared below are frozen here)
\* MCInit / MCNext / MCSpec are defined after the variable declaration.

(* ---- simulation: complete runs whose outcome does not depend on scheduling, exported as reply scripts ---- *)
VARIABLES hist,     \* labels of the steps so far
          final,    \* the size the log will finally have
          rejects   \* polls answered with a stale tree head so far

svars == <<hist, final, rejects>>
End == [a |-> "End"]

MCInit == Init /\ hist = <<>> /\ final = 0 /\ rejects = 0
MCNext == Next /\ UNCHANGED svars
mcvars == <<fvars, svars>>
MCFairSpec == MCInit /\ [][MCNext]_mcvars /\ Fairness

SimInit == /\ Init
           /\ hist = <<>>
           /\ final \in (IF cfg.cont THEN cfg.init..MaxSize ELSE {cfg.init})
           /\ rejects = 0

AllIdle == \A w \in Workers : wpc[w] \in {"idle", "done"}

\* Scripts must determine the delivered batches whatever the pauses of the real fetcher are: a poll is answered only
\* with a tree head that is certainly refused (not bigger), certainly accepted (a full batch bigger), or final (the
\* harness serves the final size forever, so it is accepted sooner or later).
Gate(n) == RandomElement(1..n) = 1      \* thins out a class of successors (the simulator picks uniformly among those generated)
SimStep ==
  \/ Prepare \/ GenRange \/ GenQuit \/ Return
  \/ \E w \in Workers : WorkerStep(w)
  \/ Gate(12) /\ \E e \in {RandomElement(ErrKinds)} : PrepareFails(e)
  \/ Gate(3) /\ \E e \in {RandomElement(ErrKinds)} : STHError(e) \/ \E w \in Workers : FetchError(w, e)
  \/ STHAccept /\ (logSize >= endIndex + cfg.batch \/ logSize = final)
  \/ STHReject /\ logSize <= endIndex /\ rejects < MaxRejects
  \/ logSize < final /\ \E n \in {RandomElement((logSize + 1)..final)} : Publish(n)
  \/ Stop /\ cfg.cont /\ Quiet /\ endIndex = final

SimNext == \/ /\ returned = "no"
              /\ SimStep
              /\ hist' = Append(hist, last')
              /\ rejects' = IF last'.a = "STH" /\ last'.err = "" /\ ~last'.acc THEN rejects + 1 ELSE rejects
              /\ UNCHANGED final
           \/ /\ returned # "no" /\ (hist = <<>> \/ hist[Len(hist)] # End)
              /\ hist' = Append(hist, End)
              /\ UNCHANGED <<fvars, final, rejects>>

Observable == {"STH", "Rsp", "Batch", "Publish", "Stop", "Return"}
ExportFinished ==
  (hist # <<>> /\ hist[Len(hist)] = End) =>
     PrintT(<<"RUN", ToJson([cfg |-> cfg, final |-> final, result |-> returned,
                             steps |-> SelectSeq(hist, LAMBDA x : x.a \in Observable),
                             delivered |-> delivered])>>)

\* the model's own verdict on every exported run (simulation checks invariants on the states it visits)
SimComplete == returned = "ok" => \A i \in Indices : cnt[i] = IF cfg.start <= i /\ i < final /\ i < endIndex THEN 1 ELSE 0
=============================================================================
