------------------------------ MODULE Fetcher ------------------------------
(***************************************************************************)
(* The entry fetcher of scanner/fetcher.go: one range generator, N fetch   *)
(* workers, a rendezvous channel between them, a log that may answer a     *)
(* get-entries request with fewer entries than asked for (but at least     *)
(* one), transient errors, Stop (graceful) and Cancel (context).           *)
(*                                                                         *)
(* Property C16: every index of the range is handed to the callback        *)
(* exactly once, nothing outside the range is, the run terminates when the *)
(* range is exhausted / stopped / cancelled, and in continuous mode the    *)
(* fetcher carries on with newly published entries without gap or repeat.  *)
(*                                                                         *)
(* Abstraction.  Entry i of the log is the token i (the harness attaches   *)
(* real leaf bytes and compares them).  One action per step of the code    *)
(* that is separated from the next by a communication: a channel           *)
(* operation, a call of the log client, the callback, a context check.     *)
(* Pauses (backoff) carry no state and are not modelled; errors are        *)
(* counted (MaxErrors), never timed.                                       *)
(***************************************************************************)
EXTENDS Integers, Sequences, FiniteSets, TLC

CONSTANTS
  MaxSize,     \* the log never grows beyond MaxSize entries (indices 0..MaxSize-1)
  Workers,     \* worker identities 1..N; a run starts cfg.nw of them
  MaxErrors,   \* budget of transient errors (get-entries and get-sth together)
  ErrKinds,    \* labels of transient errors ("429", "5xx", "net", "unavail", and "deadline" / "canceled": a request that
               \* fails with a deadline / cancellation of its own while the run's context is alive)
  KeepHist,    \* BOOLEAN: maintain the history variables delivered / last
  Configs      \* run configurations explored: records [start, end, batch, nw, cont, init]
               \*   start, end : FetcherOptions.StartIndex / EndIndex (0 = "up to the tree size")
               \*   batch, nw  : BatchSize, ParallelFetch
               \*   cont       : Continuous
               \*   init       : size of the log when the run starts

None == [k |-> "none"]
Min(a, b) == IF a < b THEN a ELSE b

Rng(s, e) == [s |-> s, e |-> e]      \* both inclusive, as fetchRange
NoRng == Rng(0, -1)
Indices == 0..(MaxSize - 1)

VARIABLES
  cfg,        \* the configuration of this run (constant during a run)
  logSize,    \* entries published by the log so far
  sth,        \* tree size of the STH the fetcher holds, -1 before Prepare
  endIndex,   \* f.opts.EndIndex
  cursor,     \* the generator's `start`: everything below has been handed to a worker
  gpc,        \* generator: "prepare" | "loop" | "offer" | "sthwait" | "closed"
  slot,       \* the range offered on the rendezvous channel while gpc = "offer"
  wpc,        \* worker: "idle" (receiving from the channel) | "loop" | "req" | "got" | "done"
  wrng,       \* the part of the worker's range that is still to be delivered
  wgot,       \* number of entries of the reply in hand (wpc = "got")
  retries,    \* failed attempts for the current request
  cnt,        \* cnt[i]: how many times index i has been handed to the callback
  delivered,  \* history: sequence of batches [s, n] in callback order
  stopped,    \* the generator's context is cancelled (Stop or Cancel)
  cancelled,  \* the caller's context is cancelled
  errs,       \* transient errors injected so far
  returned,   \* "no" | "ok" | "err" : Run has returned
  last        \* history: label of the last step

fvars == <<cfg, logSize, sth, endIndex, cursor, gpc, slot, wpc, wrng, wgot, retries,
           cnt, delivered, stopped, cancelled, errs, returned, last>>

Log(x) == IF KeepHist THEN x ELSE None

(* ------------------------------------------------------------------ init *)
InitWith(c) ==
  /\ cfg = c
  /\ logSize = c.init
  /\ sth = -1
  /\ endIndex = c.end
  /\ cursor = c.start
  /\ gpc = "prepare"
  /\ slot = NoRng
  /\ wpc = [w \in Workers |-> IF w <= c.nw THEN "idle" ELSE "done"]
  /\ wrng = [w \in Workers |-> NoRng]
  /\ wgot = [w \in Workers |-> 0]
  /\ retries = [w \in Workers |-> 0]
  /\ cnt = [i \in Indices |-> 0]
  /\ delivered = <<>>
  /\ stopped = FALSE
  /\ cancelled = FALSE
  /\ errs = 0
  /\ returned = "no"
  /\ last = None

Init == \E c \in Configs : InitWith(c)

(* ------------------------------------------------------------- generator *)
\* Fetcher.Prepare: the first STH fixes the end of the range.
Prepare ==
  /\ gpc = "prepare" /\ returned = "no"       \* (a log client may or may not notice an already cancelled context)
  /\ sth' = logSize
  /\ endIndex' = IF cfg.end = 0 \/ cfg.end > logSize THEN logSize ELSE cfg.end
  /\ gpc' = "loop"
  /\ last' = Log([a |-> "STH", size |-> logSize, err |-> "", acc |-> TRUE])
  /\ UNCHANGED <<cfg, logSize, cursor, slot, wpc, wrng, wgot, retries, cnt, delivered,
                 stopped, cancelled, errs, returned>>

\* get-sth fails in Prepare (or the context is already cancelled): Run returns the error, nothing was fetched.
PrepareFails(e) ==
  /\ gpc = "prepare" /\ returned = "no"
  /\ IF e = "ctx" THEN cancelled /\ errs' = errs ELSE errs < MaxErrors /\ errs' = errs + 1
  /\ gpc' = "closed"
  /\ wpc' = [w \in Workers |-> "done"]
  /\ returned' = "err"
  /\ last' = Log([a |-> "STH", size |-> 0, err |-> e, acc |-> FALSE])
  /\ UNCHANGED <<cfg, logSize, sth, endIndex, cursor, slot, wrng, wgot, retries, cnt, delivered,
                 stopped, cancelled>>

\* genRanges, loop head up to the select.
GenRange ==
  /\ gpc = "loop"
  /\ IF cursor < endIndex
       THEN /\ slot' = Rng(cursor, cursor + Min(endIndex - cursor, cfg.batch) - 1)
            /\ gpc' = "offer"
       ELSE /\ slot' = slot
            \* continuous mode waits for a bigger tree, otherwise the channel is closed
            /\ gpc' = IF cfg.cont THEN "sthwait" ELSE "closed"
  /\ last' = Log([a |-> "Gen"])
  /\ UNCHANGED <<cfg, logSize, sth, endIndex, cursor, wpc, wrng, wgot, retries, cnt, delivered,
                 stopped, cancelled, errs, returned>>

\* the rendezvous: a worker blocked in `range ranges` receives the offered range
Take(w) ==
  /\ gpc = "offer" /\ wpc[w] = "idle"
  /\ wrng' = [wrng EXCEPT ![w] = slot]
  /\ wpc' = [wpc EXCEPT ![w] = "loop"]
  /\ cursor' = slot.e + 1
  /\ slot' = NoRng
  /\ gpc' = "loop"
  /\ last' = Log([a |-> "Take", w |-> w, s |-> slot.s, e |-> slot.e])
  /\ UNCHANGED <<cfg, logSize, sth, endIndex, wgot, retries, cnt, delivered, stopped, cancelled, errs, returned>>

\* the generator sees its context done (in the select, or in the backoff of updateSTH) and closes the channel
GenQuit ==
  /\ gpc \in {"offer", "sthwait"} /\ stopped
  /\ gpc' = "closed"
  /\ slot' = NoRng
  /\ last' = Log([a |-> "GenQuit"])
  /\ UNCHANGED <<cfg, logSize, sth, endIndex, cursor, wpc, wrng, wgot, retries, cnt, delivered,
                 stopped, cancelled, errs, returned>>

\* updateSTH.  A tree head that is not bigger than the one held is never accepted; one that adds a full batch
\* always is; anything in between is accepted or not (the code prefers to wait for a full batch for a while).
STHAcceptable(size) == size > endIndex
STHRejectable(size) == size < endIndex + cfg.batch

STHAccept ==
  /\ gpc = "sthwait" /\ STHAcceptable(logSize)
  /\ sth' = logSize
  /\ endIndex' = logSize
  /\ gpc' = "loop"
  /\ last' = Log([a |-> "STH", size |-> logSize, err |-> "", acc |-> TRUE])
  /\ UNCHANGED <<cfg, logSize, cursor, slot, wpc, wrng, wgot, retries, cnt, delivered,
                 stopped, cancelled, errs, returned>>

STHReject ==
  /\ gpc = "sthwait" /\ STHRejectable(logSize)
  /\ last' = Log([a |-> "STH", size |-> logSize, err |-> "", acc |-> FALSE])
  /\ UNCHANGED <<cfg, logSize, sth, endIndex, cursor, gpc, slot, wpc, wrng, wgot, retries, cnt, delivered,
                 stopped, cancelled, errs, returned>>

STHError(e) ==
  /\ gpc = "sthwait" /\ errs < MaxErrors
  /\ errs' = errs + 1
  /\ last' = Log([a |-> "STH", size |-> 0, err |-> e, acc |-> FALSE])
  /\ UNCHANGED <<cfg, logSize, sth, endIndex, cursor, gpc, slot, wpc, wrng, wgot, retries, cnt, delivered,
                 stopped, cancelled, returned>>

(* --------------------------------------------------------------- workers *)
Asked(w) == wrng[w].e - wrng[w].s + 1

\* the request goes out
Send(w) ==
  /\ wpc[w] = "loop"
  /\ wpc' = [wpc EXCEPT ![w] = "req"]
  /\ last' = Log([a |-> "Req", w |-> w, s |-> wrng[w].s, e |-> wrng[w].e])
  /\ UNCHANGED <<cfg, logSize, sth, endIndex, cursor, gpc, slot, wrng, wgot, retries, cnt, delivered,
                 stopped, cancelled, errs, returned>>

\* inner loop head: context check, then the request goes out.  (A cancellation between the check and the request
\* leads to the same states as one right after the request; FetcherTrace.tla separates the two steps because the
\* order of the log shows the difference.)
Request(w) == ~cancelled /\ Send(w)

\* inner loop head with a cancelled context: the worker gives up, the rest of its range is abandoned
Abort(w) ==
  /\ wpc[w] = "loop" /\ cancelled
  /\ wpc' = [wpc EXCEPT ![w] = "done"]
  /\ last' = Log([a |-> "Abort", w |-> w])
  /\ UNCHANGED <<cfg, logSize, sth, endIndex, cursor, gpc, slot, wrng, wgot, retries, cnt, delivered,
                 stopped, cancelled, errs, returned>>

\* the log answers with k entries, 1 <= k <= asked, starting at the first index asked for
Fetch(w, k) ==
  /\ wpc[w] = "req" /\ k \in 1..Asked(w)
  /\ wgot' = [wgot EXCEPT ![w] = k]
  /\ wpc' = [wpc EXCEPT ![w] = "got"]
  /\ last' = Log([a |-> "Rsp", w |-> w, s |-> wrng[w].s, n |-> k, err |-> ""])
  /\ UNCHANGED <<cfg, logSize, sth, endIndex, cursor, gpc, slot, wrng, retries, cnt, delivered,
                 stopped, cancelled, errs, returned>>

\* a transient error: the same request is made again (after the context check)
FetchError(w, e) ==
  /\ wpc[w] = "req" /\ errs < MaxErrors
  /\ errs' = errs + 1
  /\ retries' = [retries EXCEPT ![w] = @ + 1]
  /\ wpc' = [wpc EXCEPT ![w] = "loop"]
  /\ last' = Log([a |-> "Rsp", w |-> w, s |-> wrng[w].s, n |-> 0, err |-> e])
  /\ UNCHANGED <<cfg, logSize, sth, endIndex, cursor, gpc, slot, wrng, wgot, cnt, delivered,
                 stopped, cancelled, returned>>

\* the request in flight fails because the context was cancelled
FetchCancelled(w) ==
  /\ wpc[w] = "req" /\ cancelled
  /\ wpc' = [wpc EXCEPT ![w] = "loop"]
  /\ last' = Log([a |-> "Rsp", w |-> w, s |-> wrng[w].s, n |-> 0, err |-> "ctx"])
  /\ UNCHANGED <<cfg, logSize, sth, endIndex, cursor, gpc, slot, wrng, wgot, retries, cnt, delivered,
                 stopped, cancelled, errs, returned>>

\* the callback gets the batch; the remainder of the range starts right after what was received
Deliver(w) ==
  /\ wpc[w] = "got"
  /\ LET s == wrng[w].s
         k == wgot[w] IN
     /\ cnt' = [i \in Indices |-> IF s <= i /\ i < s + k THEN cnt[i] + 1 ELSE cnt[i]]
     /\ delivered' = IF KeepHist THEN Append(delivered, [s |-> s, n |-> k]) ELSE delivered
     /\ wrng' = [wrng EXCEPT ![w].s = s + k]
     /\ wpc' = [wpc EXCEPT ![w] = IF s + k > wrng[w].e THEN "idle" ELSE "loop"]
     /\ last' = Log([a |-> "Batch", w |-> w, s |-> s, n |-> k])
  /\ wgot' = [wgot EXCEPT ![w] = 0]
  /\ retries' = [retries EXCEPT ![w] = 0]
  /\ UNCHANGED <<cfg, logSize, sth, endIndex, cursor, gpc, slot, stopped, cancelled, errs, returned>>

\* the channel is closed: the worker leaves its `range` loop
WorkerExit(w) ==
  /\ wpc[w] = "idle" /\ gpc = "closed"
  /\ wpc' = [wpc EXCEPT ![w] = "done"]
  /\ last' = Log([a |-> "Exit", w |-> w])
  /\ UNCHANGED <<cfg, logSize, sth, endIndex, cursor, gpc, slot, wrng, wgot, retries, cnt, delivered,
                 stopped, cancelled, errs, returned>>

(* ----------------------------------------------------------- environment *)
\* Fetcher.Stop: only the generator's context (a Stop before Run has installed its cancel function is lost,
\* the harness never does that)
Stop ==
  /\ gpc # "prepare" /\ ~stopped /\ returned = "no"
  /\ stopped' = TRUE
  /\ last' = Log([a |-> "Stop"])
  /\ UNCHANGED <<cfg, logSize, sth, endIndex, cursor, gpc, slot, wpc, wrng, wgot, retries, cnt, delivered,
                 cancelled, errs, returned>>

Cancel ==
  /\ ~cancelled /\ returned = "no"
  /\ cancelled' = TRUE
  /\ stopped' = TRUE
  /\ last' = Log([a |-> "Cancel"])
  /\ UNCHANGED <<cfg, logSize, sth, endIndex, cursor, gpc, slot, wpc, wrng, wgot, retries, cnt, delivered,
                 errs, returned>>

Publish(n) ==
  /\ logSize < n /\ n <= MaxSize
  /\ logSize' = n
  /\ last' = Log([a |-> "Publish", size |-> n])
  /\ UNCHANGED <<cfg, sth, endIndex, cursor, gpc, slot, wpc, wrng, wgot, retries, cnt, delivered,
                 stopped, cancelled, errs, returned>>

\* Run returns once every worker has finished
Return ==
  /\ returned = "no" /\ gpc # "prepare"
  /\ \A w \in Workers : wpc[w] = "done"
  /\ returned' = "ok"
  /\ last' = Log([a |-> "Return", err |-> ""])
  /\ UNCHANGED <<cfg, logSize, sth, endIndex, cursor, gpc, slot, wpc, wrng, wgot, retries, cnt, delivered,
                 stopped, cancelled, errs>>

(* ------------------------------------------------------------------ next *)
GenStep == Prepare \/ GenRange \/ STHAccept
WorkerStepNoDeliver(w) == \/ Take(w) \/ Request(w) \/ Abort(w) \/ FetchCancelled(w) \/ WorkerExit(w)
                          \/ \E k \in 1..MaxSize : Fetch(w, k)
WorkerStep(w) == WorkerStepNoDeliver(w) \/ Deliver(w)
Faults == \/ \E e \in ErrKinds : PrepareFails(e) \/ STHError(e) \/ \E w \in Workers : FetchError(w, e)
          \/ PrepareFails("ctx")
Env == Stop \/ Cancel \/ \E n \in 1..MaxSize : Publish(n)

\* everything but the callback step (Scanner.tla refines the callback)
NextNoDeliver == \/ GenStep \/ GenQuit \/ STHReject \/ Return \/ Faults \/ Env
                 \/ \E w \in Workers : WorkerStepNoDeliver(w)
Next == NextNoDeliver \/ \E w \in Workers : Deliver(w)

Fairness == /\ WF_fvars(GenStep)
            /\ SF_fvars(GenQuit)        \* the select may prefer a waiting receiver any number of times, not forever
            /\ WF_fvars(Return)
            /\ \A w \in Workers : WF_fvars(WorkerStep(w))

Spec == Init /\ [][Next]_fvars
FairSpec == Spec /\ Fairness

(* ------------------------------------------------------------ properties *)
TypeOK ==
  /\ logSize \in 0..MaxSize /\ sth \in -1..MaxSize /\ endIndex \in 0..MaxSize /\ cursor \in 0..MaxSize
  /\ gpc \in {"prepare", "loop", "offer", "sthwait", "closed"}
  /\ \A w \in Workers : wpc[w] \in {"idle", "loop", "req", "got", "done"}
  /\ errs \in 0..MaxErrors
  /\ returned \in {"no", "ok", "err"}

\* the part of index space some worker still owes (an aborted worker keeps owing it forever)
Owed(i) == \E w \in Workers : wrng[w].s <= i /\ i <= wrng[w].e

\* ExactlyOnce, as an inductive statement: an index has been delivered once iff it was handed out and is not owed
\* any more, and zero times otherwise
Accounting == \A i \in Indices :
                 cnt[i] = IF cfg.start <= i /\ i < cursor /\ ~Owed(i) THEN 1 ELSE 0

AtMostOnce == \A i \in Indices : cnt[i] <= 1

\* nothing outside [StartIndex, EndIndex), nothing the log has not published, nothing beyond the held tree head
NoOutOfRange == \A i \in Indices :
                   cnt[i] > 0 => /\ cfg.start <= i /\ i < endIndex /\ i < logSize /\ i < sth
                                 /\ (~cfg.cont /\ cfg.end # 0 => i < cfg.end)

\* a run that ends on its own has delivered the whole range
Complete == returned = "ok" /\ ~stopped =>
               \A i \in Indices : cnt[i] = IF cfg.start <= i /\ i < endIndex THEN 1 ELSE 0

\* a stopped run finishes what it started: the delivered indices are an initial segment of the range
StopPrefix == returned = "ok" /\ ~cancelled =>
               \A i \in Indices : cnt[i] = IF cfg.start <= i /\ i < cursor THEN 1 ELSE 0

\* continuous mode, workers idle, generator waiting for a bigger tree: exactly [StartIndex, tree size) is out
Quiet == gpc = "sthwait" /\ \A w \in Workers : wpc[w] \in {"idle", "done"}
ContinuousNoGap == Quiet /\ ~cancelled =>
               \A i \in Indices : cnt[i] = IF cfg.start <= i /\ i < endIndex THEN 1 ELSE 0

\* on the history (KeepHist): every batch is a non-empty interval inside the range and batches do not overlap
Contiguous == \A j \in 1..Len(delivered) :
                 /\ delivered[j].n >= 1
                 /\ cfg.start <= delivered[j].s /\ delivered[j].s + delivered[j].n <= endIndex
                 /\ \A m \in 1..(j - 1) : \/ delivered[m].s + delivered[m].n <= delivered[j].s
                                          \/ delivered[j].s + delivered[j].n <= delivered[m].s

\* a failed Prepare fetches nothing
ErrFetchesNothing == returned = "err" => \A i \in Indices : cnt[i] = 0

(* liveness, under FairSpec *)
Terminates == (stopped \/ ~cfg.cont) ~> (returned # "no")
ContinuousProgress == \A i \in Indices :
                         (cfg.cont /\ cfg.start <= i /\ i < logSize) ~> (cnt[i] = 1 \/ stopped \/ returned = "err")
=============================================================================
