\* liveness under fairness: termination, continuous progress
CONSTANTS
  MaxSize = 3
  Workers = {1, 2}
  MaxErrors = 1
  ErrKinds <- OneErr
  KeepHist = FALSE
  Configs <- AllConfigs
  Batches = {1, 2}
  NW = 2
  InitSizes = {0, 1, 2, 3}
  MaxRejects = 0
SPECIFICATION MCFairSpec
INVARIANTS TypeOK Accounting
PROPERTIES Terminates ContinuousProgress
CHECK_DEADLOCK FALSE
