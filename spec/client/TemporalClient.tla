--------------------------- MODULE TemporalClient ---------------------------
(***************************************************************************)
(* C12 (with a bridge to C18) - the temporal (sharded) log client          *)
(* (client/multilog.go on client/logclient.go and jsonclient/client.go).   *)
(*                                                                         *)
(* A temporal log is a contiguous list of 1..3 shards.  Every shard has    *)
(* its own key, its own window [start, limit) of NotAfter instants and its *)
(* own server, which is adversarial exactly as in LogClient.tla: every     *)
(* request is answered with [status, class], where the class names WHAT    *)
(* the body is relative to the well-formed answer signed by THAT shard's   *)
(* key (the harness renders each class with real keys and certificates).   *)
(* Keys are numbered like the shards; key 0 belongs to no shard.           *)
(*                                                                         *)
(* The client is the ideal temporal client, one action per call:           *)
(*   AddChain / AddPreChain   parse the first chain element, choose the    *)
(*        shard whose window contains its NotAfter (InWindow of            *)
(*        spec/common/Temporal.tla, the predicate of C18) and run the      *)
(*        submission of LogClient.tla against THAT shard only: its key     *)
(*        verifies, its key hash must be the SCT's log id, its own pacing  *)
(*        state (one jsonclient per shard) is the only one touched;        *)
(*   GetAcceptedRoots         one request to every shard, all outstanding  *)
(*        at the same time; the per-shard results are collected in         *)
(*        completion order; the first failure makes the call fail with no  *)
(*        roots, otherwise every distinct root is handed back once.        *)
(*                                                                         *)
(* Two scenes share the module (constant Scenes picks the calls that are   *)
(* explored): "submit" (routing x server classes; with MaxCalls > 1 and    *)
(* answers without Retry-After: sequences of submissions whose retries     *)
(* move per-shard back-off state) and "roots".                             *)
(*                                                                         *)
(* Outcomes are "ok", "error" or "any" where the property is silent (then  *)
(* only safety is demanded: what is returned verifies, who is contacted is *)
(* the routed shard).                                                      *)
(***************************************************************************)
EXTENDS Temporal, Integers, TLC

CONSTANTS
  ShardLists,          \* the shard lists explored; every one is accepted by the constructor (C18 decides that part)
  Deployments,         \* the deployments explored: [uri, key] - per shard position the frontend (base URI) it is served from
                       \* and the key it is configured with (a key number, or Unkeyed)
  Instants,            \* NotAfter instants of the first chain element (the bounds of the lists are drawn from the same set)
  Scenes,              \* subset of {"submit", "roots"}: the calls explored
  ChainKinds,          \* submitted chains explored: subset of {"x509", "precert", "precertPreIssuer"}
  Firsts,              \* forms of the first chain element explored: subset of {"cert", "lax", "garbage", "none"}
  Statuses,            \* HTTP status codes of final answers to a submission
  FinalClasses,        \* exploration bound: body classes of final answers
  RetryStatuses,       \* exploration bound: retryable statuses sent to submissions
  RetryAfterForms,     \* exploration bound: "zero" (Retry-After: 0) and / or "bare" (no Retry-After) on 429 / 503
  UndecodableBodies,   \* exploration bound: undecodable 200 bodies after which the repeated request is answered
  AfterRetryStatuses,  \* exploration bound: statuses of an answer to a repeated request
  MaxAnswers,          \* answers per submission (repetitions + 1)
  MaxCalls,            \* calls per behaviour
  MaxMult,             \* largest back-off multiplier (8 in the code)
  RootAnswers,         \* exploration bound: per-shard behaviours on the roots endpoint
  CtxMayEnd            \* BOOLEAN: the caller's context may end during GetAcceptedRoots

None == [k |-> "none"]
MaxShards == 3
AllShards == 1..MaxShards
NoKey == 0                      \* a key that belongs to no shard of the list
Unkeyed == -2                   \* the shard is configured without a key

(* The DEPLOYMENT of the temporal log is part of its configuration: a shard is a window, a base URI and a key.       *)
(* NAMED CLAUSE SharedFrontend: nothing makes the base URIs or the keys of the shards distinct - shards may be served *)
(* from one frontend (dep.uri[s] = dep.uri[t]: the same base URI, up to trailing slashes) with different keys, may    *)
(* share a key, or have none.  A shard's identity towards the property is ITS configured key: the SCT handed back for *)
(* a certificate routed to shard s verifies under key dep.key[s] and names it, whoever else is served from the same   *)
(* URI.  NAMED CLAUSE UnkeyedShard: the property speaks of a client configured with the key; what a shard configured  *)
(* without one hands back is not judged (outcome "any", no safety demanded), routing and pacing still are.            *)
VARIABLE dep        \* the deployment of this temporal log (fixed by Init)
Keyed(s) == dep.key[s] # Unkeyed
\* the key shard s's log signs with: the configured one (an unkeyed shard's log has the key of its own number)
OwnKey(s) == IF Keyed(s) THEN dep.key[s] ELSE s
Frontend(s) == dep.uri[s]
\* requests per FRONTEND, given the requests made on behalf of every shard
FrontReqs(rq, f) == (IF dep.uri[1] = f THEN rq[1] ELSE 0) + (IF dep.uri[2] = f THEN rq[2] ELSE 0) + (IF dep.uri[3] = f THEN rq[3] ELSE 0)

Min(a, b) == IF a <= b THEN a ELSE b
RECURSIVE Pow2(_)
Pow2(k) == IF k <= 0 THEN 1 ELSE 2 * Pow2(k - 1)

(* ----------------------- routing (property text) ----------------------- *)
\* the shards whose window [start, limit) contains t - InIv / InWindow are C18's predicate
Hits(t, S) == {i \in 1..Len(S) : InIv(t, S[i])}
Route(t, S) == IF Hits(t, S) = {} THEN NoShard ELSE CHOOSE i \in Hits(t, S) : TRUE

(* ----------------------------- submissions ----------------------------- *)
AddMethods == {"AddChain", "AddPreChain"}
\* the entry type is bound by the METHOD
ChainsFor(m) == IF m = "AddChain" THEN {"x509"} ELSE {"precert", "precertPreIssuer"}
\* The first chain element: "cert" parses (NotAfter = na); "lax" parses only with the lenient fallback (a serial
\* INTEGER that is not minimally encoded; NotAfter = na); "garbage" is no certificate; "none": the chain is empty.
\* NAMED CLAUSE LaxFirstElement: the property is silent on an element that parses only leniently; the client may refuse
\* it before contacting anybody or route it by its NotAfter - never anything else.
Unroutable == {"garbage", "none"}
LeastInstant == CHOOSE t \in Instants : \A u \in Instants : t <= u
Submissions ==
  {[method |-> m, chain |-> ch, first |-> f, na |-> t] :
      m \in AddMethods, ch \in ChainKinds, f \in Firsts, t \in Instants}
ValidSubmission(s) == /\ s.chain \in ChainsFor(s.method)
                      /\ s.first \in Unroutable => s.na = LeastInstant
                      /\ s.first = "lax" => s.chain = "x509"
RouteOf(s, S) == IF s.first \in Unroutable THEN NoShard ELSE Route(s.na, S)

\* jsonclient.PostAndParseWithRetry: statuses on which a submission is made again
Retryable == {408, 429, 503}
JsonBad == {"notJSON", "truncatedJSON", "wrongType", "empty"}

(* The SCT of an answer, as deviations from the valid one.  signer / id say WHOSE key: "self" = the key of the     *)
(* shard whose server answers, "other" = the key named by the answer's field `who` (another shard of the list or   *)
(* NoKey), "nobody" = a signature value no key made.                                                               *)
SCTValid == [ext |-> "empty", idLen |-> 32, id |-> "self", sigForm |-> "ok", signer |-> "self", over |-> "same"]
SCTClass ==
  [ valid                 |-> SCTValid,
    validWithExtensions   |-> [SCTValid EXCEPT !.ext = "some"],
    \* the neighbour's key signed, the id is this shard's
    sigByOther            |-> [SCTValid EXCEPT !.signer = "other"],
    \* this shard's key signed, the id names the neighbour
    idOfOther             |-> [SCTValid EXCEPT !.id = "other"],
    \* an SCT that is perfectly valid - for the neighbouring shard
    validForOther         |-> [SCTValid EXCEPT !.signer = "other", !.id = "other"],
    sigCorrupt            |-> [SCTValid EXCEPT !.signer = "nobody"],
    sigOverOtherChain     |-> [SCTValid EXCEPT !.over = "otherChain"],
    sigOverOtherType      |-> [SCTValid EXCEPT !.over = "otherType"],
    sigOverOtherTimestamp |-> [SCTValid EXCEPT !.over = "otherTimestamp"],
    sigTrailingTLS        |-> [SCTValid EXCEPT !.sigForm = "trailing"],
    idLen31               |-> [SCTValid EXCEPT !.idLen = 31],
    idLen0                |-> [SCTValid EXCEPT !.idLen = 0] ]
SCTClasses == DOMAIN SCTClass
OtherClasses == {"sigByOther", "idOfOther", "validForOther"}
\* keys (key NUMBERS) an answer of shard r's server may bring into play; in a deployment with equal keys such a number
\* may be the very key the shard is configured with - then the "foreign" SCT is a valid one, and the verdict says so
Others(r, S) == ((1..Len(S)) \ {r}) \cup {NoKey}

KeyOf(f, contacted, who) == IF f = "self" THEN OwnKey(contacted) ELSE IF f = "other" THEN who ELSE -1
\* what an SCT made from answer a of shard `contacted`'s server says, when handed back by a client routed to `routed`
\* (AbsentId, as in LogClient.tla: an answer without id is attributed to the key the client verified with)
Described(a, contacted, routed) ==
  LET r == SCTClass[a.class] IN
  [ signer |-> KeyOf(r.signer, contacted, a.who),
    id     |-> IF r.idLen = 0 THEN OwnKey(routed) ELSE KeyOf(r.id, contacted, a.who),
    idLen  |-> IF r.idLen = 0 THEN 32 ELSE r.idLen,
    sigForm |-> r.sigForm, over |-> r.over, ext |-> r.ext ]
\* the property: verifies under the key of the shard it was routed to, for the submitted chain and entry type,
\* and names that key
VerifiesFor(d, routed) == d.sigForm = "ok" /\ d.signer = OwnKey(routed) /\ d.over = "same"
NamesKey(d, routed) == d.idLen = 32 /\ d.id = OwnKey(routed)

\* the ideal client, one conjunct per check
SCTVerdict(a, contacted, routed) ==
  LET r == SCTClass[a.class]
      d == Described(a, contacted, routed) IN
  IF ~Keyed(routed) THEN "any"                      \* UnkeyedShard
  ELSE IF r.idLen \notin {0, 32} \/ r.sigForm # "ok" THEN "error"
  ELSE IF ~VerifiesFor(d, routed) THEN "error"
  ELSE IF r.idLen = 0 THEN "any"
  ELSE IF ~NamesKey(d, routed) THEN "error"
  ELSE "ok"

\* verdict on the final answer: <<outcome, layer>>
Decide(a, contacted, routed) ==
  IF a.status # 200 THEN <<"error", "http">>
  ELSE IF a.class \in JsonBad THEN <<"error", "json">>
  ELSE <<SCTVerdict(a, contacted, routed), "signed">>

\* the request is made again (LogClient.tla: retryable status, or a 200 answer that cannot be decoded)
AsksAgain(st, cl) == st \in Retryable \/ (st = 200 /\ cl \in JsonBad)
\* Pacing (C13 in one sentence, for ONE caller at a time whose calls are spaced further apart than the cap): an answer
\* that does not say how long to wait raises the shard's multiplier (up to MaxMult) and the pause before the repeated
\* request is 2^(multiplier - 1) seconds (plus jitter); 408 and "Retry-After: 0" leave it alone and ask for no pause.
Bumps(a) == (a.status \in {429, 503} /\ a.ra = "bare") \/ (a.status = 200 /\ a.class \in JsonBad)

(* -------------------------------- roots -------------------------------- *)
\* root certificates are tokens; r1x has the subject and key of r1 but is another certificate (other bytes)
RootsOK == {"setA", "setB", "setAll", "dupWithin", "sameSubject", "emptyList"}
RootsFail == {"s500", "s404", "notJSON", "badBase64"}
Hang == "hang"                   \* the shard does not answer before the context ends
RootList(cl) ==
  CASE cl = "setA"        -> <<"r1", "r2">>
    [] cl = "setB"        -> <<"r2", "r3">>
    [] cl = "setAll"      -> <<"r3", "r1", "r2">>
    [] cl = "dupWithin"   -> <<"r1", "r3", "r1">>
    [] cl = "sameSubject" -> <<"r1x", "r2">>
    [] OTHER              -> <<>>
Range(q) == {q[i] : i \in 1..Len(q)}
NoDup(q) == \A i, j \in 1..Len(q) : q[i] = q[j] => i = j
RECURSIVE Merge(_, _)
Merge(acc, l) == IF l = <<>> THEN acc
                 ELSE Merge(IF l[1] \in Range(acc) THEN acc ELSE Append(acc, l[1]), Tail(l))

(* -------------------------------- state -------------------------------- *)
VARIABLES
  cfg,        \* the shard list of this temporal log (fixed by Init)
  call,       \* None, or the call in progress
  reqs,       \* requests each shard's server has received during the current / last call
  mult,       \* per shard: back-off multiplier of that shard's client
  Returned,   \* history: every SCT handed back
  ncalls,     \* completed calls
  hist,       \* history: the completed calls (for replay)
  last        \* the call completed by the last step, None otherwise

vars == <<cfg, dep, call, reqs, mult, Returned, ncalls, hist, last>>

NShards == Len(cfg)
Zero == [s \in AllShards |-> 0]

Init == /\ cfg \in ShardLists
        /\ dep \in Deployments
        /\ call = None /\ reqs = Zero /\ mult = Zero
        /\ Returned = {} /\ ncalls = 0 /\ hist = <<>> /\ last = None

\* a call ends
Done(step, returned) ==
  /\ call' = None
  /\ ncalls' = ncalls + 1
  /\ Returned' = Returned \cup returned
  /\ last' = step
  /\ hist' = Append(hist, step)

(* --- AddChain / AddPreChain --- *)
SubmitStep(sub, routed, answers, waits, rq, m, end, outcome, layer, returns) ==
  LET fin == IF answers = <<>> THEN None ELSE answers[Len(answers)]
      carry == IF outcome = "error" /\ end = "answered" /\ layer \in {"http", "signed"} THEN "response"
               ELSE IF answers = <<>> THEN "none"
               ELSE "unasserted"
      sct == IF returns THEN Described(fin, routed, routed) ELSE None
  IN [k |-> "submit", method |-> sub.method, chain |-> sub.chain, first |-> sub.first, na |-> sub.na,
      routed |-> routed, answers |-> answers, waits |-> waits, reqs |-> rq,
      freqs |-> [f \in AllShards |-> FrontReqs(rq, f)], mult |-> m,
      end |-> end, expect |-> outcome, layer |-> layer, carry |-> carry,
      result |-> IF returns THEN [k |-> "value", sct |-> sct]
                 ELSE [k |-> "error", carries |-> IF end = "answered" THEN fin ELSE None]]

\* a lax first element: whatever the answer, refusing is allowed
Soften(sub, outcome) == IF sub.first = "lax" /\ outcome = "ok" THEN "any" ELSE outcome

Invoke(sub) ==
  /\ "submit" \in Scenes
  /\ call = None /\ ncalls < MaxCalls
  /\ ValidSubmission(sub)
  /\ LET r == RouteOf(sub, cfg) IN
     \/ \* no shard encompasses the date / nothing to parse: nobody is contacted
        /\ r = NoShard
        /\ reqs' = Zero
        /\ Done(SubmitStep(sub, NoShard, <<>>, <<>>, Zero, mult, "refused", "error", "client", FALSE), {})
        /\ UNCHANGED <<cfg, dep, mult>>
     \/ \* LaxFirstElement: refused before anybody is contacted
        /\ r # NoShard /\ sub.first = "lax"
        /\ reqs' = Zero
        /\ Done(SubmitStep(sub, r, <<>>, <<>>, Zero, mult, "refused", "any", "client", FALSE), {})
        /\ UNCHANGED <<cfg, dep, mult>>
     \/ \* the request goes to the routed shard, and to that shard only
        /\ r # NoShard
        /\ call' = [k |-> "submit", sub |-> sub, routed |-> r, answers |-> <<>>, waits |-> <<>>]
        /\ reqs' = [s \in AllShards |-> IF s = r THEN 1 ELSE 0]
        /\ last' = None
        /\ UNCHANGED <<cfg, dep, mult, Returned, ncalls, hist>>

\* the routed shard's server answers the outstanding request
Answer(st, cl, ra, who) ==
  /\ call # None /\ call.k = "submit"
  /\ Len(call.answers) < MaxAnswers
  /\ LET r == call.routed
         a == [status |-> st, class |-> cl, ra |-> ra, who |-> who]
         ans == Append(call.answers, a)
         rq == [reqs EXCEPT ![r] = Len(ans)]       \* the request being answered was sent
     IN /\ who \in (IF cl \in OtherClasses THEN Others(r, cfg) ELSE {NoKey})
        /\ ra \in (IF st \in {429, 503} THEN RetryAfterForms ELSE {"na"})
        /\ call.answers # <<>> => st \in AfterRetryStatuses \cup RetryStatuses
        /\ IF AsksAgain(st, cl)
             THEN \* the body is dropped; after the pause the request is made again - to the same shard
                  /\ st \in Retryable => st \in RetryStatuses /\ cl = "valid"
                  /\ st = 200 => cl \in UndecodableBodies
                  /\ LET m2 == IF Bumps(a) THEN Min(mult[r] + 1, MaxMult) ELSE mult[r]
                     IN /\ mult' = [mult EXCEPT ![r] = m2]
                        /\ call' = [call EXCEPT !.answers = ans,
                                                !.waits = Append(@, IF Bumps(a) THEN Pow2(m2 - 1) ELSE 0)]
                  /\ reqs' = rq
                  /\ last' = None
                  /\ UNCHANGED <<cfg, dep, Returned, ncalls, hist>>
             ELSE /\ call.answers = <<>> => st \in Statuses
                  /\ st = 200 => cl \in FinalClasses
                  /\ st # 200 => cl = "valid"      \* a perfectly good SCT under a status that is not 200
                  /\ LET d == Decide(a, r, r)
                         outcome == Soften(call.sub, d[1])
                     IN \E returns \in (IF outcome = "any" THEN BOOLEAN ELSE {outcome = "ok"}) :
                          /\ reqs' = rq
                          /\ Done(SubmitStep(call.sub, r, ans, call.waits, rq, mult, "answered", outcome, d[2], returns),
                                  IF returns THEN {[routed |-> r, method |-> call.sub.method, chain |-> call.sub.chain,
                                                    sct |-> Described(a, r, r)]} ELSE {})
                          /\ UNCHANGED <<cfg, dep, mult>>

\* The caller's context ends: while the (first) request is outstanding - the shard hangs - or during the pause
\* before the request is made again.
Expire ==
  /\ call # None /\ call.k = "submit"
  /\ Done(SubmitStep(call.sub, call.routed, call.answers, call.waits, reqs, mult, "expired", "error", "context", FALSE), {})
  /\ UNCHANGED <<cfg, dep, reqs, mult>>

(* --- GetAcceptedRoots --- *)
Failing(e, cls) == e.res = "ctx" \/ cls[e.s] \in RootsFail

StartRoots(cls) ==
  /\ "roots" \in Scenes
  /\ call = None /\ ncalls < MaxCalls
  /\ call' = [k |-> "roots", cls |-> cls, flying |-> 1..NShards, queue |-> <<>>, taken |-> 0, acc |-> <<>>,
              ctx |-> "live", ctxAt |-> -1, outcome |-> None]
  \* NAMED CLAUSE FanOut: every shard is asked, and all requests are outstanding before any answer is needed (the
  \* property only needs every shard asked; the completion orders below presuppose the concurrency of the code)
  /\ reqs' = [s \in AllShards |-> IF s <= NShards THEN 1 ELSE 0]
  /\ last' = None
  /\ UNCHANGED <<cfg, dep, mult, Returned, ncalls, hist>>

InRoots == call # None /\ call.k = "roots"
Undecided == InRoots /\ call.outcome = None

\* shard s's answer arrives: its goroutine hands its result to the collector's channel
RootsArrive(s) ==
  /\ Undecided /\ call.ctx = "live"
  /\ s \in call.flying /\ call.cls[s] # Hang
  /\ call' = [call EXCEPT !.flying = @ \ {s}, !.queue = Append(@, [s |-> s, res |-> "answer"])]
  /\ last' = None
  /\ UNCHANGED <<cfg, dep, reqs, mult, Returned, ncalls, hist>>

\* the caller's context ends ...
CtxEnds ==
  /\ CtxMayEnd /\ Undecided /\ call.ctx = "live"
  /\ call' = [call EXCEPT !.ctx = "ended", !.ctxAt = Len(call.queue)]
  /\ last' = None
  /\ UNCHANGED <<cfg, dep, reqs, mult, Returned, ncalls, hist>>

\* ... and every request still outstanding fails with the context's error (they are indistinguishable: lowest first)
RootsAbort(s) ==
  /\ Undecided /\ call.ctx = "ended"
  /\ s \in call.flying /\ \A u \in call.flying : s <= u
  /\ call' = [call EXCEPT !.flying = @ \ {s}, !.queue = Append(@, [s |-> s, res |-> "ctx"])]
  /\ last' = None
  /\ UNCHANGED <<cfg, dep, reqs, mult, Returned, ncalls, hist>>

\* the collector takes the next result in completion order
Collect ==
  /\ Undecided /\ call.taken < Len(call.queue)
  /\ LET e == call.queue[call.taken + 1]
         acc2 == Merge(call.acc, RootList(call.cls[e.s]))
     IN call' = IF Failing(e, call.cls)
                  THEN [call EXCEPT !.taken = @ + 1,
                                    !.outcome = [k |-> "error", from |-> e.s,
                                                 why |-> IF e.res = "ctx" THEN "ctx" ELSE call.cls[e.s]]]
                  ELSE [call EXCEPT !.taken = @ + 1, !.acc = acc2,
                                    !.outcome = IF call.taken + 1 = NShards THEN [k |-> "ok", roots |-> acc2] ELSE None]
  /\ last' = None
  /\ UNCHANGED <<cfg, dep, reqs, mult, Returned, ncalls, hist>>

FinishRoots ==
  /\ InRoots /\ call.outcome # None
  /\ Done([k |-> "roots", n |-> NShards, cls |-> call.cls, order |-> call.queue, taken |-> call.taken,
           ctxAt |-> call.ctxAt, reqs |-> reqs, result |-> call.outcome,
           roots |-> IF call.outcome.k = "ok" THEN call.outcome.roots ELSE <<>>], {})
  /\ UNCHANGED <<cfg, dep, reqs, mult>>

RootsProgress == (\E s \in AllShards : RootsArrive(s) \/ RootsAbort(s)) \/ Collect \/ FinishRoots

AnswerClasses == SCTClasses \cup JsonBad
Next == \/ "submit" \in Scenes /\ \E sub \in Submissions : Invoke(sub)
        \/ \E st \in Statuses \cup RetryStatuses \cup AfterRetryStatuses : \E cl \in AnswerClasses :
             \E ra \in RetryAfterForms \cup {"na"} : \E who \in 0..MaxShards : Answer(st, cl, ra, who)
        \/ Expire
        \/ "roots" \in Scenes /\ \E cls \in [1..NShards -> RootAnswers] : StartRoots(cls)
        \/ RootsProgress
        \/ CtxEnds

Spec == Init /\ [][Next]_vars
\* every outstanding request ends, the collector runs, the call returns once it is decided
LiveSpec == Spec /\ WF_vars(RootsProgress)

(* ----------------------------- the property ---------------------------- *)
TypeOK == /\ Len(cfg) \in 1..MaxShards
          /\ ncalls \in 0..MaxCalls
          /\ \A s \in AllShards : mult[s] \in 0..MaxMult /\ reqs[s] \in 0..MaxAnswers
          /\ call = None \/ call.k \in {"submit", "roots"}
          /\ \A s \in AllShards : dep.uri[s] \in AllShards /\ dep.key[s] \in AllShards \cup {Unkeyed}

\* C18 hands over: a list the constructor accepts routes every instant of its span to exactly one shard - the one
\* the code-shaped ShardIndex finds - and instants outside it to none
ListsAreWellFormed == ConstructorAccepts(cfg) /\ WellFormedList(cfg)
WindowsPartitionSpan == \A t \in Instants :
  /\ Cardinality(Hits(t, cfg)) = IF InIv(t, OverallSpan(cfg)) THEN 1 ELSE 0
  /\ Route(t, cfg) = ShardIndex(t, cfg)

\* RoutedToOneShard: while a submission runs, exactly one shard has been contacted and it is the shard whose window
\* contains NotAfter; a submission outside the overall span (or with nothing to parse) contacts nobody and fails
RoutedToOneShard ==
  /\ (call # None /\ call.k = "submit") =>
        /\ call.routed # NoShard /\ InIv(call.sub.na, cfg[call.routed])
        /\ \A s \in AllShards : (reqs[s] > 0) = (s = call.routed)
  /\ (last # None /\ last.k = "submit") =>
        /\ \A s \in AllShards : (last.reqs[s] > 0) => (s = last.routed /\ InIv(last.na, cfg[s]))
        /\ (last.first \in Unroutable \/ ~InIv(last.na, OverallSpan(cfg))) =>
              /\ last.routed = NoShard /\ last.end = "refused" /\ last.result.k = "error"
              /\ \A s \in AllShards : last.reqs[s] = 0
        /\ (last.first = "cert" /\ InIv(last.na, OverallSpan(cfg))) => last.reqs[last.routed] > 0
        \* SharedFrontend: the only base URI that sees a request is the routed shard's
        /\ \A f \in AllShards : last.freqs[f] > 0 => (last.routed # NoShard /\ f = Frontend(last.routed))

\* OnlyVerifiedSCT(shard): whatever was handed back verifies under the key CONFIGURED for the shard it was routed to
\* (not the key of a neighbour served from the same URI), for the submitted chain and entry type, and its log id is the
\* hash of THAT key
OnlyVerifiedSCT == \A r \in Returned : Keyed(r.routed) => VerifiesFor(r.sct, r.routed) /\ NamesKey(r.sct, r.routed)

\* a value is only ever produced by a 200 answer of the last request
OnlyFrom200 == [][(last' # None /\ last'.k = "submit" /\ last'.result.k = "value") =>
                     last'.end = "answered" /\ last'.answers[Len(last'.answers)].status = 200]_vars

\* non-200 / refused by a check on the signed data: an error that carries the answer it was made from
ErrorsCarryResponse == [][(last' # None /\ last'.k = "submit" /\ last'.end = "answered" /\ last'.expect = "error"
                           /\ last'.layer \in {"http", "signed"}) =>
                             /\ last'.result.k = "error"
                             /\ last'.result.carries = last'.answers[Len(last'.answers)]
                             /\ last'.carry = "response"]_vars

\* an error hands back nothing; what was handed back before is untouched by later calls
NoPartialResults == [][/\ (last' # None /\ last'.result.k = "error") => Returned' = Returned
                       /\ (last' # None /\ last'.k = "roots" /\ last'.result.k = "error") => last'.roots = <<>>
                       /\ Returned \subseteq Returned']_vars

\* NoCrossTalk: a step moves the pacing state of at most one shard, the shard the running submission was routed to,
\* and requests only ever reach that shard; GetAcceptedRoots moves nobody's
NoCrossTalk == [][\A s \in AllShards :
                     /\ mult'[s] # mult[s] => (call # None /\ call.k = "submit" /\ s = call.routed)
                     /\ (call # None /\ call.k = "submit" /\ reqs'[s] # reqs[s]) => s = call.routed]_vars
\* ... and the pause a shard's client takes is a function of that shard's own history
PausesAreLocal == (last # None /\ last.k = "submit") =>
  \A i \in 1..Len(last.waits) : last.waits[i] \in {0} \cup {Pow2(m - 1) : m \in 1..last.mult[last.routed]}

\* RootsUnion: a call that succeeds got an answer from every shard and hands back each distinct root once, covering
\* every shard's list; if any shard failed (or did not answer before the context ended) the call fails with no roots
RootsUnion == (last # None /\ last.k = "roots") =>
  LET bad == {s \in 1..last.n : last.cls[s] \in RootsFail \cup {Hang}}
      arrived == {last.order[i].s : i \in 1..last.taken} IN
  /\ \A s \in AllShards : last.reqs[s] = IF s <= last.n THEN 1 ELSE 0
  /\ last.result.k = "ok" =>
        /\ bad = {} /\ arrived = 1..last.n
        /\ \A i \in 1..last.taken : last.order[i].res = "answer"
        /\ Range(last.roots) = UNION {Range(RootList(last.cls[s])) : s \in 1..last.n}
        /\ NoDup(last.roots)
  /\ last.result.k = "error" =>
        /\ last.roots = <<>>
        /\ \/ last.result.why = "ctx" /\ last.ctxAt >= 0
           \/ last.result.from \in bad /\ last.result.why = last.cls[last.result.from]
  /\ bad # {} => last.result.k = "error"

\* it terminates: when no shard hangs, and when the context ends
RootsTerminate == (InRoots /\ (call.ctx = "ended" \/ \A s \in 1..NShards : call.cls[s] # Hang)) ~> (call = None)
=============================================================================
