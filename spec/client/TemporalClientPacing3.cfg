\* export (thorough): sequences of three submissions, one repetition each
CONSTANTS
  ShardLists <- MCThreeShards
  Deployments <- MCDepClassic
  Instants = {0, 1, 2}
  Scenes = {"submit"}
  ChainKinds = {"x509"}
  Firsts = {"cert"}
  Statuses = {200}
  FinalClasses = {"valid"}
  RetryStatuses = {503}
  RetryAfterForms = {"zero", "bare"}
  UndecodableBodies = {}
  AfterRetryStatuses = {200}
  MaxAnswers = 2
  MaxCalls = 3
  MaxMult = 8
  RootAnswers = {}
  CtxMayEnd = FALSE
INIT Init
NEXT Next
VIEW SeqView
INVARIANTS ExportSeq PausesAreLocal
PROPERTIES NoCrossTalk
CHECK_DEADLOCK FALSE
