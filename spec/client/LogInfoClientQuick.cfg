\* quick exhaustive: two goroutines, two calls, every interleaving of internal steps, answers, lies and growth (safety;
\* LogInfoClientLive.cfg checks the same constants with fairness and Terminates)
CONSTANTS
  Callers = {1, 2}
  MaxSize = 2
  InitSize = 1
  MaxCalls = 2
  Lies = TRUE
  Aliased = FALSE
  Depth = 0
INIT PlainInit
NEXT PlainNext
VIEW StateView
INVARIANTS TypeOK NeverMissing SoundIndex Verdict CacheNotAhead
PROPERTIES CacheLaw Forward FetchOnlyWhenNeeded HeldStable
CHECK_DEADLOCK FALSE
