\* roots, liveness: the call returns when no shard hangs, and when the context ends
CONSTANTS
  ShardLists <- MCListPerLength
  Deployments <- MCDepClassic
  Instants = {0, 1, 2, 3, 4}
  Scenes = {"roots"}
  ChainKinds = {"x509", "precert", "precertPreIssuer"}
  Firsts = {"cert", "lax", "garbage", "none"}
  Statuses = {200, 204, 400, 404, 500}
  FinalClasses = {"valid", "validWithExtensions", "sigByOther", "idOfOther", "validForOther", "sigCorrupt", "sigOverOtherChain", "sigOverOtherType", "sigOverOtherTimestamp", "sigTrailingTLS", "idLen31", "idLen0"}
  RetryStatuses = {408, 429, 503}
  RetryAfterForms = {"zero"}
  UndecodableBodies = {"notJSON", "wrongType"}
  AfterRetryStatuses = {200, 400}
  MaxAnswers = 2
  MaxCalls = 1
  MaxMult = 8
  RootAnswers = {"setA", "setB", "s500", "hang"}
  CtxMayEnd = TRUE
SPECIFICATION LiveSpec
INVARIANTS TypeOK RootsUnion
PROPERTIES RootsTerminate
CHECK_DEADLOCK FALSE
