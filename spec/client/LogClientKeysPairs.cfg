\* thorough: one key option of every class (construction verdict x key verified with x which options are set) x two calls,
\* the server replaying from two classes of earlier answers
CONSTANTS
  Statuses = {200, 404}
  RetryStatuses = {}
  RetryBodies = {}
  UndecodableBodies = {}
  AfterRetryStatuses = {}
  MaxAnswers = 1
  MaxCalls = 2
  CarryLayers = {"http", "json", "signed"}
  X509Chains = {"x509"}
  KeyOptions <- RepresentativeKeyOptions
  ShapeChains = {}
  ProbeClasses = {}
  ReplaySources = {"valid", "sigCorrupt"}
INIT Init
NEXT Next
VIEW StateView
INVARIANTS TypeOK OnlyVerifiedSTH OnlyVerifiedSCT ConstructionLaw
PROPERTIES OnlyFrom200 ErrorsCarryResponse NoPartialResults NoCreditForHistory
CHECK_DEADLOCK FALSE
