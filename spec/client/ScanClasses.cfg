\* every description of an entry (defect sets of the catalogue, at most two per tolerable layer, at most one fatal) x kind
CONSTANTS
  Kinds = {"x509", "precert"}
  MaxPerLayer = 2
INIT Init
NEXT Next
INVARIANTS LawsHold Export
CHECK_DEADLOCK FALSE
