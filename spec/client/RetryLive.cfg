\* liveness: once a context has ended its caller returns (no VIEW: hist stays empty)
CONSTANTS
  Callers = {1, 2}
  MaxMult = 3
  Base = 1
  J = 2
  MaxLen = 2
  Record = FALSE
  Retain = FALSE
  Starts = {0}
  CtxChoices = {3}
  HCs = {"plain"}
  WireRich = FALSE
  Rich = FALSE
  Sim = FALSE
SPECIFICATION LiveSpec
INVARIANTS TypeOK
PROPERTIES PromptCtx
CHECK_DEADLOCK FALSE
