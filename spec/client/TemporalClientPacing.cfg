\* export (quick): sequences of two submissions to three shards whose retries move back-off state
CONSTANTS
  ShardLists <- MCThreeShards
  Deployments <- MCDepRoute
  Instants = {0, 1, 2}
  Scenes = {"submit"}
  ChainKinds = {"x509"}
  Firsts = {"cert"}
  Statuses = {200, 500}
  FinalClasses = {"valid"}
  RetryStatuses = {503}
  RetryAfterForms = {"zero", "bare"}
  UndecodableBodies = {}
  AfterRetryStatuses = {200}
  MaxAnswers = 3
  MaxCalls = 2
  MaxMult = 8
  RootAnswers = {}
  CtxMayEnd = FALSE
INIT Init
NEXT Next
VIEW SeqView
INVARIANTS ExportSeq PausesAreLocal
PROPERTIES NoCrossTalk
CHECK_DEADLOCK FALSE
