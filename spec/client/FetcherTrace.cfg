CONSTANTS
  MaxSize = 24
  Workers = {1, 2, 3, 4}
  MaxErrors = 1000000
  ErrKinds = {"429", "5xx", "net", "unavail", "deadline", "canceled", "400"}
  KeepHist = FALSE
  Configs = {}
INIT TraceInit
NEXT TraceNext
VIEW TraceView
CONSTRAINT HighWater
INVARIANTS TypeOK Accounting AtMostOnce NoOutOfRange Complete StopPrefix ContinuousNoGap ErrFetchesNothing ScanOwesNothing
POSTCONDITION TraceAccepted
CHECK_DEADLOCK FALSE
