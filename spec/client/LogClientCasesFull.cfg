\* thorough export: all three retryable statuses, two repetitions, every status after a repetition
CONSTANTS
  Statuses = {200, 204, 301, 400, 404, 429, 500}
  RetryStatuses = {408, 429, 503}
  RetryBodies = {"valid", "notJSON"}
  UndecodableBodies = {"wrongType", "empty", "notJSON", "truncatedJSON", "badBase64"}
  AfterRetryStatuses = {200, 204, 301, 400, 404, 500}
  MaxAnswers = 3
  MaxCalls = 1
  CarryLayers = {"http", "json", "signed"}
INIT Init
NEXT Next
VIEW ExportView
INVARIANTS ExportCase ExportEntryCases
CHECK_DEADLOCK FALSE
