---------------------------- MODULE FetcherTrace ----------------------------
(***************************************************************************)
(* Trace validation of the real Fetcher / Scanner against Fetcher.tla.     *)
(*                                                                         *)
(* The harness runs scanner.Fetcher.Run (mode "fetch") or                  *)
(* scanner.Scanner.Scan (mode "scan") against a scripted log client under  *)
(* virtual time and records, under the client's mutex,                     *)
(*   Reset   a new run and its configuration (mode scan: per entry its     *)
(*           kind, parse class and the matcher's verdict, the matcher type)*)
(*   Publish the log grew                                                  *)
(*   STH     a get-sth call and its answer                                 *)
(*   Req     a get-entries call [start, end]   (which goroutine: unknown)  *)
(*   Rsp     its answer: n entries from start, or an error                 *)
(*   Batch   the fetch callback got [start, start+n)          (mode fetch) *)
(*   Cert    the cert / precert callback got entry index      (mode scan)  *)
(*   Stop / Cancel   the test is about to call Fetcher.Stop / cancel ctx   *)
(*   Return  Run / Scan returned                                           *)
(* (Stop and Cancel are logged and performed under the same mutex, so the   *)
(* log order is the real order.)  Everything else is silent: the           *)
(* generator's steps, which worker received which range, the context check *)
(* that precedes a request, and in mode "scan" the fetch callback itself.  *)
(* TLC searches for a                                                      *)
(* placement of the silent steps that explains the log; if there is none,  *)
(* the real code did something Fetcher.tla does not allow (a request for a *)
(* range nobody owes, a remainder that does not continue where the reply   *)
(* ended, a batch that was not received, a return with work outstanding).  *)
(***************************************************************************)
EXTENDS Fetcher, ScanSelect, Json, IOUtils

Trace == ndJsonDeserialize(IOEnv.TRACE_FILE)

VARIABLES l,          \* next line of Trace
          checked,    \* workers that have passed the context check of the loop head and not yet sent the request
          scan,       \* [mode, kind, sel] of the current run
          inflight    \* mode scan: selected entries flattened and not yet reported by a callback

xvars == <<checked, scan, inflight>>
tvars == <<fvars, l, xvars>>

Ev(name) == l <= Len(Trace) /\ Trace[l].ev = name
E == Trace[l]

CfgOf(e) == [start |-> e.start, end |-> e.end, batch |-> e.batch, nw |-> e.nw, cont |-> e.cont, init |-> e.init]
ScanOf(e) == [mode |-> e.mode, kind |-> e.kind, class |-> e.class, wants |-> e.wants, mtype |-> e.mtype]
\* the scan owes entry i a callback (ScanSelect.tla): the matcher wants it and is asked about it
OwedCallback(i) == Selected(scan.wants[i + 1] = 1, scan.class[i + 1], scan.mtype)
KindName(x) == IF x = "p" THEN "precert" ELSE "x509"

TraceInit ==
  /\ Len(Trace) >= 1 /\ Trace[1].ev = "Reset"
  /\ InitWith(CfgOf(Trace[1]))
  /\ l = 2
  /\ checked = {}
  /\ scan = ScanOf(Trace[1])
  /\ inflight = {}
  /\ TLCSet(1, 1)

\* a new run starts when the previous one has returned and every callback it owed was made
TraceReset ==
  /\ Ev("Reset")
  /\ returned # "no" /\ inflight = {}
  /\ LET c == CfgOf(E) IN
     /\ cfg' = c /\ logSize' = c.init /\ sth' = -1 /\ endIndex' = c.end /\ cursor' = c.start
     /\ gpc' = "prepare" /\ slot' = NoRng
     /\ wpc' = [w \in Workers |-> IF w <= c.nw THEN "idle" ELSE "done"]
     /\ wrng' = [w \in Workers |-> NoRng]
     /\ wgot' = [w \in Workers |-> 0]
     /\ retries' = [w \in Workers |-> 0]
     /\ cnt' = [i \in Indices |-> 0]
     /\ delivered' = <<>> /\ stopped' = FALSE /\ cancelled' = FALSE /\ errs' = 0
     /\ returned' = "no" /\ last' = None
  /\ checked' = {}
  /\ scan' = ScanOf(E)
  /\ inflight' = {}
  /\ l' = l + 1

TracePublish ==
  /\ Ev("Publish")
  /\ Publish(E.size)
  /\ l' = l + 1 /\ UNCHANGED xvars

TraceSTH ==
  /\ Ev("STH")
  /\ IF gpc = "prepare"
       THEN IF E.err = "" THEN E.size = logSize /\ Prepare ELSE PrepareFails(E.err)
       ELSE IF E.err = "" THEN E.size = logSize /\ (STHAccept \/ STHReject)
            ELSE IF E.err = "ctx" THEN gpc = "sthwait" /\ stopped /\ UNCHANGED fvars
            ELSE STHError(E.err)
  /\ l' = l + 1 /\ UNCHANGED xvars

\* silent: the loop-head context check of a worker, passed
Check(w) ==
  /\ wpc[w] = "loop" /\ ~cancelled /\ w \notin checked
  /\ checked' = checked \cup {w}
  /\ UNCHANGED <<fvars, l, scan, inflight>>

TraceReq ==
  /\ Ev("Req")
  /\ \E w \in Workers : /\ wrng[w] = Rng(E.start, E.end)
                        /\ IF w \in checked THEN Send(w) ELSE Request(w)
                        /\ checked' = checked \ {w}
  /\ l' = l + 1 /\ UNCHANGED <<scan, inflight>>

TraceRsp ==
  /\ Ev("Rsp")
  /\ \E w \in Workers :
        /\ wpc[w] = "req" /\ wrng[w].s = E.start
        /\ IF E.err = "" THEN Fetch(w, E.n)
           ELSE IF E.err = "ctx" THEN FetchCancelled(w)
           ELSE FetchError(w, E.err)
  /\ l' = l + 1 /\ UNCHANGED xvars

TraceBatch ==
  /\ Ev("Batch") /\ scan.mode = "fetch"
  /\ \E w \in Workers : wpc[w] = "got" /\ wrng[w].s = E.start /\ wgot[w] = E.n /\ Deliver(w)
  /\ l' = l + 1 /\ UNCHANGED xvars

\* mode scan, silent: the fetch callback (flatten) takes the batch; its selected entries are now owed a callback
DeliverScan(w) ==
  /\ scan.mode = "scan" /\ wpc[w] = "got"
  /\ inflight' = inflight \cup {i \in wrng[w].s..(wrng[w].s + wgot[w] - 1) : OwedCallback(i)}
  /\ Deliver(w)
  /\ UNCHANGED <<l, checked, scan>>

TraceCert ==
  /\ Ev("Cert") /\ scan.mode = "scan"
  /\ E.index \in inflight
  /\ E.kind = KindName(scan.kind[E.index + 1])
  /\ inflight' = inflight \ {E.index}
  /\ l' = l + 1 /\ UNCHANGED <<fvars, checked, scan>>

TraceStop ==
  /\ Ev("Stop") /\ Stop
  /\ l' = l + 1 /\ UNCHANGED xvars

TraceCancel ==
  /\ Ev("Cancel") /\ Cancel
  /\ l' = l + 1 /\ UNCHANGED xvars

TraceReturn ==
  /\ Ev("Return")
  /\ inflight = {}
  /\ IF E.err = "" THEN Return ELSE returned = "err" /\ UNCHANGED fvars
  /\ l' = l + 1 /\ UNCHANGED xvars

\* the rendezvous is not observable: let the lowest-numbered idle worker receive (workers are interchangeable)
LowestIdle(w) == wpc[w] = "idle" /\ \A v \in Workers : v < w => wpc[v] # "idle"
Silent ==
  \/ (GenRange \/ GenQuit) /\ UNCHANGED <<l, xvars>>
  \/ \E w \in Workers : (LowestIdle(w) /\ Take(w)) /\ UNCHANGED <<l, xvars>>
  \/ \E w \in Workers : (Abort(w) \/ WorkerExit(w)) /\ UNCHANGED <<l, xvars>>
  \/ \E w \in Workers : DeliverScan(w) \/ Check(w)

TraceNext == \/ TraceReset \/ TracePublish \/ TraceSTH \/ TraceReq \/ TraceRsp \/ TraceBatch \/ TraceCert
             \/ TraceStop \/ TraceCancel \/ TraceReturn
             \/ (returned = "no" /\ Silent)

TraceSpec == TraceInit /\ [][TraceNext]_tvars

TraceView == <<cfg, logSize, sth, endIndex, cursor, gpc, slot, wpc, wrng, wgot, cnt, stopped, cancelled, returned,
               l, checked, inflight>>

HighWater == TLCSet(1, IF TLCGet(1) < l THEN l ELSE TLCGet(1))

TraceAccepted ==
  IF TLCGet(1) = Len(Trace) + 1 THEN TRUE
  ELSE /\ PrintT(<<"STUCK", ToJson([line |-> TLCGet(1), event |-> Trace[TLCGet(1)]])>>)
       /\ FALSE

\* mode scan: a complete scan has made exactly the callbacks the matcher selects (everything fetched was reported)
ScanOwesNothing == returned # "no" /\ l > Len(Trace) => inflight = {}
=============================================================================
