\* non-vacuity: with the aliasing defect switched on in the model TLC must refute NeverMissing
CONSTANTS
  Callers = {1, 2}
  MaxSize = 2
  InitSize = 1
  MaxCalls = 2
  Lies = FALSE
  Aliased = TRUE
  Depth = 0
INIT PlainInit
NEXT PlainNext
VIEW StateView
INVARIANTS NeverMissing
CHECK_DEADLOCK FALSE
