------------------------------ MODULE Scanner ------------------------------
(***************************************************************************)
(* scanner/scanner.go on top of the Fetcher: the fetch callback flattens a *)
(* batch into (index, entry) pairs and sends them, one at a time, over a   *)
(* channel of capacity BufSize to the matcher workers; a matcher worker    *)
(* parses the entry, asks the matcher and invokes the certificate or the   *)
(* precertificate callback.                                                *)
(*                                                                         *)
(* C16, scanner part: the callback of the right kind is invoked exactly    *)
(* once for every entry of the range the matcher selects, never for any    *)
(* other entry; every fetched entry is processed once; the scan terminates.*)
(* "Selects" is decided per entry class (ScanSelect.tla): the layers of the *)
(* defects the (pre-)certificate carries - clean / tolerable defects only, *)
(* of one layer or of several at once / a fatal defect, alone or in         *)
(* company -, for X.509 and precert entries, for Matcher-type and          *)
(* LeafMatcher-type matchers.                                              *)
(***************************************************************************)
EXTENDS Fetcher, ScanSelect

CONSTANTS
  Matchers,    \* matcher worker identities
  BufSize,     \* capacity of the entries channel (0 = rendezvous)
  Kind(_),     \* Kind(i) \in {"x509", "precert"}: the entry type of index i
  Class(_),    \* Class(i) \in Classes: how the (pre-)certificate of entry i parses
  Wants(_),    \* Wants(i): the verdict of the matcher (and PrecertOnly) on entry i when it is asked
  MTypes       \* the matcher types explored (subset of MatcherTypes)

VARIABLES
  queue,       \* the entries channel: indices in flight
  wpos,        \* per fetch worker: entries of the batch in hand already sent
  mpc,         \* matcher worker: "idle" | "proc" | "done"
  mcur,        \* the index it is processing
  called,      \* called[i] = [x509 |-> times the cert callback got i, precert |-> times the precert callback got i]
  processed,   \* certsProcessed
  qclosed,     \* the entries channel is closed (after Fetcher.Run returned)
  sreturned,   \* "no" | "ok" | "err": Scan has returned
  mtype        \* the type of the configured matcher (constant during a scan)

svars == <<queue, wpos, mpc, mcur, called, processed, qclosed, sreturned, mtype>>

\* the scan owes entry i a callback
Sel(i) == Selected(Wants(i), Class(i), mtype)
allvars == <<fvars, svars>>

SInit ==
  /\ Init
  /\ queue = <<>>
  /\ wpos = [w \in Workers |-> 0]
  /\ mpc = [m \in Matchers |-> "idle"]
  /\ mcur = [m \in Matchers |-> -1]
  /\ called = [i \in Indices |-> [x509 |-> 0, precert |-> 0]]
  /\ processed = 0
  /\ qclosed = FALSE
  /\ sreturned = "no"
  /\ mtype \in MTypes

\* flatten: the next entry of the batch goes into the channel buffer ...
Push(w) ==
  /\ wpc[w] = "got" /\ wpos[w] < wgot[w] /\ Len(queue) < BufSize
  /\ queue' = Append(queue, wrng[w].s + wpos[w])
  /\ wpos' = [wpos EXCEPT ![w] = @ + 1]
  /\ UNCHANGED <<fvars, mpc, mcur, called, processed, qclosed, sreturned, mtype>>

\* ... or straight to a matcher worker blocked in receive
Handoff(w, m) ==
  /\ wpc[w] = "got" /\ wpos[w] < wgot[w] /\ queue = <<>> /\ mpc[m] = "idle"
  /\ mpc' = [mpc EXCEPT ![m] = "proc"]
  /\ mcur' = [mcur EXCEPT ![m] = wrng[w].s + wpos[w]]
  /\ wpos' = [wpos EXCEPT ![w] = @ + 1]
  /\ UNCHANGED <<fvars, queue, called, processed, qclosed, sreturned, mtype>>

\* the callback returns to the fetch worker: Deliver of Fetcher.tla
FlattenDone(w) ==
  /\ wpos[w] = wgot[w]
  /\ Deliver(w)
  /\ wpos' = [wpos EXCEPT ![w] = 0]
  /\ UNCHANGED <<queue, mpc, mcur, called, processed, qclosed, sreturned, mtype>>

MTake(m) ==
  /\ mpc[m] = "idle" /\ queue # <<>>
  /\ mpc' = [mpc EXCEPT ![m] = "proc"]
  /\ mcur' = [mcur EXCEPT ![m] = Head(queue)]
  /\ queue' = Tail(queue)
  /\ UNCHANGED <<fvars, wpos, called, processed, qclosed, sreturned, mtype>>

\* processEntry: a "matcher" is asked unless the entry is fatally broken (then the entry only counts as unparsable),
\* a "leaf" matcher is always asked; a selected entry goes to the callback of its kind
MProcess(m) ==
  /\ mpc[m] = "proc"
  /\ processed' = processed + 1
  /\ called' = IF Sel(mcur[m]) THEN [called EXCEPT ![mcur[m]][Kind(mcur[m])] = @ + 1] ELSE called
  /\ mpc' = [mpc EXCEPT ![m] = "idle"]
  /\ mcur' = [mcur EXCEPT ![m] = -1]
  /\ UNCHANGED <<fvars, queue, wpos, qclosed, sreturned, mtype>>

CloseEntries ==
  /\ returned # "no" /\ ~qclosed
  /\ qclosed' = TRUE
  /\ UNCHANGED <<fvars, queue, wpos, mpc, mcur, called, processed, sreturned, mtype>>

MExit(m) ==
  /\ mpc[m] = "idle" /\ qclosed /\ queue = <<>>
  /\ mpc' = [mpc EXCEPT ![m] = "done"]
  /\ UNCHANGED <<fvars, queue, wpos, mcur, called, processed, qclosed, sreturned, mtype>>

SReturn ==
  /\ sreturned = "no" /\ \A m \in Matchers : mpc[m] = "done"
  /\ sreturned' = returned
  /\ UNCHANGED <<fvars, queue, wpos, mpc, mcur, called, processed, qclosed, mtype>>

SStep == \/ \E w \in Workers : Push(w) \/ FlattenDone(w) \/ \E m \in Matchers : Handoff(w, m)
         \/ \E m \in Matchers : MTake(m) \/ MProcess(m) \/ MExit(m)
         \/ CloseEntries \/ SReturn

SNext == (NextNoDeliver /\ UNCHANGED svars) \/ SStep

SFairness == /\ WF_allvars(GenStep /\ UNCHANGED svars)
             /\ SF_allvars(GenQuit /\ UNCHANGED svars)
             /\ WF_allvars(Return /\ UNCHANGED svars)
             /\ \A w \in Workers : WF_allvars((WorkerStepNoDeliver(w) /\ UNCHANGED svars) \/ Push(w) \/ FlattenDone(w)
                                                \/ \E m \in Matchers : Handoff(w, m))
             /\ \A m \in Matchers : WF_allvars(MTake(m) \/ MProcess(m) \/ MExit(m))
             /\ WF_allvars(CloseEntries) /\ WF_allvars(SReturn)

SSpec == SInit /\ [][SNext]_allvars
SFairSpec == SSpec /\ SFairness

(* ------------------------------------------------------------ properties *)
Want(i, k) == IF Sel(i) /\ Kind(i) = k THEN 1 ELSE 0

\* never a callback of the wrong kind, never twice, never for an entry that is not selected or not fetched
CallbackSound == \A i \in Indices :
                    /\ called[i].x509 <= Want(i, "x509") /\ called[i].precert <= Want(i, "precert")
                    /\ called[i].x509 + called[i].precert <= cnt[i] + (IF \E w \in Workers : wpc[w] = "got" /\ wrng[w].s <= i /\ i < wrng[w].s + wpos[w] THEN 1 ELSE 0)

\* after the scan has returned every fetched entry was processed once and every selected one got its callback
CallbackComplete == sreturned # "no" =>
                      /\ \A i \in Indices : /\ called[i].x509 = cnt[i] * Want(i, "x509")
                                            /\ called[i].precert = cnt[i] * Want(i, "precert")
                      /\ queue = <<>>

RECURSIVE SumCnt(_)
SumCnt(n) == IF n = 0 THEN 0 ELSE cnt[n - 1] + SumCnt(n - 1)
ProcessedAll == sreturned # "no" => processed = SumCnt(MaxSize)

\* a complete scan: exactly the selected entries of the range, once each
ScanComplete == sreturned = "ok" /\ ~stopped =>
                  \A i \in Indices : LET in == IF cfg.start <= i /\ i < endIndex THEN 1 ELSE 0 IN
                      called[i].x509 = in * Want(i, "x509") /\ called[i].precert = in * Want(i, "precert")

ScanTerminates == (stopped \/ ~cfg.cont) ~> (sreturned # "no")
=============================================================================
