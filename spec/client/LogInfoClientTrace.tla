------------------------ MODULE LogInfoClientTrace ------------------------
(***************************************************************************)
(* Trace validation for free-running goroutines that share one real        *)
(* ctutil.LogInfo against a growing log (harness/vt/c06 TestFree).         *)
(*                                                                         *)
(* Recorded (NDJSON, ordered by the recorder's mutex):                     *)
(*   Reset   a new log (size) and a new LogInfo                            *)
(*   Begin   a goroutine is about to call a method (written before the     *)
(*           call)                                                         *)
(*   Serve   the log computed its answer to a request of that call         *)
(*           (written under the log's mutex: the head served is the head   *)
(*           at that moment); for get-proof-by-hash the tree size and the  *)
(*           hash asked for, what the log found and which answer it gave   *)
(*   Grow    the log sequenced one more certificate (under the same mutex) *)
(*   Return  the call returned (written after it): verdict, index, for     *)
(*           LastSTH the head handed out                                   *)
(* Not observable: when a call reads the cached STH, when it stores the    *)
(* head it fetched, when SetSTH / LastSTH take effect.  These are silent   *)
(* steps; TLC searches for a placement that explains every recorded event  *)
(* with the actions of LogInfoClient.tla.  A Return whose verdict no       *)
(* placement explains (a certificate that is in the tree of the call's     *)
(* STH reported missing, a head handed out that nobody set, ...) or a      *)
(* request that the call, as specified, does not make, leaves the trace    *)
(* stuck.                                                                  *)
(***************************************************************************)
EXTENDS LogInfoClient, Json, IOUtils

Trace == ndJsonDeserialize(IOEnv.TRACE_FILE)

VARIABLE l
tvars == <<size, cached, calls, budget, l>>

TraceInit == Init /\ l = 1 /\ TLCSet(1, 1)

Ev(name) == l <= Len(Trace) /\ Trace[l].ev = name
HeadOf(j) == [size |-> j.size, tree |-> j.tree]

TraceReset ==
  /\ Ev("Reset")
  /\ \A g \in Callers : calls[g].phase = "idle"
  /\ Trace[l].size \in InitSize..MaxSize
  /\ size' = Trace[l].size
  /\ cached' = NoSTH
  /\ budget' = MaxCalls
  /\ l' = l + 1
  /\ UNCHANGED calls

TraceBegin ==
  /\ Ev("Begin")
  /\ LET e == Trace[l] IN e.g \in Callers /\ Begin(e.g, e.m, e.cert, e.ts, HeadOf(e.arg), e.sct)
  /\ l' = l + 1

TraceServe ==
  /\ Ev("Serve")
  /\ LET e == Trace[l] IN
       /\ e.g \in Callers
       /\ IF e.kind = "sth"
          THEN /\ ServeSTH(e.g, e.eff)
               /\ e.size = size                       \* the head served is the log's head at that moment
          ELSE /\ e.kind = "proof"
               /\ calls[e.g].sth.size = e.size         \* asked at the size of the head the call works with
               /\ e.cert = (IF calls[e.g].ts = "sct" THEN calls[e.g].cert ELSE -1)    \* ... for the hash of (certificate, timestamp passed)
               /\ \E cls \in ProofClasses : ServeProof(e.g, cls) /\ calls'[e.g].pc = e.eff
  /\ l' = l + 1

TraceGrow ==
  /\ Ev("Grow")
  /\ Grow
  /\ size' = Trace[l].size
  /\ l' = l + 1

TraceReturn ==
  /\ Ev("Return")
  /\ LET e == Trace[l]
         cl == calls[e.g] IN
       /\ e.g \in Callers
       /\ cl.phase = "done" /\ cl.m = e.m
       /\ cl.res.ok = e.ok
       /\ cl.m \in Incl => cl.res.idx = e.idx
       /\ cl.m = "Last" => cl.sth = HeadOf(e.sth)
       /\ Return(e.g)
  /\ l' = l + 1

Silent == /\ \E g \in Callers : ReadCache(g) \/ Lin(g) \/ Store(g)
          /\ UNCHANGED l

TraceNext == TraceReset \/ TraceBegin \/ TraceServe \/ TraceGrow \/ TraceReturn \/ Silent

TraceView == tvars
HighWater == TLCSet(1, IF TLCGet(1) < l THEN l ELSE TLCGet(1))

TraceAccepted ==
  IF TLCGet(1) = Len(Trace) + 1 THEN TRUE
  ELSE /\ PrintT(<<"STUCK", ToJson([line |-> TLCGet(1), event |-> Trace[TLCGet(1)]])>>)
       /\ FALSE

\* the laws on every state the real execution passed through
TraceNeverMissing == NeverMissing
TraceSoundIndex == SoundIndex
TraceCacheNotAhead == CacheNotAhead
=============================================================================
