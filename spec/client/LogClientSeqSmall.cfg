\* quick tier: sequences of two calls (coarse representatives of the first call x every second call)
CONSTANTS
  Statuses = {200, 404, 429}
  RetryStatuses = {408}
  RetryBodies = {"valid"}
  UndecodableBodies = {}
  AfterRetryStatuses = {200}
  MaxAnswers = 2
  MaxCalls = 2
  CarryLayers = {"http", "json", "signed"}
  X509Chains = {"x509"}
  KeyOptions = {"der"}
  ShapeChains = {}
  ProbeClasses = {}
  ReplaySources = {}
INIT Init
NEXT Next
VIEW ExportViewCoarse
INVARIANTS ExportBehaviour
CHECK_DEADLOCK FALSE
