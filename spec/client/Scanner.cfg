\* exhaustive: fetcher x flatten x matcher workers
CONSTANTS
  MaxSize = 4
  Workers = {1, 2}
  MaxErrors = 1
  ErrKinds <- OneErr
  KeepHist = FALSE
  Configs <- ScanConfigs
  Batches = {1, 3}
  NW = 2
  InitSizes = {0, 2, 3, 4}
  Matchers = {1, 2}
  BufSize = 1
  Kind <- MCKind
  Class <- MCClass
  Wants <- MCWants
  MTypes = {"matcher", "leaf"}
INIT SInit
NEXT SNext
INVARIANTS TypeOK Accounting CallbackSound CallbackComplete ProcessedAll ScanComplete
CHECK_DEADLOCK FALSE
