CONSTANTS
  Logs = {"L1", "L2"}
  OtherLogs = {"LX"}
  MaxSize = 3
  ForkAt = 2
  Proofs = {"correct", "othersizes", "truncated", "empty"}
  Aliases = {"bits", "nl", "nopad", "urlsafe", "space"}
  CoverAliases = {"bits", "nl", "nopad"}
  CoverFaultProofs = {"correct", "empty"}
  DonorIdfs = {"absent", "right"}
  ForgedIdfs = {"absent"}
  HistLogs = {"L1"}
  HistProofs = {"correct", "empty"}
  HistFaults = {"ctx"}
  HistTs = {1}
  Depth = 2
INIT Init
NEXT CoverNext
VIEW CoverView
INVARIANTS ExportAtDepth
CHECK_DEADLOCK FALSE
