CONSTANTS
  Logs = {"L1", "L2"}
  OtherLogs = {"LX"}
  MaxSize = 3
  ForkAt = 2
  Proofs = {"correct", "othersizes", "truncated", "empty"}
  Aliases = {"bits", "nl", "nopad", "urlsafe", "space"}
  CoverAliases = {"bits", "nl", "nopad"}
  CoverFaultProofs = {"correct", "empty"}
  DonorIdfs = {"absent", "right"}
  ForgedIdfs = {"absent"}
  RSALogs = {"L2"}
  HashCodes = {"none", "md5", "sha1", "sha224", "sha256", "sha384", "sha512", "h7", "h8", "hx"}
  SigAlgs = {"anon", "rsa", "dsa", "ecdsa", "s7", "s8", "sx"}
  HdrIdfs = {"absent"}
  HdrLogs = {"L1", "L2"}
  HdrBuildSizes = {2}
  HdrProofs = {"correct"}
  HdrTofuFull = FALSE
  HistLogs = {"L1"}
  HistProofs = {"correct", "empty"}
  HistFaults = {"ctx"}
  HistTs = {1}
  Depth = 2
INIT Init
NEXT CoverNext
VIEW CoverView
INVARIANTS ExportAtDepth
CHECK_DEADLOCK FALSE
