\* scripted cover (quick): every configuration of up to 3 entries (and two of 4) through the production path
CONSTANTS
  Keys = {"K1", "K2", "K3"}
  Unknown = {"KX"}
  RSAKeys = {"K2"}
  MaxEntries = 4
  MaxSize = 3
  WitKeys = {"p256", "p384", "rsa2048", "ed25519"}
  SignKinds = {"p256", "p384", "rsa2048"}
  Paths = {"new", "main"}
  Proofs = {"correct", "empty"}
  Depth = 0
  ScriptCfgLen = 3
INIT ScriptInit
NEXT ScriptNext

INVARIANTS ExportScript TypeOK OwnKeyOnly CosignedHeld CosigUnderKey
PROPERTIES ForeignRefused OwnAccepted ForwardOnly CosignedForward RefusedNoChange MuteWitnessStoresNothing DroppedLogNotServed SetupKeepsRows
CHECK_DEADLOCK FALSE
