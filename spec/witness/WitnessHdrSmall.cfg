\* header cover (quick): nothing held / the honest tree of size 2 held, then every member of the log's header family
\* (see MCWitness.tla, HdrNext)
CONSTANTS
  Logs = {"L1", "L2"}
  OtherLogs = {"LX"}
  MaxSize = 3
  ForkAt = 2
  Proofs = {"correct", "othersizes", "truncated", "empty"}
  Aliases = {"bits", "nl", "nopad", "urlsafe", "space"}
  CoverAliases = {"bits"}
  CoverFaultProofs = {"correct"}
  DonorIdfs = {"absent"}
  ForgedIdfs = {"absent"}
  RSALogs = {"L2"}
  HashCodes = {"none", "md5", "sha1", "sha224", "sha256", "sha384", "sha512", "h7", "h8", "hx"}
  SigAlgs = {"anon", "rsa", "dsa", "ecdsa", "s7", "s8", "sx"}
  HdrIdfs = {"absent"}
  HdrLogs = {"L1", "L2"}
  HdrBuildSizes = {2}
  HdrProofs = {"correct"}
  HdrTofuFull = FALSE
  HistLogs = {"L1"}
  HistProofs = {"correct", "empty"}
  HistFaults = {"commit"}
  HistTs = {1}
  Depth = 2
INIT Init
NEXT HdrNext
VIEW HdrView
INVARIANTS ExportAtDepth OnlySigned ExactHeaderOnly
PROPERTIES OtherHeaderRefused OtherHeaderLikeBadSig NoHashNoSignature
CHECK_DEADLOCK FALSE
