\* history cover (thorough): larger trees, both logs, more proofs, a commit fault among the history-building steps
CONSTANTS
  Logs = {"L1", "L2"}
  OtherLogs = {"LX"}
  MaxSize = 4
  ForkAt = 2
  Proofs = {"correct", "othersizes", "otherfork", "truncated", "padded", "random", "empty"}
  Aliases = {"bits", "nl", "nopad", "urlsafe", "space"}
  CoverAliases = {"bits"}
  CoverFaultProofs = {"correct"}
  DonorIdfs = {"absent"}
  ForgedIdfs = {"absent"}
  HistLogs = {"L1", "L2"}
  HistProofs = {"correct", "empty", "padded"}
  HistFaults = {"ctx", "commit"}
  HistTs = {1}
  Depth = 3
INIT Init
NEXT HistNext
VIEW HistView
INVARIANTS ExportAtDepth HeldWasOffered OnlySigned
PROPERTIES ReplayedSigRefused ReplayedLikeBadSig
CHECK_DEADLOCK FALSE
