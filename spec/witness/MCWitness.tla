----------------------------- MODULE MCWitness -----------------------------
(* Model-checking, cover and simulation instances of Witness. *)
EXTENDS Witness, Json

CONSTANT Depth    \* length of exported behaviours (cover and simulation configs)

\* exhaustive check: history variables do not distinguish states
StateView == held

\* cosigned reply carries the STH held after the step (as an action property so that it is
\* evaluated on every transition, also those leading to an already known view)
CosignedIsHeldAct == [][last'.reply.kind = "cosigned" => last'.reply.sth = held'[last'.log]]_vars

(* --- cover: every (state reachable in Depth-1 steps) x (every action) pair ends one behaviour --- *)
CoverNext == Len(hist) < Depth /\ Next
CoverView == <<held, IF Len(hist) >= Depth THEN last ELSE None>>
ExportAtDepth == Len(hist) = Depth => PrintT(<<"BEH", ToJson(hist)>>)
\* Simulation evaluates invariants on every candidate successor, so the export is attached to a
\* unique closing step that only the chosen state takes.
End == [op |-> "End"]
Finish == Len(hist) = Depth /\ hist' = Append(hist, End) /\ UNCHANGED <<held, last>>
ExportFinished == (Len(hist) = Depth + 1) => PrintT(<<"BEH", ToJson(SubSeq(hist, 1, Depth))>>)

(* --- simulation: weighted towards updates that have a chance of moving the witness forward --- *)
Plausible(l, c) == IF c = Garbage \/ l \notin Logs THEN FALSE
                   ELSE IF ~ParsesFor(c, l) THEN FALSE
                   ELSE IF held[l] = None THEN TRUE ELSE c.size >= held[l].size
\* RandomElement keeps one successor per step (fast) and gives the mix below instead of the
\* uniform choice over ~3000 successors that TLC's simulator would make.
PlausibleCands(l) == {c \in Cands : Plausible(l, c)}
SimNext ==
  /\ Len(hist) < Depth
  /\ \E kind \in {RandomElement(1..10)}, l \in {RandomElement(Logs)} :   \* bound once (a LET would re-draw per use)
        CASE kind \in 1..4 -> \E c \in {RandomElement(PlausibleCands(l))} : Update(l, c, "correct")
          [] kind \in 5..6 -> \E c \in {RandomElement(PlausibleCands(l))}, pf \in {RandomElement(Proofs)} : Update(l, c, pf)
          [] kind \in 7..8 -> \E l2 \in {RandomElement(AllLogs)}, c \in {RandomElement(Cands)}, pf \in {RandomElement(Proofs)} : Update(l2, c, pf)
          [] kind = 9 -> \E l2 \in {RandomElement(AllLogs)} : GetSTH(l2)
          [] OTHER -> GetLogs
SimNextF == SimNext \/ Finish
=============================================================================
