----------------------------- MODULE MCWitness -----------------------------
(* Model-checking, cover and simulation instances of Witness. *)
EXTENDS Witness, Json

CONSTANT Depth    \* length of exported behaviours (cover and simulation configs)

\* exhaustive check: history variables (hist, last, offered) do not distinguish states - no decision reads them
StateView == <<held, cos>>

\* quick exhaustive check: spellings and faults are not crossed with one another and alias-addressed updates
\* carry the correct proof only (an alias-addressed update is refused before the proof or the database is
\* looked at); reads keep the full cross.  Witness.cfg (thorough) checks Next, the full cross.
QuickReplays(l) == {c \in ReplaySTHs : c.signer = l /\ c.ts = 1 /\ c.over.ts = 1}
UncrossedNext ==
  \/ \E l \in AllLogs, c \in PlainCands, pf \in Proofs : Update(l, "canon", c, pf, "none")
  \/ \E l \in AllLogs, sp \in Aliases, c \in PlainCands : Update(l, sp, c, "correct", "none")
  \/ \E l \in AllLogs, c \in PlainCands, pf \in Proofs, f \in Faults : Update(l, "canon", c, pf, f)
  \* replayed signatures (own log's and the other log's; donors offered before or not - `offered` is not in the
  \* view, no decision reads it): every one with the correct proof, the first-timestamp ones of the addressed log
  \* with every proof and, separately, every fault
  \/ \E l \in AllLogs, c \in ReplaySTHs : Update(l, "canon", c, "correct", "none")
  \/ \E l \in Logs, pf \in Proofs : \E c \in QuickReplays(l) : Update(l, "canon", c, pf, "none")
  \/ \E l \in Logs, f \in Faults : \E c \in QuickReplays(l) : Update(l, "canon", c, "correct", f)
  \* the header family: every member over the honest trees of sizes 0 and MaxSize and the crafted ones to the log whose key
  \* they were made from (WitnessHdr*.cfg checks the header properties for every member in chosen states); the ones over the largest honest tree and the crafted ones to every log, and to their own log under every fault
  \/ \E l \in Logs : \E c \in {x \in HdrOf(l) : x.fam = "X" \/ (x.fam = "H" /\ x.size \in {0, MaxSize})} : Update(l, "canon", c, "correct", "none")
  \/ \E l \in AllLogs, s \in Logs : \E c \in MainHdrs(s) : Update(l, "canon", c, "correct", "none")
  \/ \E l \in Logs, f \in Faults : \E c \in {x \in FullHdrs(l) : x.hdr.alg = KeyAlg(l) /\ x.form # "garbage"} : Update(l, "canon", c, "empty", f)
  \/ NextRead

\* cosigned reply carries the STH held after the step (as an action property so that it is
\* evaluated on every transition, also those leading to an already known view)
CosignedIsHeldAct == [][last'.reply.kind = "cosigned" => last'.reply.sth = held'[last'.log]]_vars

(* --- the request classes added to the cover: spellings and storage faults --- *)
CONSTANTS CoverAliases,      \* spellings exercised in every reachable state
          CoverFaultProofs   \* proof labels paired with every fault
\* candidates that a fresh row would accept (the ones a second history would be opened with)
Acceptable(l) == {c \in PlainSTHs : ParsesFor(c, l) /\ c.ts = 1}
\* a genuine STH the witness has (in all likelihood) never been offered
UnseenDonor(l) == Mk([fam |-> "H", size |-> MaxSize, ts |-> 2], l, "absent", None, StdHdr(l), "signed")
\* replayed signatures worth a behaviour of their own in state (held, offered): every content that a fresh row
\* would accept, under the signature bytes of every STH offered so far (the stored one among them) and of one the
\* witness has not met
CoverReplays(l) == {Forge(ContentOf(c), g, "absent") : c \in {x \in Acceptable(l) : x.idf = "absent"},
                                                        g \in offered[l] \cup {UnseenDonor(l)}}
                      \cap ReplaySTHs
ExtraNext ==
  \/ \E l \in Logs, sp \in CoverAliases : \E c \in Acceptable(l) : Update(l, sp, c, "correct", "none")
  \/ \E l \in Logs, pf \in CoverFaultProofs, f \in Faults \ {"none"} : \E c \in Acceptable(l) : Update(l, "canon", c, pf, f)
  \/ \E l \in Logs, sp \in CoverAliases : GetSTH(l, sp, "none")
  \/ \E l \in AllLogs, f \in ReadOpFaults \ {"none"} : GetSTH(l, "canon", f)
  \/ \E f \in ReadOpFaults \ {"none"} : GetLogs(f)
  \/ \E l \in Logs, pf \in CoverFaultProofs : \E c \in CoverReplays(l) : Update(l, "canon", c, pf, "none")

(* --- cover: every (state reachable in Depth-1 steps) x (every action) pair ends one behaviour --- *)
CoverNext == Len(hist) < Depth /\ (PlainNext \/ ExtraNext)
\* `offered` is not part of the view: of the states with equal rows the first one found (breadth first, one worker)
\* is the one whose replays are exported; WitnessHist*.cfg below keeps `offered` in its view
CoverView == <<held, cos, IF Len(hist) >= Depth THEN last ELSE None>>
ExportAtDepth == Len(hist) = Depth => PrintT(<<"BEH", ToJson(hist)>>)
\* Simulation evaluates invariants on every candidate successor, so the export is attached to a
\* unique closing step that only the chosen state takes.
End == [op |-> "End"]
Finish == Len(hist) = Depth /\ hist' = Append(hist, End) /\ UNCHANGED <<held, cos, offered, last>>
ExportFinished == (Len(hist) = Depth + 1) => PrintT(<<"BEH", ToJson(SubSeq(hist, 1, Depth))>>)

(* --- history cover: what was offered before x what is offered now ---
   The first Depth-1 steps build a history for one log out of a small alphabet (genuine STHs and their bad-signature
   twins; accepted, refused for the proof, lost to a fault after the signature was judged); the last step probes
   every state (held, offered) reached that way with
     - every content under the signature bytes of every STH offered so far and of one never offered, with a proof
       that is correct for the forged tree and with a wrong one, sent to the donor's log and to the other log,
     - every genuine STH and bad-signature twin (what was refused before must not weigh on what is offered now),
     - a read of the stored STH. *)
CONSTANTS HistLogs,      \* logs whose history is built
          HistProofs,    \* proof labels of history-building and probing updates
          HistFaults,    \* faults met by history-building updates
          HistTs         \* timestamps of the alphabet
HistAlphabet(l) == LET g == {c \in Genuine(l) : c.idf = "absent" /\ c.ts \in HistTs} IN g \cup {BadTwin(c) : c \in g}
\* a fault is met by at most one history-building update, one that would otherwise have been stored
HistBuild == \E l \in HistLogs : \E c \in HistAlphabet(l) :
                \/ \E pf \in HistProofs : Update(l, "canon", c, pf, "none")
                \/ /\ \A i \in 1..Len(hist) : hist[i].fault = "none"
                   /\ ParsesFor(c, l)
                   /\ Decide(l, c, "correct").store
                   /\ \E f \in HistFaults : Update(l, "canon", c, "correct", f)
\* contents a forged STH is given: every one of the alphabet's timestamps, and the donor's own with another timestamp
ForgedContents(g) == {x \in [fam : Fams, size : 0..MaxSize, ts : 1..2] :
                         Normal(x) /\ x # ContentOf(g) /\ (x.ts \in HistTs \/ (x.fam = g.fam /\ x.size = g.size))}
HistProbe == \E l \in HistLogs :
                \/ \E g \in offered[l] : \E x \in ForgedContents(g) :
                      \/ \E pf \in HistProofs : Update(l, "canon", Forge(x, g, "absent"), pf, "none")
                      \/ \E l2 \in Logs \ {l} : x.ts \in HistTs /\ Update(l2, "canon", Forge(x, g, "absent"), "correct", "none")
                \/ \E x \in ForgedContents(UnseenDonor(l)) : Update(l, "canon", Forge(x, UnseenDonor(l), "absent"), "correct", "none")
                \/ \E c \in HistAlphabet(l) : Update(l, "canon", c, "correct", "none")
                \/ GetSTH(l, "canon", "none")
\* the candidate refused for its signature in the last history-building step, if that is what the step was
LastRefused == IF Depth >= 2 /\ Len(hist) >= Depth - 1 /\ hist[Depth - 1].cand # Garbage
                  /\ (hist[Depth - 1].cand.signer = "bad" \/ IsReplay(hist[Depth - 1].cand) \/ IsHdr(hist[Depth - 1].cand))
               THEN hist[Depth - 1].cand ELSE None
\* ... is then offered once more (a refusal must be repeated: no verdict may be remembered before it is reached), and
\* its content is offered with the log's own signature (a refusal must not be remembered against the content)
PoisonProbe == \E l \in {hist[Depth - 1].log} :
                  \/ Update(l, "canon", LastRefused, "correct", "none")
                  \/ \E pf \in HistProofs :
                        Update(l, "canon", Mk(LastRefused, l, "absent", None, StdHdr(l), "signed"), pf, "none")
\* the last history-building step may also be an offer of a replayed signature
HistBuildForged == /\ Len(hist) = Depth - 2
                   /\ \E l \in HistLogs : \E g \in offered[l] \cup {UnseenDonor(l)} :
                         \E x \in {y \in ForgedContents(g) : y.ts \in HistTs} : Update(l, "canon", Forge(x, g, "absent"), "correct", "none")
\* ... or of a member of the header family (the honest tree of the largest size under every hash byte with the key's own
\* algorithm byte, and under every algorithm byte with sha256)
HistHdrs(l) == {c \in FullHdrs(l) : c.fam = "H" /\ c.idf = "absent" /\ (c.hdr.alg = KeyAlg(l) \/ (c.hdr.hash = "sha256" /\ c.form = "signed"))}
HistBuildHdr == /\ Len(hist) = Depth - 2
                /\ \E l \in HistLogs : \E c \in HistHdrs(l) : Update(l, "canon", c, "correct", "none")
HistNext == /\ Len(hist) < Depth
            /\ IF Len(hist) < Depth - 1 THEN HistBuild \/ HistBuildForged \/ HistBuildHdr
               ELSE IF LastRefused # None THEN PoisonProbe ELSE HistProbe
\* histories that reach the same (held, offered) through different storage faults are kept apart (the code under
\* test may have been left in different states by them), and so are histories that end in the refusal of different
\* candidates
HistPrefix == 1..(IF Len(hist) >= Depth THEN Depth - 1 ELSE Len(hist))      \* the history-building steps taken
HistView == <<held, cos, offered, [i \in HistPrefix |-> hist[i].fault], LastRefused,
              IF Len(hist) >= Depth THEN last ELSE None>>

(* --- header cover: what the witness holds x every member of the header family ---
   The first Depth-1 steps put one log into a state (nothing held: a read; something held: genuine honest STHs of the
   sizes HdrBuildSizes, accepted one after the other); the last step offers that log every member of its header family
   (every content: smaller, equal, larger, forked; every header; every form of the signature bytes), and the crafted
   and largest-tree members of the other log's family (made from another key than the addressed log's). *)
CONSTANTS HdrLogs,        \* logs whose header family is covered
          HdrBuildSizes,  \* sizes of the genuine STHs the state is built from
          HdrProofs,      \* proof labels of the probing updates
          HdrTofuFull     \* FALSE: with nothing held (the content is compared with nothing) only the largest honest tree
HdrLog == IF Len(hist) = 0 THEN "none" ELSE hist[1].log      \* one log per behaviour
HdrBuild == \E l \in (IF Len(hist) = 0 THEN HdrLogs ELSE {HdrLog}) :
               \/ GetSTH(l, "canon", "none")
               \/ \E n \in HdrBuildSizes :
                     /\ held[l] = None \/ (held[l] # None /\ held[l].size < n)
                     /\ Update(l, "canon", Mk([fam |-> "H", size |-> n, ts |-> 1], l, "absent", None, StdHdr(l), "signed"), "correct", "none")
HdrProbe == \E l \in {HdrLog} :
               \/ \E c \in (IF held[l] = None /\ HdrTofuFull = FALSE THEN FullHdrs(l) ELSE HdrOf(l)), pf \in HdrProofs : Update(l, "canon", c, pf, "none")
               \/ \E s \in Logs \ {l} : \E c \in FullHdrs(s) : Update(l, "canon", c, "correct", "none")
HdrNext == /\ Len(hist) < Depth
           /\ IF Len(hist) < Depth - 1 THEN HdrBuild ELSE HdrProbe
\* (the number of steps taken is part of the view: a read leaves held and cos as they were)
HdrView == <<held, cos, HdrLog, Len(hist), IF Len(hist) >= Depth THEN last ELSE None>>

(* --- simulation: weighted towards updates that have a chance of moving the witness forward --- *)
Plausible(l, c) == IF c = Garbage \/ l \notin Logs THEN FALSE
                   ELSE IF ~ParsesFor(c, l) THEN FALSE
                   ELSE IF held[l] = None THEN TRUE ELSE c.size >= held[l].size
\* RandomElement keeps one successor per step (fast) and gives the mix below instead of the
\* uniform choice over ~3000 successors that TLC's simulator would make.
PlausibleCands(l) == {c \in PlainCands : Plausible(l, c)}
\* donors of a replayed signature: what the witness was offered as an STH of l, or (nothing offered yet) one it never met
SimDonors(l) == IF offered[l] = {} THEN {UnseenDonor(l)} ELSE offered[l]
\* a forged STH that would be taken if its signature were good: larger than (or equal to) the stored one
SimForged(l, g) == {Forge(ContentOf(c), g, idf) : c \in {x \in PlausibleCands(l) : x.idf = "absent"}, idf \in ForgedIdfs} \cap ReplaySTHs
\* the member of HdrOf(s) nearest to a freely drawn (content, header, form)
HdrPick(s, x, i, h, fo) ==
  IF x.fam = "X" THEN (IF KeyAlg(s) = "ecdsa" THEN Mk(x, s, i, None, h, "crafted")
                       ELSE Mk([fam |-> "H", size |-> MaxSize, ts |-> 1], s, i, None, h, "garbage"))
  ELSE IF fo = "crafted" \/ (fo = "rawkey" /\ h.hash \notin NoHash) \/ (fo = "signed" /\ h = StdHdr(s)) THEN Mk(x, s, i, None, h, "garbage")
  ELSE Mk(x, s, i, None, h, fo)
SimNext ==
  /\ Len(hist) < Depth
  /\ \E kind \in {RandomElement(1..22)}, l \in {RandomElement(Logs)} :   \* bound once (a LET would re-draw per use)
        CASE kind \in 1..4 -> \E c \in {RandomElement(PlausibleCands(l))} : Update(l, "canon", c, "correct", "none")
          [] kind \in 5..6 -> \E c \in {RandomElement(PlausibleCands(l))}, pf \in {RandomElement(Proofs)} : Update(l, "canon", c, pf, "none")
          [] kind \in 7..8 -> \E l2 \in {RandomElement(AllLogs)}, sp \in {RandomElement(Spellings)}, c \in {RandomElement(PlainCands)},
                                 pf \in {RandomElement(Proofs)}, f \in {RandomElement(Faults)} : Update(l2, sp, c, pf, f)
          [] kind = 9 -> \E l2 \in {RandomElement(AllLogs)}, sp \in {RandomElement(Spellings)},
                            f \in {RandomElement(ReadOpFaults)} : GetSTH(l2, sp, f)
          [] kind = 10 -> \E f \in {RandomElement(ReadOpFaults)} : GetLogs(f)
          \* an acceptable-looking STH under another spelling of the log's id (fork, stale, newer)
          [] kind \in 11..12 -> \E sp \in {RandomElement(Aliases)}, c \in {RandomElement(Acceptable(l))},
                                   pf \in {RandomElement({"correct", "empty"})} : Update(l, sp, c, pf, "none")
          \* an update that would be stored, under a storage fault
          [] kind \in 13..14 -> \E c \in {RandomElement(PlausibleCands(l))}, f \in {RandomElement(Faults \ {"none"})} :
                                   Update(l, "canon", c, "correct", f)
          \* a replayed signature of an STH met before over a content that would move the witness forward
          [] kind \in 16..17 -> \E g \in {RandomElement(SimDonors(l))} :
                                   IF SimForged(l, g) = {} THEN GetSTH(l, "canon", "none")
                                   ELSE \E c \in {RandomElement(SimForged(l, g))}, pf \in {RandomElement({"correct", "correct", "empty"})} :
                                           Update(l, "canon", c, pf, "none")
          \* any replayed signature, to any log, under any spelling, proof and fault
          [] kind = 18 -> \E l2 \in {RandomElement(AllLogs)}, sp \in {RandomElement(Spellings)}, c \in {RandomElement(ReplaySTHs)},
                             pf \in {RandomElement(Proofs)}, f \in {RandomElement(Faults)} : Update(l2, sp, c, pf, f)
          \* a member of the header family of the addressed log over a content that would move the witness forward
          [] kind \in 19..20 -> \E x \in {RandomElement({y \in HdrContents : Plausible(l, Mk(y, l, "absent", None, StdHdr(l), "signed"))} \cup {CraftedContent})},
                                   h \in {RandomElement(Headers)}, fo \in {RandomElement(SigForms)},
                                   pf \in {RandomElement({"correct", "correct", "empty"})} : Update(l, "canon", HdrPick(l, x, "absent", h, fo), pf, "none")
          \* any member of the header family, to any log, under any spelling, proof and fault
          [] kind = 21 -> \E l2 \in {RandomElement(AllLogs)}, sp \in {RandomElement(Spellings)}, s \in {RandomElement(Logs)},
                             x \in {RandomElement(HdrContents \cup {CraftedContent})}, i \in {RandomElement(HdrIdfs)},
                             h \in {RandomElement(Headers)}, fo \in {RandomElement(SigForms)},
                             pf \in {RandomElement(Proofs)}, f \in {RandomElement(Faults)} : Update(l2, sp, HdrPick(s, x, i, h, fo), pf, f)
          [] OTHER -> GetSTH(l, "canon", "none")
SimNextF == SimNext \/ Finish
=============================================================================
