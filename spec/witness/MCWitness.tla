----------------------------- MODULE MCWitness -----------------------------
(* Model-checking, cover and simulation instances of Witness. *)
EXTENDS Witness, Json

CONSTANT Depth    \* length of exported behaviours (cover and simulation configs)

\* exhaustive check: history variables do not distinguish states
StateView == <<held, cos>>

\* quick exhaustive check: spellings and faults are not crossed with one another and alias-addressed updates
\* carry the correct proof only (an alias-addressed update is refused before the proof or the database is
\* looked at); reads keep the full cross.  Witness.cfg (thorough) checks Next, the full cross.
UncrossedNext ==
  \/ \E l \in AllLogs, c \in Cands, pf \in Proofs : Update(l, "canon", c, pf, "none")
  \/ \E l \in AllLogs, sp \in Aliases, c \in Cands : Update(l, sp, c, "correct", "none")
  \/ \E l \in AllLogs, c \in Cands, pf \in Proofs, f \in Faults : Update(l, "canon", c, pf, f)
  \/ NextRead

\* cosigned reply carries the STH held after the step (as an action property so that it is
\* evaluated on every transition, also those leading to an already known view)
CosignedIsHeldAct == [][last'.reply.kind = "cosigned" => last'.reply.sth = held'[last'.log]]_vars

(* --- the request classes added to the cover: spellings and storage faults --- *)
CONSTANTS CoverAliases,      \* spellings exercised in every reachable state
          CoverFaultProofs   \* proof labels paired with every fault
\* candidates that a fresh row would accept (the ones a second history would be opened with)
Acceptable(l) == {c \in Cands : c # Garbage /\ ParsesFor(c, l) /\ c.ts = 1}
ExtraNext ==
  \/ \E l \in Logs, sp \in CoverAliases : \E c \in Acceptable(l) : Update(l, sp, c, "correct", "none")
  \/ \E l \in Logs, pf \in CoverFaultProofs, f \in Faults \ {"none"} : \E c \in Acceptable(l) : Update(l, "canon", c, pf, f)
  \/ \E l \in Logs, sp \in CoverAliases : GetSTH(l, sp, "none")
  \/ \E l \in AllLogs, f \in ReadOpFaults \ {"none"} : GetSTH(l, "canon", f)
  \/ \E f \in ReadOpFaults \ {"none"} : GetLogs(f)

(* --- cover: every (state reachable in Depth-1 steps) x (every action) pair ends one behaviour --- *)
CoverNext == Len(hist) < Depth /\ (PlainNext \/ ExtraNext)
CoverView == <<held, cos, IF Len(hist) >= Depth THEN last ELSE None>>
ExportAtDepth == Len(hist) = Depth => PrintT(<<"BEH", ToJson(hist)>>)
\* Simulation evaluates invariants on every candidate successor, so the export is attached to a
\* unique closing step that only the chosen state takes.
End == [op |-> "End"]
Finish == Len(hist) = Depth /\ hist' = Append(hist, End) /\ UNCHANGED <<held, cos, last>>
ExportFinished == (Len(hist) = Depth + 1) => PrintT(<<"BEH", ToJson(SubSeq(hist, 1, Depth))>>)

(* --- simulation: weighted towards updates that have a chance of moving the witness forward --- *)
Plausible(l, c) == IF c = Garbage \/ l \notin Logs THEN FALSE
                   ELSE IF ~ParsesFor(c, l) THEN FALSE
                   ELSE IF held[l] = None THEN TRUE ELSE c.size >= held[l].size
\* RandomElement keeps one successor per step (fast) and gives the mix below instead of the
\* uniform choice over ~3000 successors that TLC's simulator would make.
PlausibleCands(l) == {c \in Cands : Plausible(l, c)}
SimNext ==
  /\ Len(hist) < Depth
  /\ \E kind \in {RandomElement(1..15)}, l \in {RandomElement(Logs)} :   \* bound once (a LET would re-draw per use)
        CASE kind \in 1..4 -> \E c \in {RandomElement(PlausibleCands(l))} : Update(l, "canon", c, "correct", "none")
          [] kind \in 5..6 -> \E c \in {RandomElement(PlausibleCands(l))}, pf \in {RandomElement(Proofs)} : Update(l, "canon", c, pf, "none")
          [] kind \in 7..8 -> \E l2 \in {RandomElement(AllLogs)}, sp \in {RandomElement(Spellings)}, c \in {RandomElement(Cands)},
                                 pf \in {RandomElement(Proofs)}, f \in {RandomElement(Faults)} : Update(l2, sp, c, pf, f)
          [] kind = 9 -> \E l2 \in {RandomElement(AllLogs)}, sp \in {RandomElement(Spellings)},
                            f \in {RandomElement(ReadOpFaults)} : GetSTH(l2, sp, f)
          [] kind = 10 -> \E f \in {RandomElement(ReadOpFaults)} : GetLogs(f)
          \* an acceptable-looking STH under another spelling of the log's id (fork, stale, newer)
          [] kind \in 11..12 -> \E sp \in {RandomElement(Aliases)}, c \in {RandomElement(Acceptable(l))},
                                   pf \in {RandomElement({"correct", "empty"})} : Update(l, sp, c, pf, "none")
          \* an update that would be stored, under a storage fault
          [] kind \in 13..14 -> \E c \in {RandomElement(PlausibleCands(l))}, f \in {RandomElement(Faults \ {"none"})} :
                                   Update(l, "canon", c, "correct", f)
          [] OTHER -> GetSTH(l, "canon", "none")
SimNextF == SimNext \/ Finish
=============================================================================
