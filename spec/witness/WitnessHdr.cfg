\* header cover (thorough): larger trees, states built from up to two accepted STHs, log_id field present or absent,
\* a correct and a wrong proof
CONSTANTS
  Logs = {"L1", "L2"}
  OtherLogs = {"LX"}
  MaxSize = 4
  ForkAt = 2
  Proofs = {"correct", "othersizes", "otherfork", "truncated", "padded", "random", "empty"}
  Aliases = {"bits", "nl", "nopad", "urlsafe", "space"}
  CoverAliases = {"bits"}
  CoverFaultProofs = {"correct"}
  DonorIdfs = {"absent"}
  ForgedIdfs = {"absent"}
  RSALogs = {"L2"}
  HashCodes = {"none", "md5", "sha1", "sha224", "sha256", "sha384", "sha512", "h7", "h8", "hx"}
  SigAlgs = {"anon", "rsa", "dsa", "ecdsa", "s7", "s8", "sx"}
  HdrIdfs = {"absent", "right"}
  HdrLogs = {"L1", "L2"}
  HdrBuildSizes = {1, 3}
  HdrProofs = {"correct", "empty"}
  HdrTofuFull = TRUE
  HistLogs = {"L1"}
  HistProofs = {"correct", "empty"}
  HistFaults = {"commit"}
  HistTs = {1}
  Depth = 3
INIT Init
NEXT HdrNext
VIEW HdrView
INVARIANTS ExportAtDepth OnlySigned ExactHeaderOnly
PROPERTIES OtherHeaderRefused OtherHeaderLikeBadSig NoHashNoSignature
CHECK_DEADLOCK FALSE
