---------------------------- MODULE WitnessTrace ----------------------------
(***************************************************************************)
(* Trace validation for concurrent callers of the real witness.            *)
(*                                                                         *)
(* The harness records, per call, an Invoke event (arguments) and a Return *)
(* event (reply class and which STH the reply carries); events of          *)
(* different goroutines are ordered by the recorder's mutex.  Between its  *)
(* Invoke and its Return a call takes effect atomically (the witness runs  *)
(* its read-check-write inside one SQL transaction on a single database    *)
(* connection): the silent step Lin(c) applies the sequential decision     *)
(* function UpdateResult of Witness.tla.  TLC searches for a placement of  *)
(* the Lin steps that explains every logged reply: a linearizability       *)
(* check.  Several traces are concatenated with Reset events.              *)
(*                                                                         *)
(* Storage faults.  In some traces another database connection takes a     *)
(* lock for a while (SHARED: commits fail; RESERVED: inserts fail;         *)
(* EXCLUSIVE: every statement fails).  The harness logs FaultOn before it  *)
(* tries to take the lock and FaultOff after it has released it, so the    *)
(* real fault window lies inside the logged one: a call linearized inside  *)
(* a logged window may have met the fault or not (both are tried), a call  *)
(* linearized outside has not.  Whichever is chosen, the reply and the     *)
(* effect on `held` are those of UpdateResult / GetSTHReply for that       *)
(* fault: a call that was answered with a cosigned STH has stored it.      *)
(* Requests may spell the log id differently (field sp).                   *)
(*                                                                         *)
(* Replayed signatures.  Callers also offer STHs that carry the signature  *)
(* bytes of a genuine STH some caller has offered before (field `over` of  *)
(* the candidate) over another size / root / timestamp, with a proof that  *)
(* is correct for the forged tree - while other updates, among them the    *)
(* donor's, may still be in flight.  UpdateResult refuses them whatever    *)
(* `offered` holds at the linearization point.                             *)
(*                                                                         *)
(* Signature headers.  Callers also offer members of the header family     *)
(* (fields hdr, form of the candidate): genuine signature bytes under      *)
(* another hash / algorithm byte, garbage bytes, bytes the log's key made  *)
(* over the unhashed content under a hash byte naming no hash.             *)
(***************************************************************************)
EXTENDS Witness, Json, IOUtils, Integers

Trace == ndJsonDeserialize(IOEnv.TRACE_FILE)

Callers == 1..8

VARIABLES l,        \* next line of Trace to consume
          pending,  \* [Callers -> None or the call in flight]
          fwin      \* the logged fault window we are in ("none" outside)

tvars == <<held, cos, offered, hist, last, l, pending, fwin>>

Idle == [k |-> "idle"]

TraceInit == /\ Init
             /\ l = 1
             /\ pending = [c \in Callers |-> Idle]
             /\ fwin = "none"
             /\ TLCSet(1, 1)

Ev(name) == l <= Len(Trace) /\ Trace[l].ev = name

\* JSON objects come back as records; candidates printed by the harness have exactly the spec's fields
OverOf(j) == IF j.k = "sig" THEN [k |-> "sig", fam |-> j.fam, size |-> j.size, ts |-> j.ts, idf |-> j.idf] ELSE None
CandOf(j) == IF j.k = "sth" THEN [k |-> "sth", fam |-> j.fam, size |-> j.size, ts |-> j.ts, signer |-> j.signer, idf |-> j.idf,
                                  over |-> OverOf(j.over), hdr |-> [hash |-> j.hdr.hash, alg |-> j.hdr.alg], form |-> j.form]
             ELSE IF j.k = "garbage" THEN Garbage ELSE None

TraceReset ==
  /\ Ev("Reset")
  /\ \A c \in Callers : pending[c] = Idle
  /\ fwin = "none"
  /\ held' = [x \in Logs |-> None]
  /\ cos' = [x \in Logs |-> None]
  /\ offered' = [x \in Logs |-> {}]
  /\ l' = l + 1
  /\ UNCHANGED <<hist, last, pending, fwin>>

TraceFaultOn ==
  /\ Ev("FaultOn")
  /\ fwin = "none"
  /\ Trace[l].f \in {"commit", "write", "read"}
  /\ fwin' = Trace[l].f
  /\ l' = l + 1
  /\ UNCHANGED <<held, cos, offered, hist, last, pending>>

TraceFaultOff ==
  /\ Ev("FaultOff")
  /\ fwin # "none"
  /\ fwin' = "none"
  /\ l' = l + 1
  /\ UNCHANGED <<held, cos, offered, hist, last, pending>>

TraceInvoke ==
  /\ Ev("Invoke")
  /\ LET e == Trace[l] IN
     /\ pending[e.c] = Idle
     /\ e.sp \in Spellings
     /\ pending' = [pending EXCEPT ![e.c] = [k |-> "call", op |-> e.op, log |-> e.log, sp |-> e.sp, cand |-> CandOf(e.cand),
                                             pf |-> e.pf, lin |-> FALSE, reply |-> NoBody]]
  /\ l' = l + 1
  /\ UNCHANGED <<held, cos, offered, hist, last, fwin>>

\* silent: the call of caller c takes effect, having met fault f
LinF(c, f) ==
  /\ pending[c] # Idle /\ ~pending[c].lin
  /\ LET p == pending[c] IN
     IF p.op = "Update" THEN
        LET r == UpdateResult(p.log, p.sp, p.cand, p.pf, f) IN
        /\ held' = IF r.store THEN [held EXCEPT ![p.log] = p.cand] ELSE held
        /\ cos' = IF r.reply.kind = "cosigned" THEN [cos EXCEPT ![p.log] = r.reply.sth] ELSE cos
        /\ offered' = Offer(p.log, p.cand)
        /\ pending' = [pending EXCEPT ![c].lin = TRUE, ![c].reply = r.reply]
     ELSE \* GetSTH
        LET reply == GetSTHReply(p.log, p.sp, f) IN
        /\ UNCHANGED <<held, offered>>
        /\ cos' = IF reply.kind = "cosigned" THEN [cos EXCEPT ![p.log] = reply.sth] ELSE cos
        /\ pending' = [pending EXCEPT ![c].lin = TRUE, ![c].reply = reply]
  /\ UNCHANGED <<hist, last, l, fwin>>

Lin(c) == LinF(c, "none") \/ (fwin # "none" /\ LinF(c, fwin))

TraceReturn ==
  /\ Ev("Return")
  /\ LET e == Trace[l] IN
     /\ pending[e.c] # Idle /\ pending[e.c].lin
     /\ pending[e.c].reply = Reply(e.code, e.kind, CandOf(e.sth))
     /\ pending' = [pending EXCEPT ![e.c] = Idle]
  /\ l' = l + 1
  /\ UNCHANGED <<held, cos, offered, hist, last, fwin>>

TraceNext == TraceReset \/ TraceInvoke \/ TraceReturn \/ TraceFaultOn \/ TraceFaultOff \/ \E c \in Callers : Lin(c)

TraceSpec == TraceInit /\ [][TraceNext]_tvars

\* hist / last are constant here; they would make every linearization order a distinct state (and so would
\* `offered`, which no decision reads)
TraceView == <<held, cos, l, pending, fwin>>

\* high-water mark of consumed lines (the search takes silent steps, so the diameter is no measure)
HighWater == TLCSet(1, IF TLCGet(1) < l THEN l ELSE TLCGet(1))

TraceAccepted ==
  IF TLCGet(1) = Len(Trace) + 1 THEN TRUE
  ELSE /\ PrintT(<<"STUCK", ToJson([line |-> TLCGet(1), event |-> Trace[TLCGet(1)]])>>)
       /\ FALSE

\* the property on every state the real execution passed through
TraceOnlySigned == OnlySigned
TraceCosignedHeld == CosignedHeld
TraceExactHeader == ExactHeaderOnly
TraceForwardOnly == [][(Ev("Reset") /\ l' = l + 1) \/ (ForwardStep /\ CosignedForwardStep)]_tvars
=============================================================================
