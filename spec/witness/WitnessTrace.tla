---------------------------- MODULE WitnessTrace ----------------------------
(***************************************************************************)
(* Trace validation for concurrent callers of the real witness.            *)
(*                                                                         *)
(* The harness records, per call, an Invoke event (arguments) and a Return *)
(* event (reply class and which STH the reply carries); events of          *)
(* different goroutines are ordered by the recorder's mutex.  Between its  *)
(* Invoke and its Return a call takes effect atomically (the witness runs  *)
(* its read-check-write inside one SQL transaction on a single database    *)
(* connection): the silent step Lin(c) applies the sequential decision     *)
(* function UpdateResult of Witness.tla.  TLC searches for a placement of  *)
(* the Lin steps that explains every logged reply: a linearizability       *)
(* check.  Several traces are concatenated with Reset events.              *)
(***************************************************************************)
EXTENDS Witness, Json, IOUtils, Integers

Trace == ndJsonDeserialize(IOEnv.TRACE_FILE)

Callers == 1..8

VARIABLES l,        \* next line of Trace to consume
          pending   \* [Callers -> None or the call in flight]

tvars == <<held, hist, last, l, pending>>

Idle == [k |-> "idle"]

TraceInit == /\ Init
             /\ l = 1
             /\ pending = [c \in Callers |-> Idle]
             /\ TLCSet(1, 1)

Ev(name) == l <= Len(Trace) /\ Trace[l].ev = name

\* JSON objects come back as records; candidates printed by the harness have exactly the spec's fields
CandOf(j) == IF j.k = "sth" THEN [k |-> "sth", fam |-> j.fam, size |-> j.size, ts |-> j.ts, signer |-> j.signer, idf |-> j.idf]
             ELSE IF j.k = "garbage" THEN Garbage ELSE None

TraceReset ==
  /\ Ev("Reset")
  /\ \A c \in Callers : pending[c] = Idle
  /\ held' = [x \in Logs |-> None]
  /\ l' = l + 1
  /\ UNCHANGED <<hist, last, pending>>

TraceInvoke ==
  /\ Ev("Invoke")
  /\ LET e == Trace[l] IN
     /\ pending[e.c] = Idle
     /\ pending' = [pending EXCEPT ![e.c] = [k |-> "call", op |-> e.op, log |-> e.log, cand |-> CandOf(e.cand),
                                             pf |-> e.pf, lin |-> FALSE, reply |-> NoBody]]
  /\ l' = l + 1
  /\ UNCHANGED <<held, hist, last>>

\* silent: the call of caller c takes effect
Lin(c) ==
  /\ pending[c] # Idle /\ ~pending[c].lin
  /\ LET p == pending[c] IN
     IF p.op = "Update" THEN
        LET r == UpdateResult(p.log, p.cand, p.pf) IN
        /\ held' = IF r.store THEN [held EXCEPT ![p.log] = p.cand] ELSE held
        /\ pending' = [pending EXCEPT ![c].lin = TRUE, ![c].reply = r.reply]
     ELSE \* GetSTH
        /\ UNCHANGED held
        /\ pending' = [pending EXCEPT ![c].lin = TRUE,
                         ![c].reply = IF p.log \in Logs /\ held[p.log] # None
                                      THEN Reply("OK", "cosigned", held[p.log])
                                      ELSE Reply("NotFound", "none", None)]
  /\ UNCHANGED <<hist, last, l>>

TraceReturn ==
  /\ Ev("Return")
  /\ LET e == Trace[l] IN
     /\ pending[e.c] # Idle /\ pending[e.c].lin
     /\ pending[e.c].reply = Reply(e.code, e.kind, CandOf(e.sth))
     /\ pending' = [pending EXCEPT ![e.c] = Idle]
  /\ l' = l + 1
  /\ UNCHANGED <<held, hist, last>>

TraceNext == TraceReset \/ TraceInvoke \/ TraceReturn \/ \E c \in Callers : Lin(c)

TraceSpec == TraceInit /\ [][TraceNext]_tvars

\* hist / last are constant here; they would make every linearization order a distinct state
TraceView == <<held, l, pending>>

\* high-water mark of consumed lines (the search takes silent steps, so the diameter is no measure)
HighWater == TLCSet(1, IF TLCGet(1) < l THEN l ELSE TLCGet(1))

TraceAccepted ==
  IF TLCGet(1) = Len(Trace) + 1 THEN TRUE
  ELSE /\ PrintT(<<"STUCK", ToJson([line |-> TLCGet(1), event |-> Trace[TLCGet(1)]])>>)
       /\ FALSE

\* the property on every state the real execution passed through
TraceOnlySigned == OnlySigned
TraceForwardOnly == [][(Ev("Reset") /\ l' = l + 1) \/ ForwardStep]_tvars
=============================================================================
