\* history cover (quick): two history-building updates of L1, then every probe (see MCWitness.tla, HistNext)
CONSTANTS
  Logs = {"L1", "L2"}
  OtherLogs = {"LX"}
  MaxSize = 3
  ForkAt = 2
  Proofs = {"correct", "othersizes", "truncated", "empty"}
  Aliases = {"bits", "nl", "nopad", "urlsafe", "space"}
  CoverAliases = {"bits"}
  CoverFaultProofs = {"correct"}
  DonorIdfs = {"absent"}
  ForgedIdfs = {"absent"}
  HistLogs = {"L1"}
  HistProofs = {"correct", "empty"}
  HistFaults = {"commit"}
  HistTs = {1}
  Depth = 3
INIT Init
NEXT HistNext
VIEW HistView
INVARIANTS ExportAtDepth HeldWasOffered OnlySigned
PROPERTIES ReplayedSigRefused ReplayedLikeBadSig
CHECK_DEADLOCK FALSE
