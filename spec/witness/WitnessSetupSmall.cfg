\* exhaustive (quick): configurations of up to 3 entries, sizes 1..2
CONSTANTS
  Keys = {"K1", "K2", "K3"}
  Unknown = {"KX"}
  RSAKeys = {"K2"}
  MaxEntries = 3
  MaxSize = 2
  WitKeys = {"p256", "ed25519"}
  SignKinds = {"p256", "p384", "rsa2048"}
  Paths = {"main"}
  Proofs = {"correct", "empty"}
  Depth = 0
  ScriptCfgLen = 0
INIT MCInit
NEXT MCNext
VIEW StateView
INVARIANTS TypeOK OwnKeyOnly CosignedHeld CosigUnderKey
PROPERTIES ForeignRefused OwnAccepted ForwardOnly CosignedForward RefusedNoChange MuteWitnessStoresNothing DroppedLogNotServed SetupKeepsRows
CHECK_DEADLOCK FALSE
