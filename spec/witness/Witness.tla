------------------------------ MODULE Witness ------------------------------
(***************************************************************************)
(* Sequential specification of the CT witness                              *)
(* (internal/witness/cmd/witness/internal/witness/witness.go) and of the   *)
(* HTTP server wrapping it (internal/http/server.go).                      *)
(*                                                                         *)
(* Abstraction.  A Merkle tree is identified by (family, size): family "H" *)
(* is the honest history, family "F" is a fork that shares its first       *)
(* ForkAt leaves with "H".  Root(f, n) is a token; two tree heads have the *)
(* same root iff the tokens are equal (collision resistance is assumed,    *)
(* the harness re-attaches real SHA-256 trees).  A candidate STH is what a *)
(* feeder may send: who signed it, which log_id field it carries, size,    *)
(* timestamp.  A proof is a label; "correct" is the RFC 6962 consistency   *)
(* proof computed from the candidate's own tree between the held size and  *)
(* the candidate's size, every other label is a wrong proof (materialized  *)
(* by the harness from a catalogue: for other sizes, from the other fork,  *)
(* truncated, padded, random).                                             *)
(*                                                                         *)
(* Log identity.  A log IS its 32-byte id (SHA-256 of its key); the        *)
(* property speaks of "the successive STHs it holds for a log", so `held`  *)
(* and `cos` are indexed by that identity, whatever string a request used  *)
(* to spell it.  A request names a log by (log, spelling): "canon" is the  *)
(* base64 string the witness was configured with, every member of Aliases  *)
(* is another string that a lenient reader would take for the same 32      *)
(* bytes (unused trailing bits set, embedded CR/LF, missing padding,       *)
(* URL-safe alphabet, trailing blank).  The property is silent about which *)
(* spellings a witness must understand; the code under test has a definite *)
(* behaviour, stated as the named clause AliasIsUnknown: only the          *)
(* configured spelling names a known log.  What the property does demand   *)
(* is that no spelling opens a second history for the same log             *)
(* (OneHistoryPerLog).                                                     *)
(*                                                                         *)
(* Storage faults.  Every request carries a fault label: what the database *)
(* does to this one request.                                               *)
(*   "commit"  the COMMIT of the transaction fails (sqlite: another        *)
(*             connection holds a SHARED lock on the file -> SQLITE_BUSY); *)
(*             reads and the INSERT succeed                                *)
(*   "write"   the INSERT fails (another connection holds RESERVED)        *)
(*   "read"    every statement fails (another connection holds EXCLUSIVE)  *)
(*   "ctx"     the caller's context is already cancelled: no transaction   *)
(*             can be opened (Update only; reads take no context)          *)
(* The property: whatever the fault, an STH is cosigned only if it is held *)
(* afterwards; an update that cannot be stored is answered with an error,  *)
(* cosigns nothing and leaves the stored STH unchanged                     *)
(* (FaultedStoreRefused).  Named clause StorageErrorIsError for what the   *)
(* property leaves open: a request that hits a failing statement is        *)
(* answered with a plain error (no STH in the reply), also where a         *)
(* fault-free run would have refused it with the held STH.                 *)
(*                                                                         *)
(* History of signatures.  The witness's judgment of an STH may not depend *)
(* on what it was offered or verified before.  `offered[l]` is the history *)
(* of genuine STHs of log l (signature bytes made by l's key over the very *)
(* content they accompany) that were offered to the witness in an update   *)
(* for l, whatever became of them (stored, refused as stale, refused for   *)
(* the proof, lost to a storage fault, refused for the log_id field).  A   *)
(* further kind of mis-signed candidate draws on that history: field       *)
(* `over` names the STH (the DONOR) whose signature bytes the candidate    *)
(* carries while its own size / root / timestamp are different ones: a     *)
(* REPLAYED signature.  `signer` is whose key made the bytes, `over` what  *)
(* they were made over (None: over this candidate's own content).  A       *)
(* replayed signature is a bad signature: ParsesFor is false whether the   *)
(* donor has been offered / verified / stored before ("seen") or not, for  *)
(* the donor's own log or another one (ReplayedSigRefused,                 *)
(* ReplayedLikeBadSig), and a genuine STH is judged by the stored STH      *)
(* alone whatever was refused before (decision functions do not read       *)
(* `offered`).                                                             *)
(*                                                                         *)
(* Header of the signature.  tree_head_signature is a DigitallySigned      *)
(* (RFC 5246 4.7): one byte naming a hash algorithm, one byte naming a     *)
(* signature algorithm, then the signature bytes.  Both bytes come from    *)
(* the feeder.  RFC 6962 2.1.4: a log signs with ECDSA (P-256) or RSA over *)
(* SHA-256, so "a valid signature of the configured log" has the header    *)
(* StdHdr(l) = (sha256, the algorithm of l's key) - field `hdr` of a       *)
(* candidate - over bytes that l's key made over the SHA-256 digest of the *)
(* candidate's content - field `form` = "signed".  Every other candidate   *)
(* of the header family HdrSTHs is a bad signature:                        *)
(*   form "signed"   the log's genuine SHA-256 signature bytes under a     *)
(*                   header naming another hash (none, md5 .. sha512, the  *)
(*                   code points 7, 8 and an unassigned one) and / or      *)
(*                   another signature algorithm (anonymous, rsa, dsa,     *)
(*                   ecdsa, 7, 8, unassigned) than the key's;              *)
(*   form "garbage"  bytes nobody's key made (well-formed for the key type *)
(*                   or not), under every header, the exact one included;  *)
(*   form "rawkey"   bytes the log's own key made over the UNHASHED        *)
(*                   content, under a header whose hash byte names no hash *)
(*                   function (NoHash) - named clause NoHashNoSignature:   *)
(*                   such a header never verifies, whoever made the bytes; *)
(*   form "crafted"  bytes computed from the log's PUBLIC key alone that   *)
(*                   an ECDSA verifier accepts when it takes the leading   *)
(*                   bytes of the unhashed content for the digest          *)
(*                   ((r, s) chosen first, the digest follows from them;   *)
(*                   the content - family "X", a tree nobody has - is      *)
(*                   dictated by that digest), under every header.         *)
(* The law (ExactHeaderOnly, OtherHeaderRefused, OtherHeaderLikeBadSig):   *)
(* only STHs with the exact header StdHdr(l) over form "signed" are ever   *)
(* stored or cosigned for l; every other member of the family is answered  *)
(* like the same content under the signature of a key that is no log's.    *)
(* Left open (not in the family): bytes the log's own key made over        *)
(* another REAL hash (md5 .. sha512) under the header naming that hash.    *)
(***************************************************************************)
EXTENDS Naturals, Sequences, FiniteSets, TLC

CONSTANTS
  Logs,        \* log ids the witness is configured with
  OtherLogs,   \* log ids it does not know
  MaxSize,     \* tree sizes 0..MaxSize
  ForkAt,      \* the fork shares leaves 1..ForkAt with the honest tree
  Proofs,      \* proof labels, "correct" is one of them
  Aliases,     \* spellings of a log id other than the configured one ("canon")
  DonorIdfs,   \* log_id field states of the STHs whose signature bytes are replayed
  ForgedIdfs,  \* log_id field states of the STHs carrying a replayed signature
  RSALogs,     \* the logs (known or not) whose key is an RSA key; every other key is an ECDSA P-256 key
  HashCodes,   \* labels of the hash algorithm byte of a signature header ("sha256" among them)
  SigAlgs,     \* labels of the signature algorithm byte ("ecdsa", "rsa" among them)
  HdrIdfs      \* log_id field states of the candidates of the header family

None == [k |-> "none"]

(* ---------- trees ---------- *)
Fams == {"H", "F"}
\* Root token: the fork's heads up to ForkAt ARE honest heads.
Root(f, n) == IF f = "F" /\ n <= ForkAt THEN <<"H", n>> ELSE <<f, n>>
\* Leaves(f, n): the leaf sequence, for the prefix relation.
Leaf(f, i) == IF f = "F" /\ i > ForkAt THEN <<"f", i>> ELSE <<"h", i>>
Leaves(f, n) == [i \in 1..n |-> Leaf(f, i)]
IsPrefix(s, t) == Len(s) <= Len(t) /\ \A i \in 1..Len(s) : s[i] = t[i]

(* ---------- signature headers ---------- *)
KeyAlg(s) == IF s \in RSALogs THEN "rsa" ELSE "ecdsa"      \* "bad" (a key that is no log's) is an ECDSA key
Headers == [hash : HashCodes, alg : SigAlgs]
\* the one header a valid signature of the log whose key is s's carries (RFC 6962 2.1.4)
StdHdr(s) == [hash |-> "sha256", alg |-> KeyAlg(s)]
\* hash bytes that name no hash function: none(0) of RFC 5246, and code points that RFC 5246 leaves unassigned
\* (7; 8 = "intrinsic" of RFC 8422, the scheme hashes by itself; "hx" = some other unassigned one)
NoHash == {"none", "h7", "h8", "hx"} \cap HashCodes
SigForms == {"signed", "garbage", "rawkey", "crafted"}

(* ---------- candidates ---------- *)
Signers == Logs \cup {"bad"}          \* "bad": signature does not verify under any log key
IdFields == {"absent", "right", "wrong"}
Garbage == [k |-> "garbage"]
\* a fork head at or below the fork point is byte-identical to the honest one: keep one copy
Normal(x) == ~(x.fam = "F" /\ x.size <= ForkAt)
\* what a log signature covers: tree size, root, timestamp
ContentOf(x) == [fam |-> x.fam, size |-> x.size, ts |-> x.ts]
\* plain candidates: the signature bytes were made (by `signer`) over the candidate's own content
\* (header: the exact one for the signer's key; bytes: made by the signer's key over the SHA-256 digest)
Mk(x, s, i, o, h, fo) == [k |-> "sth", fam |-> x.fam, size |-> x.size, ts |-> x.ts, signer |-> s, idf |-> i, over |-> o,
                          hdr |-> h, form |-> fo]
Contents == {x \in [fam : Fams, size : 0..MaxSize, ts : 1..2] : Normal(x)}
PlainSTHs == {Mk(x, s, i, None, StdHdr(s), "signed") : x \in Contents, s \in Signers, i \in IdFields}
\* replayed signatures: the bytes are those of the donor `over`, a genuine STH of log `signer` with another content
Donors == {d \in [k : {"sig"}, fam : Fams, size : 0..MaxSize, ts : 1..2, idf : DonorIdfs] : Normal(d)}
ReplaySTHs == {c \in {Mk(x, s, i, d, StdHdr(s), "signed") : x \in Contents, s \in Logs, i \in ForgedIdfs, d \in Donors} :
                 ContentOf(c) # ContentOf(c.over)}
\* the header family: what log s's key (its private half for "signed" / "rawkey", its public half for "crafted", no
\* key for "garbage") can be made to yield under headers other than the exact one
HdrContents == {x \in Contents : x.ts = 1}
CraftedContent == [fam |-> "X", size |-> MaxSize + 1, ts |-> 1]      \* dictated by the crafted digest: nobody's tree
HdrOf(s) == UNION {
  {Mk(x, s, i, None, h, "signed") : x \in HdrContents, i \in HdrIdfs, h \in Headers \ {StdHdr(s)}},
  {Mk(x, s, i, None, h, "garbage") : x \in HdrContents, i \in HdrIdfs, h \in Headers},
  {Mk(x, s, i, None, h, "rawkey") : x \in HdrContents, i \in HdrIdfs, h \in {g \in Headers : g.hash \in NoHash}},
  IF KeyAlg(s) = "ecdsa" THEN {Mk(CraftedContent, s, i, None, h, "crafted") : i \in HdrIdfs, h \in Headers} ELSE {} }
HdrSTHs == UNION {HdrOf(s) : s \in Logs}
PlainCands == PlainSTHs \cup {Garbage}
Cands == PlainCands \cup ReplaySTHs \cup HdrSTHs
\* a member of the header family: anything but (the exact header of its signer's key over that key's SHA-256 signature)
IsHdr(c) == c \notin {Garbage, None} /\ (c.form # "signed" \/ c.hdr # StdHdr(c.signer))
IsReplay(c) == c \notin {Garbage, None} /\ c.over # None
\* the genuine STH whose signature bytes a replay carries
DonorCand(c) == Mk(c.over, c.signer, c.over.idf, None, StdHdr(c.signer), "signed")
AsDonor(g) == [k |-> "sig", fam |-> g.fam, size |-> g.size, ts |-> g.ts, idf |-> g.idf]
\* content x under the signature bytes of the genuine STH g
Forge(x, g, idf) == Mk(x, g.signer, idf, AsDonor(g), StdHdr(g.signer), "signed")
\* the same content under a signature of a key that is no log's
BadTwin(c) == [c EXCEPT !.signer = "bad", !.over = None, !.hdr = StdHdr("bad"), !.form = "signed"]
\* genuine STHs of log l: the signature verifies under l's key (whatever the log_id field says)
Genuine(l) == {c \in PlainSTHs : c.signer = l}

AllLogs == Logs \cup OtherLogs

(* ---------- spellings of a log id, storage faults ---------- *)
Spellings == {"canon"} \cup Aliases
\* named clause AliasIsUnknown: only the configured string names a known log
Configured(l, sp) == l \in Logs /\ sp = "canon"

Faults == {"none", "commit", "write", "read", "ctx"}
ReadOpFaults == Faults \ {"ctx"}          \* GetSTH / GetLogs take no context
StoreFails(f) == f \in {"commit", "write"}
ReadFails(f) == f = "read"

(* ---------- what verification means ---------- *)
\* a is (the head of) a tree that b's tree extends
Extends(a, b) == IsPrefix(Leaves(a.fam, a.size), Leaves(b.fam, b.size))
\* transparency-dev/merkle VerifyConsistency for size1 < size2.  "correct"
\* is computed from b's tree; it verifies iff b's tree at a.size has a's root.
\* size1 = 0: the only acceptable proof is the empty one, which is what
\* "correct" materializes to.
\* Concurrent callers cannot know the held size when they build a proof, so trace
\* validation uses labels "from<k>": the correct proof from size k of b's tree.
FromLabels == ("from0" :> 0) @@ ("from1" :> 1) @@ ("from2" :> 2) @@ ("from3" :> 3) @@
              ("from4" :> 4) @@ ("from5" :> 5) @@ ("from6" :> 6)
ProofSize(pf, a) == IF pf = "correct" THEN a.size
                    ELSE IF pf \in DOMAIN FromLabels THEN FromLabels[pf] ELSE MaxSize + 1
VerifyCons(a, b, pf) == ProofSize(pf, a) = a.size /\ Root(b.fam, a.size) = Root(a.fam, a.size)

\* parse(): JSON, log_id field, signature
ParsesFor(c, l) == /\ c # Garbage
                   /\ c.idf # "wrong"
                   /\ c.signer = l
                   /\ c.over = None          \* signature bytes made over another content never verify
                   /\ c.form = "signed"      \* ... nor do bytes that l's key did not make over the SHA-256 digest
                   /\ c.hdr = StdHdr(l)      \* ... nor anything under another header than (sha256, the key's algorithm)

(* ---------- state ---------- *)
VARIABLES
  held,   \* [Logs -> Cands \cup {None}] : the row of table sths for each known log
  cos,    \* [Logs -> Cands \cup {None}] : the latest STH the witness has cosigned for each log
  offered,\* [Logs -> SUBSET PlainSTHs] : genuine STHs of the log offered to the witness so far (history variable)
  hist,   \* the behaviour so far (history variable, for replay)
  last    \* the last step (history variable)

vars == <<held, cos, offered, hist, last>>

Reply(code, kind, sth) == [code |-> code, kind |-> kind, sth |-> sth]
NoBody == Reply("x", "none", None)

\* The decision structure of Witness.Update on a database without faults, one disjunct per
\* return statement.
Decide(l, c, pf) ==
  LET p == held[l] IN
    IF p = None THEN [reply |-> Reply("OK", "cosigned", c), store |-> TRUE]        \* TOFU
    ELSE IF c.size < p.size THEN [reply |-> Reply("FailedPrecondition", "raw", p), store |-> FALSE]
    ELSE IF c.size = p.size THEN
           IF Root(c.fam, c.size) # Root(p.fam, p.size)
             THEN [reply |-> Reply("FailedPrecondition", "raw", p), store |-> FALSE]
             ELSE [reply |-> Reply("OK", "raw", p), store |-> FALSE]
    ELSE IF VerifyCons(p, c, pf) THEN [reply |-> Reply("OK", "cosigned", c), store |-> TRUE]
    ELSE [reply |-> Reply("FailedPrecondition", "raw", p), store |-> FALSE]

Failed == [reply |-> Reply("Other", "none", None), store |-> FALSE]

\* ... and under storage fault f, for the log spelled (l, sp)
UpdateResult(l, sp, c, pf, f) ==
  IF ~Configured(l, sp) THEN [reply |-> Reply("NotFound", "none", None), store |-> FALSE]
  ELSE IF ~ParsesFor(c, l) THEN Failed
  ELSE IF f = "ctx" \/ ReadFails(f) THEN Failed            \* no transaction / the SELECT fails
  ELSE LET r == Decide(l, c, pf) IN
       IF r.store /\ StoreFails(f) THEN Failed             \* INSERT or COMMIT fails: nothing stored, nothing cosigned
       ELSE r

\* which history a replayed signature draws on: "seen" - the donor was offered to the witness before (as an STH of
\* the addressed log), "xseen" - it was offered as an STH of another log than the one addressed now, "unseen" /
\* "xunseen" - the witness never met the donor
ReplayClass(l, c) ==
  IF ~IsReplay(c) THEN "none"
  ELSE IF DonorCand(c) \in offered[c.signer]
         THEN (IF c.signer = l THEN "seen" ELSE "xseen")
         ELSE (IF c.signer = l THEN "unseen" ELSE "xunseen")

Step(op, l, sp, c, pf, f, reply) ==
  [op |-> op, log |-> l, sp |-> sp, cand |-> c, pf |-> pf, fault |-> f, replay |-> ReplayClass(l, c),
   reply |-> reply, pre |-> held, post |-> held']

\* the history of genuine signatures the witness has met
IsGenuine(c, l) == c # Garbage /\ c.over = None /\ c.signer = l /\ c.form = "signed" /\ c.hdr = StdHdr(l)
Offer(l, c) == IF l \in Logs /\ IsGenuine(c, l) THEN [offered EXCEPT ![l] = @ \cup {c}] ELSE offered

Update(l, sp, c, pf, f) ==
  LET r == UpdateResult(l, sp, c, pf, f) IN
  /\ held' = IF r.store THEN [held EXCEPT ![l] = c] ELSE held
  /\ cos' = IF r.reply.kind = "cosigned" THEN [cos EXCEPT ![l] = r.reply.sth] ELSE cos
  /\ offered' = Offer(l, c)
  /\ last' = Step("Update", l, sp, c, pf, f, r.reply)
  /\ hist' = Append(hist, last')

GetSTHReply(l, sp, f) ==
  IF ReadFails(f) THEN Reply("Other", "none", None)        \* the SELECT comes first, for every id
  ELSE IF Configured(l, sp) /\ held[l] # None THEN Reply("OK", "cosigned", held[l])
  ELSE Reply("NotFound", "none", None)

GetSTH(l, sp, f) ==
  LET reply == GetSTHReply(l, sp, f) IN
  /\ UNCHANGED <<held, offered>>
  /\ cos' = IF reply.kind = "cosigned" THEN [cos EXCEPT ![l] = reply.sth] ELSE cos
  /\ last' = [Step("GetSTH", l, sp, None, "none", f, reply) EXCEPT !.post = held]
  /\ hist' = Append(hist, last')

GetLogs(f) ==
  /\ UNCHANGED <<held, cos, offered>>
  /\ last' = [op |-> "GetLogs", log |-> "none", sp |-> "canon", cand |-> None, pf |-> "none", fault |-> f,
              replay |-> "none",
              reply |-> IF ReadFails(f)
                        THEN [code |-> "Other", kind |-> "none", sth |-> None, logs |-> {}]
                        ELSE [code |-> "OK", kind |-> "logs", sth |-> None,
                              logs |-> {l \in Logs : held[l] # None}],
              pre |-> held, post |-> held]
  /\ hist' = Append(hist, last')

Init == /\ held = [l \in Logs |-> None]
        /\ cos = [l \in Logs |-> None]
        /\ offered = [l \in Logs |-> {}]
        /\ hist = <<>>
        /\ last = None

NextUpdate == \E l \in AllLogs, sp \in Spellings, c \in PlainCands, pf \in Proofs, f \in Faults : Update(l, sp, c, pf, f)
\* replayed signatures: sent to the log whose signature it is with every proof x every fault under the configured
\* spelling; to every log (the other one, an unknown one) and under every spelling with the correct proof on a healthy
\* database (the signature is judged before the proof and the database are looked at)
NextReplay == \/ \E l \in Logs, pf \in Proofs, f \in Faults : \E c \in {x \in ReplaySTHs : x.signer = l} : Update(l, "canon", c, pf, f)
              \/ \E l \in AllLogs, sp \in Spellings, c \in ReplaySTHs : Update(l, sp, c, "correct", "none")
\* the header family: every member to every log under the configured spelling with the correct proof on a healthy
\* database (the signature is judged before the proof and the database are looked at); the ones over the largest honest
\* tree and the crafted ones whose header has the key's algorithm byte or the sha256 byte (MainHdrs) to every log under
\* every other spelling, and to the log whose key they were made from with every proof x every fault
FullHdrs(l) == {c \in HdrOf(l) : c.fam = "X" \/ (c.fam = "H" /\ c.size = MaxSize)}
MainHdrs(l) == {c \in FullHdrs(l) : c.hdr.alg = KeyAlg(l) \/ c.hdr.hash = "sha256"}
NextHdr == \/ \E l \in AllLogs, c \in HdrSTHs : Update(l, "canon", c, "correct", "none")
           \/ \E l \in AllLogs, sp \in Aliases, s \in Logs : \E c \in MainHdrs(s) : Update(l, sp, c, "correct", "none")
           \/ \E l \in Logs, pf \in Proofs, f \in Faults : \E c \in MainHdrs(l) : Update(l, "canon", c, pf, f)
NextRead == (\E l \in AllLogs, sp \in Spellings, f \in ReadOpFaults : GetSTH(l, sp, f)) \/ \E f \in ReadOpFaults : GetLogs(f)
Next == NextUpdate \/ NextReplay \/ NextHdr \/ NextRead

\* the fault-free, configured-spelling fragment (the whole request space of the first version of this spec)
PlainNext == \/ \E l \in AllLogs, c \in PlainCands, pf \in Proofs : Update(l, "canon", c, pf, "none")
             \/ \E l \in AllLogs : GetSTH(l, "canon", "none")
             \/ GetLogs("none")

Spec == Init /\ [][Next]_vars

(* ---------- the property (C19) ---------- *)
TypeOK == \A l \in Logs : /\ held[l] \in Cands \cup {None} /\ cos[l] \in Cands \cup {None}
                          /\ offered[l] \subseteq Genuine(l)

\* stores (and therefore cosigns) only STHs carrying a valid signature of the configured log
OnlySigned == \A l \in Logs : held[l] # None => ParsesFor(held[l], l)

\* successive held STHs never shrink and each is a genuine extension of the previous one
ForwardStep == \A l \in Logs :
                    (held[l] # None /\ held'[l] # held[l]) =>
                       /\ held'[l] # None
                       /\ held'[l].size >= held[l].size
                       /\ Extends(held[l], held'[l])
                       /\ (held'[l].size = held[l].size =>
                              Root(held'[l].fam, held'[l].size) = Root(held[l].fam, held[l].size))
ForwardOnly == [][ForwardStep]_vars

\* a refused update leaves the stored STH unchanged; stale / inconsistent is answered with the held one
RefusedNoChange == [][(last'.op = "Update" /\ last'.reply.code # "OK") =>
                        /\ held' = held
                        /\ (last'.reply.code = "FailedPrecondition" =>
                               last'.reply.kind = "raw" /\ last'.reply.sth = held[last'.log])]_vars

\* what is cosigned is what is held afterwards
CosignedIsHeld == last # None /\ last.reply.kind = "cosigned" => last.reply.sth = last.post[last.log]

\* ... in state form: whatever has been cosigned for a log is the STH held for it (never something that
\* was not stored, never something older than what is stored)
CosignedHeld == \A l \in Logs : cos[l] # None => cos[l] = held[l]

\* the title of C19: the STHs cosigned for a log, in the order they were cosigned, never shrink and each is
\* a genuine extension of the previous one - per log identity, whatever the spelling, whatever the faults
CosignedForwardStep == \A l \in Logs :
                    (cos[l] # None /\ cos'[l] # cos[l]) =>
                       /\ cos'[l] # None
                       /\ cos'[l].size >= cos[l].size
                       /\ Extends(cos[l], cos'[l])
                       /\ (cos'[l].size = cos[l].size =>
                              Root(cos'[l].fam, cos'[l].size) = Root(cos[l].fam, cos[l].size))
CosignedForward == [][CosignedForwardStep]_vars

\* an update that would have been stored but whose INSERT / COMMIT fails (or that cannot read, or has no
\* transaction): the reply is an error, nothing is cosigned, the stored STH is unchanged
FaultedStoreRefused == [][(last'.op = "Update" /\ last'.fault # "none" /\ Configured(last'.log, last'.sp)
                            /\ ParsesFor(last'.cand, last'.log) /\ Decide(last'.log, last'.cand, last'.pf).store) =>
                              /\ last'.reply.code # "OK"
                              /\ last'.reply.kind # "cosigned"
                              /\ held' = held /\ cos' = cos]_vars

\* named clause StorageErrorIsError: a failing statement is answered with a plain error
StorageErrorIsError == [][(last'.fault \in {"read", "ctx"} /\ last'.op = "Update" /\ Configured(last'.log, last'.sp)) \/
                          (last'.fault = "read" /\ last'.op # "Update")
                             => last'.reply.code = "Other" /\ last'.reply.kind = "none" /\ held' = held]_vars

\* a request that spells a log's id differently never opens a second history for that log: it is not
\* cosigned and stores nothing (with AliasIsUnknown: it is answered NotFound, or Other when the database
\* cannot be read)
OneHistoryPerLog == [][last'.sp # "canon" =>
                          /\ held' = held /\ cos' = cos
                          /\ last'.reply.kind \notin {"cosigned", "raw"}
                          /\ last'.reply.code \in {"NotFound", "Other"}]_vars

(* ---------- history of signatures ---------- *)
\* whatever is held was offered (so the stored STH is always a possible donor: class "seen")
HeldWasOffered == \A l \in Logs : held[l] # None => held[l] \in offered[l]

\* an STH under signature bytes that were made over another content is refused whatever the witness has been
\* offered, has verified or holds: nothing stored, nothing cosigned, and - when the log is addressed by its
\* configured name - the plain error that answers any other bad signature (not the held STH)
ReplayedSigRefused == [][(last'.op = "Update" /\ last'.replay # "none") =>
                            /\ held' = held /\ cos' = cos /\ offered' = offered
                            /\ last'.reply.kind \notin {"cosigned", "raw"}
                            /\ (Configured(last'.log, last'.sp) => last'.reply = Reply("Other", "none", None))]_vars

\* ... exactly like the same content under the signature of a key that is no log's
ReplayedLikeBadSig == [][(last'.op = "Update" /\ last'.replay # "none") =>
                            last'.reply = UpdateResult(last'.log, last'.sp, BadTwin(last'.cand), last'.pf, last'.fault).reply]_vars

(* ---------- header of the signature ---------- *)
\* the law: whatever is stored or cosigned for l carries the exact header (sha256, the algorithm of l's key) over
\* bytes l's key made over the SHA-256 digest of the content
ExactHdr(c, l) == c.hdr = StdHdr(l) /\ c.form = "signed" /\ c.signer = l
ExactHeaderOnly == \A l \in Logs : /\ (held[l] # None => ExactHdr(held[l], l))
                                    /\ (cos[l] # None => ExactHdr(cos[l], l))

\* every member of the header family is refused whatever the witness holds: nothing stored, nothing cosigned, not
\* counted as an STH of the log, and - when the log is addressed by its configured name - the plain error that
\* answers any other bad signature (not the held STH: the signature is judged before the sizes are compared)
OtherHeaderRefused == [][(last'.op = "Update" /\ IsHdr(last'.cand)) =>
                            /\ held' = held /\ cos' = cos /\ offered' = offered
                            /\ last'.reply.kind \notin {"cosigned", "raw"}
                            /\ (Configured(last'.log, last'.sp) => last'.reply = Reply("Other", "none", None))]_vars

\* ... exactly like the same content under the signature of a key that is no log's
OtherHeaderLikeBadSig == [][(last'.op = "Update" /\ IsHdr(last'.cand)) =>
                               last'.reply = UpdateResult(last'.log, last'.sp, BadTwin(last'.cand), last'.pf, last'.fault).reply]_vars

\* named clause NoHashNoSignature: a header whose hash byte names no hash function never verifies - not even over
\* bytes that the log's own key made over the unhashed content
NoHashNoSignature == [][(last'.op = "Update" /\ last'.cand \notin {Garbage, None} /\ last'.cand.hdr.hash \in NoHash) =>
                           /\ held' = held /\ cos' = cos
                           /\ last'.reply.kind \notin {"cosigned", "raw"}]_vars

\* an update of one log never touches another log's row
Isolated == [][\A l \in Logs : (last'.op # "Update" \/ last'.log # l) => held'[l] = held[l]]_vars
=============================================================================
