------------------------------ MODULE Witness ------------------------------
(***************************************************************************)
(* Sequential specification of the CT witness                              *)
(* (internal/witness/cmd/witness/internal/witness/witness.go) and of the   *)
(* HTTP server wrapping it (internal/http/server.go).                      *)
(*                                                                         *)
(* Abstraction.  A Merkle tree is identified by (family, size): family "H" *)
(* is the honest history, family "F" is a fork that shares its first       *)
(* ForkAt leaves with "H".  Root(f, n) is a token; two tree heads have the *)
(* same root iff the tokens are equal (collision resistance is assumed,    *)
(* the harness re-attaches real SHA-256 trees).  A candidate STH is what a *)
(* feeder may send: who signed it, which log_id field it carries, size,    *)
(* timestamp.  A proof is a label; "correct" is the RFC 6962 consistency   *)
(* proof computed from the candidate's own tree between the held size and  *)
(* the candidate's size, every other label is a wrong proof (materialized  *)
(* by the harness from a catalogue: for other sizes, from the other fork,  *)
(* truncated, padded, random).                                             *)
(***************************************************************************)
EXTENDS Naturals, Sequences, FiniteSets, TLC

CONSTANTS
  Logs,        \* log ids the witness is configured with
  OtherLogs,   \* log ids it does not know
  MaxSize,     \* tree sizes 0..MaxSize
  ForkAt,      \* the fork shares leaves 1..ForkAt with the honest tree
  Proofs       \* proof labels, "correct" is one of them

None == [k |-> "none"]

(* ---------- trees ---------- *)
Fams == {"H", "F"}
\* Root token: the fork's heads up to ForkAt ARE honest heads.
Root(f, n) == IF f = "F" /\ n <= ForkAt THEN <<"H", n>> ELSE <<f, n>>
\* Leaves(f, n): the leaf sequence, for the prefix relation.
Leaf(f, i) == IF f = "F" /\ i > ForkAt THEN <<"f", i>> ELSE <<"h", i>>
Leaves(f, n) == [i \in 1..n |-> Leaf(f, i)]
IsPrefix(s, t) == Len(s) <= Len(t) /\ \A i \in 1..Len(s) : s[i] = t[i]

(* ---------- candidates ---------- *)
Signers == Logs \cup {"bad"}          \* "bad": signature does not verify under any log key
IdFields == {"absent", "right", "wrong"}
Garbage == [k |-> "garbage"]
STHs == [k : {"sth"}, fam : Fams, size : 0..MaxSize, ts : 1..2, signer : Signers, idf : IdFields]
\* a fork head at or below the fork point is byte-identical to the honest one: keep one copy
Cands == {c \in STHs : ~(c.fam = "F" /\ c.size <= ForkAt)} \cup {Garbage}

AllLogs == Logs \cup OtherLogs

(* ---------- what verification means ---------- *)
\* a is (the head of) a tree that b's tree extends
Extends(a, b) == IsPrefix(Leaves(a.fam, a.size), Leaves(b.fam, b.size))
\* transparency-dev/merkle VerifyConsistency for size1 < size2.  "correct"
\* is computed from b's tree; it verifies iff b's tree at a.size has a's root.
\* size1 = 0: the only acceptable proof is the empty one, which is what
\* "correct" materializes to.
\* Concurrent callers cannot know the held size when they build a proof, so trace
\* validation uses labels "from<k>": the correct proof from size k of b's tree.
FromLabels == ("from0" :> 0) @@ ("from1" :> 1) @@ ("from2" :> 2) @@ ("from3" :> 3) @@
              ("from4" :> 4) @@ ("from5" :> 5) @@ ("from6" :> 6)
ProofSize(pf, a) == IF pf = "correct" THEN a.size
                    ELSE IF pf \in DOMAIN FromLabels THEN FromLabels[pf] ELSE MaxSize + 1
VerifyCons(a, b, pf) == ProofSize(pf, a) = a.size /\ Root(b.fam, a.size) = Root(a.fam, a.size)

\* parse(): JSON, log_id field, signature
ParsesFor(c, l) == /\ c # Garbage
                   /\ c.idf # "wrong"
                   /\ c.signer = l

(* ---------- state ---------- *)
VARIABLES
  held,   \* [Logs -> Cands \cup {None}] : the row of table sths for each known log
  hist,   \* the behaviour so far (history variable, for replay)
  last    \* the last step (history variable)

vars == <<held, hist, last>>

Reply(code, kind, sth) == [code |-> code, kind |-> kind, sth |-> sth]
NoBody == Reply("x", "none", None)

\* The decision structure of Witness.Update, one disjunct per return statement.
UpdateResult(l, c, pf) ==
  IF l \notin Logs THEN [reply |-> Reply("NotFound", "none", None), store |-> FALSE]
  ELSE IF ~ParsesFor(c, l) THEN [reply |-> Reply("Other", "none", None), store |-> FALSE]
  ELSE LET p == held[l] IN
    IF p = None THEN [reply |-> Reply("OK", "cosigned", c), store |-> TRUE]        \* TOFU
    ELSE IF c.size < p.size THEN [reply |-> Reply("FailedPrecondition", "raw", p), store |-> FALSE]
    ELSE IF c.size = p.size THEN
           IF Root(c.fam, c.size) # Root(p.fam, p.size)
             THEN [reply |-> Reply("FailedPrecondition", "raw", p), store |-> FALSE]
             ELSE [reply |-> Reply("OK", "raw", p), store |-> FALSE]
    ELSE IF VerifyCons(p, c, pf) THEN [reply |-> Reply("OK", "cosigned", c), store |-> TRUE]
    ELSE [reply |-> Reply("FailedPrecondition", "raw", p), store |-> FALSE]

Step(op, l, c, pf, reply) ==
  [op |-> op, log |-> l, cand |-> c, pf |-> pf, reply |-> reply, pre |-> held, post |-> held']

Update(l, c, pf) ==
  LET r == UpdateResult(l, c, pf) IN
  /\ held' = IF r.store THEN [held EXCEPT ![l] = c] ELSE held
  /\ last' = Step("Update", l, c, pf, r.reply)
  /\ hist' = Append(hist, last')

GetSTH(l) ==
  LET reply == IF l \in Logs /\ held[l] # None THEN Reply("OK", "cosigned", held[l])
               ELSE Reply("NotFound", "none", None) IN
  /\ UNCHANGED held
  /\ last' = [Step("GetSTH", l, None, "none", reply) EXCEPT !.post = held]
  /\ hist' = Append(hist, last')

GetLogs ==
  /\ UNCHANGED held
  /\ last' = [op |-> "GetLogs", log |-> "none", cand |-> None, pf |-> "none",
              reply |-> [code |-> "OK", kind |-> "logs", sth |-> None,
                         logs |-> {l \in Logs : held[l] # None}],
              pre |-> held, post |-> held]
  /\ hist' = Append(hist, last')

Init == /\ held = [l \in Logs |-> None]
        /\ hist = <<>>
        /\ last = None

NextUpdate == \E l \in AllLogs, c \in Cands, pf \in Proofs : Update(l, c, pf)
NextRead == (\E l \in AllLogs : GetSTH(l)) \/ GetLogs
Next == NextUpdate \/ NextRead

Spec == Init /\ [][Next]_vars

(* ---------- the property (C19) ---------- *)
TypeOK == \A l \in Logs : held[l] \in Cands \cup {None}

\* stores (and therefore cosigns) only STHs carrying a valid signature of the configured log
OnlySigned == \A l \in Logs : held[l] # None => ParsesFor(held[l], l)

\* successive held STHs never shrink and each is a genuine extension of the previous one
ForwardStep == \A l \in Logs :
                    (held[l] # None /\ held'[l] # held[l]) =>
                       /\ held'[l] # None
                       /\ held'[l].size >= held[l].size
                       /\ Extends(held[l], held'[l])
                       /\ (held'[l].size = held[l].size =>
                              Root(held'[l].fam, held'[l].size) = Root(held[l].fam, held[l].size))
ForwardOnly == [][ForwardStep]_vars

\* a refused update leaves the stored STH unchanged; stale / inconsistent is answered with the held one
RefusedNoChange == [][(last'.op = "Update" /\ last'.reply.code # "OK") =>
                        /\ held' = held
                        /\ (last'.reply.code = "FailedPrecondition" =>
                               last'.reply.kind = "raw" /\ last'.reply.sth = held[last'.log])]_vars

\* what is cosigned is what is held afterwards
CosignedIsHeld == last # None /\ last.reply.kind = "cosigned" => last.reply.sth = last.post[last.log]

\* an update of one log never touches another log's row
Isolated == [][\A l \in Logs : (last'.op # "Update" \/ last'.log # l) => held'[l] = held[l]]_vars
=============================================================================
