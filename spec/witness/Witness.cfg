\* exhaustive: all reachable witness states x all requests
CONSTANTS
  Logs = {"L1", "L2"}
  OtherLogs = {"LX"}
  MaxSize = 4
  ForkAt = 2
  Proofs = {"correct", "othersizes", "otherfork", "truncated", "padded", "random", "empty"}
  Depth = 0
INIT Init
NEXT Next
VIEW StateView
INVARIANTS TypeOK OnlySigned
PROPERTIES ForwardOnly RefusedNoChange Isolated CosignedIsHeldAct
CHECK_DEADLOCK FALSE
