\* exhaustive: all reachable witness states x all requests (every spelling x every fault)
CONSTANTS
  Logs = {"L1", "L2"}
  OtherLogs = {"LX"}
  MaxSize = 4
  ForkAt = 2
  Proofs = {"correct", "othersizes", "otherfork", "truncated", "padded", "random", "empty"}
  Aliases = {"bits", "nl", "nopad", "urlsafe", "space"}
  CoverAliases = {"bits"}
  CoverFaultProofs = {"correct"}
  DonorIdfs = {"absent"}
  ForgedIdfs = {"absent", "right", "wrong"}
  HistLogs = {"L1"}
  HistProofs = {"correct", "empty"}
  HistFaults = {"ctx"}
  HistTs = {1}
  Depth = 0
INIT Init
NEXT Next
VIEW StateView
INVARIANTS TypeOK OnlySigned CosignedHeld HeldWasOffered
PROPERTIES ForwardOnly RefusedNoChange Isolated CosignedIsHeldAct CosignedForward FaultedStoreRefused StorageErrorIsError OneHistoryPerLog ReplayedSigRefused ReplayedLikeBadSig
CHECK_DEADLOCK FALSE
