CONSTANTS
  Logs = {"L1", "L2"}
  OtherLogs = {"LX"}
  MaxSize = 6
  ForkAt = 2
  Proofs = {"correct"}
  Aliases = {"bits", "nl", "nopad", "urlsafe", "space"}
  DonorIdfs = {"absent", "right", "wrong"}
  ForgedIdfs = {"absent", "right", "wrong"}
INIT TraceInit
NEXT TraceNext
VIEW TraceView
CONSTRAINT HighWater
INVARIANTS TraceOnlySigned TraceCosignedHeld
PROPERTIES TraceForwardOnly
POSTCONDITION TraceAccepted
CHECK_DEADLOCK FALSE
