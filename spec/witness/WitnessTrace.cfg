CONSTANTS
  Logs = {"L1", "L2"}
  OtherLogs = {"LX"}
  MaxSize = 6
  ForkAt = 2
  Proofs = {"correct"}
  Aliases = {"bits", "nl", "nopad", "urlsafe", "space"}
  DonorIdfs = {"absent", "right", "wrong"}
  ForgedIdfs = {"absent", "right", "wrong"}
  RSALogs = {"L2"}
  HashCodes = {"none", "md5", "sha1", "sha224", "sha256", "sha384", "sha512", "h7", "h8", "hx"}
  SigAlgs = {"anon", "rsa", "dsa", "ecdsa", "s7", "s8", "sx"}
  HdrIdfs = {"absent"}
INIT TraceInit
NEXT TraceNext
VIEW TraceView
CONSTRAINT HighWater
INVARIANTS TraceOnlySigned TraceCosignedHeld TraceExactHeader
PROPERTIES TraceForwardOnly
POSTCONDITION TraceAccepted
CHECK_DEADLOCK FALSE
