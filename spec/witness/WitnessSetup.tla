--------------------------- MODULE WitnessSetup ---------------------------
(***************************************************************************)
(* The SET-UP of the CT witness: how a witness comes to know its logs and  *)
(* its own key, and what that means for every STH it stores and cosigns    *)
(* afterwards.  Witness.tla takes the set of known logs and the witness    *)
(* key for granted (constants); here they are the result of an action.     *)
(*                                                                         *)
(* Set-up paths (constant Paths).                                          *)
(*   "new"   witness.New(Opts{DB, PrivKey, KnownLogs}) with a map the      *)
(*           caller made (log id -> verifier of that log's key);           *)
(*   "main"  the production path: the witness binary                       *)
(*           (internal/witness/cmd/witness: main -> impl.Main ->           *)
(*           buildLogMap) started on a YAML log configuration, a database  *)
(*           file and the --private_key flag.                              *)
(*                                                                         *)
(* Log configuration.  A configuration is a SEQUENCE of entries, each the  *)
(* public key of a log: any length 0..MaxEntries, any order, the same key  *)
(* any number of times (first / middle / last).  A log IS its key: its id  *)
(* is the SHA-256 of the key.  THE LAW (OwnKeyOnly, ShapeLaw): under every *)
(* shape of the configuration, log id i is bound to ITS OWN key - an STH   *)
(* is stored and cosigned as log i's only if key i made its signature; an  *)
(* STH signed by log a is accepted only as log a's.  What a duplicate      *)
(* entry does to the start of the witness (refuse to start, or skip it) is *)
(* left open: the harness accepts a witness that does not come up.         *)
(*                                                                         *)
(* Witness key (constant WitKeys, kinds of PKCS#8 keys).  A cosignature is *)
(* a DigitallySigned; "verifies under the witness key" means: the          *)
(* signature algorithm it names is the algorithm of the witness key        *)
(* (AlgOf), and the bytes verify under the public half over the STH it     *)
(* accompanies - for the first Update, an extension, GetSTH, and after a   *)
(* restart alike (CosigUnderKey).  Kinds in SignKinds have such an         *)
(* algorithm (ECDSA, RSA).  For the other kinds (Ed25519, X25519: keys     *)
(* that PKCS#8 can carry but DigitallySigned has no algorithm for) the     *)
(* property leaves one thing open - whether the witness comes up at all -  *)
(* and fixes the rest: a witness that cannot cosign stores nothing and     *)
(* cosigns nothing (named clause MuteWitnessStoresNothing: "a refused      *)
(* update leaves the stored STH unchanged" - an update that is answered    *)
(* with an error because no cosignature can be made is a refused one).     *)
(*                                                                         *)
(* Restart.  The witness is stopped and started again on the same database *)
(* with the same key and any configuration (reordered, duplicated, logs    *)
(* added or dropped).  What is stored survives; a log that is no longer    *)
(* configured is neither updated nor cosigned (DroppedLogNotServed), and   *)
(* when it is configured again its history goes on where it was.           *)
(*                                                                         *)
(* Trees: one honest family, sizes 1..MaxSize (forks, proof catalogue,     *)
(* spellings, faults, signature headers are Witness.tla's business); a     *)
(* candidate STH is (signer, size); proofs "correct" / "empty".            *)
(***************************************************************************)
EXTENDS Naturals, Sequences, FiniteSets, TLC

CONSTANTS
  Keys,        \* log keys that may appear in a configuration (a log is its key)
  Unknown,     \* log keys that are never configured (they sign STHs all the same)
  RSAKeys,     \* the log keys that are RSA keys (every other one is ECDSA P-256)
  MaxEntries,  \* longest configuration
  WitKeys,     \* kinds of witness key
  SignKinds,   \* the kinds a DigitallySigned has a signature algorithm for
  Paths,       \* set-up paths
  MaxSize,     \* tree sizes 1..MaxSize
  Proofs       \* "correct", "empty"

None == [k |-> "none"]
AllKeys == Keys \cup Unknown

(* ---------- configurations ---------- *)
Configs == UNION {[1..n -> Keys] : n \in 0..MaxEntries}
Range(s) == {s[i] : i \in DOMAIN s}
\* what a configuration means: the function from log ids to the key STHs of that id are verified under.
\* A log id is the hash of its key: the id of key k is written k.
Bound(c) == [l \in Range(c) |-> l]
\* THE LAW, as a fact about Bound: the shape of a configuration (order, repetitions) means nothing
ShapeLaw == \A c1, c2 \in Configs : Range(c1) = Range(c2) => Bound(c1) = Bound(c2)
ASSUME ShapeLaw
HasDup(c) == \E i, j \in DOMAIN c : i < j /\ c[i] = c[j]

(* ---------- witness keys ---------- *)
AlgOf(wk) == IF wk \in {"p256", "p384"} THEN "ecdsa" ELSE IF wk \in {"rsa2048"} THEN "rsa" ELSE "nosig"
CanSign(wk) == wk \in SignKinds
ASSUME \A wk \in SignKinds : AlgOf(wk) # "nosig"
ASSUME \A wk \in WitKeys \ SignKinds : AlgOf(wk) = "nosig"

(* ---------- candidates ---------- *)
STHs == [k : {"sth"}, signer : AllKeys, size : 1..MaxSize]
Mk(s, n) == [k |-> "sth", signer |-> s, size |-> n]

(* ---------- state ---------- *)
VARIABLES
  up,     \* the witness is running
  cfg,    \* the configuration it was started on
  wk,     \* the kind of its key
  path,   \* how it was set up
  held,   \* [AllKeys -> STHs \cup {None}] : the rows of table sths, by log id (the database outlives the process)
  cos,    \* [AllKeys -> STHs \cup {None}] : the latest STH cosigned for each log id
  hist, last
vars == <<up, cfg, wk, path, held, cos, hist, last>>

Cosig(c) == [by |-> wk, alg |-> AlgOf(wk), over |-> c]
Reply(code, kind, sth) == [code |-> code, kind |-> kind, sth |-> sth,
                           cosig |-> IF kind = "cosigned" THEN Cosig(sth) ELSE None]
Failed == [reply |-> Reply("Other", "none", None), store |-> FALSE]

\* the key STHs for log id l are verified under: l's own, if l is configured
Configured(l) == l \in DOMAIN Bound(cfg)
VerifiesFor(c, l) == Configured(l) /\ c.signer = Bound(cfg)[l]

\* the decision structure of Witness.Update (Witness.tla, Decide) on the one honest family
Decide(l, c, pf) ==
  LET p == held[l] IN
    IF p = None THEN [reply |-> Reply("OK", "cosigned", c), store |-> TRUE]        \* TOFU
    ELSE IF c.size < p.size THEN [reply |-> Reply("FailedPrecondition", "raw", p), store |-> FALSE]
    ELSE IF c.size = p.size THEN [reply |-> Reply("OK", "raw", p), store |-> FALSE]
    ELSE IF pf = "correct" THEN [reply |-> Reply("OK", "cosigned", c), store |-> TRUE]
    ELSE [reply |-> Reply("FailedPrecondition", "raw", p), store |-> FALSE]

UpdateResult(l, c, pf) ==
  IF ~Configured(l) THEN [reply |-> Reply("NotFound", "none", None), store |-> FALSE]
  ELSE IF ~VerifiesFor(c, l) THEN Failed
  ELSE LET r == Decide(l, c, pf) IN
       IF r.store /\ ~CanSign(wk) THEN Failed          \* MuteWitnessStoresNothing
       ELSE r

Step(op, l, c, pf, reply) ==
  [op |-> op, log |-> l, cand |-> c, pf |-> pf, reply |-> reply, cfg |-> cfg', wk |-> wk', path |-> path',
   up |-> up', post |-> held']

Record(s) == /\ last' = s
             /\ hist' = Append(hist, s)

\* the witness comes up on configuration c with a key of kind k
Start(c, k, p) ==
  /\ ~up
  /\ up' = TRUE /\ cfg' = c /\ wk' = k /\ path' = p
  /\ UNCHANGED <<held, cos>>
  /\ Record(Step("Start", "none", None, "none", Reply("OK", "none", None)))

\* ... is stopped, and comes up again on the same database with the same key and configuration c
Restart(c) ==
  /\ up
  /\ cfg' = c
  /\ UNCHANGED <<up, wk, path, held, cos>>
  /\ Record(Step("Restart", "none", None, "none", Reply("OK", "none", None)))

Update(l, c, pf) ==
  LET r == UpdateResult(l, c, pf) IN
  /\ up
  /\ held' = IF r.store THEN [held EXCEPT ![l] = c] ELSE held
  /\ cos' = IF r.reply.kind = "cosigned" THEN [cos EXCEPT ![l] = c] ELSE cos
  /\ UNCHANGED <<up, cfg, wk, path>>
  /\ Record(Step("Update", l, c, pf, r.reply))

\* GetSTH: a configured log with a stored STH is answered with that STH, cosigned - if the witness can cosign.
\* A log that is not configured (never was, or was dropped at a restart while its row stayed) is not served:
\* DroppedLogNotServed leaves the error code open ("Refused": NotFound or Other).
GetSTHReply(l) ==
  IF held[l] = None THEN Reply("NotFound", "none", None)
  ELSE IF ~Configured(l) THEN Reply("Refused", "none", None)
  ELSE IF ~CanSign(wk) THEN Reply("Other", "none", None)
  ELSE Reply("OK", "cosigned", held[l])

GetSTH(l) ==
  LET r == GetSTHReply(l) IN
  /\ up
  /\ cos' = IF r.kind = "cosigned" THEN [cos EXCEPT ![l] = r.sth] ELSE cos
  /\ UNCHANGED <<up, cfg, wk, path, held>>
  /\ Record(Step("GetSTH", l, None, "none", r))

\* GetLogs lists the ids that have a row (configured now or not: it reads the table)
GetLogs ==
  /\ up
  /\ UNCHANGED <<up, cfg, wk, path, held, cos>>
  /\ Record([Step("GetLogs", "none", None, "none", Reply("OK", "logs", None)) EXCEPT
               !.reply = [code |-> "OK", kind |-> "logs", sth |-> None, cosig |-> None,
                          logs |-> {l \in AllKeys : held[l] # None}]])

Init == /\ up = FALSE /\ cfg = <<>> /\ wk = "none" /\ path = "none"
        /\ held = [l \in AllKeys |-> None]
        /\ cos = [l \in AllKeys |-> None]
        /\ hist = <<>> /\ last = None

Next == \/ \E c \in Configs, k \in WitKeys, p \in Paths : Start(c, k, p)
        \/ \E c \in Configs : Restart(c)
        \/ \E l \in AllKeys, c \in STHs, pf \in Proofs : Update(l, c, pf)
        \/ \E l \in AllKeys : GetSTH(l)
        \/ GetLogs

Spec == Init /\ [][Next]_vars

(* ---------- the property (C19), for every set-up ---------- *)
TypeOK == /\ up \in BOOLEAN /\ cfg \in Configs /\ wk \in WitKeys \cup {"none"} /\ path \in Paths \cup {"none"}
          /\ \A l \in AllKeys : held[l] \in STHs \cup {None} /\ cos[l] \in STHs \cup {None}

\* stores and cosigns only STHs that carry a valid signature of the configured log: log id l is bound to its own
\* key, whatever the configuration looked like when the STH came in and whatever it looks like now
OwnKeyOnly == \A l \in AllKeys : /\ (held[l] # None => held[l].signer = l /\ l \in Keys)
                                 /\ (cos[l] # None => cos[l].signer = l /\ l \in Keys)

\* an STH signed by log a is accepted only as log a's - as an action property over every request
ForeignRefused == [][(last'.op = "Update" /\ last'.cand.signer # last'.log) =>
                        /\ held' = held /\ cos' = cos
                        /\ last'.reply.kind \notin {"cosigned", "raw"}
                        /\ last'.reply.code \in {"NotFound", "Other"}]_vars

\* ... and the log's own STH is not refused for its signature: a configured log's first STH is taken (by a witness
\* that can cosign)
OwnAccepted == [][(last'.op = "Update" /\ last'.cand.signer = last'.log /\ last'.log \in Range(cfg)
                     /\ held[last'.log] = None /\ CanSign(wk)) =>
                        /\ last'.reply.code = "OK" /\ last'.reply.kind = "cosigned"
                        /\ held'[last'.log] = last'.cand]_vars

\* successive held STHs never shrink (one family: extension = not smaller), across restarts
ForwardOnly == [][\A l \in AllKeys : held[l] # None => held'[l] # None /\ held'[l].size >= held[l].size]_vars
CosignedForward == [][\A l \in AllKeys : cos[l] # None => cos'[l] # None /\ cos'[l].size >= cos[l].size]_vars

\* a refused update leaves the stored STH unchanged; stale / inconsistent is answered with the held one
RefusedNoChange == [][(last'.op = "Update" /\ last'.reply.code # "OK") =>
                        /\ held' = held
                        /\ (last'.reply.code = "FailedPrecondition" =>
                               last'.reply.kind = "raw" /\ last'.reply.sth = held[last'.log])]_vars

\* whatever has been cosigned for a log is the STH held for it
CosignedHeld == \A l \in AllKeys : cos[l] # None => cos[l] = held[l]

\* every cosignature verifies under the witness key over the STH it accompanies: made by the key the witness was
\* started with, named by that key's algorithm, over the STH of the reply - first Update, extension, GetSTH, after a
\* restart
CosigUnderKey == (last # None /\ last.reply.kind = "cosigned") =>
                     /\ CanSign(wk)
                     /\ last.reply.cosig = [by |-> wk, alg |-> AlgOf(wk), over |-> last.reply.sth]
                     /\ last.reply.sth = held[last.log]

\* named clause MuteWitnessStoresNothing: a witness whose key cannot make a cosignature never changes a row and
\* never cosigns
MuteWitnessStoresNothing == [][(up /\ ~CanSign(wk)) => held' = held /\ cos' = cos]_vars

\* a log that is not configured is neither updated nor cosigned, whatever the table holds for it
DroppedLogNotServed == [][(last'.op \in {"Update", "GetSTH"} /\ last'.log \notin Range(cfg)) =>
                            /\ held' = held /\ cos' = cos
                            /\ last'.reply.kind \notin {"cosigned", "raw"}]_vars

\* set-up steps change no row
SetupKeepsRows == [][last'.op \in {"Start", "Restart"} => held' = held /\ cos' = cos]_vars
=============================================================================
