\* quick exhaustive: one fewer size
CONSTANTS
  Logs = {"L1", "L2"}
  OtherLogs = {"LX"}
  MaxSize = 3
  ForkAt = 1
  Proofs = {"correct", "othersizes", "truncated", "empty"}
  Depth = 0
INIT Init
NEXT Next
VIEW StateView
INVARIANTS TypeOK OnlySigned
PROPERTIES ForwardOnly RefusedNoChange Isolated CosignedIsHeldAct
CHECK_DEADLOCK FALSE
