\* quick exhaustive: one fewer size; spellings and faults not crossed with one another
CONSTANTS
  Logs = {"L1", "L2"}
  OtherLogs = {"LX"}
  MaxSize = 3
  ForkAt = 1
  Proofs = {"correct", "othersizes", "truncated", "empty"}
  Aliases = {"bits", "nl", "nopad", "urlsafe", "space"}
  CoverAliases = {"bits"}
  CoverFaultProofs = {"correct"}
  DonorIdfs = {"absent"}
  ForgedIdfs = {"absent"}
  HistLogs = {"L1"}
  HistProofs = {"correct", "empty"}
  HistFaults = {"ctx"}
  HistTs = {1}
  Depth = 0
INIT Init
NEXT UncrossedNext
VIEW StateView
INVARIANTS TypeOK OnlySigned CosignedHeld HeldWasOffered
PROPERTIES ForwardOnly RefusedNoChange Isolated CosignedIsHeldAct CosignedForward FaultedStoreRefused StorageErrorIsError OneHistoryPerLog ReplayedSigRefused ReplayedLikeBadSig
CHECK_DEADLOCK FALSE
