\* exhaustive (thorough): every configuration of up to 4 entries x every witness key kind x every request in every order, restarts on every configuration
CONSTANTS
  Keys = {"K1", "K2", "K3"}
  Unknown = {"KX"}
  RSAKeys = {"K2"}
  MaxEntries = 4
  MaxSize = 3
  WitKeys = {"p256", "p384", "rsa2048", "ed25519", "x25519"}
  SignKinds = {"p256", "p384", "rsa2048"}
  Paths = {"main"}
  Proofs = {"correct", "empty"}
  Depth = 0
  ScriptCfgLen = 0
INIT MCInit
NEXT MCNext
VIEW StateView
INVARIANTS TypeOK OwnKeyOnly CosignedHeld CosigUnderKey
PROPERTIES ForeignRefused OwnAccepted ForwardOnly CosignedForward RefusedNoChange MuteWitnessStoresNothing DroppedLogNotServed SetupKeepsRows
CHECK_DEADLOCK FALSE
