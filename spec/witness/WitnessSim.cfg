CONSTANTS
  Logs = {"L1", "L2"}
  OtherLogs = {"LX"}
  MaxSize = 4
  ForkAt = 2
  Proofs = {"correct", "othersizes", "otherfork", "truncated", "padded", "random", "empty"}
  Aliases = {"bits", "nl", "nopad", "urlsafe", "space"}
  CoverAliases = {"bits"}
  CoverFaultProofs = {"correct"}
  DonorIdfs = {"absent", "right", "wrong"}
  ForgedIdfs = {"absent", "right", "wrong"}
  HistLogs = {"L1"}
  HistProofs = {"correct", "empty"}
  HistFaults = {"ctx"}
  HistTs = {1}
  Depth = 12
INIT Init
NEXT SimNextF
INVARIANTS ExportFinished
CHECK_DEADLOCK FALSE
