--------------------------- MODULE MCWitnessSetup ---------------------------
(* Model-checking, scripted-cover and simulation instances of WitnessSetup. *)
EXTENDS WitnessSetup, Json

CONSTANTS Depth,          \* length of simulated behaviours
          ScriptCfgLen    \* scripted cover: every configuration up to this length goes through the production path

VARIABLES plan,   \* scripted cover: the requests of this behaviour, fixed by the initial state
          pc      \* ... and how many of them have been issued
mcvars == <<vars, plan, pc>>

(* --- exhaustive: every set-up x every request in every order (history variables out of the view) --- *)
MCInit == Init /\ plan = <<>> /\ pc = 0
MCNext == Next /\ UNCHANGED <<plan, pc>>
StateView == <<up, cfg, wk, path, held, cos>>
\* the exhaustive run does not revisit set-ups that differ in the path only (no decision of the specification reads it)

(* --- scripted cover ---
   One behaviour per set-up (configuration x witness key x path).  After the start the same list of requests is
   issued whatever the configuration: the oracle for each of them is the specification's reply in the state reached.
     1. every log id is offered a first STH signed by every OTHER key            (nothing held: trust on first use)
     2. every log id is offered its own first STH
     3. every log id is offered a larger STH signed by every other key, with the proof correct for the tree
     4. every log id is read; the list of logs is read
     5. RESTART on the reversed configuration (a duplicate that came first now comes last, and so on)
     6. reads; foreign larger STHs again; own larger STH with an empty proof, with the correct proof; own smaller
        STH; reads
     7. RESTART on the configuration without its first entry (a log is dropped unless it is listed again later)
     8. reads; own STH of size 3 (the dropped log: not found)
     9. RESTART on the original configuration; own STH of size 3; foreign STH of size 3; reads *)
LogSeq == <<"K1", "K2", "K3", "KX">>
ASSUME Range(LogSeq) = AllKeys
L == Len(LogSeq)
Req(op, l, c, pf) == [op |-> op, log |-> l, cand |-> c, pf |-> pf, cfg |-> <<>>, wk |-> "none", path |-> "none"]
IsForeign(p) == p[1] # p[2]
PairSeq == SelectSeq([i \in 1..(L * L) |-> <<LogSeq[((i - 1) \div L) + 1], LogSeq[((i - 1) % L) + 1]>>], IsForeign)
Foreign(n, pf) == [i \in 1..Len(PairSeq) |-> Req("Update", PairSeq[i][1], Mk(PairSeq[i][2], n), pf)]
Own(n, pf) == [i \in 1..L |-> Req("Update", LogSeq[i], Mk(LogSeq[i], n), pf)]
Reads == [i \in 1..L |-> Req("GetSTH", LogSeq[i], None, "none")] \o <<Req("GetLogs", "none", None, "none")>>
Reverse(c) == [i \in 1..Len(c) |-> c[Len(c) + 1 - i]]
ButFirst(c) == IF Len(c) = 0 THEN c ELSE SubSeq(c, 2, Len(c))
RestartReq(c) == [Req("Restart", "none", None, "none") EXCEPT !.cfg = c]
StartReq(c, k, p) == [Req("Start", "none", None, "none") EXCEPT !.cfg = c, !.wk = k, !.path = p]
Script(c, k, p) ==
  <<StartReq(c, k, p)>> \o Foreign(1, "correct") \o Own(1, "correct") \o Foreign(2, "correct") \o Reads
  \o <<RestartReq(Reverse(c))>> \o Reads \o Foreign(2, "correct") \o Own(2, "empty") \o Own(2, "correct") \o Own(1, "correct") \o Reads
  \o <<RestartReq(ButFirst(c))>> \o Reads \o Own(3, "correct")
  \o <<RestartReq(c)>> \o Own(3, "correct") \o Foreign(3, "correct") \o Reads

\* the set-ups covered: every configuration through the production path with the usual witness key; every kind of
\* witness key through both paths on a configuration without and one with a duplicate; short configurations through New
KeyCfgs == {<<"K1", "K2">>, <<"K2", "K2", "K1">>}
\* (whatever ScriptCfgLen: three keys with a repeated one in the middle, followed by a key not seen before)
LongCfgs == {<<"K1", "K2", "K2", "K3">>, <<"K3", "K1", "K3", "K2">>} \cap Configs
ScriptRuns == {<<c, "p256", "main">> : c \in {x \in Configs : Len(x) <= ScriptCfgLen} \cup LongCfgs}
                 \cup {<<c, k, p>> : c \in KeyCfgs, k \in WitKeys, p \in Paths}
                 \cup {<<c, "p256", "new">> : c \in {x \in Configs : Len(x) <= 2}}
ScriptInit == /\ Init
              /\ pc = 1
              /\ plan \in {Script(r[1], r[2], r[3]) : r \in {x \in ScriptRuns : x[3] \in Paths /\ x[2] \in WitKeys}}
Do(r) == CASE r.op = "Start" -> Start(r.cfg, r.wk, r.path)
           [] r.op = "Restart" -> Restart(r.cfg)
           [] r.op = "Update" -> Update(r.log, r.cand, r.pf)
           [] r.op = "GetSTH" -> GetSTH(r.log)
           [] OTHER -> GetLogs
ScriptNext == /\ pc <= Len(plan)
              /\ Do(plan[pc])
              /\ pc' = pc + 1
              /\ UNCHANGED plan
ExportScript == (Len(plan) > 0 /\ pc = Len(plan) + 1) => PrintT(<<"BEH", ToJson(hist)>>)

(* --- simulation: random orders, restarts on any configuration --- *)
End == [op |-> "End"]
Finish == Len(hist) = Depth /\ hist' = Append(hist, End) /\ UNCHANGED <<up, cfg, wk, path, held, cos, last, plan, pc>>
ExportFinished == (Len(hist) = Depth + 1) => PrintT(<<"BEH", ToJson(SubSeq(hist, 1, Depth))>>)
NextSize(l) == IF held[l] = None THEN 1 ELSE IF held[l].size < MaxSize THEN held[l].size + 1 ELSE MaxSize
SimNext ==
  /\ Len(hist) < Depth
  /\ UNCHANGED <<plan, pc>>
  /\ IF ~up THEN \E c \in {RandomElement(Configs)}, p \in {RandomElement(Paths)},
                       k \in {RandomElement(IF RandomElement(1..5) = 1 THEN WitKeys ELSE WitKeys \cap SignKinds)} : Start(c, k, p)
     ELSE \E kind \in {RandomElement(1..12)}, s \in {RandomElement(AllKeys)},
             \* three requests in four address a configured log (if there is one)
             l \in {RandomElement(IF Range(cfg) = {} \/ RandomElement(1..4) = 1 THEN AllKeys ELSE Range(cfg))} :
        CASE kind \in 1..4 -> Update(l, Mk(l, NextSize(l)), "correct")                      \* own, moving forward
          [] kind \in 5..6 -> Update(l, Mk(s, NextSize(l)), "correct")                      \* any signer, moving forward
          [] kind = 7 -> \E n \in {RandomElement(1..MaxSize)}, pf \in {RandomElement(Proofs)} : Update(l, Mk(s, n), pf)
          [] kind = 8 -> \E n \in {RandomElement(1..MaxSize)}, pf \in {RandomElement(Proofs)} : Update(l, Mk(l, n), pf)
          [] kind = 9 -> GetSTH(l)
          [] kind = 10 -> GetLogs
          [] OTHER -> \E c \in {RandomElement(Configs)} : Restart(c)
SimNextF == SimNext \/ Finish
=============================================================================
