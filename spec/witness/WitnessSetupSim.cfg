\* random walks
CONSTANTS
  Keys = {"K1", "K2", "K3"}
  Unknown = {"KX"}
  RSAKeys = {"K2"}
  MaxEntries = 4
  MaxSize = 3
  WitKeys = {"p256", "p384", "rsa2048", "ed25519", "x25519"}
  SignKinds = {"p256", "p384", "rsa2048"}
  Paths = {"new", "main"}
  Proofs = {"correct", "empty"}
  Depth = 14
  ScriptCfgLen = 0
INIT MCInit
NEXT SimNextF

INVARIANTS ExportFinished TypeOK OwnKeyOnly CosignedHeld CosigUnderKey

CHECK_DEADLOCK FALSE
