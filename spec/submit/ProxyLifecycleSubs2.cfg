\* two submissions against a swap (no root refreshers)
CONSTANTS
  Versions = {"A", "B"}
  Kind <- SKind2
  Logs <- SLogs
  LogState <- SLogState2
  Window <- SWindow2
  Accepts <- SAccepts
  Certs <- SCerts
  RootOf <- SRootOf
  Subs = {s1, s2}
  MaxEmit = 2
  MaxPublish <- Unbounded
  MaxFaults = 0
  MaxTicks <- Unbounded
  RootEvery = 0
  MayCancel = TRUE
  Resubmit = FALSE
INIT Init
NEXT Next
CONSTRAINT EmitBound
INVARIANTS TypeOK TwoLatest LastJSONIsLatest ActiveValid CaughtUp NoneUntilInit InitImpliesActive UsesActive InitOnce OldRefresherCancelled PairNotStuck
PROPERTIES ActiveMonotone FailedReadKeeps FailedBuildKeeps DeadAfterCancel
SYMMETRY SubsSym
CHECK_DEADLOCK FALSE
