\* as CoreN with an unparsable list U instead of N
CONSTANTS
  Versions = {"A", "B", "U"}
  Kind <- SKindU
  Logs <- SLogs
  LogState <- SLogStateU
  Window <- SWindowU
  Accepts <- SAccepts
  Certs <- SCerts
  RootOf <- SRootOf
  Subs = {}
  MaxEmit = 4
  MaxPublish <- Unbounded
  MaxFaults <- Unbounded
  MaxTicks <- Unbounded
  RootEvery = 0
  MayCancel = TRUE
  Resubmit = FALSE
INIT Init
NEXT Next
CONSTRAINT EmitBound
INVARIANTS TypeOK TwoLatest LastJSONIsLatest ActiveValid CaughtUp NoneUntilInit InitImpliesActive UsesActive InitOnce OldRefresherCancelled PairNotStuck
PROPERTIES ActiveMonotone FailedReadKeeps FailedBuildKeeps DeadAfterCancel
CHECK_DEADLOCK FALSE
