---------------------------- MODULE MCSubmission ----------------------------
EXTENDS Submission

\* Chrome-like policy with N = 2: one Google log, two non-Google logs, and the base group over all of them
ChromeLogs == {"g1", "n1", "n2"}
ChromeGroups == {"google", "nongoogle", "All-logs"}
ChromeMembers == [g \in ChromeGroups |-> CASE g = "google" -> {"g1"} [] g = "nongoogle" -> {"n1", "n2"} [] OTHER -> ChromeLogs]
ChromeMin == [g \in ChromeGroups |-> CASE g = "All-logs" -> 2 [] OTHER -> 1]

\* Chrome-like policy with N = 3 over four logs
Chrome3Logs == {"g1", "g2", "n1", "n2"}
Chrome3Members == [g \in ChromeGroups |-> CASE g = "google" -> {"g1", "g2"} [] g = "nongoogle" -> {"n1", "n2"} [] OTHER -> Chrome3Logs]
Chrome3Min == [g \in ChromeGroups |-> CASE g = "All-logs" -> 3 [] OTHER -> 1]

\* Apple-like policy: only the base group
AppleGroups == {"All-logs"}
AppleMembers == [g \in AppleGroups |-> ChromeLogs]
AppleMin == [g \in AppleGroups |-> 2]

\* two logs, one proper group and the base group over the same logs: the smallest layout in which a log can be outside
\* one group's session and inside another's
DuoLogs == {"n1", "n2"}
DuoGroups == {"nongoogle", "All-logs"}
DuoMembers == [g \in DuoGroups |-> DuoLogs]
DuoMin == [g \in DuoGroups |-> 1]

StateView == <<needs, results, cancels, cancelled, done, pc, collected, gstate, consumed, gcomplete, ret, ctxDone, outcome, sess>>
=============================================================================
