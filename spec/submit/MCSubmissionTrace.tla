------------------------- MODULE MCSubmissionTrace -------------------------
EXTENDS SubmissionTrace
ChromeLogs == {"g1", "n1", "n2"}
ChromeGroups == {"google", "nongoogle", "All-logs"}
ChromeMembers == [g \in ChromeGroups |-> CASE g = "google" -> {"g1"} [] g = "nongoogle" -> {"n1", "n2"} [] OTHER -> ChromeLogs]
ChromeMin == [g \in ChromeGroups |-> CASE g = "All-logs" -> 2 [] OTHER -> 1]
Chrome3Logs == {"g1", "g2", "n1", "n2"}
Chrome3Members == [g \in ChromeGroups |-> CASE g = "google" -> {"g1", "g2"} [] g = "nongoogle" -> {"n1", "n2"} [] OTHER -> Chrome3Logs]
Chrome3Min == [g \in ChromeGroups |-> CASE g = "All-logs" -> 3 [] OTHER -> 1]
AppleGroups == {"All-logs"}
AppleMembers == [g \in AppleGroups |-> ChromeLogs]
AppleMin == [g \in AppleGroups |-> 2]
=============================================================================
