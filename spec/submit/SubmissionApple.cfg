CONSTANTS
  Logs <- ChromeLogs
  Groups <- AppleGroups
  Members <- AppleMembers
  Min <- AppleMin
  Base = "All-logs"
  Outcomes = {"sct", "err", "hang"}
  MayCancel = TRUE
  WaitForInflight = TRUE
  Sessions <- FullSessions
  RecomputeVerdict = FALSE
SPECIFICATION Spec
VIEW StateView
INVARIANTS TypeOK AtMostOncePerLog SuccessSound FailureHonest NeedsAccount CancelSound OnlyAnswersCount OnlySessionLogsContacted
PROPERTIES Terminates
CHECK_DEADLOCK FALSE
