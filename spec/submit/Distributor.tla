----------------------------- MODULE Distributor -----------------------------
(***************************************************************************)
(* Which logs the submission distributor may contact, and how many SCTs    *)
(* the active policy demands (C17, last sentence and the policy tables).   *)
(* A case is a certificate (lifetime as a pair of calendar dates, NotAfter *)
(* tick, root) together with one log (state, temporal interval, accepted   *)
(* roots known or not); written from the property text and the published   *)
(* Chrome / Apple policy tables the code documents.                        *)
(***************************************************************************)
EXTENDS Integers, TLC

None == -1

\* lifetime in whole months, flooring an incomplete month (day-of-month comparison)
LifetimeMonths(sy, sm, sd, ey, em, ed) == (ey - sy) * 12 + (em - sm) - (IF ed < sd THEN 1 ELSE 0)

\* total number of SCTs both policies demand for a lifetime of m months
Total(m) == IF m < 15 THEN 2 ELSE IF m <= 27 THEN 3 ELSE IF m <= 39 THEN 4 ELSE 5

\* start <= t < limit with optional bounds: the same operator as spec/common/Temporal.tla
InWindow(t, start, limit) == (start = None \/ start <= t) /\ (limit = None \/ t < limit)

States == {"usable", "pending", "qualified", "readonly", "retired", "rejected"}

\* a log is contacted only if it is usable, its interval contains NotAfter, and - where its accepted
\* roots are known - they include the chain's root
Eligible(log, cert) ==
  /\ log.state = "usable"
  /\ (log.hasInterval => InWindow(cert.notAfter, log.start, log.limit))
  /\ (log.rootsKnown => cert.root \in log.roots)

VARIABLE c

Dates == {<<2024, 1, 15>>}
Ends == {<<y, m, d>> : y \in 2025..2027, m \in {1, 2, 3, 4, 5, 12}, d \in {14, 15, 16}}
LifetimeCases == {[t |-> "lifetime", s |-> s, e |-> e] : s \in Dates, e \in Ends}

Logs == {[state |-> st, hasInterval |-> hi, start |-> a, limit |-> b, rootsKnown |-> rk, roots |-> rs] :
            st \in States, hi \in BOOLEAN, a \in {2, 4}, b \in {4, 6}, rk \in BOOLEAN, rs \in {{"RA"}, {"RB"}, {"RA", "RB"}}}
Certs == {[notAfter |-> t, root |-> r] : t \in 1..7, r \in {"RA", "RB"}}
EligCases == {[t |-> "eligible", log |-> g, cert |-> x] : g \in {y \in Logs : y.start < y.limit}, x \in Certs}

Init == c \in LifetimeCases \cup EligCases
Next == UNCHANGED c

Expect(x) == IF x.t = "lifetime"
             THEN LET m == LifetimeMonths(x.s[1], x.s[2], x.s[3], x.e[1], x.e[2], x.e[3]) IN [months |-> m, total |-> Total(m)]
             ELSE [eligible |-> Eligible(x.log, x.cert)]

\* model-level sanity: the policy total is monotone in the lifetime and between 2 and 5
TotalSane == c.t = "lifetime" => Expect(c).total \in 2..5
\* a log that is not usable is never eligible; an unbounded log is eligible for every NotAfter
EligibleSane == c.t = "eligible" => (Expect(c).eligible => c.log.state = "usable")
=============================================================================
