----------------------------- MODULE Distributor -----------------------------
(***************************************************************************)
(* Which logs the submission distributor may contact, and how many SCTs    *)
(* the active policy demands (C17, last sentence and the policy tables).   *)
(* A case is a certificate (lifetime as a pair of calendar dates, NotAfter *)
(* tick, root) together with one log (state, temporal interval, accepted   *)
(* roots known or not); written from the property text and the published   *)
(* Chrome / Apple policy tables the code documents.                        *)
(***************************************************************************)
EXTENDS Integers, FiniteSets, TLC

None == -1

\* lifetime in whole months, flooring an incomplete month (day-of-month comparison)
LifetimeMonths(sy, sm, sd, ey, em, ed) == (ey - sy) * 12 + (em - sm) - (IF ed < sd THEN 1 ELSE 0)

\* total number of SCTs both policies demand for a lifetime of m months
Total(m) == IF m < 15 THEN 2 ELSE IF m <= 27 THEN 3 ELSE IF m <= 39 THEN 4 ELSE 5

\* start <= t < limit with optional bounds: the same operator as spec/common/Temporal.tla
InWindow(t, start, limit) == (start = None \/ start <= t) /\ (limit = None \/ t < limit)

States == {"usable", "pending", "qualified", "readonly", "retired", "rejected"}

\* a log is contacted only if it is usable, its interval contains NotAfter, and - where its accepted
\* roots are known - they include the chain's root
Eligible(log, cert) ==
  /\ log.state = "usable"
  /\ (log.hasInterval => InWindow(cert.notAfter, log.start, log.limit))
  /\ (log.rootsKnown => cert.root \in log.roots)

VARIABLE c

Dates == {<<2024, 1, 15>>}
Ends == {<<y, m, d>> : y \in 2025..2027, m \in {1, 2, 3, 4, 5, 12}, d \in {14, 15, 16}}
LifetimeCases == {[t |-> "lifetime", s |-> s, e |-> e] : s \in Dates, e \in Ends}

Logs == {[state |-> st, hasInterval |-> hi, start |-> a, limit |-> b, rootsKnown |-> rk, roots |-> rs] :
            st \in States, hi \in BOOLEAN, a \in {2, 4}, b \in {4, 6}, rk \in BOOLEAN, rs \in {{"RA"}, {"RB"}, {"RA", "RB"}}}
Certs == {[notAfter |-> t, root |-> r] : t \in 1..7, r \in {"RA", "RB"}}
EligCases == {[t |-> "eligible", log |-> g, cert |-> x] : g \in {y \in Logs : y.start < y.limit}, x \in Certs}

(***************************************************************************)
(* What a log says on the wire, and whether that is an SCT.  Behind the    *)
(* distributor stands a log client that holds the key the log list gives   *)
(* for the log (submission.BuildLogClient).  "per-log outcomes (SCT,       *)
(* error, hang)": a reply is an SCT only if it is a well-formed SCT that   *)
(* names the listed key and verifies under it over the entry submitted;    *)
(* every other reply is an error outcome, or - where the client keeps      *)
(* retrying until the caller's context ends - a hang.  A case: policy,     *)
(* method (add-chain / add-pre-chain), lifetime class (2 or 3 SCTs         *)
(* demanded), and the reply class of each of three logs (W1 Google, W2 and *)
(* W3 other operators).                                                    *)
(***************************************************************************)
WireLogs == {"W1", "W2", "W3"}
WireGoogle == {"W1"}
WireClasses == {
  "good",        \* 200, SCT signed with the listed key over the submitted entry
  "otherkey",    \* 200, well-formed SCT carrying the listed key's id, signed with another key
  "otherkeyid",  \* 200, well-formed SCT of another log: that log's id and key
  "badsig",      \* 200, signature bytes damaged
  "othertime",   \* 200, listed key, but the signature covers another timestamp than the one returned
  "othertype",   \* 200, listed key, signed as the other entry type (certificate <-> precertificate)
  "otherentry",  \* 200, listed key, signed over a different certificate
  "trailing",    \* 200, a byte after the DigitallySigned structure
  "badversion",  \* 200, good signature but sct_version 1 in the reply
  "http400", "http403", "http500",   \* refused: the client gives up
  "busy503", "garbage200",           \* the client retries until the caller's context ends: a hang with traffic
  "hang"}        \* never answers
WireSCT(k) == k = "good"
WireHangs(k) == k \in {"busy503", "garbage200", "hang"}
WireCore == {"otherkey", "http400", "busy503"}

WireReplies == {r \in [WireLogs -> WireClasses] :
                  LET bad == {l \in WireLogs : r[l] # "good"} IN
                  \/ Cardinality(bad) <= 1
                  \/ Cardinality(bad) = 2 /\ \A l \in bad : r[l] \in WireCore}
WireCases == {[t |-> "wire", policy |-> p, pre |-> b, total |-> n, reply |-> r] :
                p \in {"chrome", "apple"}, b \in BOOLEAN, n \in {2, 3}, r \in WireReplies}

WireGood(x) == {l \in WireLogs : WireSCT(x.reply[l])}
WireSatisfied(x, S) == /\ Cardinality(S) >= x.total
                       /\ (x.policy = "chrome" => (S \cap WireGoogle # {} /\ S \ WireGoogle # {}))

Init == c \in LifetimeCases \cup EligCases \cup WireCases
Next == UNCHANGED c

Expect(x) == IF x.t = "lifetime"
             THEN LET m == LifetimeMonths(x.s[1], x.s[2], x.s[3], x.e[1], x.e[2], x.e[3]) IN [months |-> m, total |-> Total(m)]
             ELSE IF x.t = "eligible" THEN [eligible |-> Eligible(x.log, x.cert)]
             ELSE [scts |-> WireGood(x),                          \* the only logs whose SCT may be returned
                   success |-> WireSatisfied(x, WireGood(x)),     \* the verdict (sound and complete)
                   waits |-> ~WireSatisfied(x, WireGood(x)) /\ \E l \in WireLogs : WireHangs(x.reply[l])]  \* only the caller's deadline ends it

\* model-level sanity: the policy total is monotone in the lifetime and between 2 and 5
TotalSane == c.t = "lifetime" => Expect(c).total \in 2..5
\* a log that is not usable is never eligible; an unbounded log is eligible for every NotAfter
EligibleSane == c.t = "eligible" => (Expect(c).eligible => c.log.state = "usable")
\* a success needs as many good replies as SCTs demanded; one bad reply among three logs never breaks the Apple policy at total 2
WireSane == c.t = "wire" => /\ (Expect(c).success => Cardinality(Expect(c).scts) >= c.total)
                            /\ ((c.policy = "apple" /\ c.total = 2 /\ Cardinality(WireGood(c)) >= 2) => Expect(c).success)
=============================================================================
