CONSTANTS
  Versions <- BVersions
  Kind <- BKind
  Logs <- BLogs
  LogState <- BLogState
  Window <- BWindow
  Accepts <- BAccepts
  Certs <- BCerts
  RootOf <- BRootOf
  Subs = {"s1", "s2", "s3"}
  MaxEmit = 8
  MaxPublish = 7
  MaxFaults = 2
  MaxTicks <- Unbounded
  RootEvery = 2
  MayCancel = TRUE
  Resubmit = TRUE
  Depth = 26
INIT SimInit
NEXT SimNext
INVARIANTS ExportFinished
CHECK_DEADLOCK FALSE
