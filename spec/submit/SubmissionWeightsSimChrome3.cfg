CONSTANTS
  Logs <- Chrome3Logs
  Groups <- ChromeGroups
  Members <- Chrome3Members
  Min <- Chrome3Min
  Stranger = "zz"
  Values <- WeightValues
  Depth = 8
SPECIFICATION SpecRandom
INVARIANTS TypeOK GroupsStayViable Export
CHECK_DEADLOCK FALSE
