CONSTANTS
  Logs <- ChromeLogs
  Groups <- ChromeGroups
  Members <- ChromeMembers
  Min <- ChromeMin
  Base = "All-logs"
  Outcomes = {"sct"}
  MayCancel = TRUE
  WaitForInflight = TRUE
  Sessions <- FullSessions
  RecomputeVerdict = FALSE
INIT TraceInit
NEXT TraceNext
VIEW TraceView
CONSTRAINT HighWater
INVARIANTS TraceNeedsAccount TraceOnlyAnswers
POSTCONDITION TraceAccepted
CHECK_DEADLOCK FALSE
