CONSTANTS
  Logs <- ChromeLogs
  Groups <- ChromeGroups
  Members <- ChromeMembers
  Min <- ChromeMin
  Base = "All-logs"
  Outcomes = {"sct"}
  MayCancel = TRUE
  WaitForInflight = TRUE
INIT TraceInit
NEXT TraceNext
VIEW TraceView
CONSTRAINT HighWater
INVARIANTS TraceNeedsAccount
POSTCONDITION TraceAccepted
CHECK_DEADLOCK FALSE
