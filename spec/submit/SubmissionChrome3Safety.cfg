CONSTANTS
  Logs <- Chrome3Logs
  Groups <- ChromeGroups
  Members <- Chrome3Members
  Min <- Chrome3Min
  Base = "All-logs"
  Outcomes = {"sct", "err"}
  MayCancel = FALSE
  WaitForInflight = TRUE
  Sessions <- FullSessions
  RecomputeVerdict = FALSE
SPECIFICATION Spec
VIEW StateView
INVARIANTS TypeOK AtMostOncePerLog SuccessSound FailureHonest NeedsAccount CancelSound OnlyAnswersCount OnlySessionLogsContacted

CHECK_DEADLOCK FALSE
