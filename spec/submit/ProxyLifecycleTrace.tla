------------------------ MODULE ProxyLifecycleTrace ------------------------
(***************************************************************************)
(* Trace validation for the proxy life-cycle.  The harness                  *)
(* (harness/vt/c17/proxy_test.go) drives the REAL submission.NewProxy +     *)
(* NewLogListManager + NewCustomLogListRefresher under virtual time and     *)
(* records, in the order in which they happen:                              *)
(*   what it does itself   Reset, Publish, FailNext, Advance, Cancel,       *)
(*                         Submit;                                          *)
(*   what the code does at the four places where it leaves the process      *)
(*                         ReadStart / Read   (the http.RoundTripper),      *)
(*                         BuildStart / BuildEnd (the DistributorBuilder),  *)
(*                         RootsStart / RootsEnd (get-roots of the fake     *)
(*                         log clients of one distributor generation),      *)
(*                         Contact (add-chain / add-pre-chain of a fake log *)
(*                         client, tagged with generation and submission),  *)
(*                         SubmitDone (what Proxy.AddChain returned);       *)
(*   what can be seen from outside once every goroutine is blocked          *)
(*                         Obs (GetTwoLatestLogLists, LastJSON, the Init    *)
(*                         channel, the occupancy of LLUpdates and Errors). *)
(* Every event must be the corresponding action of ProxyLifecycle.tla; the  *)
(* critical sections that cannot be seen from outside (manager update,      *)
(* channel operations, swap, Init, the RLock read of p.dist, ...) are       *)
(* silent steps that TLC places wherever they explain the events.  At an    *)
(* Obs the specification must be quiescent too: nothing the code does on    *)
(* its own may be outstanding (this is what catches a stuck goroutine).     *)
(***************************************************************************)
EXTENDS MCProxyLifecycle, IOUtils

Trace == ndJsonDeserialize(IOEnv.TRACE_FILE)

VARIABLE i
tvars == <<vars, i>>

Ev(name) == i <= Len(Trace) /\ Trace[i].ev = name
Step == i' = i + 1
Silent == UNCHANGED i

TraceInit == Init /\ i = 1 /\ TLCSet(1, 1)

\* a new run of the proxy: everything starts afresh with the given initial content
TraceReset ==
  /\ Ev("Reset")
  /\ source' = Trace[i].src /\ failNext' = FALSE /\ budget' = MaxPublish /\ faults' = MaxFaults /\ ticks' = MaxTicks /\ ctxDone' = FALSE
  /\ lastJSON' = None
  /\ emitted' = <<>> /\ latest' = 0 /\ previous' = 0 /\ updCh' = <<>> /\ errCh' = 0
  /\ tpc' = "start" /\ tTick' = FALSE /\ tloc' = None /\ tsend' = 0
  /\ lpc' = "select" /\ lcur' = 0 /\ linit' = FALSE /\ active' = 0 /\ initSent' = 0 /\ initClosed' = FALSE /\ panicked' = FALSE
  /\ rpc' = [g \in Gens |-> "none"] /\ rTick' = [g \in Gens |-> FALSE] /\ rCount' = [g \in Gens |-> RootEvery]
  /\ rcancel' = [g \in Gens |-> FALSE] /\ rdead' = [g \in Gens |-> FALSE] /\ rknown' = [g \in Gens |-> FALSE]
  /\ spc' = [s \in Subs |-> "idle"] /\ scert' = [s \in Subs |-> CHOOSE c \in Certs : TRUE] /\ sgen' = [s \in Subs |-> 0]
  /\ sknown' = [s \in Subs |-> FALSE] /\ scont' = [s \in Subs |-> {}] /\ sfloor' = [s \in Subs |-> 0]
  /\ Step

(* ------------------------- what the harness does ------------------------- *)
TracePublish  == Ev("Publish") /\ Trace[i].v \in Versions /\ Publish(Trace[i].v) /\ Step
\* the harness's FailNext sets a flag ("the next read fails"); setting it while it is still set (no read has consumed it,
\* e.g. because the ticker stopped after a cancel) is idempotent, so the event is then a stuttering step of the specification
TraceFailNext == Ev("FailNext") /\ Step /\ (IF failNext THEN UNCHANGED vars ELSE FailNext)
TraceAdvance  == Ev("Advance") /\ Advance /\ Step
TraceCancel   == Ev("Cancel") /\ Cancel /\ Step
TraceSubmit   == Ev("Submit") /\ Trace[i].s \in Subs /\ Trace[i].c \in Certs /\ SCall(Trace[i].s, Trace[i].c) /\ Step

(* ---------------------- where the code leaves the process ---------------------- *)
\* the refresher asks for the list: the first refresh of schedule.Every, or a tick
TraceReadStart == Ev("ReadStart") /\ ((~ctxDone /\ TStart) \/ TWakeTick) /\ Step
\* ... and is answered: with an error exactly when a fault was armed, else with the content published at that moment
TraceRead ==
  /\ Ev("Read")
  /\ Trace[i].res = (IF failNext THEN "err" ELSE source)
  /\ TRead /\ Step
\* the builder is called for emission n, which is version v ...
TraceBuildStart ==
  /\ Ev("BuildStart")
  /\ LBuildStart
  /\ lcur = Trace[i].n /\ VersionOf(lcur) = Trace[i].v
  /\ Step
\* ... and fails exactly when the specification says that version cannot be built
TraceBuildEnd ==
  /\ Ev("BuildEnd")
  /\ lpc = "building" /\ lcur = Trace[i].n /\ Trace[i].ok = (Kind[VersionOf(lcur)] = "good")
  /\ LBuildEnd /\ Step
\* the clients of generation g are asked for their roots, with a dead context exactly if the generation's context had
\* ended by then
TraceRootsStart ==
  /\ Ev("RootsStart") /\ Trace[i].g \in Gens
  /\ Trace[i].dead = Cancelled(Trace[i].g)
  /\ RCall(Trace[i].g)
  /\ Step
TraceRootsEnd == Ev("RootsEnd") /\ Trace[i].g \in Gens /\ RFinish(Trace[i].g, Trace[i].ok) /\ Step
\* a log is sent the chain on behalf of submission s by a client of generation g
TraceContact ==
  /\ Ev("Contact") /\ Trace[i].s \in Subs /\ Trace[i].log \in Logs
  /\ sgen[Trace[i].s] = Trace[i].g
  /\ SContact(Trace[i].s, Trace[i].log) /\ Step
\* Proxy.AddChain returned: "notinit" exactly when p.dist was nil
TraceSubmitDone ==
  /\ Ev("SubmitDone") /\ Trace[i].s \in Subs
  /\ (Trace[i].res = "notinit") = (spc[Trace[i].s] = "failing")
  /\ SDone(Trace[i].s) /\ Step

(* ------------------------- what is seen from outside ------------------------- *)
NameOf(e) == IF e = 0 THEN None ELSE VersionOf(e)
TraceObs ==
  /\ Ev("Obs")
  /\ Quiescent
  /\ Trace[i].latest = NameOf(latest) /\ Trace[i].previous = NameOf(previous)
  /\ Trace[i].initTrue = initSent /\ Trace[i].initClosed = initClosed
  /\ Trace[i].upd = Len(updCh) /\ Trace[i].err = errCh
  /\ Trace[i].last \in {"?", lastJSON}             \* LastJSON(), when no read holds the refresher's mutex
  /\ UNCHANGED vars /\ Step

(* ------------------------------ silent steps ------------------------------ *)
TraceSilent ==
  /\ i <= Len(Trace)
  /\ \/ (ctxDone /\ TStart) \/ TManager \/ TProduce \/ TSendUpd \/ TSendErr \/ TWakeDone
     \/ LRecvUpd \/ LRecvErr \/ LCtxDone \/ LSwap \/ LInitSend \/ LInitClose
     \/ \E g \in Gens : RStart(g) \/ RWakeTick(g) \/ RWakeDone(g)
     \/ \E s \in Subs : SRead(s) \/ SCompat(s)
  /\ Silent

TraceNext ==
  \/ TraceReset \/ TracePublish \/ TraceFailNext \/ TraceAdvance \/ TraceCancel \/ TraceSubmit
  \/ TraceReadStart \/ TraceRead \/ TraceBuildStart \/ TraceBuildEnd \/ TraceRootsStart \/ TraceRootsEnd
  \/ TraceContact \/ TraceSubmitDone \/ TraceObs
  \/ TraceSilent

TraceView == tvars
HighWater == TLCSet(1, IF TLCGet(1) < i THEN i ELSE TLCGet(1))
TraceAccepted ==
  IF TLCGet(1) = Len(Trace) + 1 THEN TRUE
  ELSE /\ PrintT(<<"STUCK", ToJson([line |-> TLCGet(1), event |-> Trace[TLCGet(1)]])>>)
       /\ FALSE
=============================================================================
