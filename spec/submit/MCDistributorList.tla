-------------------------- MODULE MCDistributorList --------------------------
EXTENDS DistributorList, Json
Export == IsCase => PrintT(<<"LCASE", ToJson([c |-> c, expect |-> Expect(c)])>>)
=============================================================================
