\* thorough: root refreshers, unbounded ticks and faults
CONSTANTS
  Versions = {"A", "B", "N"}
  Kind <- SKindN
  Logs <- SLogs
  LogState <- SLogStateN
  Window <- SWindowN
  Accepts <- SAccepts
  Certs <- SCerts
  RootOf <- SRootOf
  Subs = {}
  MaxEmit = 2
  MaxPublish <- Unbounded
  MaxFaults <- Unbounded
  MaxTicks <- Unbounded
  RootEvery = 2
  MayCancel = TRUE
  Resubmit = FALSE
INIT Init
NEXT Next
CONSTRAINT EmitBound
INVARIANTS TypeOK TwoLatest LastJSONIsLatest ActiveValid CaughtUp NoneUntilInit InitImpliesActive UsesActive InitOnce OldRefresherCancelled PairNotStuck
PROPERTIES ActiveMonotone FailedReadKeeps FailedBuildKeeps DeadAfterCancel
CHECK_DEADLOCK FALSE
