------------------------ MODULE MCProxyLifecycleSim ------------------------
(* Simulation instance of ProxyLifecycle: random behaviours in "run to quiescence" style (the steps the code takes on    *)
(* its own are taken before the environment acts again - this is what a harness sees that waits until every goroutine   *)
(* is blocked), exported as the sequence of environment and gate-release steps.  `gates` says which of the four calls   *)
(* that leave the process (list read, builder, get-roots, add-chain) are held until the schedule releases them; the     *)
(* others return at once.  Go's random select is TLC's random choice among the enabled automatic steps.                 *)
EXTENDS MCProxyLifecycle

CONSTANT Depth         \* number of exported steps per behaviour

VARIABLES hist, gates,
          ripe,   \* submissions whose logs answer (the add-chain gate is open or was released)
          aged    \* ... and for which time has passed since: GetSCTs returns one stagger interval (1 s) after the answers
svars == <<vars, hist, gates, ripe, aged>>

AllGates == {"read", "build", "roots", "log"}
Lbl(op, v, s, c, g) == [op |-> op, v |-> v, s |-> s, c |-> c, g |-> g]
End == Lbl("End", "", "", "", 0)

SimInit == Init /\ gates \in SUBSET AllGates /\ hist = <<Lbl("Init", source, "", "", 0)>> /\ ripe = {} /\ aged = {}

RootsOutcome(g) == ~Cancelled(g) /\ ~rdead[g]

AutoStep ==
  \/ /\ \/ TStart \/ TManager \/ TProduce \/ TSendUpd \/ TSendErr \/ TWakeTick \/ TWakeDone
        \/ LRecvUpd \/ LRecvErr \/ LCtxDone \/ LBuildStart \/ LSwap \/ LInitSend \/ LInitClose
        \/ \E g \in Gens : RStart(g) \/ RCall(g) \/ RWakeTick(g) \/ RWakeDone(g)
        \/ \E s \in Subs : SRead(s) \/ SCompat(s) \/ (spc[s] = "failing" /\ SDone(s))
        \/ ("read" \notin gates /\ TRead)
        \/ ("build" \notin gates /\ LBuildEnd)
        \/ ("roots" \notin gates /\ \E g \in Gens : RFinish(g, RootsOutcome(g)))
     /\ UNCHANGED <<ripe, aged>>
  \/ \E s \in aged : spc[s] = "running" /\ SDone(s) /\ aged' = aged \ {s} /\ ripe' = ripe \ {s}

AutoEnabled ==
  \/ ~Quiescent
  \/ ("read" \notin gates /\ tpc = "reading")
  \/ ("build" \notin gates /\ lpc = "building")
  \/ ("roots" \notin gates /\ \E g \in Gens : rpc[g] = "refreshing")
  \/ \E s \in aged : spc[s] = "running"

\* weighted candidates of the environment / the schedule
W(l, w) == {<<l, k>> : k \in 1..w}
FreeSubs == {s \in Subs : spc[s] \in {"idle", "done"}}
Bag ==
  UNION {
    UNION {W(Lbl("Publish", v, "", "", 0), 1) : v \in (IF budget # 0 THEN Versions \ {source} ELSE {})},
    IF faults # 0 /\ ~failNext THEN W(Lbl("FailNext", "", "", "", 0), 1) ELSE {},
    W(Lbl("Advance", "", "", "", 0), 8),
    IF MayCancel /\ ~ctxDone /\ Len(hist) > Depth \div 2 THEN W(Lbl("Cancel", "", "", "", 0), 1) ELSE {},
    IF tpc = "reading" THEN W(Lbl("RelRead", "", "", "", 0), 16) ELSE {},
    IF lpc = "building" THEN W(Lbl("RelBuild", "", "", "", 0), 10) ELSE {},
    UNION {IF rpc[g] = "refreshing" THEN W(Lbl("RelRoots", "", "", "", g), 6) ELSE {} : g \in Gens},
    IF FreeSubs = {} THEN {} ELSE LET s == CHOOSE x \in FreeSubs : TRUE IN UNION {W(Lbl("Submit", "", s, c, 0), 2) : c \in Certs},
    UNION {IF spc[s] = "running" /\ s \notin ripe THEN W(Lbl("RelLog", "", s, "", 0), 5) ELSE {} : s \in Subs}
  }

Do(a) ==
  CASE a.op = "Publish"  -> Publish(a.v) /\ UNCHANGED <<ripe, aged>>
    [] a.op = "FailNext" -> FailNext /\ UNCHANGED <<ripe, aged>>
    [] a.op = "Advance"  -> Advance /\ aged' = {s \in ripe : spc[s] = "running"} /\ UNCHANGED ripe
    [] a.op = "Cancel"   -> Cancel /\ UNCHANGED <<ripe, aged>>
    [] a.op = "RelRead"  -> TRead /\ UNCHANGED <<ripe, aged>>
    [] a.op = "RelBuild" -> LBuildEnd /\ UNCHANGED <<ripe, aged>>
    [] a.op = "RelRoots" -> RFinish(a.g, RootsOutcome(a.g)) /\ UNCHANGED <<ripe, aged>>
    [] a.op = "Submit"   -> SCall(a.s, a.c) /\ ripe' = (IF "log" \in gates THEN ripe \ {a.s} ELSE ripe \cup {a.s}) /\ aged' = aged \ {a.s}
    [] a.op = "RelLog"   -> ripe' = ripe \cup {a.s} /\ UNCHANGED <<vars, aged>>

SimNext ==
  IF AutoEnabled THEN AutoStep /\ UNCHANGED <<hist, gates>>
  ELSE IF Len(hist) <= Depth
       THEN \E x \in {RandomElement(Bag)} : Do(x[1]) /\ hist' = Append(hist, x[1]) /\ UNCHANGED gates
       ELSE Len(hist) = Depth + 1 /\ hist' = Append(hist, End) /\ UNCHANGED <<vars, gates, ripe, aged>>

ExportFinished == (Len(hist) = Depth + 2) => PrintT(<<"BEH", ToJson([gates |-> gates, steps |-> SubSeq(hist, 1, Depth + 1)])>>)

ASSUME PrintT(<<"CAT", ToJson(Catalogue)>>)
=============================================================================
