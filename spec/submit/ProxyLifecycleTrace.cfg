CONSTANTS
  Versions <- BVersions
  Kind <- BKind
  Logs <- BLogs
  LogState <- BLogState
  Window <- BWindow
  Accepts <- BAccepts
  Certs <- BCerts
  RootOf <- BRootOf
  Subs = {"s1", "s2", "s3"}
  MaxEmit = 12
  MaxPublish <- Unbounded
  MaxFaults <- Unbounded
  MaxTicks <- Unbounded
  RootEvery = 2
  MayCancel = TRUE
  Resubmit = TRUE
INIT TraceInit
NEXT TraceNext
VIEW TraceView
CONSTRAINT HighWater
INVARIANTS TwoLatest LastJSONIsLatest ActiveValid CaughtUp NoneUntilInit InitImpliesActive UsesActive InitOnce OldRefresherCancelled PairNotStuck
POSTCONDITION TraceAccepted
CHECK_DEADLOCK FALSE
