INIT Init
NEXT Next
INVARIANTS TotalSane EligibleSane WireSane
CHECK_DEADLOCK FALSE
