INIT Init
NEXT Next
INVARIANTS TotalSane EligibleSane
CHECK_DEADLOCK FALSE
