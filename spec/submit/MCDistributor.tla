---------------------------- MODULE MCDistributor ----------------------------
EXTENDS Distributor, Json
Export == PrintT(<<"CASE", ToJson([c |-> c, expect |-> Expect(c)])>>)
=============================================================================
