\* thorough: two submissions, three emissions incl. a refused list
CONSTANTS
  Versions = {"A", "B", "N"}
  Kind <- SKindN
  Logs <- SLogs
  LogState <- SLogStateN
  Window <- SWindowN
  Accepts <- SAccepts
  Certs <- SCerts
  RootOf <- SRootOf
  Subs = {s1, s2}
  MaxEmit = 3
  MaxPublish = 2
  MaxFaults = 0
  MaxTicks = 3
  RootEvery = 0
  MayCancel = TRUE
  Resubmit = FALSE
INIT Init
NEXT Next
CONSTRAINT EmitBound
INVARIANTS TypeOK TwoLatest LastJSONIsLatest ActiveValid CaughtUp NoneUntilInit InitImpliesActive UsesActive InitOnce OldRefresherCancelled PairNotStuck
PROPERTIES ActiveMonotone FailedReadKeeps FailedBuildKeeps DeadAfterCancel
SYMMETRY SubsSym
CHECK_DEADLOCK FALSE
