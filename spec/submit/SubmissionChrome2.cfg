CONSTANTS
  Logs <- ChromeLogs
  Groups <- ChromeGroups
  Members <- ChromeMembers
  Min <- ChromeMin
  Base = "All-logs"
  Outcomes = {"sct", "err"}
  MayCancel = FALSE
  WaitForInflight = TRUE
SPECIFICATION Spec
VIEW StateView
INVARIANTS TypeOK AtMostOncePerLog SuccessSound FailureHonest NeedsAccount CancelSound
PROPERTIES Terminates SuccessComplete
CHECK_DEADLOCK FALSE
