----------------------------- MODULE Submission -----------------------------
(***************************************************************************)
(* submission.GetSCTs (submission/races.go): one race per policy group,    *)
(* one goroutine per (group, log), a shared state machine                  *)
(* (safeSubmissionState) guarded by one mutex.                             *)
(*                                                                         *)
(* Every block of code executed under the mutex is one action (Request,    *)
(* SetResult, the completeness checks); timers, submissions and the        *)
(* channel receives of the per-group and top-level collectors are          *)
(* separate steps, so TLC explores every interleaving.  Latencies are      *)
(* nondeterministic: a submission may return at any time after it was      *)
(* started; a "hang" log returns only when its request is cancelled.       *)
(*                                                                         *)
(* WaitForInflight = TRUE models the code as repaired (a goroutine that    *)
(* finds its log already requested by another group waits for that         *)
(* request to finish); FALSE is the code before the repair of finding F7,  *)
(* kept so that TLC shows the counterexample (SubmissionOld.cfg).          *)
(*                                                                         *)
(* OUTCOMES.  What Submitter.SubmitToLog hands back is a pair (sct, err).  *)
(* The property speaks of three outcomes of a log - SCT, error, hang; the  *)
(* pair has four shapes, and a real log client produces all of them        *)
(* ("both" = a parsed SCT together with the error that says why it must    *)
(* not be used, e.g. its signature does not verify under the listed key).  *)
(*   "sct"     (sct, nil)   the only shape that is an SCT                  *)
(*   "err"     (nil, err)                                                  *)
(*   "both"    (sct, err)   ErrorWins: an outcome that carries an error is *)
(*                          an error outcome whatever else it carries      *)
(*   "neither" (nil, nil)   NothingIsNoSCT: no SCT was obtained            *)
(*   "hang"    returns only once its request is cancelled                  *)
(*                                                                         *)
(* SESSIONS.  A group race does not run over the members of the group but  *)
(* over the group's submission session: the members whose weight is        *)
(* positive (ctpolicy.GetSubmissionSession; weights are changed by         *)
(* SetLogWeight / SetLogWeights, see SubmissionWeights.tla, which keeps    *)
(* >= Min[g] members of every group in its session).  sess is chosen in    *)
(* the initial state from Sessions; a goroutine exists for (g, l) only if  *)
(* l \in sess[g].  An SCT of a log still counts for every group the log is *)
(* a member of, whoever asked for it.                                      *)
(*                                                                         *)
(* RecomputeVerdict = FALSE is GetSCTs as written: the verdict is the      *)
(* conjunction of what the group races returned.  With full sessions that  *)
(* is the same as judging the shared state when GetSCTs returns; with      *)
(* sessions smaller than the groups it is not - a race whose own logs have *)
(* all failed returns false, and an SCT that another group later obtains   *)
(* from a member outside the race's session completes the group after its  *)
(* verdict (TLC: FailureHonest and SuccessComplete fail,                   *)
(* SubmissionDuoSessionsOld.cfg).  TRUE judges every group by the shared   *)
(* state once all races are over, which is what the property demands.      *)
(***************************************************************************)
EXTENDS Integers, Sequences, FiniteSets, TLC

CONSTANTS
  Logs,             \* log URLs
  Groups,           \* group names
  Members,          \* [Groups -> SUBSET Logs]
  Min,              \* [Groups -> Nat]   MinInclusions
  Base,             \* name of the base group ("All-logs") or "none"
  Outcomes,         \* the outcomes a log may have: subset of {"sct", "err", "both", "neither", "hang"}
  Sessions,         \* the session assignments explored: subset of [Groups -> SUBSET Logs], sess[g] \subseteq Members[g]
  MayCancel,        \* BOOLEAN: the caller's context may end
  WaitForInflight,  \* BOOLEAN: see above
  RecomputeVerdict  \* BOOLEAN: see above

NoRet == [k |-> "none"]
GroupsOf(l) == {g \in Groups : l \in Members[g]}
Pairs == {<<g, l>> : g \in Groups, l \in Logs} \cap {p \in Groups \X Logs : p[2] \in Members[p[1]]}

VARIABLES
  needs,      \* [Groups -> Int]            groupNeeds
  results,    \* [Logs -> {"none", "pending", "sct", "err", "dropped"}]
              \*   pending: requested, no result yet; dropped: an SCT arrived that no group needed
  cancels,    \* [Logs -> BOOLEAN]          a cancel function is registered for the in-flight request
  cancelled,  \* [Logs -> BOOLEAN]          that function has been called
  done,       \* [Logs -> BOOLEAN]          the request to the log has finished (or was never needed)
  pc,         \* [Pairs -> state of the goroutine]
  collected,  \* [Groups -> Nat]            counter events consumed by the group's collector
  gstate,     \* [Groups -> {"running", "true", "false"}]   what the group race returned
  consumed,   \* SUBSET Groups              group events consumed by GetSCTs
  gcomplete,  \* [Groups -> BOOLEAN]        GetSCTs' groupComplete map
  ret,        \* NoRet or [k |-> "ret", err |-> BOOLEAN, scts |-> SUBSET Logs, cancelled |-> BOOLEAN]
  ctxDone,    \* the caller's context has ended
  submits,    \* [Logs -> Nat]              how many times SubmitToLog was called for the log (history)
  outcome,    \* [Logs -> Outcomes]         what each log answers (chosen in the initial state, never changes)
  sess        \* [Groups -> SUBSET Logs]    the submission session of each group (chosen in the initial state)

vars == <<needs, results, cancels, cancelled, done, pc, collected, gstate, consumed, gcomplete, ret, ctxDone, submits, outcome, sess>>

\* the classification of outcomes (clauses ErrorWins, NothingIsNoSCT above)
IsSCT(o) == o = "sct"
IsHang(o) == o = "hang"
IsError(o) == o \in {"err", "both", "neither"}
Answering == {l \in Logs : IsSCT(outcome[l])}

\* every session assignment that leaves each group able to reach its minimum (what SubmissionWeights.tla maintains)
FullSessions == {[g \in Groups |-> Members[g]]}
ViableSessions == {s \in [Groups -> SUBSET Logs] : \A g \in Groups : s[g] \subseteq Members[g] /\ Cardinality(s[g]) >= Min[g]}

Complete(g) == needs[g] <= 0
Awaited(l) == \E g \in GroupsOf(l) : needs[g] > 0

(* ------------- effects of the critical sections, shared with the trace specification ------------- *)

\* request(): first request of a log that some group still needs registers the cancel function
RequestKind(l) == IF results[l] # "none" THEN "dup"
                  ELSE IF ~Awaited(l) THEN "unneeded" ELSE "first"

\* setResult() with an SCT: bookkeeping of the groups
NonBase(l) == GroupsOf(l) \ {Base}
StoredByNonBase(l) == \E g \in NonBase(l) : needs[g] > 0
NeedsAfterNonBase(l) == [g \in Groups |-> IF g \in NonBase(l) THEN needs[g] - 1 ELSE needs[g]]
OtherNeed(n) == LET pos == {g \in Groups \ {Base} : n[g] > 0}
                    F[S \in SUBSET pos] == IF S = {} THEN 0 ELSE LET x == CHOOSE y \in S : TRUE IN n[x] + F[S \ {x}]
                IN F[pos]
SetResultSCT(l) ==
  LET n1 == NeedsAfterNonBase(l)
      inBase == Base \in GroupsOf(l)
      storedNB == StoredByNonBase(l)
      baseStores == inBase /\ ~storedNB /\ n1[Base] > 0 /\ n1[Base] > OtherNeed(n1)
      n2 == IF inBase /\ (storedNB \/ baseStores) THEN [n1 EXCEPT ![Base] = n1[Base] - 1] ELSE n1
  IN [needs |-> n2, stored |-> storedNB \/ baseStores]

\* the cancellation sweep at the end of setResult(): in-flight requests no group waits for any more
Sweep(n, c) == [l \in Logs |-> c[l] /\ \E g \in GroupsOf(l) : n[g] > 0]

(* ------------- initial state ------------- *)
Init ==
  /\ needs = [g \in Groups |-> Min[g]]
  /\ results = [l \in Logs |-> "none"]
  /\ cancels = [l \in Logs |-> FALSE]
  /\ cancelled = [l \in Logs |-> FALSE]
  /\ done = [l \in Logs |-> FALSE]
  /\ sess \in Sessions
  /\ pc = [p \in Pairs |-> IF p[2] \in sess[p[1]] THEN "timer" ELSE "absent"]
  /\ collected = [g \in Groups |-> 0]
  /\ gstate = [g \in Groups |-> "running"]
  /\ consumed = {}
  /\ gcomplete = [g \in Groups |-> FALSE]
  /\ ret = NoRet
  /\ ctxDone = FALSE
  /\ submits = [l \in Logs |-> 0]
  /\ outcome \in [Logs -> Outcomes]

(* ------------- one goroutine per (group, log) ------------- *)
\* the stagger timer fires, or the sub-context is already done
TimerFires(p) ==
  /\ pc[p] = "timer"
  /\ pc' = [pc EXCEPT ![p] = IF ctxDone THEN "counted" ELSE "check"]
  /\ UNCHANGED <<needs, results, cancels, cancelled, done, collected, gstate, consumed, gcomplete, ret, ctxDone, submits, outcome, sess>>

\* if state.groupComplete(group.Name) { cancel(); return }
CheckComplete(p) ==
  /\ pc[p] = "check"
  /\ pc' = [pc EXCEPT ![p] = IF Complete(p[1]) THEN "counted" ELSE "request"]
  /\ UNCHANGED <<needs, results, cancels, cancelled, done, collected, gstate, consumed, gcomplete, ret, ctxDone, submits, outcome, sess>>

Request(p) ==
  LET l == p[2] k == RequestKind(l) IN
  /\ pc[p] = "request"
  /\ CASE k = "dup" -> /\ pc' = [pc EXCEPT ![p] = IF WaitForInflight THEN "waiting" ELSE "counted"]
                       /\ UNCHANGED <<results, cancels, done>>
       [] k = "unneeded" -> /\ results' = [results EXCEPT ![l] = "pending"]
                            /\ done' = [done EXCEPT ![l] = TRUE]
                            /\ pc' = [pc EXCEPT ![p] = "counted"]
                            /\ UNCHANGED cancels
       [] OTHER -> /\ results' = [results EXCEPT ![l] = "pending"]
                   /\ cancels' = [cancels EXCEPT ![l] = TRUE]
                   /\ pc' = [pc EXCEPT ![p] = "submitting"]
                   /\ UNCHANGED done
  /\ submits' = IF k = "first" THEN [submits EXCEPT ![l] = submits[l] + 1] ELSE submits
  /\ UNCHANGED <<needs, cancelled, collected, gstate, consumed, gcomplete, ret, ctxDone, outcome, sess>>

\* the submitter returns: with the log's outcome, or with an error once the request is cancelled
SubmitReturns(p, withSCT) ==
  LET l == p[2] IN
  /\ pc[p] = "submitting"
  /\ IF withSCT THEN IsSCT(outcome[l]) /\ ~cancelled[l] /\ ~ctxDone
     ELSE IsError(outcome[l]) \/ cancelled[l] \/ ctxDone
  /\ pc' = [pc EXCEPT ![p] = IF withSCT THEN "setsct" ELSE "seterr"]
  /\ UNCHANGED <<needs, results, cancels, cancelled, done, collected, gstate, consumed, gcomplete, ret, ctxDone, submits, outcome, sess>>

SetResult(p) ==
  LET l == p[2] IN
  /\ pc[p] \in {"setsct", "seterr"}
  /\ IF pc[p] = "seterr"
     THEN /\ results' = [results EXCEPT ![l] = "err"]
          /\ UNCHANGED <<needs, cancels, cancelled>>
     ELSE LET r == SetResultSCT(l)
              keep == Sweep(r.needs, cancels)
          IN /\ needs' = r.needs
             /\ results' = [results EXCEPT ![l] = IF r.stored THEN "sct" ELSE "dropped"]
             /\ cancelled' = [x \in Logs |-> cancelled[x] \/ (cancels[x] /\ ~keep[x])]
             /\ cancels' = keep
  /\ done' = [done EXCEPT ![l] = TRUE]
  /\ pc' = [pc EXCEPT ![p] = "counted"]
  /\ UNCHANGED <<collected, gstate, consumed, gcomplete, ret, ctxDone, submits, outcome, sess>>

\* (repaired code) a de-duplicated goroutine waits until the request made for another group has finished
WaitEnds(p) ==
  /\ pc[p] = "waiting"
  /\ done[p[2]] \/ ctxDone
  /\ pc' = [pc EXCEPT ![p] = "counted"]
  /\ UNCHANGED <<needs, results, cancels, cancelled, done, collected, gstate, consumed, gcomplete, ret, ctxDone, submits, outcome, sess>>

(* ------------- the collector of a group race ------------- *)
NCounted(g) == Cardinality({p \in Pairs : p[1] = g /\ pc[p] = "counted"})
Session(g) == Cardinality(sess[g])

\* case <-counter: if complete return true; after the last one: return complete
GroupCollect(g) ==
  /\ gstate[g] = "running"
  /\ collected[g] < NCounted(g)
  /\ collected' = [collected EXCEPT ![g] = collected[g] + 1]
  /\ gstate' = [gstate EXCEPT ![g] = IF Complete(g) THEN "true"
                                     ELSE IF collected[g] + 1 = Session(g) THEN "false" ELSE "running"]
  /\ UNCHANGED <<needs, results, cancels, cancelled, done, pc, consumed, gcomplete, ret, ctxDone, submits, outcome, sess>>

\* case <-ctx.Done(): return complete
GroupCtxDone(g) ==
  /\ gstate[g] = "running" /\ ctxDone
  /\ gstate' = [gstate EXCEPT ![g] = IF Complete(g) THEN "true" ELSE "false"]
  /\ UNCHANGED <<needs, results, cancels, cancelled, done, pc, collected, consumed, gcomplete, ret, ctxDone, submits, outcome, sess>>

\* a group with no logs at all returns at once
GroupEmpty(g) ==
  /\ gstate[g] = "running" /\ Session(g) = 0
  /\ gstate' = [gstate EXCEPT ![g] = IF Complete(g) THEN "true" ELSE "false"]
  /\ UNCHANGED <<needs, results, cancels, cancelled, done, pc, collected, consumed, gcomplete, ret, ctxDone, submits, outcome, sess>>

(* ------------- GetSCTs ------------- *)
SCTs == {l \in Logs : results[l] = "sct"}

TopCollect(g) ==
  /\ ret = NoRet /\ g \notin consumed /\ gstate[g] # "running"
  /\ consumed' = consumed \cup {g}
  /\ gcomplete' = [gcomplete EXCEPT ![g] = gstate[g] = "true"]
  /\ UNCHANGED <<needs, results, cancels, cancelled, done, pc, collected, gstate, ret, ctxDone, submits, outcome, sess>>

Return ==
  /\ ret = NoRet
  /\ consumed = Groups \/ ctxDone
  /\ ret' = [k |-> "ret",
              err |-> IF RecomputeVerdict THEN \E g \in Groups : ~Complete(g) ELSE \E g \in Groups : ~gcomplete[g],
              scts |-> SCTs, cancelled |-> ctxDone]
  /\ UNCHANGED <<needs, results, cancels, cancelled, done, pc, collected, gstate, consumed, gcomplete, ctxDone, submits, outcome, sess>>

Cancel ==
  /\ MayCancel /\ ~ctxDone /\ ret = NoRet
  /\ ctxDone' = TRUE
  /\ UNCHANGED <<needs, results, cancels, cancelled, done, pc, collected, gstate, consumed, gcomplete, ret, submits, outcome, sess>>

Next ==
  \/ \E p \in Pairs : TimerFires(p) \/ CheckComplete(p) \/ Request(p) \/ SetResult(p) \/ WaitEnds(p)
  \/ \E p \in Pairs, b \in BOOLEAN : SubmitReturns(p, b)
  \/ \E g \in Groups : GroupCollect(g) \/ GroupCtxDone(g) \/ GroupEmpty(g) \/ TopCollect(g)
  \/ Return
  \/ Cancel

Fairness ==
  /\ \A p \in Pairs : WF_vars(TimerFires(p)) /\ WF_vars(CheckComplete(p)) /\ WF_vars(Request(p))
                      /\ WF_vars(SetResult(p)) /\ WF_vars(WaitEnds(p))
                      /\ WF_vars(SubmitReturns(p, TRUE)) /\ WF_vars(SubmitReturns(p, FALSE))
  /\ \A g \in Groups : WF_vars(GroupCollect(g)) /\ WF_vars(GroupCtxDone(g)) /\ WF_vars(GroupEmpty(g)) /\ WF_vars(TopCollect(g))
  /\ WF_vars(Return)
  \* a hanging log never answers: the caller's context is what ends the wait
  /\ (MayCancel => WF_vars(Cancel))

Spec == Init /\ [][Next]_vars /\ Fairness

(* ------------- the property (C17) ------------- *)
Satisfies(S) == \A g \in Groups : Cardinality(S \cap Members[g]) >= Min[g]

TypeOK == /\ \A l \in Logs : results[l] \in {"none", "pending", "sct", "err", "dropped"}
          /\ \A g \in Groups : gstate[g] \in {"running", "true", "false"}

\* no log is sent the chain more than once
AtMostOncePerLog == \A l \in Logs : submits[l] <= 1

\* a reported success carries a policy-satisfying set of SCTs (from distinct logs: SCTs is a set of logs)
SuccessSound == (ret # NoRet /\ ~ret.err) => Satisfies(ret.scts)

\* "or says it did not": a failure is only reported when the returned set really falls short
\* (unless the caller cancelled)
FailureHonest == (ret # NoRet /\ ret.err /\ ~ret.cancelled) => ~Satisfies(ret.scts)

\* bookkeeping: a group's need is its minimum less the SCT-bearing answers of its members processed so far
NeedsAccount == \A g \in Groups \ {Base} :
                   needs[g] = Min[g] - Cardinality({l \in Members[g] : results[l] \in {"sct", "dropped"}})

\* only an outcome without error is an SCT: what is kept, counted or returned comes from logs that answered with one
OnlyAnswersCount == /\ \A l \in Logs : results[l] \in {"sct", "dropped"} => IsSCT(outcome[l])
                    /\ (ret # NoRet => ret.scts \subseteq Answering)

\* a log is only sent the chain on behalf of a group that has it in its session
OnlySessionLogsContacted == \A l \in Logs : submits[l] > 0 => \E g \in Groups : l \in sess[g]

\* only requests that were started are ever cancelled
CancelSound == \A l \in Logs : cancelled[l] => results[l] # "none"

\* it always terminates
Terminates == <>(ret # NoRet)

\* when enough logs answer successfully and the caller does not cancel, success is reported.  "Enough" is judged per
\* group over the logs the group itself asks, i.e. its session: which members outside its session another group happens
\* to ask depends on the (random) order of that group's session.  With full sessions this is Satisfies(Answering).
\* (For the logs that did answer, FailureHonest is the same clause as a safety property: if the SCTs obtained satisfy
\* every group, success is reported.)
EnoughAnswer == \A g \in Groups : Cardinality(Answering \cap sess[g]) >= Min[g]
SuccessComplete == (EnoughAnswer /\ ~MayCancel) => <>(ret # NoRet /\ ~ret.err)
=============================================================================
