--------------------------- MODULE ProxyLifecycle ---------------------------
(***************************************************************************)
(* The log-list / distributor life-cycle of the submission proxy (C17:     *)
(* WHICH log list a submission runs against).                              *)
(*                                                                         *)
(*   submission/loglist_refresher.go  logListRefresherImpl.Refresh         *)
(*   submission/loglist_manager.go    LogListManager (ticker goroutine)    *)
(*   submission/proxy.go              Proxy.Run loop, restartDistributor,  *)
(*                                    AddChain / AddPreChain               *)
(*   schedule/schedule.go             Every (ticker + ctx.Done select)     *)
(*                                                                         *)
(* Goroutines: the log-list ticker (T..), the proxy loop (L..), one root   *)
(* refresher per distributor generation (R..), submissions (S..), and the  *)
(* environment (the published content, transient read faults, the passing  *)
(* of time, cancellation of the proxy's context).  One action per critical *)
(* section or blocking point:                                              *)
(*   TRead      Refresh() under updateMu: read, compare with lastJSON, parse*)
(*   TManager   RefreshLogList under llm.mu: previous := latest; latest := *)
(*   TProduce   ProduceClientLogList under llm.mu                          *)
(*   TSendUpd / TSendErr   the capacity-1 channels (the sender may block)  *)
(*   LRecv..    the select of the loop (any ready case may be chosen)      *)
(*   LBuildStart / LBuildEnd   the DistributorBuilder (may fail)           *)
(*   LSwap      under distMu: cancel the old refresher, p.dist := d        *)
(*   LInitSend / LInitClose    the Init channel                            *)
(*   SRead      Proxy.distributor() under distMu.RLock                     *)
(*   SCompat    Distributor.addSomeChain under d.mu.RLock (eligible logs)  *)
(*   RStart / RWakeTick / RWakeDone   schedule.Every of a root refresher   *)
(*   RCall      RefreshRoots sends get-roots (the context may be dead)     *)
(*   RFinish    Distributor.RefreshRoots: the update under d.mu            *)
(* Time is counted in log-list refresh intervals: Advance lets one interval*)
(* pass; every root refresher ticks every RootEvery intervals after it was *)
(* started.  A Go ticker buffers one tick and drops the others.            *)
(*                                                                         *)
(* An emission is a successful Refresh with changed content; emissions are *)
(* numbered 1, 2, ... and emitted[e] is the version of emission e.  A      *)
(* distributor generation is identified by the emission it was built from. *)
(***************************************************************************)
EXTENDS Integers, Sequences, FiniteSets, TLC

CONSTANTS
  Versions,     \* the contents that may be published at the log-list URL
  Kind,         \* [Versions -> {"good", "unparsable", "nobuild"}]   nobuild: parses, but the DistributorBuilder fails
  Logs,         \* log URLs
  LogState,     \* [Versions -> [Logs -> {"usable", "pending", "retired", "absent"}]]
  Window,       \* [Versions -> [Logs -> SUBSET Certs]]  certificates whose NotAfter lies in the log's temporal interval
  Accepts,      \* [Logs -> SUBSET Roots]  what the log answers to get-roots
  Certs,        \* certificates that are submitted
  RootOf,       \* [Certs -> Roots]
  Subs,         \* submission identities
  MaxEmit,      \* bound on the number of emissions (generations); a run must not publish more than this many
                \* contents that parse (MaxPublish + 1 <= MaxEmit, or the state constraint EmitBound)
  MaxPublish,   \* budget of publications; -1 = unbounded
  MaxFaults,    \* budget of transient read faults; -1 = unbounded
  MaxTicks,     \* budget of Advance steps; -1 = unbounded
  RootEvery,    \* root refresh interval in log-list refresh intervals; 0 = the root refreshers are left out of the model
  MayCancel,    \* BOOLEAN: the proxy's context may end
  Resubmit      \* BOOLEAN: a finished submission identity may be used again

None == "none"
Gens == 1..MaxEmit

VARIABLES
  \* environment
  source,      \* the content currently served
  failNext,    \* the next read fails (transient)
  budget, faults, ticks,
  ctxDone,     \* the context given to Proxy.Run has ended
  \* logListRefresherImpl
  lastJSON,    \* None or the version last parsed successfully
  \* LogListManager
  emitted,     \* sequence of versions: emitted[e] = content of emission e (history of RefreshLogList updates)
  latest, previous,   \* emission numbers, 0 = nil
  updCh,       \* LLUpdates: sequence of emission numbers, capacity 1
  errCh,       \* Errors: number of buffered errors, capacity 1
  \* the ticker goroutine  schedule.Every(ctx, llRefresh, refreshLogListAndNotify)
  tpc,         \* "start", "reading", "manager", "produce", "sendUpd", "sendErr", "idle", "stopped"
  tTick,       \* a tick is buffered in the ticker's channel
  tloc,        \* the version Refresh returned
  tsend,       \* the emission ProduceClientLogList returned
  \* the proxy loop
  lpc,         \* "select", "build", "building", "swap", "initsend", "initclose", "exited"
  lcur,        \* emission being processed
  linit,       \* the local variable init
  active,      \* p.dist: 0 = nil, else the emission the active distributor was built from
  initSent,    \* number of values sent on Init
  initClosed,
  panicked,    \* a send on / close of a closed channel happened
  \* root refreshers, one per generation
  rpc,         \* [Gens -> "none", "start", "calling", "refreshing", "idle", "stopped"]
  rTick,       \* [Gens -> BOOLEAN] buffered tick
  rCount,      \* [Gens -> 1..RootEvery] Advance steps until the next tick
  rcancel,     \* [Gens -> BOOLEAN] distCancel of this generation was called
  rdead,       \* [Gens -> BOOLEAN] the refresh in flight sent its get-roots requests with a context that had ended
  rknown,      \* [Gens -> BOOLEAN] the distributor of this generation knows the accepted roots of its logs
  \* submissions
  spc,         \* [Subs -> "idle", "called", "read", "running", "failing", "done"]
  scert,       \* [Subs -> Certs]
  sgen,        \* [Subs -> 0 or generation read from p.dist]
  sknown,      \* [Subs -> BOOLEAN] roots known when the compatible logs were computed
  scont,       \* [Subs -> SUBSET Logs] logs contacted
  sfloor       \* [Subs -> generation that was active when the call was made] (history, for UsesActive)

envVars  == <<source, failNext, budget, faults, ticks, ctxDone>>
mgrVars  == <<lastJSON, emitted, latest, previous, updCh, errCh>>
tickVars == <<tpc, tTick, tloc, tsend>>
loopVars == <<lpc, lcur, linit, active, initSent, initClosed, panicked>>
rootVars == <<rpc, rTick, rCount, rcancel, rdead, rknown>>
subVars  == <<spc, scert, sgen, sknown, scont, sfloor>>
vars == <<envVars, mgrVars, tickVars, loopVars, rootVars, subVars>>

VersionOf(e) == emitted[e]
Cancelled(g) == rcancel[g] \/ ctxDone
Live(g) == rpc[g] \in {"calling", "refreshing", "idle"}       \* the goroutine owns a running ticker

\* The last sentence of C17: only usable logs whose temporal interval contains NotAfter and whose accepted roots,
\* where known, include the chain's root
Eligible(v, c, known) ==
  {l \in Logs : /\ LogState[v][l] = "usable"
                /\ c \in Window[v][l]
                /\ (known => RootOf[c] \in Accepts[l])}

Init ==
  /\ source \in Versions /\ failNext = FALSE /\ budget = MaxPublish /\ faults = MaxFaults /\ ticks = MaxTicks /\ ctxDone = FALSE
  /\ lastJSON = None
  /\ emitted = <<>> /\ latest = 0 /\ previous = 0 /\ updCh = <<>> /\ errCh = 0
  /\ tpc = "start" /\ tTick = FALSE /\ tloc = None /\ tsend = 0
  /\ lpc = "select" /\ lcur = 0 /\ linit = FALSE /\ active = 0 /\ initSent = 0 /\ initClosed = FALSE /\ panicked = FALSE
  /\ rpc = [g \in Gens |-> "none"] /\ rTick = [g \in Gens |-> FALSE] /\ rCount = [g \in Gens |-> RootEvery]
  /\ rcancel = [g \in Gens |-> FALSE] /\ rdead = [g \in Gens |-> FALSE] /\ rknown = [g \in Gens |-> FALSE]
  /\ spc = [s \in Subs |-> "idle"] /\ scert = [s \in Subs |-> CHOOSE c \in Certs : TRUE] /\ sgen = [s \in Subs |-> 0]
  /\ sknown = [s \in Subs |-> FALSE] /\ scont = [s \in Subs |-> {}] /\ sfloor = [s \in Subs |-> 0]

(* ------------------------------ environment ------------------------------ *)
Publish(v) ==
  /\ budget # 0 /\ v # source
  /\ source' = v /\ budget' = IF budget > 0 THEN budget - 1 ELSE budget
  /\ UNCHANGED <<failNext, faults, ticks, ctxDone, mgrVars, tickVars, loopVars, rootVars, subVars>>

FailNext ==
  /\ faults # 0 /\ ~failNext
  /\ failNext' = TRUE /\ faults' = IF faults > 0 THEN faults - 1 ELSE faults
  /\ UNCHANGED <<source, budget, ticks, ctxDone, mgrVars, tickVars, loopVars, rootVars, subVars>>

\* one log-list refresh interval passes: every running ticker whose period has elapsed delivers a tick
\* (a tick that finds the buffer full is dropped)
Advance ==
  /\ ticks # 0
  /\ ticks' = IF ticks > 0 THEN ticks - 1 ELSE ticks
  /\ tTick' = (tTick \/ tpc \notin {"start", "stopped"})
  /\ rTick' = [g \in Gens |-> rTick[g] \/ (Live(g) /\ rCount[g] = 1)]
  /\ rCount' = [g \in Gens |-> IF Live(g) THEN (IF rCount[g] = 1 THEN RootEvery ELSE rCount[g] - 1) ELSE rCount[g]]
  /\ UNCHANGED <<source, failNext, budget, faults, ctxDone, mgrVars, tpc, tloc, tsend, loopVars, rpc, rcancel, rdead, rknown, subVars>>

Cancel ==
  /\ MayCancel /\ ~ctxDone
  /\ ctxDone' = TRUE
  /\ UNCHANGED <<source, failNext, budget, faults, ticks, mgrVars, tickVars, loopVars, rootVars, subVars>>

(* --------------------- the log-list ticker goroutine --------------------- *)
\* schedule.Every: return if the context is done, else create the ticker and run f at once
TStart ==
  /\ tpc = "start"
  /\ tpc' = IF ctxDone THEN "stopped" ELSE "reading"
  /\ UNCHANGED <<envVars, mgrVars, tTick, tloc, tsend, loopVars, rootVars, subVars>>

\* Refresh() under updateMu.  A failed read and an unparsable content change nothing; equal content is "no update".
TRead ==
  /\ tpc = "reading"
  /\ IF failNext
     THEN /\ failNext' = FALSE /\ tpc' = "sendErr" /\ UNCHANGED <<lastJSON, tloc>>
     ELSE /\ UNCHANGED failNext
          /\ IF source = lastJSON THEN tpc' = "idle" /\ UNCHANGED <<lastJSON, tloc>>
             ELSE IF Kind[source] = "unparsable" THEN tpc' = "sendErr" /\ UNCHANGED <<lastJSON, tloc>>
             ELSE lastJSON' = source /\ tloc' = source /\ tpc' = "manager"
  /\ UNCHANGED <<source, budget, faults, ticks, ctxDone, emitted, latest, previous, updCh, errCh, tTick, tsend, loopVars, rootVars, subVars>>

\* RefreshLogList under llm.mu
TManager ==
  /\ tpc = "manager"
  /\ emitted' = Append(emitted, tloc) /\ previous' = latest /\ latest' = Len(emitted) + 1
  /\ tpc' = "produce"
  /\ UNCHANGED <<envVars, lastJSON, updCh, errCh, tTick, tloc, tsend, loopVars, rootVars, subVars>>

\* ProduceClientLogList under llm.mu: a copy of the latest list
TProduce ==
  /\ tpc = "produce"
  /\ tsend' = latest /\ tpc' = "sendUpd"
  /\ UNCHANGED <<envVars, mgrVars, tTick, tloc, loopVars, rootVars, subVars>>

\* llm.LLUpdates <- ...   blocks while the buffer is full; the send does not look at the context
TSendUpd ==
  /\ tpc = "sendUpd" /\ updCh = <<>>
  /\ updCh' = <<tsend>> /\ tpc' = "idle"
  /\ UNCHANGED <<envVars, lastJSON, emitted, latest, previous, errCh, tTick, tloc, tsend, loopVars, rootVars, subVars>>

\* llm.Errors <- err
TSendErr ==
  /\ tpc = "sendErr" /\ errCh = 0
  /\ errCh' = 1 /\ tpc' = "idle"
  /\ UNCHANGED <<envVars, lastJSON, emitted, latest, previous, updCh, tTick, tloc, tsend, loopVars, rootVars, subVars>>

\* select { case <-t.C: f(ctx)   case <-ctx.Done(): return }   - Go chooses among the ready cases at random
TWakeTick ==
  /\ tpc = "idle" /\ tTick
  /\ tTick' = FALSE /\ tpc' = "reading"
  /\ UNCHANGED <<envVars, mgrVars, tloc, tsend, loopVars, rootVars, subVars>>

TWakeDone ==
  /\ tpc = "idle" /\ ctxDone
  /\ tpc' = "stopped"
  /\ UNCHANGED <<envVars, mgrVars, tTick, tloc, tsend, loopVars, rootVars, subVars>>

(* ----------------------------- the proxy loop ----------------------------- *)
LRecvUpd ==
  /\ lpc = "select" /\ updCh # <<>>
  /\ lcur' = Head(updCh) /\ updCh' = <<>> /\ lpc' = "build"
  /\ UNCHANGED <<envVars, lastJSON, emitted, latest, previous, errCh, tickVars, linit, active, initSent, initClosed, panicked, rootVars, subVars>>

LRecvErr ==
  /\ lpc = "select" /\ errCh > 0
  /\ errCh' = 0
  /\ UNCHANGED <<envVars, lastJSON, emitted, latest, previous, updCh, tickVars, loopVars, rootVars, subVars>>

\* case <-ctx.Done(): if !init { close(p.Init) }; return
LCtxDone ==
  /\ lpc = "select" /\ ctxDone
  /\ lpc' = "exited"
  /\ IF linit THEN UNCHANGED <<initClosed, panicked>>
     ELSE IF initClosed THEN panicked' = TRUE /\ UNCHANGED initClosed
     ELSE initClosed' = TRUE /\ UNCHANGED panicked
  /\ UNCHANGED <<envVars, mgrVars, tickVars, lcur, linit, active, initSent, rootVars, subVars>>

\* restartDistributor: p.distributorBuilder(ll) is called ...
LBuildStart ==
  /\ lpc = "build"
  /\ lpc' = "building"
  /\ UNCHANGED <<envVars, mgrVars, tickVars, lcur, linit, active, initSent, initClosed, panicked, rootVars, subVars>>

\* ... and returns.  On an error nothing else happens (the list is dropped).  Otherwise the root refresher of the new
\* distributor is started (go schedule.Every(refreshCtx, ...)) before the swap.
LBuildEnd ==
  /\ lpc = "building"
  /\ IF Kind[VersionOf(lcur)] = "good"
     THEN lpc' = "swap" /\ rpc' = IF RootEvery > 0 THEN [rpc EXCEPT ![lcur] = "start"] ELSE rpc
     ELSE lpc' = "select" /\ UNCHANGED rpc
  /\ UNCHANGED <<envVars, mgrVars, tickVars, lcur, linit, active, initSent, initClosed, panicked, rTick, rCount, rcancel, rdead, rknown, subVars>>

\* under distMu: cancel the refresher of the distributor being replaced, install the new one
LSwap ==
  /\ lpc = "swap"
  /\ rcancel' = IF active # 0 THEN [rcancel EXCEPT ![active] = TRUE] ELSE rcancel
  /\ active' = lcur
  /\ lpc' = IF linit THEN "select" ELSE "initsend"
  /\ UNCHANGED <<envVars, mgrVars, tickVars, lcur, linit, initSent, initClosed, panicked, rpc, rTick, rCount, rdead, rknown, subVars>>

\* init = true; p.Init <- true
LInitSend ==
  /\ lpc = "initsend"
  /\ linit' = TRUE
  /\ IF initClosed THEN panicked' = TRUE /\ UNCHANGED initSent ELSE initSent' = initSent + 1 /\ UNCHANGED panicked
  /\ lpc' = "initclose"
  /\ UNCHANGED <<envVars, mgrVars, tickVars, lcur, active, initClosed, rootVars, subVars>>

\* close(p.Init)
LInitClose ==
  /\ lpc = "initclose"
  /\ IF initClosed THEN panicked' = TRUE /\ UNCHANGED initClosed ELSE initClosed' = TRUE /\ UNCHANGED panicked
  /\ lpc' = "select"
  /\ UNCHANGED <<envVars, mgrVars, tickVars, lcur, linit, active, initSent, rootVars, subVars>>

(* ---------------------- root refreshers (one per generation) ---------------------- *)
\* schedule.Every(refreshCtx, rootsRefreshInterval, d.RefreshRoots): return if the context is done, else create the
\* ticker and call f at once
RStart(g) ==
  /\ rpc[g] = "start"
  /\ IF Cancelled(g)
     THEN rpc' = [rpc EXCEPT ![g] = "stopped"] /\ UNCHANGED <<rTick, rCount>>    \* no ticker was created
     ELSE /\ rpc' = [rpc EXCEPT ![g] = "calling"]
          /\ rTick' = [rTick EXCEPT ![g] = FALSE] /\ rCount' = [rCount EXCEPT ![g] = RootEvery]
  /\ UNCHANGED <<envVars, mgrVars, tickVars, loopVars, rcancel, rdead, rknown, subVars>>

\* RefreshRoots sends get-roots to every log client of the distributor; the context may have ended since f was called
RCall(g) ==
  /\ rpc[g] = "calling"
  /\ rpc' = [rpc EXCEPT ![g] = "refreshing"]
  /\ rdead' = [rdead EXCEPT ![g] = Cancelled(g)]
  /\ UNCHANGED <<envVars, mgrVars, tickVars, loopVars, rTick, rCount, rcancel, rknown, subVars>>

\* RefreshRoots returns.  With every get-roots answered the roots are known; when the context ended first (cancelled,
\* or the 10 s get-roots timeout) requests fail and the distributor knows no roots (of those logs) any more.  A refresh
\* begun with a live context may have all its answers before the cancellation arrives; one begun with a dead context
\* cannot succeed.
RFinish(g, ok) ==
  /\ rpc[g] = "refreshing"
  /\ ok => ~rdead[g]
  /\ rknown' = [rknown EXCEPT ![g] = ok]
  /\ rpc' = [rpc EXCEPT ![g] = "idle"]
  /\ UNCHANGED <<envVars, mgrVars, tickVars, loopVars, rTick, rCount, rcancel, rdead, subVars>>

\* select { case <-t.C: f(ctx)   case <-ctx.Done(): return }
RWakeTick(g) ==
  /\ rpc[g] = "idle" /\ rTick[g]
  /\ rTick' = [rTick EXCEPT ![g] = FALSE]
  /\ rpc' = [rpc EXCEPT ![g] = "calling"]
  /\ UNCHANGED <<envVars, mgrVars, tickVars, loopVars, rCount, rcancel, rdead, rknown, subVars>>

RWakeDone(g) ==
  /\ rpc[g] = "idle" /\ Cancelled(g)
  /\ rpc' = [rpc EXCEPT ![g] = "stopped"]
  /\ rTick' = [rTick EXCEPT ![g] = FALSE] /\ rCount' = [rCount EXCEPT ![g] = RootEvery]     \* defer t.Stop()
  /\ rdead' = [rdead EXCEPT ![g] = FALSE]
  /\ UNCHANGED <<envVars, mgrVars, tickVars, loopVars, rcancel, rknown, subVars>>

(* ------------------------------ submissions ------------------------------ *)
\* Proxy.AddChain / AddPreChain is called
SCall(s, c) ==
  /\ spc[s] = "idle" \/ (Resubmit /\ spc[s] = "done")
  /\ spc' = [spc EXCEPT ![s] = "called"] /\ scert' = [scert EXCEPT ![s] = c]
  /\ sgen' = [sgen EXCEPT ![s] = 0] /\ sknown' = [sknown EXCEPT ![s] = FALSE] /\ scont' = [scont EXCEPT ![s] = {}]
  /\ sfloor' = [sfloor EXCEPT ![s] = active]
  /\ UNCHANGED <<envVars, mgrVars, tickVars, loopVars, rootVars>>

\* p.distributor() under distMu.RLock; nil -> "proxy distributor is not initialized"
SRead(s) ==
  /\ spc[s] = "called"
  /\ sgen' = [sgen EXCEPT ![s] = active]
  /\ spc' = [spc EXCEPT ![s] = IF active = 0 THEN "failing" ELSE "read"]
  /\ UNCHANGED <<envVars, mgrVars, tickVars, loopVars, rootVars, scert, sknown, scont, sfloor>>

\* addSomeChain under d.mu.RLock of THAT distributor: the compatible logs are computed from its list and its roots
SCompat(s) ==
  /\ spc[s] = "read"
  /\ sknown' = [sknown EXCEPT ![s] = rknown[sgen[s]]]
  /\ spc' = [spc EXCEPT ![s] = "running"]
  /\ UNCHANGED <<envVars, mgrVars, tickVars, loopVars, rootVars, scert, sgen, scont, sfloor>>

\* one more log of that list is sent the chain (which and how many is Submission.tla's business)
SContact(s, l) ==
  /\ spc[s] = "running"
  /\ l \in Eligible(VersionOf(sgen[s]), scert[s], sknown[s]) \ scont[s]
  /\ scont' = [scont EXCEPT ![s] = scont[s] \cup {l}]
  /\ UNCHANGED <<envVars, mgrVars, tickVars, loopVars, rootVars, spc, scert, sgen, sknown, sfloor>>

SDone(s) ==
  /\ spc[s] \in {"failing", "running"}
  /\ spc' = [spc EXCEPT ![s] = "done"]
  \* the call is over: nothing of it is remembered
  /\ sgen' = [sgen EXCEPT ![s] = 0] /\ sknown' = [sknown EXCEPT ![s] = FALSE] /\ scont' = [scont EXCEPT ![s] = {}]
  /\ sfloor' = [sfloor EXCEPT ![s] = 0]
  /\ UNCHANGED <<envVars, mgrVars, tickVars, loopVars, rootVars, scert>>

(* -------------------------------- next-state -------------------------------- *)
Env == (\E v \in Versions : Publish(v)) \/ FailNext \/ Advance \/ Cancel
Ticker == TStart \/ TRead \/ TManager \/ TProduce \/ TSendUpd \/ TSendErr \/ TWakeTick \/ TWakeDone
Loop == LRecvUpd \/ LRecvErr \/ LCtxDone \/ LBuildStart \/ LBuildEnd \/ LSwap \/ LInitSend \/ LInitClose
Roots == \E g \in Gens : RStart(g) \/ RCall(g) \/ RWakeTick(g) \/ RWakeDone(g) \/ \E ok \in BOOLEAN : RFinish(g, ok)
Submit == \E s \in Subs : (\E c \in Certs : SCall(s, c)) \/ SRead(s) \/ SCompat(s) \/ SDone(s) \/ \E l \in Logs : SContact(s, l)

Next == Env \/ Ticker \/ Loop \/ Roots \/ Submit

\* Straight-line code gets weak fairness.  Go's select chooses uniformly among the ready cases, so a case that is ready
\* again and again is eventually chosen: strong fairness for every select branch.  Time passes.  The environment
\* (publications, faults, cancellation, callers) owes nothing.
Fairness ==
  /\ WF_vars(TStart) /\ WF_vars(TRead) /\ WF_vars(TManager) /\ WF_vars(TProduce) /\ WF_vars(TSendUpd) /\ WF_vars(TSendErr)
  /\ SF_vars(TWakeTick) /\ SF_vars(TWakeDone)
  /\ SF_vars(LRecvUpd) /\ SF_vars(LRecvErr) /\ SF_vars(LCtxDone)
  /\ WF_vars(LBuildStart) /\ WF_vars(LBuildEnd) /\ WF_vars(LSwap) /\ WF_vars(LInitSend) /\ WF_vars(LInitClose)
  /\ \A g \in Gens : /\ WF_vars(RStart(g)) /\ WF_vars(RCall(g)) /\ SF_vars(RWakeTick(g)) /\ SF_vars(RWakeDone(g))
                     /\ WF_vars(\E ok \in BOOLEAN : RFinish(g, ok))
  /\ \A s \in Subs : WF_vars(SRead(s)) /\ WF_vars(SCompat(s)) /\ WF_vars(SDone(s))
  /\ WF_vars(Advance)

Spec == Init /\ [][Next]_vars /\ Fairness

\* state constraint for runs with an unbounded publication budget: do not go beyond MaxEmit emissions
EmitBound == Len(emitted) < MaxEmit \/ (Len(emitted) = MaxEmit /\ tpc # "manager")

(* ------------------------------- quiescence ------------------------------- *)
\* Steps the code takes on its own, without waiting for anything outside the process: everything except the passing of
\* time, the environment, and the four calls that leave the process (the HTTP read of the list, the DistributorBuilder,
\* get-roots, add-chain).  A state in which none of them is enabled is what a test harness sees after "wait until every
\* goroutine is blocked".
TickerAuto == \/ tpc \in {"start", "manager", "produce"}
              \/ (tpc = "sendUpd" /\ updCh = <<>>) \/ (tpc = "sendErr" /\ errCh = 0)
              \/ (tpc = "idle" /\ (tTick \/ ctxDone))
LoopAuto == \/ (lpc = "select" /\ (updCh # <<>> \/ errCh > 0 \/ ctxDone))
            \/ lpc \in {"build", "swap", "initsend", "initclose"}
RootsAuto == \E g \in Gens : rpc[g] \in {"start", "calling"} \/ (rpc[g] = "idle" /\ (rTick[g] \/ Cancelled(g)))
SubsAuto == \E s \in Subs : spc[s] \in {"called", "read", "failing"}
Quiescent == ~(TickerAuto \/ LoopAuto \/ RootsAuto \/ SubsAuto)

(* ================================ properties ================================ *)
Last(q) == IF q = <<>> THEN None ELSE q[Len(q)]
Good(e) == Kind[VersionOf(e)] = "good"
\* the newest buildable emission among 1..n (0 if there is none)
NewestGood(n) == LET S == {e \in 1..n : Good(e)} IN IF S = {} THEN 0 ELSE CHOOSE e \in S : \A f \in S : f <= e

TypeOK ==
  /\ source \in Versions /\ failNext \in BOOLEAN /\ ctxDone \in BOOLEAN
  /\ lastJSON \in Versions \cup {None}
  /\ latest \in 0..Len(emitted) /\ previous \in 0..Len(emitted) /\ Len(updCh) <= 1 /\ errCh \in 0..1
  /\ tpc \in {"start", "reading", "manager", "produce", "sendUpd", "sendErr", "idle", "stopped"}
  /\ lpc \in {"select", "build", "building", "swap", "initsend", "initclose", "exited"}
  /\ \A g \in Gens : rpc[g] \in {"none", "start", "calling", "refreshing", "idle", "stopped"} /\ rCount[g] \in 0..RootEvery
  /\ \A s \in Subs : spc[s] \in {"idle", "called", "read", "running", "failing", "done"}
  /\ Len(emitted) <= MaxEmit

\* TwoLatest: (latest, previous) are the last two emissions, at every instant
TwoLatest == latest = Len(emitted) /\ previous = (IF latest = 0 THEN 0 ELSE latest - 1)

\* the refresher compares with the content of the newest emission (hence a list the builder refused is not retried
\* until the content changes: "losing ll info. No good." in restartDistributor)
LastJSONIsLatest == tpc # "manager" => lastJSON = Last(emitted)

\* ActiveMonotone: the active distributor is built from an emission the manager published, a buildable one, and its
\* emission number never decreases; the loop is handed every emission, in order, exactly once
ActiveValid == /\ active \in 0..latest /\ (active # 0 => Good(active))
               /\ lcur \in 0..latest /\ active <= lcur
               /\ (updCh # <<>> => Head(updCh) = lcur + 1)
               /\ (tpc = "sendUpd" => tsend = latest /\ (updCh = <<>> => tsend = lcur + 1))
ActiveMonotone == [][active' >= active /\ lcur' \in {lcur, lcur + 1}]_vars

\* KeepOnFailure.  (a) a read error or an unparsable content leaves the refresher's lastJSON, the manager's two lists
\* and the distributor alone (one error is queued); (b) a list the builder refuses has ALREADY become `latest` (and
\* pushed the former latest to `previous`, and become lastJSON) - that is how the code is - but the active distributor,
\* its root refresher and Init stay as they are
FailedReadKeeps == [][(tpc = "reading" /\ tpc' = "sendErr") => UNCHANGED <<lastJSON, emitted, latest, previous, active, rcancel>>]_vars
FailedBuildKeeps == [][(lpc = "building" /\ lpc' = "select") => UNCHANGED <<active, linit, initSent, initClosed, rpc, rcancel, latest, previous>>]_vars
\* once the pair has caught up (nothing in flight) and the context is alive, the active distributor is the newest
\* buildable emission; emissions after it are lists the builder refused (deviation named above: latest may be unusable)
Settled == tpc \in {"idle", "reading", "start", "stopped"} /\ updCh = <<>> /\ lpc = "select"
CaughtUp == (Settled /\ ~ctxDone) => active = NewestGood(latest)

\* NoneUntilInit: reading p.dist before the first successful build yields the "not initialized" error and no log is
\* contacted; a call made after Init delivered true never gets that error
NoneUntilInit == \A s \in Subs : /\ (spc[s] = "failing" => sgen[s] = 0 /\ scont[s] = {})
                                 /\ (spc[s] \in {"read", "running"} => sgen[s] # 0)
                                 /\ (sfloor[s] # 0 /\ spc[s] \in {"read", "running", "failing"} => sgen[s] # 0)
InitImpliesActive == initSent > 0 => active # 0

\* UsesActive: every log a submission contacts is an eligible log of the list version whose distributor it read, and
\* that distributor is not older than the one that was active when the call was made
UsesActive == \A s \in Subs : spc[s] \in {"read", "running"} =>
                 /\ sgen[s] >= sfloor[s] /\ sgen[s] <= active /\ Good(sgen[s])
                 /\ scont[s] \subseteq Eligible(VersionOf(sgen[s]), scert[s], sknown[s])
                 /\ \A l \in scont[s] : LogState[VersionOf(sgen[s])][l] = "usable"

\* InitOnce
InitOnce == /\ ~panicked /\ initSent <= 1
            /\ (initSent = 1 <=> linit)
            /\ (linit <=> (active # 0 /\ lpc # "initsend"))
            /\ (initClosed /\ initSent = 0 => lpc = "exited" /\ active = 0)
            /\ (lpc = "exited" => initClosed)

\* OldRefresherCancelled (safety part): refreshers that are not cancelled belong to the active distributor or to the
\* one about to be installed; a refresh begun after the cancellation runs with a dead context, and such a
\* refresh never yields roots
LiveRefreshers == {g \in Gens : rpc[g] \in {"start", "calling", "refreshing", "idle"} /\ ~rcancel[g]}
OldRefresherCancelled == LiveRefreshers \subseteq ({active} \cup (IF lpc = "swap" THEN {lcur} ELSE {}))
DeadAfterCancel == [][\A g \in Gens : /\ (rpc[g] # "refreshing" /\ rpc'[g] = "refreshing" /\ Cancelled(g)) => rdead'[g]
                                      /\ (rpc[g] = "refreshing" /\ rdead[g] /\ rpc'[g] # "refreshing") => ~rknown'[g]]_vars
\* Named, NOT asserted (the code does it): a refresher whose refresh spans a tick can, after the cancellation, choose the
\* buffered tick over ctx.Done() and call RefreshRoots once more with the cancelled context.
StrictStop == [][\A g \in Gens : Cancelled(g) => ~(rpc[g] = "idle" /\ rpc'[g] = "calling")]_vars

\* a full channel never wedges the pair while the context is alive: a blocked ticker faces a loop that can move
PairNotStuck == (~ctxDone /\ tpc \in {"sendUpd", "sendErr"}) => lpc # "exited"
\* Named, NOT asserted: after the context ended the loop is gone, and a ticker goroutine blocked on a full channel
\* (the send does not select on ctx.Done()) stays blocked for ever - a goroutine leak.
NoTickerLeak == ~(lpc = "exited" /\ ((tpc = "sendUpd" /\ updCh # <<>>) \/ (tpc = "sendErr" /\ errCh > 0)))

(* ------------------------------- liveness ------------------------------- *)
\* if the source stays at a good version, that version's distributor eventually is, and stays, the active one
Converges == \A v \in Versions : (Kind[v] = "good" /\ ~MayCancel) =>
                (<>[](source = v) => <>[](active # 0 /\ VersionOf(active) = v))
\* a blocked ticker is released (context alive)
Unblocks == ~MayCancel => [](tpc \in {"sendUpd", "sendErr"} => <>(tpc = "idle"))
\* the active generation keeps refreshing its roots
KeepsRefreshing == ~MayCancel => []<>(active = 0 \/ rpc[active] = "refreshing")
\* after the context ended: the loop exits, Init is resolved, every root refresher stops
LoopExits == ctxDone ~> (lpc = "exited" /\ initClosed)
RefreshersStop == \A g \in Gens : (rpc[g] # "none" /\ Cancelled(g)) ~> (rpc[g] = "stopped")
\* Named, NOT asserted: the ticker goroutine does not always stop (see NoTickerLeak)
TickerStops == ctxDone ~> (tpc = "stopped")
=============================================================================
