CONSTANTS
  Logs <- DuoLogs
  Groups <- DuoGroups
  Members <- DuoMembers
  Min <- DuoMin
  Base = "All-logs"
  Outcomes = {"sct", "err"}
  MayCancel = FALSE
  WaitForInflight = TRUE
  Sessions <- ViableSessions
  RecomputeVerdict = FALSE
SPECIFICATION Spec
VIEW StateView
INVARIANTS TypeOK AtMostOncePerLog SuccessSound FailureHonest NeedsAccount CancelSound OnlyAnswersCount OnlySessionLogsContacted
PROPERTIES Terminates SuccessComplete
CHECK_DEADLOCK FALSE
