-------------------------- MODULE SubmissionWeights --------------------------
(***************************************************************************)
(* Weight changes are part of C17's quantifier ("... weights, and all      *)
(* interleavings ...").  The groups a submission runs over are long-lived  *)
(* objects (ctpolicy.LogGroupInfo); between submissions an operator        *)
(* changes per-log weights with SetLogWeight (one log) or SetLogWeights    *)
(* (a whole assignment).  A weight of zero takes the log out of the        *)
(* group's submission session.  This module is the HISTORY machine:        *)
(* weight operations - accepted and refused - interleaved with             *)
(* submissions; Submission.tla is one such submission, goroutine by        *)
(* goroutine, for a session assignment sess (= Session below).             *)
(*                                                                         *)
(* Clauses (the property is silent on the operations themselves; the code  *)
(* has a definite behaviour, and the completeness clause of C17 depends    *)
(* on it):                                                                 *)
(*   RefusedChangesNothing  an operation that reports an error leaves      *)
(*                          every weight as it was                         *)
(*   GroupsStayViable       every group keeps at least Min[g] members with *)
(*                          a positive weight, so no accepted history can  *)
(*                          make the policy unsatisfiable                  *)
(*   refused are exactly:   a log that is not a member (SetLogWeight), a   *)
(*                          negative weight, an assignment that leaves     *)
(*                          fewer than Min[g] members positive             *)
(*   SetLogWeights resets the members it does not mention to zero and      *)
(*                          ignores non-members it mentions                *)
(* A submission after any history: the logs asked are those in some        *)
(* group's session (ZeroWeightNotAsked).  No hangs, no cancellation here:   *)
(* it must report success when every group finds its minimum among the     *)
(* answering logs of its own session (completeness, Submission.tla's       *)
(* EnoughAnswer), must report failure when the answering logs of all       *)
(* sessions together do not satisfy every group (soundness), and in        *)
(* between - a group depends on a member outside its session that another  *)
(* group may or may not ask - either verdict is allowed, as long as it is  *)
(* the truth about the SCT set returned (SuccessSound, FailureHonest).     *)
(***************************************************************************)
EXTENDS Integers, Sequences, FiniteSets, TLC

CONSTANTS
  Logs, Groups, Members, Min,     \* one of the layouts of MCSubmission.tla
  Stranger,                       \* a log URL that belongs to no group
  Values,                         \* the weights an operator may offer, e.g. {-1, 0, 1, 2}
  Depth                           \* steps per exported history

URLs == Logs \cup {Stranger}

VARIABLES
  w,      \* [Groups -> [member -> weight]]
  last,   \* the step just taken (a record), or [kind |-> "init"]
  hist    \* the steps so far (simulation only)

vars == <<w, last, hist>>

Pos(g, f) == {l \in Members[g] : f[l] > 0}
Viable(g, f) == Cardinality(Pos(g, f)) >= Min[g]
Session(g) == Pos(g, w[g])
SessionsOf(ww) == [g \in Groups |-> Pos(g, ww[g])]

Init ==
  /\ w = [g \in Groups |-> [l \in Members[g] |-> 1]]
  /\ last = [kind |-> "init"]
  /\ hist = <<>>

(* ------------- SetLogWeight(g, l, v) ------------- *)
OneOK(g, l, v) == /\ l \in Members[g]
                  /\ v >= 0
                  /\ Viable(g, [w[g] EXCEPT ![l] = v])
OneWhy(g, l, v) == IF l \notin Members[g] THEN "stranger" ELSE IF v < 0 THEN "negative"
                   ELSE IF ~Viable(g, [w[g] EXCEPT ![l] = v]) THEN "unviable" ELSE "ok"
AfterOne(g, l, v) == IF OneOK(g, l, v) THEN [w EXCEPT ![g][l] = v] ELSE w

(* ------------- SetLogWeights(g, m); m is a set of [l, v] records, at most one per URL ------------- *)
Mentioned(m) == {e.l : e \in m}
ValueIn(m, x) == (CHOOSE e \in m : e.l = x).v
ManyOK(g, m) == /\ \A e \in m : e.v >= 0
                /\ Cardinality({e.l : e \in {e \in m : e.l \in Members[g] /\ e.v > 0}}) >= Min[g]
ManyWhy(g, m) == IF \E e \in m : e.v < 0 THEN "negative" ELSE IF ~ManyOK(g, m) THEN "unviable" ELSE "ok"
AfterMany(g, m) == IF ManyOK(g, m)
                   THEN [w EXCEPT ![g] = [l \in Members[g] |-> IF l \in Mentioned(m) THEN ValueIn(m, l) ELSE 0]]
                   ELSE w

(* ------------- a submission in which every log answers at once with out[l] ------------- *)
Satisfies(S) == \A g \in Groups : Cardinality(S \cap Members[g]) >= Min[g]
Reach == UNION {Session(g) : g \in Groups}
Useful(out) == {l \in Reach : out[l] = "sct"}

StepOne(g, l, v) == [kind |-> "one", g |-> g, l |-> l, v |-> v, ok |-> OneOK(g, l, v), why |-> OneWhy(g, l, v),
                     sessions |-> SessionsOf(AfterOne(g, l, v))]
StepMany(g, m) == [kind |-> "many", g |-> g, m |-> m, ok |-> ManyOK(g, m), why |-> ManyWhy(g, m),
                   sessions |-> SessionsOf(AfterMany(g, m))]
MustSucceed(out) == \A g \in Groups : Cardinality(Useful(out) \cap Session(g)) >= Min[g]
MustFail(out) == ~Satisfies(Useful(out))
StepSubmit(out) == [kind |-> "submit", out |-> out, reach |-> Reach,
                    verdict |-> IF MustSucceed(out) THEN "success" ELSE IF MustFail(out) THEN "failure" ELSE "either",
                    sessions |-> SessionsOf(w)]

DoOne(g, l, v) == /\ w' = AfterOne(g, l, v)
                  /\ last' = StepOne(g, l, v)
DoMany(g, m) == /\ w' = AfterMany(g, m)
                /\ last' = StepMany(g, m)
DoSubmit(out) == /\ UNCHANGED w
                 /\ last' = StepSubmit(out)

Assignments(D) == {{[l |-> x, v |-> f[x]] : x \in D} : f \in [D -> Values]}
SubmitOutcomes == {"sct", "err"}

\* exhaustive exploration of the weight states (VIEW w): every operation from every reachable assignment
NextAll ==
  /\ UNCHANGED hist
  /\ \/ \E g \in Groups, l \in URLs, v \in Values : DoOne(g, l, v)
     \/ \E g \in Groups, D \in SUBSET URLs : \E m \in Assignments(D) : DoMany(g, m)
     \/ \E out \in [Logs -> SubmitOutcomes] : DoSubmit(out)

\* random histories for the replay (one successor per step); refusals by viability are frequent because zero is
\* drawn as often as all other values together
Draw(S) == RandomElement(S)
NextRandom ==
  /\ Len(hist) < Depth
  /\ \E k \in {IF Len(hist) = Depth - 1 THEN 10 ELSE Draw(1..10)} :      \* every history ends with a submission
       IF k <= 4
       THEN \E g \in {Draw(Groups)}, q \in {Draw(1..8)}, z \in {Draw(1..3)}, v0 \in {Draw(Values)} :
              \E l \in {IF q = 1 THEN Stranger ELSE IF q = 2 THEN Draw(Logs) ELSE Draw(Members[g])} :
                LET v == IF z <= 2 THEN 0 ELSE v0 IN DoOne(g, l, v)
       ELSE IF k <= 6
       THEN \E g \in {Draw(Groups)}, D \in {Draw(SUBSET URLs)}, z \in {Draw(1..3)} : \E f \in {Draw([D -> Values])} :
              DoMany(g, {[l |-> x, v |-> IF z > 1 /\ f[x] < 0 THEN 0 ELSE f[x]] : x \in D})
       ELSE \E z \in {Draw(1..3)}, out \in {Draw([Logs -> SubmitOutcomes])} :
              DoSubmit(IF z = 1 THEN [l \in Logs |-> "sct"] ELSE out)
  /\ hist' = Append(hist, last')

(* ------------- the clauses ------------- *)
TypeOK == \A g \in Groups : DOMAIN w[g] = Members[g] /\ \A l \in Members[g] : w[g][l] >= 0

GroupsStayViable == \A g \in Groups : Viable(g, w[g])

RefusedChangesNothing == [][(last'.kind \in {"one", "many"} /\ ~last'.ok) => w' = w]_vars
SubmissionChangesNothing == [][last'.kind = "submit" => w' = w]_vars
OnlyTheNamedGroupChanges == [][last'.kind \in {"one", "many"} => \A g \in Groups \ {last'.g} : w'[g] = w[g]]_vars
AcceptedOneIsExact == [][(last'.kind = "one" /\ last'.ok) => w'[last'.g] = [w[last'.g] EXCEPT ![last'.l] = last'.v]]_vars
\* a submission that can succeed exists after every history (this is what GroupsStayViable is for)
NeverUnsatisfiable == MustSucceed([l \in Logs |-> "sct"])
\* the two demands on a submission never contradict each other
VerdictConsistent == [][last'.kind = "submit" => ~(MustSucceed(last'.out) /\ MustFail(last'.out))]_vars
=============================================================================
