CONSTANTS
  Logs <- ChromeLogs
  Groups <- AppleGroups
  Members <- AppleMembers
  Min <- AppleMin
  Base = "All-logs"
  Outcomes = {"sct", "err"}
  MayCancel = FALSE
  WaitForInflight = TRUE
  Sessions <- ViableSessions
  RecomputeVerdict = TRUE
SPECIFICATION Spec
VIEW StateView
INVARIANTS TypeOK AtMostOncePerLog SuccessSound FailureHonest NeedsAccount CancelSound OnlyAnswersCount OnlySessionLogsContacted
PROPERTIES Terminates SuccessComplete
CHECK_DEADLOCK FALSE
