\* OBSERVATION (expected violation, thorough): the ticker goroutine does not always stop after cancellation
CONSTANTS
  Versions = {"A", "B", "N"}
  Kind <- SKindN
  Logs <- SLogs
  LogState <- SLogStateN
  Window <- SWindowN
  Accepts <- SAccepts
  Certs <- SCerts
  RootOf <- SRootOf
  Subs = {}
  MaxEmit = 2
  MaxPublish = 1
  MaxFaults = 0
  MaxTicks <- Unbounded
  RootEvery = 0
  MayCancel = TRUE
  Resubmit = FALSE
SPECIFICATION Spec
INVARIANTS TypeOK
PROPERTIES TickerStops
CHECK_DEADLOCK FALSE
