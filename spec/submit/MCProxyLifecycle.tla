-------------------------- MODULE MCProxyLifecycle --------------------------
(* Model-checking instances of ProxyLifecycle: the catalogues of log-list versions (small: exhaustive runs; big:    *)
(* simulation, replay and trace validation - the harness builds its loglist3 JSON documents, certificates and fake   *)
(* logs from the exported catalogue, so the specification is the single source).                                      *)
EXTENDS ProxyLifecycle, Json

Unbounded == -1     \* cfg files take no negative numbers: MaxPublish <- Unbounded

(* ---- small catalogue: two good lists that differ in a log, one refused / unparsable list ---- *)
SLogs == {"g1", "n1", "x1"}
SCerts == {"late"}
SRootOf == [c \in SCerts |-> "R1"]
SAccepts == [l \in SLogs |-> IF l = "x1" THEN {"R2"} ELSE {"R1"}]
SKindU == [v \in {"A", "B", "U"} |-> IF v = "U" THEN "unparsable" ELSE "good"]
SKindN == [v \in {"A", "B", "N"} |-> IF v = "N" THEN "nobuild" ELSE "good"]
SKind2 == [v \in {"A", "B"} |-> "good"]
SStateOf(v) == [l \in SLogs |-> CASE v = "B" /\ l = "n1" -> "retired"      \* B removes n1 ...
                                  [] v = "A" /\ l = "x1" -> "pending"      \* ... and promotes x1
                                  [] OTHER -> "usable"]
SLogStateU == [v \in {"A", "B", "U"} |-> SStateOf(v)]
SLogStateN == [v \in {"A", "B", "N"} |-> SStateOf(v)]
SLogState2 == [v \in {"A", "B"} |-> SStateOf(v)]
SWindow2 == [v \in {"A", "B"} |-> [l \in SLogs |-> SCerts]]
SWindowU == [v \in {"A", "B", "U"} |-> [l \in SLogs |-> SCerts]]
SWindowN == [v \in {"A", "B", "N"} |-> [l \in SLogs |-> SCerts]]

(* ---- big catalogue ---- *)
BVersions == {"A", "B", "C", "U", "N"}
BLogs == {"g1", "g2", "n1", "n2", "x1", "p1"}
BCerts == {"early", "late", "alien"}          \* NotAfter: early < late < alien (interval boundaries, see the harness)
BRootOf == [c \in BCerts |-> IF c = "alien" THEN "R2" ELSE "R1"]
BAccepts == [l \in BLogs |-> IF l = "x1" THEN {"R2"} ELSE {"R1"}]
BKind == [v \in BVersions |-> CASE v = "U" -> "unparsable" [] v = "N" -> "nobuild" [] OTHER -> "good"]
BLogState == [v \in BVersions |-> [l \in BLogs |->
   CASE v \in {"A", "N", "U"} -> (CASE l = "g2" -> "absent" [] l = "p1" -> "pending" [] OTHER -> "usable")
     [] v = "B" -> (CASE l = "n1" -> "retired" [] OTHER -> "usable")
     [] OTHER   -> (CASE l \in {"n2", "x1"} -> "absent" [] OTHER -> "usable")]]
BWindow == [v \in BVersions |-> [l \in BLogs |->
   CASE v \in {"A", "N", "U"} -> (CASE l = "n2" -> {"late"} [] OTHER -> BCerts)
     [] v = "B" -> (CASE l = "g2" -> {"early"} [] l = "n2" -> {"late", "alien"} [] OTHER -> BCerts)
     [] OTHER   -> (CASE l = "g1" -> {"early"} [] l = "g2" -> {"late", "alien"} [] l = "n1" -> {"early", "late"} [] OTHER -> BCerts)]]

Catalogue == [versions |-> [v \in Versions |-> [kind |-> Kind[v], state |-> LogState[v], window |-> Window[v]]],
              accepts |-> Accepts, rootOf |-> RootOf, rootEvery |-> RootEvery]

\* submission identities are interchangeable (safety runs only)
SubsSym == Permutations(Subs)
=============================================================================
