INIT InitCore
NEXT NextCore
INVARIANTS ListSane OptionSane UnknownStaysEligible NothingKnownAtStart Export
CHECK_DEADLOCK FALSE
