------------------------ MODULE MCSubmissionWeights ------------------------
EXTENDS SubmissionWeights, Json

\* the layouts of MCSubmission.tla
ChromeLogs == {"g1", "n1", "n2"}
ChromeGroups == {"google", "nongoogle", "All-logs"}
ChromeMembers == [g \in ChromeGroups |-> CASE g = "google" -> {"g1"} [] g = "nongoogle" -> {"n1", "n2"} [] OTHER -> ChromeLogs]
ChromeMin == [g \in ChromeGroups |-> CASE g = "All-logs" -> 2 [] OTHER -> 1]
Chrome3Logs == {"g1", "g2", "n1", "n2"}
Chrome3Members == [g \in ChromeGroups |-> CASE g = "google" -> {"g1", "g2"} [] g = "nongoogle" -> {"n1", "n2"} [] OTHER -> Chrome3Logs]
Chrome3Min == [g \in ChromeGroups |-> CASE g = "All-logs" -> 3 [] OTHER -> 1]
AppleGroups == {"All-logs"}
AppleMembers == [g \in AppleGroups |-> ChromeLogs]
AppleMin == [g \in AppleGroups |-> 2]

WeightView == w
WeightValues == {-1, 0, 1, 2}
WeightValuesSmall == {-1, 0, 1}

SpecAll == Init /\ [][NextAll]_vars
SpecRandom == Init /\ [][NextRandom]_vars

\* one exported history per simulated behaviour: printed when the last step has been appended
Export == IF Len(hist) = Depth THEN PrintT(<<"BEH", ToJson([steps |-> hist])>>) ELSE TRUE
=============================================================================
