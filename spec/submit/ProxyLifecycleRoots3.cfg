\* thorough: three generations of root refreshers
CONSTANTS
  Versions = {"A", "B", "N"}
  Kind <- SKindN
  Logs <- SLogs
  LogState <- SLogStateN
  Window <- SWindowN
  Accepts <- SAccepts
  Certs <- SCerts
  RootOf <- SRootOf
  Subs = {}
  MaxEmit = 3
  MaxPublish = 2
  MaxFaults = 0
  MaxTicks = 3
  RootEvery = 1
  MayCancel = TRUE
  Resubmit = FALSE
INIT Init
NEXT Next
CONSTRAINT EmitBound
INVARIANTS TypeOK TwoLatest LastJSONIsLatest ActiveValid CaughtUp NoneUntilInit InitImpliesActive UsesActive InitOnce OldRefresherCancelled PairNotStuck
PROPERTIES ActiveMonotone FailedReadKeeps FailedBuildKeeps DeadAfterCancel
CHECK_DEADLOCK FALSE
