CONSTANTS
  Logs <- ChromeLogs
  Groups <- AppleGroups
  Members <- AppleMembers
  Min <- AppleMin
  Base = "All-logs"
  Outcomes = {"sct"}
  MayCancel = TRUE
  WaitForInflight = TRUE
  Sessions <- FullSessions
  RecomputeVerdict = FALSE
INIT TraceInit
NEXT TraceNext
VIEW TraceView
CONSTRAINT HighWater
INVARIANTS TraceNeedsAccount TraceOnlyAnswers
POSTCONDITION TraceAccepted
CHECK_DEADLOCK FALSE
