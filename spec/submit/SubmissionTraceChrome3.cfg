CONSTANTS
  Logs <- Chrome3Logs
  Groups <- ChromeGroups
  Members <- Chrome3Members
  Min <- Chrome3Min
  Base = "All-logs"
  Outcomes = {"sct"}
  MayCancel = TRUE
  WaitForInflight = TRUE
INIT TraceInit
NEXT TraceNext
VIEW TraceView
CONSTRAINT HighWater
INVARIANTS TraceNeedsAccount
POSTCONDITION TraceAccepted
CHECK_DEADLOCK FALSE
