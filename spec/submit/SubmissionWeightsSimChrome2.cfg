CONSTANTS
  Logs <- ChromeLogs
  Groups <- ChromeGroups
  Members <- ChromeMembers
  Min <- ChromeMin
  Stranger = "zz"
  Values <- WeightValues
  Depth = 8
SPECIFICATION SpecRandom
INVARIANTS TypeOK GroupsStayViable Export
CHECK_DEADLOCK FALSE
