\* OBSERVATION (expected violation): a cancelled root refresher may take a buffered tick once more (with the dead context)
CONSTANTS
  Versions = {"A", "B"}
  Kind <- SKind2
  Logs <- SLogs
  LogState <- SLogState2
  Window <- SWindow2
  Accepts <- SAccepts
  Certs <- SCerts
  RootOf <- SRootOf
  Subs = {}
  MaxEmit = 2
  MaxPublish = 1
  MaxFaults = 0
  MaxTicks = 2
  RootEvery = 1
  MayCancel = TRUE
  Resubmit = FALSE
INIT Init
NEXT Next
PROPERTIES StrictStop
CHECK_DEADLOCK FALSE
