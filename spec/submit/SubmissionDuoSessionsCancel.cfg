CONSTANTS
  Logs <- DuoLogs
  Groups <- DuoGroups
  Members <- DuoMembers
  Min <- DuoMin
  Base = "All-logs"
  Outcomes = {"sct", "hang"}
  MayCancel = TRUE
  WaitForInflight = TRUE
  Sessions <- ViableSessions
  RecomputeVerdict = TRUE
SPECIFICATION Spec
VIEW StateView
INVARIANTS TypeOK AtMostOncePerLog SuccessSound FailureHonest NeedsAccount CancelSound OnlyAnswersCount OnlySessionLogsContacted
PROPERTIES Terminates
CHECK_DEADLOCK FALSE
