\* OBSERVATION (expected violation): a ticker goroutine blocked on a full channel after the loop has exited stays blocked
CONSTANTS
  Versions = {"A", "B", "N"}
  Kind <- SKindN
  Logs <- SLogs
  LogState <- SLogStateN
  Window <- SWindowN
  Accepts <- SAccepts
  Certs <- SCerts
  RootOf <- SRootOf
  Subs = {}
  MaxEmit = 2
  MaxPublish = 1
  MaxFaults = 0
  MaxTicks = 2
  RootEvery = 0
  MayCancel = TRUE
  Resubmit = FALSE
INIT Init
NEXT Next
INVARIANTS NoTickerLeak
CHECK_DEADLOCK FALSE
