\* liveness, context alive: the published good list becomes the active one; a blocked ticker is released
CONSTANTS
  Versions = {"A", "B", "N"}
  Kind <- SKindN
  Logs <- SLogs
  LogState <- SLogStateN
  Window <- SWindowN
  Accepts <- SAccepts
  Certs <- SCerts
  RootOf <- SRootOf
  Subs = {}
  MaxEmit = 2
  MaxPublish = 1
  MaxFaults = 1
  MaxTicks <- Unbounded
  RootEvery = 0
  MayCancel = FALSE
  Resubmit = FALSE
SPECIFICATION Spec
INVARIANTS TypeOK
PROPERTIES Converges Unblocks
CHECK_DEADLOCK FALSE
