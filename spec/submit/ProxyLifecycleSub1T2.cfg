\* thorough: one submission, two ticks, root refreshers (roots known / unknown at the moment the compatible logs are computed)
CONSTANTS
  Versions = {"A", "B"}
  Kind <- SKind2
  Logs <- SLogs
  LogState <- SLogState2
  Window <- SWindow2
  Accepts <- SAccepts
  Certs <- SCerts
  RootOf <- SRootOf
  Subs = {"s1"}
  MaxEmit = 2
  MaxPublish = 1
  MaxFaults = 0
  MaxTicks = 2
  RootEvery = 1
  MayCancel = TRUE
  Resubmit = FALSE
INIT Init
NEXT Next
CONSTRAINT EmitBound
INVARIANTS TypeOK TwoLatest LastJSONIsLatest ActiveValid CaughtUp NoneUntilInit InitImpliesActive UsesActive InitOnce OldRefresherCancelled PairNotStuck
PROPERTIES ActiveMonotone FailedReadKeeps FailedBuildKeeps DeadAfterCancel
CHECK_DEADLOCK FALSE
