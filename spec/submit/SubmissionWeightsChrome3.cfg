CONSTANTS
  Logs <- Chrome3Logs
  Groups <- ChromeGroups
  Members <- Chrome3Members
  Min <- Chrome3Min
  Stranger = "zz"
  Values <- WeightValuesSmall
  Depth = 8
SPECIFICATION SpecAll
VIEW WeightView
INVARIANTS TypeOK GroupsStayViable NeverUnsatisfiable
PROPERTIES VerdictConsistent RefusedChangesNothing SubmissionChangesNothing OnlyTheNamedGroupChanges AcceptedOneIsExact
CHECK_DEADLOCK FALSE
