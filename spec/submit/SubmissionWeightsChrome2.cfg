CONSTANTS
  Logs <- ChromeLogs
  Groups <- ChromeGroups
  Members <- ChromeMembers
  Min <- ChromeMin
  Stranger = "zz"
  Values <- WeightValues
  Depth = 8
SPECIFICATION SpecAll
VIEW WeightView
INVARIANTS TypeOK GroupsStayViable NeverUnsatisfiable
PROPERTIES VerdictConsistent RefusedChangesNothing SubmissionChangesNothing OnlyTheNamedGroupChanges AcceptedOneIsExact
CHECK_DEADLOCK FALSE
