\* liveness after cancellation / replacement: every cancelled root refresher stops
CONSTANTS
  Versions = {"A", "B"}
  Kind <- SKind2
  Logs <- SLogs
  LogState <- SLogState2
  Window <- SWindow2
  Accepts <- SAccepts
  Certs <- SCerts
  RootOf <- SRootOf
  Subs = {}
  MaxEmit = 2
  MaxPublish = 1
  MaxFaults = 0
  MaxTicks = 1
  RootEvery = 1
  MayCancel = TRUE
  Resubmit = FALSE
SPECIFICATION Spec
INVARIANTS TypeOK
PROPERTIES RefreshersStop
CHECK_DEADLOCK FALSE
