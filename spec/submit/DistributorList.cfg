INIT InitCore
NEXT NextCore
INVARIANTS ListSane OptionSane UnknownStaysEligible NothingKnownAtStart
CHECK_DEADLOCK FALSE
