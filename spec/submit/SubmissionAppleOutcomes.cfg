CONSTANTS
  Logs <- ChromeLogs
  Groups <- AppleGroups
  Members <- AppleMembers
  Min <- AppleMin
  Base = "All-logs"
  Outcomes = {"sct", "both", "neither"}
  MayCancel = FALSE
  WaitForInflight = TRUE
  Sessions <- FullSessions
  RecomputeVerdict = FALSE
SPECIFICATION Spec
VIEW StateView
INVARIANTS TypeOK AtMostOncePerLog SuccessSound FailureHonest NeedsAccount CancelSound OnlyAnswersCount OnlySessionLogsContacted
PROPERTIES Terminates SuccessComplete
CHECK_DEADLOCK FALSE
