INIT InitSim
NEXT NextSim
INVARIANTS ListSane OptionSane UnknownStaysEligible NothingKnownAtStart Export
CHECK_DEADLOCK FALSE
