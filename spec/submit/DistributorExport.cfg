INIT Init
NEXT Next
INVARIANTS Export
CHECK_DEADLOCK FALSE
