CONSTANTS
  Logs <- ChromeLogs
  Groups <- ChromeGroups
  Members <- ChromeMembers
  Min <- ChromeMin
  Base = "All-logs"
  Outcomes = {"sct", "err"}
  MayCancel = FALSE
  WaitForInflight = TRUE
  Sessions <- ViableSessions
  RecomputeVerdict = TRUE
SPECIFICATION Spec
VIEW StateView
INVARIANTS TypeOK AtMostOncePerLog SuccessSound FailureHonest NeedsAccount CancelSound OnlyAnswersCount OnlySessionLogsContacted

CHECK_DEADLOCK FALSE
