CONSTANTS
  Logs <- ChromeLogs
  Groups <- AppleGroups
  Members <- AppleMembers
  Min <- AppleMin
  Stranger = "zz"
  Values <- WeightValues
  Depth = 8
SPECIFICATION SpecRandom
INVARIANTS TypeOK GroupsStayViable Export
CHECK_DEADLOCK FALSE
