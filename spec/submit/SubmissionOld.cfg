CONSTANTS
  Logs <- ChromeLogs
  Groups <- ChromeGroups
  Members <- ChromeMembers
  Min <- ChromeMin
  Base = "All-logs"
  Outcomes = {"sct"}
  MayCancel = FALSE
  WaitForInflight = FALSE
SPECIFICATION Spec
VIEW StateView
INVARIANTS TypeOK AtMostOncePerLog SuccessSound FailureHonest NeedsAccount CancelSound
PROPERTIES Terminates SuccessComplete
CHECK_DEADLOCK FALSE
