\* liveness: the active generation keeps refreshing its roots
CONSTANTS
  Versions = {"A", "B", "N"}
  Kind <- SKindN
  Logs <- SLogs
  LogState <- SLogStateN
  Window <- SWindowN
  Accepts <- SAccepts
  Certs <- SCerts
  RootOf <- SRootOf
  Subs = {}
  MaxEmit = 2
  MaxPublish = 1
  MaxFaults = 0
  MaxTicks <- Unbounded
  RootEvery = 1
  MayCancel = FALSE
  Resubmit = FALSE
SPECIFICATION Spec
INVARIANTS TypeOK
PROPERTIES KeepsRefreshing
CHECK_DEADLOCK FALSE
