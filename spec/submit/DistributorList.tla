--------------------------- MODULE DistributorList ---------------------------
(***************************************************************************)
(* C17, last sentence and the liveness clause, for a WHOLE LOG LIST behind *)
(* one distributor (Distributor.tla decides one log at a time):            *)
(*                                                                         *)
(*   "Only usable logs whose temporal interval contains the certificate's  *)
(*    NotAfter and whose accepted roots, where known, include the chain's  *)
(*    root are contacted" and "when enough compatible logs eventually      *)
(*    answer successfully and the caller does not cancel, it does report   *)
(*    success".                                                            *)
(*                                                                         *)
(* A case is a distributor (a constructor-option set, a policy), a log     *)
(* list of four logs (two of the Google operator, two of other operators;  *)
(* each with a state, a temporal interval and the answer it gives to every *)
(* get-roots of a HISTORY of root refreshes), a certificate (NotAfter      *)
(* tick, root, lifetime class) and a call (add-chain / add-pre-chain, with *)
(* or without the load on pending logs, chain sent with or without its     *)
(* root certificate).  Every log answers the submission with an SCT at     *)
(* once, so "enough compatible logs answer" is "the eligible logs satisfy  *)
(* the policy".                                                            *)
(*                                                                         *)
(* WHERE KNOWN.  The property leaves open when a log's accepted roots are  *)
(* known; the distributor has a definite behaviour, stated here as named   *)
(* clauses:                                                                *)
(*   KnownByLastRefresh   a log's roots are known iff its get-roots was    *)
(*                        answered in the LAST root refresh that completed *)
(*                        (none yet: nothing is known); a failure leaves   *)
(*                        the log with unknown roots, whatever the other   *)
(*                        logs - usable, pending or qualified - answered.  *)
(*   OptionKnowsNothing   built with the option that disables the root     *)
(*                        compatibility check, the distributor asks no log *)
(*                        for its roots: no roots are ever known.  The     *)
(*                        option switches off NOTHING ELSE: state and      *)
(*                        temporal interval decide as without it.          *)
(*   PendingLoad          a caller that asks for it (loadPendingLogs) may  *)
(*                        have the chain sent to pending / qualified logs  *)
(*                        too; what they answer is not among the SCTs      *)
(*                        returned and does not count for the policy.      *)
(***************************************************************************)
EXTENDS Integers, FiniteSets, Sequences, TLC

VARIABLE c

D == INSTANCE Distributor      \* Eligible, InWindow, None: the one-log operators

None == -1
Slots == {"G1", "G2", "N1", "N2"}
GoogleSlots == {"G1", "G2"}                       \* N1, N2: two other operators
ClientStates == {"usable", "pending", "qualified"} \* a log client exists (and is asked for roots) for these only
ListStates == ClientStates \cup {"retired"}

\* what a log answers to get-roots: nothing (the request fails) or a root set
Answers == {"fail", "RA", "RB", "RAB"}
RootsOf(a) == IF a = "RA" THEN {"RA"} ELSE IF a = "RB" THEN {"RB"} ELSE IF a = "RAB" THEN {"RA", "RB"} ELSE {}

\* temporal intervals as <<start, limit>> ticks; <<None, None>>: the log has none.  NotAfter is tick 4:
\* <<2,6>> inside, <<4,6>> NotAfter = start (inside), <<2,4>> NotAfter = limit (outside), <<5,7>> and <<1,3>> outside
NoIv == <<None, None>>
IvAll == {NoIv, <<2, 6>>, <<4, 6>>, <<2, 4>>, <<5, 7>>, <<1, 3>>}
IvCore == {NoIv, <<4, 6>>, <<2, 4>>}
NotAfterTick == 4

\* the roots known for slot s after the refresh history of case x (KnownByLastRefresh, OptionKnowsNothing)
LastAns(x, s) == IF Len(x.refreshes) = 0 THEN "fail" ELSE x.refreshes[Len(x.refreshes)][s]
Known(x, s) == /\ ~x.noRootCheck
               /\ x.logs[s].state \in ClientStates
               /\ LastAns(x, s) # "fail"

\* slot s of case x as a log of Distributor.tla
AsLog(x, s) == [state |-> x.logs[s].state,
                hasInterval |-> x.logs[s].iv # NoIv, start |-> x.logs[s].iv[1], limit |-> x.logs[s].iv[2],
                rootsKnown |-> Known(x, s), roots |-> RootsOf(LastAns(x, s))]

Elig(x) == {s \in Slots : D!Eligible(AsLog(x, s), x.cert)}

Satisfies(x, S) == /\ Cardinality(S) >= x.total
                   /\ (x.policy = "chrome" => (S \cap GoogleSlots # {} /\ S \ GoogleSlots # {}))

PendingSlots(x) == {s \in Slots : x.logs[s].state \in {"pending", "qualified"}}

Expect(x) == [eligible |-> Elig(x),                      \* the only logs whose SCT may be returned
              success |-> Satisfies(x, Elig(x)),         \* the verdict: every log answers, so sound and complete
              mayContact |-> Elig(x) \cup (IF x.pending THEN PendingSlots(x) ELSE {}),   \* PendingLoad
              known |-> {s \in Slots : Known(x, s)}]

(***************************************************************************)
(* The case space.  Four families:                                         *)
(*  R  the root-refresh dimension: every (state, get-roots answer) of the  *)
(*     four logs, one refresh, no intervals, both policies;                *)
(*  T  the option x temporal dimension: every (state, interval) of the     *)
(*     four logs under every option set, both methods, both policies, the  *)
(*     logs all answering get-roots alike;                                 *)
(*  H  the refresh-history dimension: two refreshes, every pair of answers *)
(*     of four usable logs;                                                *)
(*  S  the cross product of everything (incl. refresh histories of length  *)
(*     0..2, all intervals, lifetime classes, pending load, chain without  *)
(*     its root), drawn at random by the simulator (MCDistributorListSim). *)
(* G1/G2 and N1/N2 are interchangeable in R and T: one representative of   *)
(* each unordered pair is kept (Rank orders a slot's value).               *)
(***************************************************************************)
Cert(root) == [notAfter |-> NotAfterTick, root |-> root]

StateRank(st) == CASE st = "usable" -> 0 [] st = "pending" -> 1 [] st = "qualified" -> 2 [] OTHER -> 3
AnsRank(a) == CASE a = "fail" -> 0 [] a = "RA" -> 1 [] a = "RB" -> 2 [] OTHER -> 3
IvRank(iv) == IF iv = NoIv THEN 0 ELSE iv[1] * 10 + iv[2]
Rank(lg, a) == StateRank(lg.state) * 1000 + AnsRank(a) * 100 + IvRank(lg.iv)

\* R: a retired log is asked nothing, so its answer is fixed
RLogVals == {<<[state |-> st, iv |-> NoIv], a>> : st \in ClientStates, a \in {"fail", "RA", "RB"}}
              \cup {<<[state |-> "retired", iv |-> NoIv], "fail">>}
RVecs == {v \in [Slots -> RLogVals] :
            /\ Rank(v["G1"][1], v["G1"][2]) <= Rank(v["G2"][1], v["G2"][2])
            /\ Rank(v["N1"][1], v["N1"][2]) <= Rank(v["N2"][1], v["N2"][2])}
RCases == {[t |-> "list", fam |-> "R", policy |-> p, noRootCheck |-> FALSE, pre |-> FALSE, pending |-> FALSE,
            sendRoot |-> TRUE, total |-> 2, cert |-> Cert("RA"),
            logs |-> [s \in Slots |-> v[s][1]], refreshes |-> <<[s \in Slots |-> v[s][2]]>>] :
             p \in {"chrome", "apple"}, v \in RVecs}

\* T: the interval of a log that is not usable decides nothing
TLogVals == {[state |-> "usable", iv |-> iv] : iv \in IvCore} \cup {[state |-> st, iv |-> NoIv] : st \in {"pending", "retired"}}
TVecs == {v \in [Slots -> TLogVals] :
            /\ Rank(v["G1"], "fail") <= Rank(v["G2"], "fail")
            /\ Rank(v["N1"], "fail") <= Rank(v["N2"], "fail")}
\* without the option: every log publishes the chain's root / no log answers get-roots; with it: every log would publish
\* a root set without the chain's root, had it been asked
TModes == {<<FALSE, "RA">>, <<FALSE, "fail">>, <<TRUE, "RB">>}
TCases == {[t |-> "list", fam |-> "T", policy |-> p, noRootCheck |-> m[1], pre |-> b, pending |-> FALSE,
            sendRoot |-> TRUE, total |-> 2, cert |-> Cert("RA"),
            logs |-> v, refreshes |-> <<[s \in Slots |-> m[2]]>>] :
             p \in {"chrome", "apple"}, m \in TModes, b \in BOOLEAN, v \in TVecs}

\* H: the refresh-history dimension (KnownByLastRefresh): four usable logs without intervals, every pair of answers
\* (first refresh, second refresh) per log; the submission follows the second refresh
HLogVals == {<<a1, a2>> : a1 \in {"fail", "RA", "RB"}, a2 \in {"fail", "RA", "RB"}}
HVecs == {v \in [Slots -> HLogVals] :
            /\ AnsRank(v["G1"][1]) * 10 + AnsRank(v["G1"][2]) <= AnsRank(v["G2"][1]) * 10 + AnsRank(v["G2"][2])
            /\ AnsRank(v["N1"][1]) * 10 + AnsRank(v["N1"][2]) <= AnsRank(v["N2"][1]) * 10 + AnsRank(v["N2"][2])}
HCases == {[t |-> "list", fam |-> "H", policy |-> p, noRootCheck |-> FALSE, pre |-> FALSE, pending |-> FALSE,
            sendRoot |-> TRUE, total |-> 2, cert |-> Cert("RA"),
            logs |-> [s \in Slots |-> [state |-> "usable", iv |-> NoIv]],
            refreshes |-> <<[s \in Slots |-> v[s][1]], [s \in Slots |-> v[s][2]]>>] :
             p \in {"chrome", "apple"}, v \in HVecs}

\* S: one random case per behaviour (bound with \E over a singleton: a LET would re-draw at every use)
SLogVals == {[state |-> st, iv |-> iv] : st \in ListStates, iv \in IvAll}
AnsVecs == [Slots -> Answers]
Draw(x) == \E p \in {RandomElement({"chrome", "apple"})}, o \in {RandomElement(BOOLEAN)}, b \in {RandomElement(BOOLEAN)},
              pl \in {RandomElement(BOOLEAN)}, sr \in {RandomElement(BOOLEAN)}, n \in {RandomElement({2, 3})},
              r \in {RandomElement({"RA", "RB"})}, k \in {RandomElement(0..2)},
              a1 \in {RandomElement(AnsVecs)}, a2 \in {RandomElement(AnsVecs)},
              l1 \in {RandomElement(SLogVals)}, l2 \in {RandomElement(SLogVals)}, l3 \in {RandomElement(SLogVals)}, l4 \in {RandomElement(SLogVals)},
              u \in {RandomElement(SUBSET Slots)} :
           x = [t |-> "list", fam |-> "S", policy |-> p, noRootCheck |-> o, pre |-> b, pending |-> pl, sendRoot |-> sr, total |-> n,
                cert |-> Cert(r),
                \* the slots of u are made usable: a uniform draw of four states leaves too few lists a policy can be met on
                logs |-> [s \in Slots |-> LET lg == CASE s = "G1" -> l1 [] s = "G2" -> l2 [] s = "N1" -> l3 [] OTHER -> l4
                                          IN IF s \in u THEN [lg EXCEPT !.state = "usable"] ELSE lg],
                refreshes |-> IF k = 0 THEN <<>> ELSE IF k = 1 THEN <<a1>> ELSE <<a1, a2>>]

Empty == [t |-> "none"]
InitCore == c \in RCases \cup TCases \cup HCases
InitSim == c = Empty
NextCore == UNCHANGED c
NextSim == c = Empty /\ Draw(c')

(***************************************************************************)
(* Model-level sanity of the expectation (checked on every case).          *)
(***************************************************************************)
IsCase == c.t = "list"
\* only usable logs are eligible; a success needs as many eligible logs as SCTs demanded
ListSane == IsCase => /\ \A s \in Expect(c).eligible : c.logs[s].state = "usable"
                      /\ (Expect(c).success => Cardinality(Expect(c).eligible) >= c.total)
                      /\ Expect(c).eligible \subseteq Expect(c).mayContact
\* OptionKnowsNothing: under the option exactly the usable logs whose interval contains NotAfter are eligible
OptionSane == (IsCase /\ c.noRootCheck) =>
                 Expect(c).eligible = {s \in Slots : c.logs[s].state = "usable"
                                                     /\ (c.logs[s].iv = NoIv \/ D!InWindow(c.cert.notAfter, c.logs[s].iv[1], c.logs[s].iv[2]))}
\* KnownByLastRefresh: a usable log in the window whose last get-roots failed stays eligible whatever the others answered
UnknownStaysEligible == IsCase => \A s \in Slots :
                          (c.logs[s].state = "usable" /\ LastAns(c, s) = "fail"
                           /\ (c.logs[s].iv = NoIv \/ D!InWindow(c.cert.notAfter, c.logs[s].iv[1], c.logs[s].iv[2])))
                          => s \in Expect(c).eligible
\* before the first refresh nothing is known
NothingKnownAtStart == (IsCase /\ Len(c.refreshes) = 0) => Expect(c).known = {}
=============================================================================
