-------------------------- MODULE SubmissionTrace --------------------------
(***************************************************************************)
(* Trace validation for submission.GetSCTs.  The hook H4 emits one event   *)
(* per critical section of safeSubmissionState while its mutex is held,    *)
(* with a snapshot of groupNeeds and of the per-log results; the harness   *)
(* adds Reset (a new GetSCTs call) and Return (what GetSCTs returned).     *)
(* Every event must be the corresponding effect of Submission.tla on the   *)
(* shared state (RequestKind, SetResultSCT, Sweep are the operators the    *)
(* goroutine-level specification uses), and the returned verdict must be   *)
(* sound and honest with respect to the state reached.  Reset carries what *)
(* each log was scripted to answer (the outcome variable of the            *)
(* specification): a result may only be set with an SCT for a log whose    *)
(* outcome is an SCT (ErrorWins, NothingIsNoSCT).                          *)
(***************************************************************************)
EXTENDS Submission, Json, IOUtils

Trace == ndJsonDeserialize(IOEnv.TRACE_FILE)

VARIABLE l
tvars == <<needs, results, cancels, l>>

Ev(name) == l <= Len(Trace) /\ Trace[l].ev = name

\* the snapshot logged by the hook, projected like the specification's variables
SnapNeeds(e) == [g \in Groups |-> e.needs[g]]
SnapResults(e) == [x \in Logs |-> IF x \in DOMAIN e.results THEN e.results[x] ELSE "none"]
\* an SCT that no group needed leaves the placeholder result in place
Proj(r) == [x \in Logs |-> IF r[x] = "dropped" THEN "pending" ELSE r[x]]
SnapCancellable(e) == {e.cancellable[i] : i \in 1..Len(e.cancellable)}
Cancellable(c) == {x \in Logs : c[x]}
\* the hook prints a stored (nil, nil) pair like the placeholder of a request in flight
SnapMatches(e, r) == \A x \in Logs : \/ SnapResults(e)[x] = Proj(r)[x]
                                      \/ (outcome[x] = "neither" /\ r[x] = "err" /\ SnapResults(e)[x] = "pending")

TraceInit ==
  /\ l = 1
  /\ needs = [g \in Groups |-> Min[g]]
  /\ results = [x \in Logs |-> "none"]
  /\ cancels = [x \in Logs |-> FALSE]
  /\ cancelled = [x \in Logs |-> FALSE] /\ done = [x \in Logs |-> FALSE]
  /\ pc = [p \in Pairs |-> "timer"] /\ collected = [g \in Groups |-> 0] /\ gstate = [g \in Groups |-> "running"]
  /\ consumed = {} /\ gcomplete = [g \in Groups |-> FALSE] /\ ret = NoRet /\ ctxDone = FALSE
  /\ submits = [x \in Logs |-> 0] /\ outcome = [x \in Logs |-> "sct"] /\ sess = [g \in Groups |-> Members[g]]
  /\ TLCSet(1, 1)

Frame == UNCHANGED <<cancelled, done, pc, collected, gstate, consumed, gcomplete, ret, ctxDone, submits, sess>>

TraceReset ==
  /\ Ev("Reset")
  /\ needs' = [g \in Groups |-> Min[g]]
  /\ results' = [x \in Logs |-> "none"]
  /\ cancels' = [x \in Logs |-> FALSE]
  /\ outcome' = [x \in Logs |-> IF "outcome" \in DOMAIN Trace[l] /\ x \in DOMAIN Trace[l].outcome THEN Trace[l].outcome[x] ELSE "sct"]
  /\ l' = l + 1 /\ Frame

TraceRequest ==
  /\ l <= Len(Trace) /\ Trace[l].ev \in {"request-first", "request-dup", "request-unneeded"}
  /\ LET e == Trace[l] k == RequestKind(e.log) IN
     /\ e.ev = "request-" \o k                       \* the decision the code took is the specified one
     /\ results' = IF k = "dup" THEN results ELSE [results EXCEPT ![e.log] = "pending"]
     /\ cancels' = IF k = "first" THEN [cancels EXCEPT ![e.log] = TRUE] ELSE cancels
     /\ UNCHANGED needs
     /\ SnapNeeds(e) = needs /\ SnapMatches(e, results') /\ SnapCancellable(e) = Cancellable(cancels')
  /\ l' = l + 1 /\ Frame /\ UNCHANGED outcome

TraceSetResult ==
  /\ Ev("setResult")
  /\ LET e == Trace[l] IN
     /\ results[e.log] = "pending"                   \* a result is only set for a log that was requested, once
     /\ (e.flag => IsSCT(outcome[e.log]))            \* only an outcome without error is an SCT
     /\ IF ~e.flag
        THEN /\ results' = [results EXCEPT ![e.log] = "err"]
             /\ UNCHANGED <<needs, cancels>>
        ELSE LET r == SetResultSCT(e.log) IN
             /\ needs' = r.needs
             /\ results' = [results EXCEPT ![e.log] = IF r.stored THEN "sct" ELSE "dropped"]
             /\ cancels' = Sweep(r.needs, cancels)
     /\ SnapNeeds(e) = needs' /\ SnapMatches(e, results') /\ SnapCancellable(e) = Cancellable(cancels')
  /\ l' = l + 1 /\ Frame /\ UNCHANGED outcome

\* groupComplete() and collectSCTs() only read
TraceRead ==
  /\ l <= Len(Trace) /\ Trace[l].ev \in {"groupComplete", "collect"}
  /\ LET e == Trace[l] IN SnapNeeds(e) = needs /\ SnapMatches(e, results)
  /\ l' = l + 1 /\ UNCHANGED <<needs, results, cancels, outcome>> /\ Frame

\* what GetSCTs returned, judged against the state reached
TraceReturn ==
  /\ Ev("Return")
  /\ LET e == Trace[l]
         got == {e.scts[i] : i \in 1..Len(e.scts)}
     IN /\ got = SCTs                                                  \* exactly the SCTs that were kept, one per log
        /\ (~e.err => Satisfies(got))                                  \* success is sound
        /\ ((e.err /\ ~e.cancelled) => ~Satisfies(got))                \* failure is honest
        /\ got \subseteq Answering                                     \* only logs that answered with an SCT are in it
  /\ l' = l + 1 /\ UNCHANGED <<needs, results, cancels, outcome>> /\ Frame

TraceNext == TraceReset \/ TraceRequest \/ TraceSetResult \/ TraceRead \/ TraceReturn

TraceView == <<needs, results, cancels, l>>
HighWater == TLCSet(1, IF TLCGet(1) < l THEN l ELSE TLCGet(1))
TraceAccepted ==
  IF TLCGet(1) = Len(Trace) + 1 THEN TRUE
  ELSE /\ PrintT(<<"STUCK", ToJson([line |-> TLCGet(1), event |-> Trace[TLCGet(1)]])>>)
       /\ FALSE

\* invariants of Submission.tla that speak about the shared state only
TraceNeedsAccount == NeedsAccount
TraceOnlyAnswers == \A x \in Logs : results[x] \in {"sct", "dropped"} => IsSCT(outcome[x])
=============================================================================
