\* thorough tier: three callers on one type (sound disciplines)
CONSTANTS
  Callers = {"g1", "g2", "g3"}
  Types = {"t1"}
  Args = {"a1", "a2"}
  NCells = 2
  Disciplines = {"stateless", "fill-then-publish"}
INIT Init
NEXT Next
INVARIANTS TypeOK FunctionLaw Returned
CHECK_DEADLOCK FALSE
