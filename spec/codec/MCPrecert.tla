----------------------------- MODULE MCPrecert -----------------------------
(* Case enumeration for Precert: one state per case, the laws as invariants, every case exported as  *)
(* JSON (-workers 1) with the model's expected abstract results for replay into x509.BuildPrecertTBS, *)
(* RemoveCTPoison, RemoveSCTList, ct.MerkleTreeLeafFrom(Raw)Chain / ForEmbeddedSCT, ctutil.VerifySCT. *)
EXTENDS Precert, Json

CONSTANTS
  MaxExts,     \* extension lists of length 0..MaxExts
  CritPats,    \* criticality patterns
  SctMax       \* SCT lists of length 1..SctMax in the list cases

(* ---------- extension layouts ---------- *)
Rank == [id \in Ids |-> CASE id = "SAN" -> 1 [] id = "BC" -> 2 [] id = "EKU" -> 3 [] id = "U1" -> 4 [] id = "U2" -> 5 [] OTHER -> 0]
Special == {"POISON", "SCTLIST", "AKI"}
Cnt(s, id) == Cardinality({i \in DOMAIN s : s[i] = id})
\* the ordinary extensions keep one relative order (every subset of them occurs), the poison, the SCT list and
\* the AKI take every position; zero, one and two poisons / SCT lists
OrdinaryOrdered(s) == \A i, j \in DOMAIN s : (i < j /\ s[i] \notin Special /\ s[j] \notin Special) => Rank[s[i]] < Rank[s[j]]
Layouts == {s \in UNION {[1..n -> Ids] : n \in 0..MaxExts} :
               /\ Cnt(s, "POISON") <= 2 /\ Cnt(s, "SCTLIST") <= 2 /\ Cnt(s, "AKI") <= 1
               /\ OrdinaryOrdered(s)}
\* duplicates and other orders of ordinary extensions: none of the functions may touch them
DupLayouts == {<<"U1", "POISON", "U1">>, <<"U2", "SAN", "POISON", "SAN">>, <<"POISON", "BC", "BC">>,
               <<"EKU", "U1", "AKI", "POISON", "SAN">>, <<"U2", "U2", "SCTLIST">>, <<"U1", "AKI", "U1", "POISON">>,
               <<"SAN", "POISON", "AKI", "SAN">>, <<"U2", "POISON", "U1", "BC">>}

Occ(s, i) == Cardinality({j \in 1..i : s[j] = s[i]})
Crit(id, occ, pat) ==
  IF pat = "std" THEN id \in {"POISON", "BC"}
  ELSE IF occ = 1 THEN id \in {"AKI", "SAN", "EKU", "SCTLIST", "U1"} ELSE id \in {"POISON", "U2"}
Val(c, i) == LET id == c.layout[i] IN
  IF id = "AKI" THEN c.aki ELSE IF id = "POISON" THEN "null" ELSE IF Occ(c.layout, i) = 1 THEN "v1" ELSE "v2"

(* ---------- opaque field encodings ---------- *)
DefaultEnc == [serial |-> "small", validity |-> "utc", iname |-> "printable", sname |-> "printable",
               key |-> "p256", ikey |-> "p256", uid |-> "none", uext |-> "std"]
\* Serial numbers by VALUE (sign, magnitude digits); the contents octets are IntOctets(value).  The set is the
\* boundary set of the INTEGER encoding for 1, 2, 3, 20 and 21 octets: zero; positive numbers with and without the
\* 00 octet in front (7f | 00 80, 00 ff | 01 00, 00 80 00, 7f ff..ff | 00 80 5a..5a); negative numbers with and
\* without the ff octet in front (-1 = ff, -127 = 81, -128 = 80 | -129 = ff 7f, -255 = ff 01, -256 = ff 00,
\* -32768 = 80 00 | -32769 = ff 7f ff) and at 20 / 21 octets (-2^159 = 80 00..00, -2^159+1 = 80 00..01,
\* -2^159-1 = ff 7f ff..ff).  RFC 5280 4.1.2.2 wants positive serial numbers of at most 20 octets and tells users to
\* "be prepared to gracefully handle" the others, which exist in the logs.
Rep(x, n) == [i \in 1..n |-> x]
SerialValue ==
  [small   |-> IntV(FALSE, <<1, 226, 64>>),        other   |-> IntV(FALSE, <<1, 226, 65>>),
   zero    |-> IntV(FALSE, <<>>),                  p127    |-> IntV(FALSE, <<127>>),
   p128    |-> IntV(FALSE, <<128>>),               p255    |-> IntV(FALSE, <<255>>),
   p256    |-> IntV(FALSE, <<1, 0>>),              p32768  |-> IntV(FALSE, <<128, 0>>),
   long20  |-> IntV(FALSE, <<127>> \o Rep(165, 19)), max20 |-> IntV(FALSE, <<127>> \o Rep(255, 19)),
   long21  |-> IntV(FALSE, <<128>> \o Rep(90, 19)),
   m1      |-> IntV(TRUE, <<1>>),                  m127    |-> IntV(TRUE, <<127>>),
   m128    |-> IntV(TRUE, <<128>>),                neg     |-> IntV(TRUE, <<129>>),
   m255    |-> IntV(TRUE, <<255>>),                m256    |-> IntV(TRUE, <<1, 0>>),
   m32768  |-> IntV(TRUE, <<128, 0>>),             m32769  |-> IntV(TRUE, <<128, 1>>),
   min20   |-> IntV(TRUE, <<128>> \o Rep(0, 19)),  min20p1 |-> IntV(TRUE, <<127>> \o Rep(255, 19)),
   neg21   |-> IntV(TRUE, <<128>> \o Rep(0, 18) \o <<1>>)]
Serials == DOMAIN SerialValue \ {"other"}
SerialOctets == [n \in DOMAIN SerialValue |-> IntOctets(SerialValue[n])]
\* lengths and object identifier arcs at the boundaries of their encodings (one, two, three length octets; one to
\* five subidentifier octets); ULens are lengths of the value of the unknown extension U2, UArcs last arcs of the
\* identifier of the unknown extension U1 (see UExts below)
LenBoundary == {0, 1, 127, 128, 129, 255, 256, 257, 65535, 65536, 65537, 16777215, 16777216}
ArcBoundary == {0, 1, 127, 128, 129, 16383, 16384, 2097151, 2097152, 268435455, 268435456, 2147483647}
\* the laws of the DER primitives on the serial numbers of the case space, on every one-octet string, on two-octet
\* strings with a boundary octet in either place, on 3-, 20- and 21-octet strings of boundary octets, and on the
\* boundaries of lengths and arcs (evaluated once)
BoundaryOctets == {0, 1, 127, 128, 129, 254, 255}
ASSUME ModelLaws ==
  /\ \A n \in DOMAIN SerialValue : IntEncodingLaw(SerialValue[n]) /\ IntRoundTripLaw(SerialOctets[n])
  /\ \A a \in 0..255 : IntRoundTripLaw(<<a>>) /\ \A b \in BoundaryOctets : IntRoundTripLaw(<<a, b>>) /\ IntRoundTripLaw(<<b, a>>)
  /\ \A a, b, c3 \in BoundaryOctets : IntRoundTripLaw(<<a, b, c3>>) /\ IntRoundTripLaw(<<a, b, c3>> \o Rep(0, 17)) /\ IntRoundTripLaw(<<a, b>> \o Rep(255, 18) \o <<c3>>)
  /\ \A a \in 1..255, b \in BoundaryOctets : IntEncodingLaw(IntV(TRUE, <<a, b>>)) /\ IntEncodingLaw(IntV(FALSE, <<a, b>>)) /\ IntEncodingLaw(IntV(TRUE, <<a>> \o Rep(0, 18) \o <<b>>))
  \* the values named in the comment have the octets named in the comment
  /\ SerialOctets["m128"] = <<128>> /\ SerialOctets["neg"] = <<255, 127>> /\ SerialOctets["m32768"] = <<128, 0>>
  /\ SerialOctets["p128"] = <<0, 128>> /\ SerialOctets["p32768"] = <<0, 128, 0>> /\ SerialOctets["zero"] = <<0>>
  /\ SerialOctets["min20"] = <<128>> \o Rep(0, 19) /\ SerialOctets["min20p1"] = <<128>> \o Rep(0, 18) \o <<1>>
  /\ SerialOctets["neg21"] = <<255, 127>> \o Rep(255, 19) /\ SerialOctets["max20"] = <<127>> \o Rep(255, 19)
  /\ SerialOctets["long21"] = <<0, 128>> \o Rep(90, 19) /\ SerialOctets["m256"] = <<255, 0>> /\ SerialOctets["m1"] = <<255>>
  /\ SctFormLaw(Entry("k1", "tbs1"), Entry("k1", "tbs2")) /\ SctFormLaw(Entry("k1", "tbs1"), Entry("k2", "tbs1"))
  /\ \A n \in LenBoundary : LenLaw(n)
  /\ \A a \in ArcBoundary : ArcLaw(a)
  /\ LenOctets(127) = <<127>> /\ LenOctets(128) = <<129, 128>> /\ LenOctets(256) = <<130, 1, 0>> /\ LenOctets(65536) = <<131, 1, 0, 0>>
  /\ ArcOctets(127) = <<127>> /\ ArcOctets(128) = <<129, 0>> /\ ArcOctets(16384) = <<129, 128, 0>> /\ ArcOctets(11129) = <<214, 121>>
Validities == {"utc", "utc50", "utcgen", "gengen"}        \* UTCTime through 2049, GeneralizedTime from 2050 (RFC 5280 4.1.2.5)
INames == {"printable", "utf8", "t61", "bmp", "multirdn", "utf8sp"}
SNames == INames \cup {"empty"}
Keys == {"p256", "p384", "rsa2048", "ed25519"}
UIDs == {"none", "iss", "subj", "both", "issempty"}   \* issempty: a zero-length BIT STRING
\* U1 and U2 stand for extensions the code does not know.  Their identifiers and values are opaque to the
\* specification, but an implementation that re-encodes writes the identifier's arcs and every enclosing length
\* afresh: "std" is 1.3.6.1.4.1.99999.1 / .2 with values of 200 / 300 octets; aN gives U1 the identifier
\* 1.3.6.1.4.1.99999.1.N (N at the boundaries of the base-128 subidentifier), "joint" gives it 2.999.3 (the first two
\* arcs share one subidentifier, 1079, of two octets); lN gives U2 a value of exactly N octets (N at the boundaries
\* of the length octets; 0 = an empty extnValue).
UArc == [a0 |-> 0, a127 |-> 127, a128 |-> 128, a16383 |-> 16383, a16384 |-> 16384, a2097151 |-> 2097151,
         a2097152 |-> 2097152, a268435455 |-> 268435455, a268435456 |-> 268435456, amax |-> 2147483647]
ULen == [l0 |-> 0, l1 |-> 1, l127 |-> 127, l128 |-> 128, l255 |-> 255, l256 |-> 256, l65535 |-> 65535, l65536 |-> 65536]
UExts == {"std", "joint"} \cup DOMAIN UArc \cup DOMAIN ULen
ASSUME \A t \in DOMAIN UArc : UArc[t] \in ArcBoundary
ASSUME \A t \in DOMAIN ULen : ULen[t] \in LenBoundary
ULayouts == {<<"U1", "AKI", "SAN", "POISON", "U2">>, <<"POISON", "U2", "U1">>, <<"U2", "U1", "AKI", "POISON">>}
EncSet ==
  {[DefaultEnc EXCEPT !.serial = x] : x \in Serials} \cup {[DefaultEnc EXCEPT !.validity = x] : x \in Validities} \cup
  {[DefaultEnc EXCEPT !.iname = x] : x \in INames} \cup {[DefaultEnc EXCEPT !.sname = x] : x \in SNames} \cup
  {[DefaultEnc EXCEPT !.key = x] : x \in Keys} \cup {[DefaultEnc EXCEPT !.ikey = x] : x \in Keys} \cup
  {[DefaultEnc EXCEPT !.uid = x] : x \in UIDs} \cup
  {[serial |-> "neg", validity |-> "gengen", iname |-> "utf8", sname |-> "t61", key |-> "rsa2048", ikey |-> "p384", uid |-> "both", uext |-> "a128"],
   [serial |-> "long21", validity |-> "utcgen", iname |-> "multirdn", sname |-> "empty", key |-> "ed25519", ikey |-> "rsa2048", uid |-> "iss", uext |-> "l256"],
   [serial |-> "long20", validity |-> "gengen", iname |-> "bmp", sname |-> "utf8sp", key |-> "p384", ikey |-> "ed25519", uid |-> "subj", uext |-> "joint"],
   [serial |-> "min20", validity |-> "utcgen", iname |-> "t61", sname |-> "utf8", key |-> "p256", ikey |-> "rsa2048", uid |-> "issempty", uext |-> "l128"],
   [serial |-> "m128", validity |-> "utc50", iname |-> "utf8sp", sname |-> "bmp", key |-> "rsa2048", ikey |-> "p256", uid |-> "subj", uext |-> "amax"]}
EncLayouts == {<<"POISON">>, <<"AKI", "POISON", "SAN">>, <<"SAN", "BC", "POISON">>, <<"POISON", "AKI">>,
               <<"U1", "AKI", "SAN", "POISON", "U2">>}

(* ---------- logs, SCT kinds, SCT lists ---------- *)
\* the logs: key type, hash function of the signature (RFC 6962 2.1.4 has SHA-256 throughout; the hash is declared in
\* the signature and the library follows the declaration - C05, clause HashSupport - so a log that signs with another
\* hash function still "signed that precertificate"), and whether RFC 6962 2.1.4 knows the key
LogTable ==
  [LOG1 |-> [name |-> "LOG1", scheme |-> "ecdsa", key |-> "p256",    hash |-> "sha256", compliant |-> TRUE],
   LOG2 |-> [name |-> "LOG2", scheme |-> "rsa",   key |-> "rsa2048", hash |-> "sha256", compliant |-> TRUE],
   LOG3 |-> [name |-> "LOG3", scheme |-> "ecdsa", key |-> "p384",    hash |-> "sha384", compliant |-> FALSE],
   LOG4 |-> [name |-> "LOG4", scheme |-> "ecdsa", key |-> "p256",    hash |-> "sha512", compliant |-> TRUE],
   LOG5 |-> [name |-> "LOG5", scheme |-> "rsa",   key |-> "rsa3072", hash |-> "sha384", compliant |-> TRUE],
   LOG6 |-> [name |-> "LOG6", scheme |-> "ecdsa", key |-> "p521",    hash |-> "sha256", compliant |-> FALSE]]
LogNames == DOMAIN LogTable
\* an SCT kind: which log, the form of the signature value, over what the log signed ("this" = the entry of this
\* precertificate, "othertbs" = another TBSCertificate, "otherikh" = this TBSCertificate under another issuer key
\* hash), and whether the SCT carries extensions
K(log, form, over, ext) == [log |-> log, form |-> form, over |-> over, ext |-> ext]
Overs == {"this", "othertbs", "otherikh"}
G == K("LOG1", "exact", "this", FALSE)
G2 == K("LOG2", "exact", "this", FALSE)
BaseKinds == {G, G2, K("LOG1", "exact", "this", TRUE), K("LOG1", "exact", "othertbs", FALSE), K("LOG1", "exact", "otherikh", FALSE)}
AllKinds ==
  {K(l, f, "this", FALSE) : l \in LogNames, f \in ExactForms \cup TrailingForms \cup BrokenForms \cup {"trail00", "cut"}} \cup
  {K(l, "exact", o, e) : l \in LogNames, o \in Overs, e \in BOOLEAN} \cup
  \* octets after the value do not make another entry's signature this entry's
  {K(l, f, o, FALSE) : l \in {"LOG1", "LOG3"}, f \in TrailingForms, o \in Overs}
Kinds == {k \in AllKinds : k.form \in SigForms(LogTable[k.log].scheme)}
\* lists: every list of 1..SctMax base kinds; every kind alone, first and last of a list
SctLists == UNION {[1..n -> BaseKinds] : n \in 1..SctMax} \cup
            UNION {{<<k>>, <<G, k>>, <<k, G2, G>>} : k \in Kinds}
T1 == K("LOG1", "trail0000", "this", FALSE)
T3 == K("LOG3", "trail00", "this", FALSE)
\* every layout case carries a list that mixes verifying and non-verifying SCTs; under the "std" criticality pattern
\* one of them is a signature value with trailing octets
DefaultScts(s, pat) ==
  LET extra(k) == IF pat = "std" THEN <<k>> ELSE <<>> IN
  CASE Len(s) % 3 = 0 -> <<G>>
    [] Len(s) % 3 = 1 -> <<K("LOG1", "exact", "othertbs", FALSE), G>> \o extra(T1)
    [] OTHER -> <<G, K("LOG1", "exact", "otherikh", FALSE), G2>> \o extra(T3)

(* ---------- cases ---------- *)
Case(s, pat, mode, preAki, preEku, enc, scts) ==
  [layout |-> s, crit |-> pat, aki |-> IF Cnt(s, "AKI") = 0 THEN "none" ELSE IF pat = "alt" THEN "k1full" ELSE "k1", mode |-> mode,
   preAki |-> preAki, preEku |-> preEku, enc |-> enc, scts |-> scts]
\* AKI values are opaque to the specification; the forms of RFC 5280 4.2.1.1 they stand for:
\*   k1, k2   keyIdentifier only          k1full, k2full   keyIdentifier + authorityCertIssuer + authorityCertSerialNumber
\*   isonly   authorityCertIssuer + authorityCertSerialNumber, no keyIdentifier
\* The precertificate carries k1 (k1full under the "alt" pattern); the pre-issuer none or any of k1, k2, k2full, isonly.
Modes == {<<"direct", "none", TRUE>>, <<"pre", "none", TRUE>>, <<"pre", "k1", TRUE>>, <<"pre", "k2", TRUE>>,
          <<"pre", "k2full", TRUE>>, <<"pre", "isonly", TRUE>>, <<"pre", "k2", FALSE>>}
LayoutCases == {Case(s, pat, m[1], m[2], m[3], DefaultEnc, DefaultScts(s, pat)) : s \in Layouts \cup DupLayouts, pat \in CritPats, m \in Modes}
EncCases == {Case(s, "std", m[1], m[2], m[3], e, <<G>>) :
                s \in EncLayouts, e \in EncSet, m \in {<<"direct", "none", TRUE>>, <<"pre", "k2", TRUE>>, <<"pre", "none", TRUE>>,
                                                       <<"pre", "k2full", TRUE>>}}
UCases == {Case(s, pat, m[1], m[2], m[3], [DefaultEnc EXCEPT !.uext = x], <<G>>) :
              s \in ULayouts, pat \in CritPats, x \in UExts \ {"std"},
              m \in {<<"direct", "none", TRUE>>, <<"pre", "k2", TRUE>>, <<"pre", "none", TRUE>>}}
SctCases == {Case(<<"AKI", "POISON", "SAN">>, "std", m[1], m[2], m[3], DefaultEnc, l) :
                l \in SctLists, m \in {<<"direct", "none", TRUE>>, <<"pre", "k2", TRUE>>}}
Cases == LayoutCases \cup EncCases \cup UCases \cup SctCases

Name(n, enc) == [n |-> n, enc |-> enc]
TBSOf(c) ==
  [k |-> "tbs", serial |-> c.enc.serial, sig |-> c.enc.ikey,
   issuer |-> IF c.mode = "pre" THEN Name("PI", "printable") ELSE Name("CA", c.enc.iname),
   validity |-> c.enc.validity, subject |-> Name("LEAF", c.enc.sname), key |-> c.enc.key, uid |-> c.enc.uid,
   xf |-> Len(c.layout) > 0,
   exts |-> [i \in DOMAIN c.layout |-> Ext(c.layout[i], Crit(c.layout[i], Occ(c.layout, i), c.crit), Val(c, i))]]
PreOf(c) == IF c.mode = "direct" THEN None
            ELSE [k |-> "pre", issuer |-> Name("CA", c.enc.iname), aki |-> c.preAki, eku |-> c.preEku]

\* the SCT bodies of the model-level round trip law: token strings that contain length-like tokens (the signature
\* forms with trailing octets make bodies that end in zeros - tokens that look like the length of an empty item)
SctBody(k) == CASE k.form \in {"trail00", "trail0000"} -> <<2, 0, 0>>
                [] k.form \in TrailingForms -> <<1, 0, 4, 1, 0>>
                [] k.log = "LOG2" -> <<1, 0>>
                [] k.ext -> <<2, 1, 1>>
                [] k.over = "othertbs" -> <<0>>
                [] k.over = "otherikh" -> <<3, 3, 3, 1>>
                [] OTHER -> <<7>>

VARIABLE c
Init == c \in Cases
Next == UNCHANGED c

\* the model's verdict on every SCT of the case, against the entry of either route
ChainEntry == LET t == TBSOf(c)  pre == PreOf(c) IN
  IF pre = None THEN PrecertRouteEntry(t, None, "caKey", "rootKey") ELSE PrecertRouteEntry(t, pre, "preKey", "caKey")
EmbeddedEntry == LET f == Final(TBSOf(c), PreOf(c), "scts") IN IF IsErr(f) THEN f ELSE EmbeddedRouteEntry(f, "caKey")
SctOf(k, pr) == [log |-> k.log, form |-> k.form,
                 over |-> IF IsErr(pr) THEN pr
                          ELSE CASE k.over = "this" -> pr
                                 [] k.over = "othertbs" -> Entry(pr.ikh, [pr.tbs EXCEPT !.serial = "other"])
                                 [] OTHER -> Entry("otherKey", pr.tbs)]
\* pr: the entry the log was shown (the precertificate route's); entry: the entry the verifier computes
Verdict(k, pr, entry) == LET sct == SctOf(k, pr)  log == LogTable[k.log] IN
  [plain |-> VerifySCT(sct, log, entry, FALSE), optin |-> VerifySCT(sct, log, entry, TRUE)]
Verdicts(pr, entry) == [i \in DOMAIN c.scts |-> Verdict(c.scts[i], pr, entry)]
\* "an embedded SCT verifies exactly when the log signed that precertificate": where both routes give an entry the
\* verdicts agree, and they are "the log signed this entry and what it delivered is a signature value"
SctLaw ==
  LET pr == ChainEntry  er == EmbeddedEntry  vc == Verdicts(pr, pr)  ve == Verdicts(pr, er) IN
  \A i \in DOMAIN c.scts : LET k == c.scts[i]  log == LogTable[k.log] IN
    /\ k.form \in SigForms(log.scheme)
    \* (a certificate without the CT extended key usage is an ordinary issuer: no final certificate corresponds)
    /\ (~IsErr(pr) /\ ~IsErr(er) /\ (PreOf(c) = None \/ PreOf(c).eku)) =>
          /\ ve[i] = vc[i]
          /\ ve[i].optin <=> (k.over = "this" /\ SigFormOK(k.form, log.scheme))
          /\ ve[i].plain <=> (ve[i].optin /\ log.compliant)

Laws ==
  LET t == TBSOf(c)  pre == PreOf(c) IN
  /\ ExactlyOne(t, "POISON") /\ ExactlyOne(t, "SCTLIST")
  /\ OthersUntouched(t, "POISON") /\ OthersUntouched(t, "SCTLIST")
  /\ BuildTouchesOnly(t, pre)
  /\ Commutes(t, pre, "scts")
  /\ SameEntry(t, pre, "scts", "caKey", "preKey")
  /\ (pre # None /\ ~pre.eku => IsErr(BuildPrecertTBS(t, pre)))
  /\ LET f == Final(t, pre, "scts") IN ~IsErr(f) => ExactlyOne(f, "SCTLIST") /\ OthersUntouched(f, "SCTLIST")
  /\ SCTListRoundTrip([i \in DOMAIN c.scts |-> SctBody(c.scts[i])])
  /\ SctLaw

Tri(exts) == [i \in DOMAIN exts |-> <<exts[i].id, exts[i].crit, exts[i].val>>]
Out(x) == IF IsErr(x) \/ x = None THEN x ELSE [x EXCEPT !.exts = Tri(@)]
OutEntry(e) == IF IsErr(e) THEN e ELSE [e EXCEPT !.tbs = Out(@)]
Export ==
  LET t == TBSOf(c)  pre == PreOf(c)  f == Final(t, pre, "scts")  pr == ChainEntry  er == EmbeddedEntry IN
  PrintT(<<"CASE", ToJson([c |-> c, t |-> Out(t), pre |-> pre,
                           build |-> Out(BuildPrecertTBS(t, pre)),
                           rmpoison |-> Out(RemoveExt(t, "POISON")),
                           rmsct |-> Out(RemoveExt(t, "SCTLIST")),
                           final |-> Out(f),
                           finalrmsct |-> Out(IF IsErr(f) THEN f ELSE RemoveExt(f, "SCTLIST")),
                           clause |-> AkiClause(t, pre),
                           chain |-> OutEntry(pr),
                           embedded |-> OutEntry(er),
                           sctchain |-> Verdicts(pr, pr),
                           sctemb |-> Verdicts(pr, er)])>>)
\* the tables the harness materializes from (serial contents octets) or checks its own encoder against (lengths, arcs);
\* the entry points through which the final certificate of every case is read back (clause OwnOctetsOnly of Precert:
\* the chain final certificate, issuer, root is the sequence, the bundles of MCPrecertBundle vary the optional parts)
FixedArcs == [a840 |-> 840, a1079 |-> 1079, a10045 |-> 10045, a11129 |-> 11129, a99999 |-> 99999, a113549 |-> 113549]
ASSUME PrintT(<<"DER", ToJson([serials |-> SerialOctets,
                               lens |-> [t \in DOMAIN ULen |-> [n |-> ULen[t], octets |-> LenOctets(ULen[t])]],
                               arcs |-> [t \in DOMAIN UArc |-> [n |-> UArc[t], octets |-> ArcOctets(UArc[t])]] @@
                                        [t \in DOMAIN FixedArcs |-> [n |-> FixedArcs[t], octets |-> ArcOctets(FixedArcs[t])]],
                               logs |-> LogTable,
                               entrypoints |-> EntryPoints])>>)
NumCases == Cardinality(Cases)
=============================================================================
