----------------------------- MODULE MCPrecert -----------------------------
(* Case enumeration for Precert: one state per case, the laws as invariants, every case exported as  *)
(* JSON (-workers 1) with the model's expected abstract results for replay into x509.BuildPrecertTBS, *)
(* RemoveCTPoison, RemoveSCTList, ct.MerkleTreeLeafFrom(Raw)Chain / ForEmbeddedSCT, ctutil.VerifySCT. *)
EXTENDS Precert, Json

CONSTANTS
  MaxExts,     \* extension lists of length 0..MaxExts
  CritPats,    \* criticality patterns
  SctMax       \* SCT lists of length 1..SctMax in the list cases

(* ---------- extension layouts ---------- *)
Rank == [id \in Ids |-> CASE id = "SAN" -> 1 [] id = "BC" -> 2 [] id = "EKU" -> 3 [] id = "U1" -> 4 [] id = "U2" -> 5 [] OTHER -> 0]
Special == {"POISON", "SCTLIST", "AKI"}
Cnt(s, id) == Cardinality({i \in DOMAIN s : s[i] = id})
\* the ordinary extensions keep one relative order (every subset of them occurs), the poison, the SCT list and
\* the AKI take every position; zero, one and two poisons / SCT lists
OrdinaryOrdered(s) == \A i, j \in DOMAIN s : (i < j /\ s[i] \notin Special /\ s[j] \notin Special) => Rank[s[i]] < Rank[s[j]]
Layouts == {s \in UNION {[1..n -> Ids] : n \in 0..MaxExts} :
               /\ Cnt(s, "POISON") <= 2 /\ Cnt(s, "SCTLIST") <= 2 /\ Cnt(s, "AKI") <= 1
               /\ OrdinaryOrdered(s)}
\* duplicates and other orders of ordinary extensions: none of the functions may touch them
DupLayouts == {<<"U1", "POISON", "U1">>, <<"U2", "SAN", "POISON", "SAN">>, <<"POISON", "BC", "BC">>,
               <<"EKU", "U1", "AKI", "POISON", "SAN">>, <<"U2", "U2", "SCTLIST">>, <<"U1", "AKI", "U1", "POISON">>,
               <<"SAN", "POISON", "AKI", "SAN">>, <<"U2", "POISON", "U1", "BC">>}

Occ(s, i) == Cardinality({j \in 1..i : s[j] = s[i]})
Crit(id, occ, pat) ==
  IF pat = "std" THEN id \in {"POISON", "BC"}
  ELSE IF occ = 1 THEN id \in {"AKI", "SAN", "EKU", "SCTLIST", "U1"} ELSE id \in {"POISON", "U2"}
Val(c, i) == LET id == c.layout[i] IN
  IF id = "AKI" THEN c.aki ELSE IF id = "POISON" THEN "null" ELSE IF Occ(c.layout, i) = 1 THEN "v1" ELSE "v2"

(* ---------- opaque field encodings ---------- *)
DefaultEnc == [serial |-> "small", validity |-> "utc", iname |-> "printable", sname |-> "printable",
               key |-> "p256", ikey |-> "p256", uid |-> "none"]
Serials == {"small", "zero", "neg", "long20", "long21"}
Validities == {"utc", "utc50", "utcgen", "gengen"}        \* UTCTime through 2049, GeneralizedTime from 2050 (RFC 5280 4.1.2.5)
INames == {"printable", "utf8", "t61", "bmp", "multirdn", "utf8sp"}
SNames == INames \cup {"empty"}
Keys == {"p256", "p384", "rsa2048", "ed25519"}
UIDs == {"none", "iss", "subj", "both", "issempty"}   \* issempty: a zero-length BIT STRING
EncSet ==
  {[DefaultEnc EXCEPT !.serial = x] : x \in Serials} \cup {[DefaultEnc EXCEPT !.validity = x] : x \in Validities} \cup
  {[DefaultEnc EXCEPT !.iname = x] : x \in INames} \cup {[DefaultEnc EXCEPT !.sname = x] : x \in SNames} \cup
  {[DefaultEnc EXCEPT !.key = x] : x \in Keys} \cup {[DefaultEnc EXCEPT !.ikey = x] : x \in Keys} \cup
  {[DefaultEnc EXCEPT !.uid = x] : x \in UIDs} \cup
  {[serial |-> "neg", validity |-> "gengen", iname |-> "utf8", sname |-> "t61", key |-> "rsa2048", ikey |-> "p384", uid |-> "both"],
   [serial |-> "long21", validity |-> "utcgen", iname |-> "multirdn", sname |-> "empty", key |-> "ed25519", ikey |-> "rsa2048", uid |-> "iss"],
   [serial |-> "long20", validity |-> "gengen", iname |-> "bmp", sname |-> "utf8sp", key |-> "p384", ikey |-> "ed25519", uid |-> "subj"]}
EncLayouts == {<<"POISON">>, <<"AKI", "POISON", "SAN">>, <<"SAN", "BC", "POISON">>, <<"POISON", "AKI">>,
               <<"U1", "AKI", "SAN", "POISON", "U2">>}

(* ---------- SCT lists ---------- *)
SctKinds == {"good", "good2", "ext", "othertbs", "otherikh"}
SctLists == UNION {[1..n -> SctKinds] : n \in 1..SctMax}
DefaultScts(s) == CASE Len(s) % 3 = 0 -> <<"good">> [] Len(s) % 3 = 1 -> <<"othertbs", "good">> [] OTHER -> <<"good", "otherikh", "good2">>

(* ---------- cases ---------- *)
Case(s, pat, mode, preAki, preEku, enc, scts) ==
  [layout |-> s, crit |-> pat, aki |-> IF Cnt(s, "AKI") = 0 THEN "none" ELSE IF pat = "alt" THEN "k1full" ELSE "k1", mode |-> mode,
   preAki |-> preAki, preEku |-> preEku, enc |-> enc, scts |-> scts]
\* AKI values are opaque to the specification; the forms of RFC 5280 4.2.1.1 they stand for:
\*   k1, k2   keyIdentifier only          k1full, k2full   keyIdentifier + authorityCertIssuer + authorityCertSerialNumber
\*   isonly   authorityCertIssuer + authorityCertSerialNumber, no keyIdentifier
\* The precertificate carries k1 (k1full under the "alt" pattern); the pre-issuer none or any of k1, k2, k2full, isonly.
Modes == {<<"direct", "none", TRUE>>, <<"pre", "none", TRUE>>, <<"pre", "k1", TRUE>>, <<"pre", "k2", TRUE>>,
          <<"pre", "k2full", TRUE>>, <<"pre", "isonly", TRUE>>, <<"pre", "k2", FALSE>>}
LayoutCases == {Case(s, pat, m[1], m[2], m[3], DefaultEnc, DefaultScts(s)) : s \in Layouts \cup DupLayouts, pat \in CritPats, m \in Modes}
EncCases == {Case(s, "std", m[1], m[2], m[3], e, <<"good">>) :
                s \in EncLayouts, e \in EncSet, m \in {<<"direct", "none", TRUE>>, <<"pre", "k2", TRUE>>, <<"pre", "none", TRUE>>,
                                                       <<"pre", "k2full", TRUE>>}}
SctCases == {Case(<<"AKI", "POISON", "SAN">>, "std", m[1], m[2], m[3], DefaultEnc, l) :
                l \in SctLists, m \in {<<"direct", "none", TRUE>>, <<"pre", "k2", TRUE>>}}
Cases == LayoutCases \cup EncCases \cup SctCases

Name(n, enc) == [n |-> n, enc |-> enc]
TBSOf(c) ==
  [k |-> "tbs", serial |-> c.enc.serial, sig |-> c.enc.ikey,
   issuer |-> IF c.mode = "pre" THEN Name("PI", "printable") ELSE Name("CA", c.enc.iname),
   validity |-> c.enc.validity, subject |-> Name("LEAF", c.enc.sname), key |-> c.enc.key, uid |-> c.enc.uid,
   xf |-> Len(c.layout) > 0,
   exts |-> [i \in DOMAIN c.layout |-> Ext(c.layout[i], Crit(c.layout[i], Occ(c.layout, i), c.crit), Val(c, i))]]
PreOf(c) == IF c.mode = "direct" THEN None
            ELSE [k |-> "pre", issuer |-> Name("CA", c.enc.iname), aki |-> c.preAki, eku |-> c.preEku]

\* the SCT bodies of the model-level round trip law: token strings that contain length-like tokens
SctBody == [x \in SctKinds |-> CASE x = "good" -> <<7>> [] x = "good2" -> <<1, 0>> [] x = "ext" -> <<2, 1, 1>>
                                 [] x = "othertbs" -> <<0>> [] OTHER -> <<3, 3, 3, 1>>]

VARIABLE c
Init == c \in Cases
Next == UNCHANGED c

Laws ==
  LET t == TBSOf(c)  pre == PreOf(c) IN
  /\ ExactlyOne(t, "POISON") /\ ExactlyOne(t, "SCTLIST")
  /\ OthersUntouched(t, "POISON") /\ OthersUntouched(t, "SCTLIST")
  /\ BuildTouchesOnly(t, pre)
  /\ Commutes(t, pre, "scts")
  /\ SameEntry(t, pre, "scts", "caKey", "preKey")
  /\ (pre # None /\ ~pre.eku => IsErr(BuildPrecertTBS(t, pre)))
  /\ LET f == Final(t, pre, "scts") IN ~IsErr(f) => ExactlyOne(f, "SCTLIST") /\ OthersUntouched(f, "SCTLIST")
  /\ SCTListRoundTrip([i \in DOMAIN c.scts |-> SctBody[c.scts[i]]])

Tri(exts) == [i \in DOMAIN exts |-> <<exts[i].id, exts[i].crit, exts[i].val>>]
Out(x) == IF IsErr(x) \/ x = None THEN x ELSE [x EXCEPT !.exts = Tri(@)]
OutEntry(e) == IF IsErr(e) THEN e ELSE [e EXCEPT !.tbs = Out(@)]
Export ==
  LET t == TBSOf(c)  pre == PreOf(c)  f == Final(t, pre, "scts") IN
  PrintT(<<"CASE", ToJson([c |-> c, t |-> Out(t), pre |-> pre,
                           build |-> Out(BuildPrecertTBS(t, pre)),
                           rmpoison |-> Out(RemoveExt(t, "POISON")),
                           rmsct |-> Out(RemoveExt(t, "SCTLIST")),
                           final |-> Out(f),
                           finalrmsct |-> Out(IF IsErr(f) THEN f ELSE RemoveExt(f, "SCTLIST")),
                           clause |-> AkiClause(t, pre),
                           chain |-> OutEntry(IF pre = None THEN PrecertRouteEntry(t, None, "caKey", "rootKey")
                                              ELSE PrecertRouteEntry(t, pre, "preKey", "caKey")),
                           embedded |-> OutEntry(IF IsErr(f) THEN f ELSE EmbeddedRouteEntry(f, "caKey"))])>>)
NumCases == Cardinality(Cases)
=============================================================================
