\* thorough tier: all kinds (every enum / length width 1..8 at both ends), larger reduced list
CONSTANTS Tier = "thorough"
INIT Init
NEXT Next
INVARIANTS CheckAndExport
CHECK_DEADLOCK FALSE
