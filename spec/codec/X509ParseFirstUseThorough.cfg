\* thorough tier: four goroutines, two lazily built values, a builder of three writes
CONSTANTS
  Procs = {1, 2, 3, 4}
  Lazy = {"a", "b"}
  BuildSteps = 3
  FastPath = FALSE
SPECIFICATION FSpec
INVARIANTS FTypeOK ReadsOnlyReady FirstUseFunctional BuiltOnce
PROPERTIES Termination
CHECK_DEADLOCK FALSE
