\* refutation: a reader that leaves absent optional parts as the previous certificate set them violates OwnOctetsOnly
\* (TLC must report BundleLaws violated: the clause is not vacuous on this case space)
CONSTANTS
  MaxBundle = 2
  Carry = TRUE
INIT Init
NEXT Next
INVARIANTS BundleLaws
CHECK_DEADLOCK FALSE
