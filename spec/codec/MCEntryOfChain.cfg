\* quick tier: laws of EntryOfChain on every case + export (-workers 1)
CONSTANTS Tier = "quick"
INIT Init
NEXT Next
INVARIANTS CheckAndExport
CHECK_DEADLOCK FALSE
