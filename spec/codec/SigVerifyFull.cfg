\* thorough tier: every algorithm code 0..255, more key types
CONSTANTS
  KeyTypes = {"rsa1024", "rsa2048", "rsa3072", "p224", "p256", "p384", "p521", "dsa1024", "dsa2048", "ed25519"}
  CtorKeyTypes = {"rsa512", "rsa1024", "rsa2047", "rsa2048", "rsa3072", "rsa4096", "p224", "p256", "p384", "p521", "dsa1024", "dsa2048", "ed25519", "x25519", "nil"}
  HashMutCodes <- AllCodes
  SigMutCodes <- AllCodes
INIT Init
NEXT Next
INVARIANTS LawHolds Export
CHECK_DEADLOCK FALSE
