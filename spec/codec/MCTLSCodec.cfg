\* quick: laws + export of every case (run with -workers 1; Part/Parts are overridden by the driver)
CONSTANTS
  Tier = "quick"
  Part = 0
  Parts = 8
INIT Init
NEXT Next
INVARIANTS CheckAndExport
CHECK_DEADLOCK FALSE
