\* quick tier: laws + export of every case of this partition (-workers 1; VERIF_PART / VERIF_PARTS in the environment)
CONSTANTS Tier = "quick"
INIT Init
NEXT Next
INVARIANTS CheckAndExport
CHECK_DEADLOCK FALSE
