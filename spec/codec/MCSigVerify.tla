---------------------------- MODULE MCSigVerify ----------------------------
(* Model-checking instance of SigVerify: one state per case, the laws as an invariant, *)
(* every case exported as JSON (run with -workers 1) for replay into the Go code.      *)
EXTENDS SigVerify, Json, TLC

ASSUME KeyTypes \subseteq DOMAIN KeyInfo /\ CtorKeyTypes \subseteq DOMAIN KeyInfo
AllCodes == 0..255
ASSUME HashMutCodes \subseteq Codes /\ SigMutCodes \subseteq Codes

VARIABLE c
Init == c \in Cases
Next == UNCHANGED c

LawHolds == Law(c)

\* `pkey`/`psig`/`phash`: what is presented after the mutation (the harness cross-checks its own reading of the
\* mutation against these); `expect`: verdict of the verification proper; `ctor`: can a verifier be built for the
\* presented key under `allow`; `e2e`: verdict of verification through such a verifier.
Export ==
  PrintT(<<"CASE", ToJson([c |-> c, expect |-> Outcome(c),
                           pkey |-> IF IsVerify(c) THEN PKeyType(c) ELSE c.key,
                           phash |-> IF IsVerify(c) THEN PHash(c) ELSE c.hash,
                           psig |-> IF IsVerify(c) THEN PSig(c) ELSE 0,
                           ctor |-> Constructible(IF IsVerify(c) THEN PKeyType(c) ELSE c.key, c.allow),
                           e2e |-> IF IsVerify(c) THEN EndToEnd(c) ELSE Outcome(c)])>>)
=============================================================================
