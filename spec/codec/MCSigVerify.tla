---------------------------- MODULE MCSigVerify ----------------------------
(* Model-checking instance of SigVerify: one state per case, the laws as an invariant, *)
(* every case exported as JSON (run with -workers 1) for replay into the Go code.      *)
EXTENDS SigVerify, Json, TLC

ASSUME KeyTypes \subseteq DOMAIN KeyInfo /\ CtorKeyTypes \subseteq DOMAIN KeyInfo
AllCodes == 0..255
ASSUME HashMutCodes \subseteq Codes /\ SigMutCodes \subseteq Codes

\* vacuity law of the ExactBytes dimension: for every object kind that is handed over as bytes and every form, the
\* table holds a case on which a verifier normalising that form away (or towards it) answers differently from the
\* specification - one that it accepts wrongly and one that it rejects wrongly
FormCasesOf(k) == {x \in FormTable : x.kind = k}
ASSUME \A k \in {k \in Kinds : RawBytes(k)} : LET cs == FormCasesOf(k) IN NormExposed(k, cs)
\* (FormTable is part of Cases by construction - FormCases literally, PlainFormCases as the members of VerifyCases
\* with h \in FormHashes and mut \in {none, norm}; the driver re-checks it on the export: every ordered pair of forms
\* of either kind must be among the exported cases, accepted exactly on the diagonal)

VARIABLE c
Init == c \in Cases
Next == UNCHANGED c

LawHolds == Law(c)

\* `pkey`/`psig`/`phash`: what is presented after the mutation (the harness cross-checks its own reading of the
\* mutation against these); `expect`: verdict of the verification proper; `ctor`: can a verifier be built for the
\* presented key under `allow`; `e2e`: verdict of verification through such a verifier.  `pform`: the form the data
\* is presented in (ExactBytes); `list` / `stage`: what loglist3.NewFromSignedJSON returns and which of its two steps
\* refuses (ListIsJSON; for the other kinds `list` repeats `expect`).
Export ==
  PrintT(<<"CASE", ToJson([c |-> c, expect |-> Outcome(c),
                           pkey |-> IF IsVerify(c) THEN PKeyType(c) ELSE c.key,
                           phash |-> IF IsVerify(c) THEN PHash(c) ELSE c.hash,
                           psig |-> IF IsVerify(c) THEN PSig(c) ELSE 0,
                           pform |-> IF IsVerify(c) THEN PForm(c) ELSE "plain",
                           list |-> IF c.kind = "LogList" THEN ListVerdict(c) ELSE Outcome(c),
                           stage |-> IF c.kind = "LogList" THEN ListStage(c) ELSE "none",
                           ctor |-> Constructible(IF IsVerify(c) THEN PKeyType(c) ELSE c.key, c.allow),
                           e2e |-> IF IsVerify(c) THEN EndToEnd(c) ELSE Outcome(c)])>>)
=============================================================================
