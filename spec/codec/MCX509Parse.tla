---------------------------- MODULE MCX509Parse ----------------------------
(* Model-checking instances of X509Parse: the template spaces of the two tiers, the export of   *)
(* every (template, mutation, allowed outcome class) triple and of the concatenation cases.     *)
EXTENDS X509Parse, Json

SubsetsUpTo(k) == {s \in SUBSET ExtKinds : Cardinality(s) <= k}

\* every name type x key type x validity side
FullCross == {<<n, k, v>> : n \in NameKinds, k \in KeyKinds, v \in ValidityKinds}
\* every name type once, key types and validity sides alternating
Rotation == {<<"printable", "rsa", "utc">>, <<"utf8", "ecdsa", "gen">>, <<"ia5", "ed25519", "utc">>,
             <<"t61bmp", "rsa", "gen">>, <<"empty", "ecdsa", "utc">>, <<"printable", "ed25519", "gen">>}

T(s, x) == [exts |-> s, name |-> x[1], key |-> x[2], validity |-> x[3]]

AllButOne == {ExtKinds \ {e} : e \in ExtKinds}
Small == SubsetsUpTo(1) \cup {ExtKinds}

\* quick: pairwise-plus coverage of the extension kinds - none, each alone, all, (full cross of the other
\* dimensions), every pair and every "all but one" (rotation of the other dimensions)
QuickTemplates ==
  {T(s, x) : s \in Small, x \in FullCross} \cup
  {T(s, x) : s \in (SubsetsUpTo(2) \ Small) \cup AllButOne, x \in Rotation}

\* thorough: all subsets of at most four extension kinds
ThoroughTemplates ==
  {T(s, x) : s \in Small, x \in FullCross} \cup
  {T(s, x) : s \in (SubsetsUpTo(4) \ Small) \cup AllButOne, x \in Rotation}

ASSUME QuickTemplates \subseteq TemplateSpace

\* the mutation table, once
ASSUME \A m \in MutationTable :
         PrintT(<<"MUT", ToJson([name |-> m.name, stage |-> m.stage, comp |-> m.comp, effect |-> m.effect,
                                 scope |-> m.scope, part |-> PartOf(m)])>>)

\* one record per reachable final state: the union over a case is the set of outcome classes the contract allows
\* (ord: the order of the extensions; uce: the unhandled critical extensions the object must report)
ExportCase == stage = "Done" =>
                PrintT(<<"CASE", ToJson([t |-> c.tpl, m |-> c.mut.name, o |-> c.ord, u |-> uce, r |-> Class(Result)])>>)

ExportConcat == phase = "done" =>
                  PrintT(<<"CONCAT", ToJson([parts |-> parts,
                                             expect |-> [n |-> list.n, cls |-> ListClass]])>>)

(* ---------------------------------------------------------------------- *)
(* history machine: shapes, exhaustive check of the laws, random walks     *)
(* ---------------------------------------------------------------------- *)
\* six shapes: every name string type, every key type, both validity sides; extension sets that put alternative
\* names of every kind, interpreted critical extensions and uninterpreted ones next to the three slots
MCHistShapes == {
  T({"sanDNS", "sanEmail", "ku", "bc", "ski", "aki"},       <<"printable", "rsa", "utc">>),
  T({"sanURI", "sanIP", "eku", "aia", "unkNon"},            <<"utf8", "ecdsa", "gen">>),
  T({"sanDNS", "nc", "pol", "crldp", "unkCrit"},            <<"ia5", "ed25519", "utc">>),
  T({"sanEmail", "sanIP", "ku"},                            <<"t61bmp", "rsa", "gen">>),
  T({"sanDNS", "sanURI", "bc"},                             <<"empty", "ecdsa", "utc">>),
  T({},                                                     <<"printable", "ed25519", "gen">>)}
\* one shape for the exhaustive check of the laws
MCHistShapesSmall == {T({"sanDNS", "sanIP", "ku"}, <<"printable", "ecdsa", "utc">>)}

\* mutations an object may carry: none; a name the strict decoder refuses and the lax one reads (issuer, subject);
\* a lax reading at the DER stage; a non-fatal finding inside an extension; a fatal one in a field; no reading at all
MCHistMutNames == {"none", "issuerPrintableAt", "subjectPrintableAt", "serialNonMinimal", "sanIPLen5",
                   "issuerNotSequence", "notBeforeBadMonth"}
MCHistMutNamesSmall == {"none", "issuerPrintableAt", "issuerNotSequence"}

\* objects that differ from o in at most one thing: one slot, or the mutation
Near(o) == {x \in world : /\ x.shape = o.shape
                              /\ Cardinality({s \in Slots : x[s] # o[s]}) + (IF x.mut # o.mut THEN 1 ELSE 0) <= 1}

\* random walk: mostly a neighbour of the last object (or the same one again), mostly through the same kind of
\* buffer as before; every choice bound once
HistSimStep ==
  /\ Len(hist) < HistDepth
  /\ \E k \in {RandomElement(1..10)}, kb \in {RandomElement(1..6)}, e \in {RandomElement(EntryModes)},
        far \in {RandomElement(world)}, b0 \in {RandomElement(BufModes)} :
        IF hist = <<>> THEN Call(e, far, b0)
        ELSE \E o \in {IF k <= 8 THEN RandomElement(Near(LastObj)) ELSE far} :
               Call(e, o, IF kb <= 3 THEN hist[Len(hist)].buf ELSE b0)
HistSimNext == (HistSimStep \/ HistFinish) /\ UNCHANGED <<vars, cvars>>

ObjJson(o) == [shape |-> o.shape, iss |-> o.iss, sub |-> o.sub, san |-> o.san, mut |-> o.mut, cls |-> ClassAlone(o)]
CallJson(h) == [entry |-> h.entry, buf |-> h.buf, objs |-> [k \in 1..Len(h.objs) |-> ObjJson(h.objs[k])], ret |-> h.ret]
ExportHist == closed => PrintT(<<"HIST", ToJson([calls |-> [a \in 1..Len(hist) |-> CallJson(hist[a])]])>>)
=============================================================================
