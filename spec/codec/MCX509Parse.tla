---------------------------- MODULE MCX509Parse ----------------------------
(* Model-checking instances of X509Parse: the template spaces of the two tiers, the export of   *)
(* every (template, mutation, allowed outcome class) triple and of the concatenation cases.     *)
EXTENDS X509Parse, Json

SubsetsUpTo(k) == {s \in SUBSET ExtKinds : Cardinality(s) <= k}

\* every name type x key type x validity side
FullCross == {<<n, k, v>> : n \in NameKinds, k \in KeyKinds, v \in ValidityKinds}
\* every name type once, key types and validity sides alternating
Rotation == {<<"printable", "rsa", "utc">>, <<"utf8", "ecdsa", "gen">>, <<"ia5", "ed25519", "utc">>,
             <<"t61bmp", "rsa", "gen">>, <<"empty", "ecdsa", "utc">>, <<"printable", "ed25519", "gen">>}

T(s, x) == [exts |-> s, name |-> x[1], key |-> x[2], validity |-> x[3]]

AllButOne == {ExtKinds \ {e} : e \in ExtKinds}
Small == SubsetsUpTo(1) \cup {ExtKinds}

\* quick: pairwise-plus coverage of the extension kinds - none, each alone, all, (full cross of the other
\* dimensions), every pair and every "all but one" (rotation of the other dimensions)
QuickTemplates ==
  {T(s, x) : s \in Small, x \in FullCross} \cup
  {T(s, x) : s \in (SubsetsUpTo(2) \ Small) \cup AllButOne, x \in Rotation}

\* thorough: all subsets of at most four extension kinds
ThoroughTemplates ==
  {T(s, x) : s \in Small, x \in FullCross} \cup
  {T(s, x) : s \in (SubsetsUpTo(4) \ Small) \cup AllButOne, x \in Rotation}

ASSUME QuickTemplates \subseteq TemplateSpace

\* the mutation table, once
ASSUME \A m \in MutationTable :
         PrintT(<<"MUT", ToJson([name |-> m.name, stage |-> m.stage, comp |-> m.comp, effect |-> m.effect,
                                 scope |-> m.scope, part |-> PartOf(m)])>>)

\* one record per reachable final state: the union over a case is the set of outcome classes the contract allows
ExportCase == stage = "Done" =>
                PrintT(<<"CASE", ToJson([t |-> c.tpl, m |-> c.mut.name, r |-> Class(Result)])>>)

ExportConcat == phase = "done" =>
                  PrintT(<<"CONCAT", ToJson([parts |-> parts,
                                             expect |-> [n |-> list.n, cls |-> ListClass]])>>)
=============================================================================
