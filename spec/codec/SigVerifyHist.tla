--------------------------- MODULE SigVerifyHist ---------------------------
(***************************************************************************)
(* C05, history layer - verification is a FUNCTION of what it is handed.   *)
(*                                                                         *)
(* SigVerify.tla decides one call.  The property quantifies over calls,    *)
(* not over processes: "verifies if and only if the signature value it     *)
(* carries is cryptographically valid for the given key ... over exactly   *)
(* the canonical signed bytes" leaves no room for anything but the         *)
(* arguments (key, declared algorithms, signed fields, signature value)    *)
(* and, for the constructor, the caller's opt-in.  This module states that *)
(* over behaviours:                                                        *)
(*                                                                         *)
(*   Function    for every sequence of calls, every call returns what it   *)
(*               returns alone (Alone = the decision table of SigVerify);  *)
(*               in particular equal arguments give equal verdicts         *)
(*   ArgsKept    a call does not modify its arguments: what the caller's   *)
(*               objects hold after the call is what was presented         *)
(*   DestFree    the verdict does not depend on what the caller's re-used  *)
(*               objects held before they were rewritten for this call     *)
(*                                                                         *)
(* A session is one validly signed object (kind, signer key type, hash)    *)
(* made once, and a sequence of calls that each present it after one       *)
(* mutation (or none) under an opt-in flag.  The caller keeps ONE set of   *)
(* objects for the whole session (the SCT / STH / DigitallySigned struct,  *)
(* the byte buffers, the certificate chain slice, the verifier) and        *)
(* rewrites them in place for every call: valid, mutated, valid again.     *)
(*                                                                         *)
(* What makes a history tell a function from a non-function is modelled    *)
(* explicitly: Memo(x) is an implementation that remembers its last call   *)
(* and answers from memory whenever the new arguments agree with the       *)
(* remembered ones on every component EXCEPT x (a cache keyed too          *)
(* coarsely, a memo, a result left in a pooled buffer).  The ghost         *)
(* variable `exposed` collects the (x, direction) for which the history    *)
(* so far makes Memo(x) answer differently from the function; the driver   *)
(* demands that the exported walks expose every independently changeable   *)
(* component of every object kind in both directions (stale accept: a      *)
(* changed signed field passes; stale reject: the valid object fails).     *)
(* A memo that ignores several components is exposed by the neighbours of  *)
(* any one of them, so single components suffice.                          *)
(*                                                                         *)
(* Errors are calls too.  A verification that is REFUSED because the       *)
(* object has no canonical signed bytes (clause Unencodable of SigVerify:  *)
(* extensions beyond 65535 bytes, an empty certificate, an undefined entry *)
(* type) is refused part-way through building those bytes.  The second     *)
(* family of non-functions modelled here is Residue: an implementation in  *)
(* which what the refused call had already emitted stays behind (a pooled  *)
(* output buffer returned without being reset, a scratch slice re-used)    *)
(* and is taken up by the next call that builds signed bytes, which then   *)
(* verifies over residue || canonical bytes: it rejects a valid object     *)
(* (stale reject) and accepts a signature made over exactly those glued    *)
(* bytes (stale accept).  Refusals enter a session in two ways: a call of  *)
(* the session presenting its own object with one field unencodable, and   *)
(* an Interlude - between two calls the same caller, with the same         *)
(* verifiers, is asked about an unencodable object that has nothing to do  *)
(* with the session (sessions about STHs have no unencodable presentation  *)
(* of their own).  Both are refused with an error, and the calls after     *)
(* them return what they return alone.                                     *)
(*                                                                         *)
(* Named clauses (the property text is silent, the library is definite):   *)
(*   LeafTimestampAdjusted  ctutil.LogInfo.VerifySCTSignature is           *)
(*       documented to check the SCT against "the given leaf (adjusted for *)
(*       the timestamp in the SCT)" and writes that timestamp into the     *)
(*       caller's leaf; that one field is exempt from ArgsKept there.      *)
(*   LeafHashFunction  ctutil.LeafHash / LeafHashB64 build the leaf that   *)
(*       VerifySCT verifies against; they are held to Function only:       *)
(*       equal arguments equal hashes, and presentations that stand for    *)
(*       different (certificate, issuer key, timestamp) never share one.   *)
(***************************************************************************)
EXTENDS SigVerify, Sequences

CONSTANT Depth   \* calls per session

VARIABLES
  base,     \* the session's object: [kind, key, hash, shape, dform] (signed once, by key <<key, 1>>, under hash; an
            \* object handed over as bytes is signed in form dform - SigVerify, clause ExactBytes)
  last,     \* arguments and verdict of the previous call = what the caller's re-used objects hold (ArgsKept)
  hist,     \* the calls made, with the verdict of each
  exposed,  \* ghost: the non-functions (coarse memos, Residue) this history tells from the function
  residue   \* ghost: the step before was refused while the signed bytes were being built
hvars == <<base, last, hist, exposed, residue>>

NoBase == [kind |-> "none", key |-> "", hash |-> 0, shape |-> StdShape, dform |-> "plain"]
NoLast == [args |-> <<>>, res |-> <<>>]

(* ---------- calls ---------- *)
\* a call presents the session's object after mutation `mut`, with the opt-in flag at `allow`; `rot` tells the
\* harness with which entry point to begin (the order of entry points is part of the history)
CaseOf(b, cl) == [kind |-> b.kind, key |-> b.key, hash |-> b.hash, mut |-> cl.mut, allow |-> cl.allow, shape |-> b.shape, dform |-> b.dform]
CallsOf(b) == {[mut |-> mu, allow |-> a] : mu \in Muts(b.kind, b.key, b.hash, b.dform), a \in Allows(b.kind)}

\* THE LAW.  What a call returns alone: the verdict of the verification proper and the verdict through a verifier
\* constructed for the presented key under the flag.  Nothing but b and cl occurs on the right-hand side.
Alone(b, cl) == <<Expected(CaseOf(b, cl)), EndToEnd(CaseOf(b, cl))>>

\* the arguments component by component (what a cache key could be computed from); "dataform": the form in which
\* the bytes of an object handed over as bytes are written (ExactBytes) - the same document, other bytes
Components(k) == {"keytype", "keyid", "hash", "sig", "form"} \cup SignedFields(k)
                 \cup (IF ViaVerifier(k) THEN {"allow"} ELSE {})
                 \cup (IF RawBytes(k) THEN {"dataform"} ELSE {})
Args(b, cl) ==
  LET p == Presented(CaseOf(b, cl)) IN
  [x \in Components(b.kind) |->
     CASE x = "keytype" -> p.key.type [] x = "keyid" -> p.key.id
       [] x = "hash" -> p.hash        [] x = "sig" -> p.sig
       [] x = "form" -> p.val.form    [] x = "allow" -> cl.allow
       [] x = "dataform" -> p.dform
       [] OTHER -> p.msg[x]]
Drop(x, a) == [a EXCEPT ![x] = "-"]

(* ---------- the non-functions a history must tell apart ---------- *)
\* Memo(x): answers from memory when everything but component x is as in the previous call
MemoAnswer(x, prev, args, res) ==
  IF prev # NoLast /\ Drop(x, prev.args) = Drop(x, args) THEN prev.res ELSE res
\* direction of the disagreement: the memo accepts what must be rejected / rejects what must be accepted
Dirs(stale, res) ==
  {d \in {"accept", "reject"} :
     \E i \in 1..2 : stale[i] # res[i] /\ stale[i] = (IF d = "accept" THEN "ok" ELSE "error")}
NewlyExposed(b, prev, args, res) ==
  UNION {{<<x, d>> : d \in Dirs(MemoAnswer(x, prev, args, res), res)} : x \in Components(b.kind)}
\* components that can change on their own (a signed log list declares nothing: hash and scheme are implied,
\* the scheme changes together with the key type)
Independent(k) == Components(k) \ (IF ImpliedAlg(k) THEN {"hash", "sig", "keytype"} ELSE {})

\* Residue: the call sees residue || canonical bytes when the step before was refused part-way.  It then rejects
\* the object as signed and accepts the "glued" value (a signature over just those bytes) - where the function
\* accepts the former and rejects the latter.  Only calls that build signed bytes can take residue up.
Unencodables == UNION {{[kind |-> k, field |-> f] : f \in UnserFields(k)} : k \in Kinds}
Glued == Mut("value", 0, "glued")
ValidAlone(b, cl) == Alone(b, [cl EXCEPT !.mut = NoMut])[1] = "ok"
ResidueExposed(b, cl, res) ==
  IF ~(residue /\ Serializes(b.kind) /\ ValidAlone(b, cl)) THEN {}
  ELSE IF cl.mut = NoMut THEN {<<"residue", "reject">>}
  ELSE IF cl.mut = Glued /\ res[1] = "error" THEN {<<"residue", "accept">>}
  ELSE {}
Required(k) == (Independent(k) \X {"accept", "reject"})
               \cup (IF Serializes(k) THEN {"residue"} \X {"accept", "reject"} ELSE {})

(* ---------- behaviours ---------- *)
HInit == base = NoBase /\ last = NoLast /\ hist = <<>> /\ exposed = {} /\ residue = FALSE

Open(b) == /\ base = NoBase
           /\ base' = b
           /\ UNCHANGED <<last, hist, exposed, residue>>

\* the caller rewrites its objects to present cl, calls, and finds them as presented (ArgsKept: last'.args is
\* both what was handed in and what is there afterwards); the verdict is Alone (Function, DestFree: neither
\* `last` nor `hist` occurs in it)
Call(cl, rot) ==
  /\ base # NoBase /\ cl \in CallsOf(base)
  /\ LET args == Args(base, cl)
         res == Alone(base, cl)
     IN /\ hist' = Append(hist, [call |-> cl, rot |-> rot, args |-> args, res |-> res])
        /\ last' = [args |-> args, res |-> res]
        /\ exposed' = exposed \cup NewlyExposed(base, last, args, res) \cup ResidueExposed(base, cl, res)
        \* a call that builds signed bytes consumes what was left behind, and leaves something itself iff it is
        \* refused while building them; a call that is handed the bytes neither takes residue up nor leaves any
        /\ residue' = IF Serializes(base.kind) THEN cl.mut.m = "unser" ELSE residue
  /\ UNCHANGED base

\* Between two calls of the session the caller is asked about another, unencodable object `u` (objects of its own,
\* the same goroutine, the same verifiers).  It is refused: clause Unencodable.  The session's objects are not touched.
Interlude(u, rot) ==
  /\ base # NoBase /\ u \in Unencodables
  /\ hist' = Append(hist, [interlude |-> u, rot |-> rot, res |-> "error"])
  /\ residue' = TRUE
  /\ UNCHANGED <<base, last, exposed>>

HNext == \/ \E k \in Kinds, kt \in KeyTypes : \E h \in ObjHashes(k), sh \in Shapes(k), d \in DataForms(k) :
              Open([kind |-> k, key |-> kt, hash |-> h, shape |-> sh, dform |-> d])
         \/ (base # NoBase /\ Len(hist) < Depth /\ \E cl \in CallsOf(base) : Call(cl, 0))
         \/ (base # NoBase /\ Len(hist) < Depth /\ \E u \in Unencodables : Interlude(u, 0))

(* ---------- the laws over a history ---------- *)
IsCall(h) == "call" \in DOMAIN h
\* Both laws are stated for the newest call against everything before it; every prefix of a behaviour is a
\* state of its own, so as invariants they cover all pairs / all calls.
Newest == hist[Len(hist)]
\* equal arguments, equal verdicts, wherever in the history
Functional == Len(hist) > 0 /\ IsCall(Newest) =>
                \A i \in 1..(Len(hist) - 1) : IsCall(hist[i]) /\ hist[i].args = Newest.args => hist[i].res = Newest.res
\* every call, whatever preceded it, returns what it returns alone and satisfies the laws of the one-call table
EachAlone == Len(hist) > 0 /\ IsCall(Newest) =>
                /\ Newest.args = Args(base, Newest.call)
                /\ Newest.res = Alone(base, Newest.call)
                /\ Law(CaseOf(base, Newest.call))
\* an interlude is refused, whatever preceded it
IsInterlude(h) == "interlude" \in DOMAIN h
InterludeRefused == Len(hist) > 0 /\ IsInterlude(Newest) => Newest.res = "error" /\ Newest.interlude \in Unencodables
\* the ghost names components of the session's object only; Residue only where signed bytes are built
ExposedSound == base # NoBase =>
                  exposed \subseteq ((Components(base.kind) \cup (IF Serializes(base.kind) THEN {"residue"} ELSE {}))
                                     \X {"accept", "reject"})
HistLaw == Functional /\ EachAlone /\ InterludeRefused /\ ExposedSound
=============================================================================
