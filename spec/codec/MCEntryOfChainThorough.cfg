\* thorough tier: every pair of time forms x api x order, pairs of deviations
CONSTANTS Tier = "thorough"
INIT Init
NEXT Next
INVARIANTS CheckAndExport
CHECK_DEADLOCK FALSE
