\* thorough tier: bundles of at most 4 certificate kinds
CONSTANTS
  MaxBundle = 4
  Carry = FALSE
INIT Init
NEXT Next
INVARIANTS BundleLaws BundleExport
CHECK_DEADLOCK FALSE
