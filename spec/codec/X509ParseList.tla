--------------------------- MODULE X509ParseList ---------------------------
(***************************************************************************)
(* Certificate lists (CRLs) and ARMOUR (C11).                              *)
(*                                                                         *)
(* Two dimensions of the lenient X.509 package that X509Parse.tla (one     *)
(* certificate) and X509ParseKeys.tla (key containers) do not have:        *)
(*                                                                         *)
(* 1. THE LIST.  A CertificateList is a container of REVOKED ENTRIES, each *)
(*    with its own crlEntryExtensions, followed by the crlExtensions of    *)
(*    the list.  The parsers that interpret ("crack") the extensions       *)
(*    - ParseCertificateList, ParseCertificateListDER - walk through       *)
(*    every extension of every entry, then through the list's own, and     *)
(*    COLLECT findings of two ranks:                                       *)
(*       warning   an interpreted extension whose criticality is not the   *)
(*                 one RFC 5280 section 5.2 / 5.3 prescribes (reasonCode / *)
(*                 invalidityDate / ... marked critical, certificateIssuer *)
(*                 / deltaCRLIndicator / issuingDistributionPoint not)     *)
(*       fatal     a value that cannot be read (wrong type, trailing       *)
(*                 bytes, negative number, two scope flags), an            *)
(*                 uninterpreted extension marked critical                 *)
(*    What comes out at the top is decided by the COLLECTION, not by the   *)
(*    entry or the position a finding was made in:                         *)
(*       no finding          <<obj, nil>>                                  *)
(*       warnings only       <<obj, nonFatal>>     (WarningsKeepObject)    *)
(*       any fatal finding   <<nil, fatal>>        (FatalSurfaces)         *)
(*    and never a mixed pair (ListCoherent).  The parsers that hand the    *)
(*    extensions over uninterpreted - ParseCRL, ParseDERCRL - know two     *)
(*    outcomes only (OpaqueIsBinary).  The list parsers have NO lax mode   *)
(*    (clause C1): what the strict DER stage cannot read is fatal.         *)
(*    Constant EntryPolicy = "collect" is the specification; "giveUp" (an  *)
(*    entry that produced ANY finding is dropped and the walk ends there)  *)
(*    is the refuted variant: TLC reports ListCoherent violated            *)
(*    (X509ParseListGiveUp.cfg).                                           *)
(*                                                                         *)
(* 2. ARMOUR.  Every object also travels as text (RFC 7468 / RFC 1421      *)
(*    "PEM").  What an entry point makes of armour is its READER:          *)
(*       der       the twelve DER entry points but two: text is not DER    *)
(*       tolerant  ParseCRL, ParseCertificateList: "transparently handle   *)
(*                 PEM encoding as long as there isn't any leading         *)
(*                 garbage" - a complete block of the right label at the   *)
(*                 start of the input stands for its payload (A2: what     *)
(*                 follows the first block, and RFC 1421 headers, are      *)
(*                 ignored); ANYTHING ELSE is read as DER.  In particular  *)
(*                 an input that merely BEGINS like a block (header line   *)
(*                 only, END line missing, body cut, prefix glued to DER   *)
(*                 or garbage, END label of another kind, bad base64, a    *)
(*                 label that extends the right one) is not a block.       *)
(*                 A1: bytes before the BEGIN line - the contract is       *)
(*                 silent (free)                                           *)
(*       pemOne    x509util.CertificateFromPEM: exactly one block          *)
(*       pemChain  x509util.CertificatesFromPEM: blocks until none is      *)
(*                 left; E1: an input without any block is the empty       *)
(*                 chain and no error; a finding of any rank is fatal      *)
(*       pemAny    ct.PublicKeyFromPEM: the first block, K1: whatever its  *)
(*                 label (free)                                            *)
(*       pemPool   x509.CertPool.AppendCertsFromPEM,                       *)
(*                 x509util.PEMCertPool.AppendCertsFromPEM: true iff a     *)
(*                 header-less block of the right label was parsed without *)
(*                 a fatal error                                           *)
(*    The reader is a stage of its own in front of the DER stage           *)
(*    (Armour); it is TOTAL (invariant Total) on every armour of the       *)
(*    table.  Constant BlockGuard = TRUE is the specification; FALSE (the  *)
(*    tolerant reader trusts the prefix and uses the block without asking  *)
(*    whether one was found) is the refuted variant: TLC reports Total     *)
(*    violated (X509ParseListNoGuard.cfg).                                 *)
(*                                                                         *)
(* Case space: entry point x armour x payload, the payload of a list entry *)
(* point being envelope defect x sequence of entries (each a sequence of   *)
(* extensions [kind, critical, value]) x sequence of list extensions.      *)
(* The machine is operational (one step per stage, entry, extension);      *)
(* Verdict is the same contract stated at once; MachineMeetsVerdict ties   *)
(* the two together and the export carries both.                           *)
(***************************************************************************)
EXTENDS Naturals, Sequences, FiniteSets, TLC

CONSTANTS
  EntryPolicy,    \* "collect" (the specification) | "giveUp" (refuted)
  BlockGuard,     \* TRUE (the specification) | FALSE (refuted)
  Cases           \* the cases to explore (MC module)

(* ---------------------------------------------------------------------- *)
(* extensions                                                              *)
(* ---------------------------------------------------------------------- *)
X(k, c, v) == [k |-> k, c |-> c, v |-> v]

\* crlEntryExtensions (RFC 5280 section 5.3) and the criticality prescribed for them
EntryExtKinds == {"reason", "invDate", "certIssuer", "unknown"}
\* crlExtensions (section 5.2)
ListExtKinds == {"aki", "ian", "crlNumber", "delta", "idp", "freshest", "aia", "unknown"}

Interpreted(k) == k # "unknown"
ExpectCritical(k) == k \in {"certIssuer", "delta", "idp"}

\* values: good; bad (another type); trailing (bytes after the value); negative (a number below zero); twoTypes (an
\* issuingDistributionPoint with two scope flags); empty (an empty extnValue), big (a CRL number of twenty octets):
\* degenerate but well-formed, the contract does not say
ValuesOf(k) ==
  CASE k \in {"reason", "invDate"}  -> {"good", "bad", "trailing", "empty"}
    [] k = "certIssuer"             -> {"good", "bad", "empty"}
    [] k \in {"aki", "aia"}         -> {"good", "bad", "trailing"}
    [] k \in {"ian", "freshest"}    -> {"good", "bad"}
    [] k = "crlNumber"              -> {"good", "bad", "trailing", "negative", "big"}
    [] k = "delta"                  -> {"good", "bad", "trailing", "negative"}
    [] k = "idp"                    -> {"good", "bad", "trailing", "twoTypes"}
    [] OTHER                        -> {"good"}

EntryExts == {X(k, c, v) : k \in EntryExtKinds, c \in BOOLEAN, v \in {"good", "bad", "trailing", "empty"}}
ListExts == {X(k, c, v) : k \in ListExtKinds, c \in BOOLEAN, v \in {"good", "bad", "trailing", "negative", "twoTypes", "big"}}
WellTyped(x) == x.v \in ValuesOf(x.k)

\* what the walk finds in one extension
Warns(x) == Interpreted(x.k) /\ x.c # ExpectCritical(x.k)
SureFatal(x) == (~Interpreted(x.k) /\ x.c) \/ (Interpreted(x.k) /\ x.v \in {"bad", "trailing", "negative", "twoTypes"})
MayFatal(x) == Interpreted(x.k) /\ x.v \in {"empty", "big"}

(* ---------------------------------------------------------------------- *)
(* entry points, readers, payload kinds                                    *)
(* ---------------------------------------------------------------------- *)
ListEntryPoints == {"ParseCertificateList", "ParseCertificateListDER", "ParseCRL", "ParseDERCRL"}
Cracks(e) == e \in {"ParseCertificateList", "ParseCertificateListDER"}

DEREntryPoints == ListEntryPoints \cup {"ParseCertificate", "ParseTBSCertificate", "ParseCertificates", "ParsePKIXPublicKey",
                    "ParsePKCS1PrivateKey", "ParsePKCS8PrivateKey", "ParseECPrivateKey", "ParseCertificateRequest"}
PEMEntryPoints == {"CertificateFromPEM", "CertificatesFromPEM", "PublicKeyFromPEM", "CertPool.AppendCertsFromPEM", "PEMCertPool.AppendCertsFromPEM"}
EntryPoints == DEREntryPoints \cup PEMEntryPoints

Reader(e) == CASE e \in {"ParseCRL", "ParseCertificateList"} -> "tolerant"
               [] e = "CertificateFromPEM"  -> "pemOne"
               [] e = "CertificatesFromPEM" -> "pemChain"
               [] e = "PublicKeyFromPEM"    -> "pemAny"
               [] e \in {"CertPool.AppendCertsFromPEM", "PEMCertPool.AppendCertsFromPEM"} -> "pemPool"
               [] OTHER -> "der"

KindOf(e) == CASE e \in ListEntryPoints -> "crl"
               [] e = "ParseTBSCertificate" -> "tbs"
               [] e \in {"ParsePKIXPublicKey", "PublicKeyFromPEM"} -> "pkix"
               [] e = "ParsePKCS1PrivateKey" -> "pkcs1"
               [] e = "ParsePKCS8PrivateKey" -> "pkcs8"
               [] e = "ParseECPrivateKey" -> "sec1"
               [] e = "ParseCertificateRequest" -> "csr"
               [] OTHER -> "cert"

(* ---------------------------------------------------------------------- *)
(* armour: what a PEM reader finds in the input                            *)
(*   first   the first thing a reader of RFC 7468 text finds: a complete   *)
(*           block of the right label ("block"), of another label          *)
(*           ("other"), a complete block with nothing in it ("empty"),     *)
(*           or no block at all ("none")                                   *)
(*   lead    bytes before the BEGIN line                                   *)
(*   tail    what follows the first block: "none", "text", another "block" *)
(*           of the right label                                            *)
(*   hdrs    the block carries RFC 1421 headers                            *)
(*   prefix  the input starts with "-----BEGIN <right label>"              *)
(* ---------------------------------------------------------------------- *)
A(name, first, lead, tail, hdrs, prefix) == [name |-> name, first |-> first, lead |-> lead, tail |-> tail, hdrs |-> hdrs, prefix |-> prefix]

ArmourTable == {
  A("der",               "none",  FALSE, "none",  FALSE, FALSE),   \* the object itself
  A("pem",               "block", FALSE, "none",  FALSE, TRUE),
  A("pemCRLF",           "block", FALSE, "none",  FALSE, TRUE),
  A("pemHeaders",        "block", FALSE, "none",  TRUE,  TRUE),
  A("pemThenText",       "block", FALSE, "text",  FALSE, TRUE),
  A("pemTwice",          "block", FALSE, "block", FALSE, TRUE),
  A("pemLabelExtended",  "other", FALSE, "none",  FALSE, TRUE),    \* the right label with a letter more
  A("pemLabelForeign",   "other", FALSE, "none",  FALSE, FALSE),   \* the label of another kind of object
  A("otherThenPem",      "other", FALSE, "block", FALSE, FALSE),
  A("pemEmptyBody",      "empty", FALSE, "none",  FALSE, TRUE),
  A("leadSpace",         "block", TRUE,  "none",  FALSE, FALSE),
  A("leadText",          "block", TRUE,  "none",  FALSE, FALSE),
  \* inputs that only begin like a block
  A("headerOnly",        "none",  FALSE, "none",  FALSE, TRUE),    \* the BEGIN line and nothing else
  A("prefixOnly",        "none",  FALSE, "none",  FALSE, TRUE),    \* "-----BEGIN <label>" without the closing dashes
  A("pemNoEnd",          "none",  FALSE, "none",  FALSE, TRUE),    \* the END line is missing
  A("pemCutBody",        "none",  FALSE, "none",  FALSE, TRUE),    \* cut in the middle of the body
  A("pemCutEnd",         "none",  FALSE, "none",  FALSE, TRUE),    \* cut in the middle of the END line
  A("pemEndMismatch",    "none",  FALSE, "none",  FALSE, TRUE),    \* END line of another label
  A("pemBadBase64",      "none",  FALSE, "none",  FALSE, TRUE),
  A("prefixThenDER",     "none",  FALSE, "none",  FALSE, TRUE),    \* the BEGIN line followed by the DER object
  A("prefixGluedDER",    "none",  FALSE, "none",  FALSE, TRUE),    \* the prefix, then DER, no line break
  A("prefixThenGarbage", "none",  FALSE, "none",  FALSE, TRUE)
}
ArmourNames == {a.name : a \in ArmourTable}
Armour(n) == CHOOSE a \in ArmourTable : a.name = n

\* what reaches the stage behind the reader:  payload  the object's bytes
\*                                            text     the armoured input itself (it is not DER)
\*                                            reject   nothing, the reader refuses
\*                                            nothing  nothing, and the reader does not mind (E1)
Views(r, a) ==
  CASE r = "der"      -> IF a.name = "der" THEN {"payload"} ELSE {"text"}
    [] r = "tolerant" -> IF a.name = "der" THEN {"payload"}
                         ELSE IF a.lead THEN {"payload", "text"}                        \* A1
                         ELSE IF a.first = "block" THEN {"payload"}                     \* A2
                         ELSE {"text"}
    [] r = "pemOne"   -> IF a.name = "der" \/ a.first # "block" THEN {"reject"}
                         ELSE IF a.lead \/ a.tail # "none" THEN {"payload", "reject"}
                         ELSE {"payload"}
    [] r = "pemAny"   -> IF a.name = "der" \/ a.first \in {"none", "empty"} THEN {"reject"}
                         ELSE IF a.first = "other" THEN {"payload", "reject"}           \* K1
                         ELSE {"payload"}
    [] r = "pemChain" -> IF a.name = "der" \/ a.first = "none" THEN {"nothing"}         \* E1
                         ELSE IF a.first = "block" THEN {"payload"}
                         ELSE {"reject"}
    [] r = "pemPool"  -> IF a.name # "der" /\ ~a.hdrs /\ (a.first = "block" \/ a.tail = "block") THEN {"payload"}
                         ELSE {"reject"}

(* ---------------------------------------------------------------------- *)
(* payloads                                                                *)
(*   env      a defect of the envelope / of a field the DER stage reads    *)
(*            itself ("none": well-formed; "sigBitFlip": benign)           *)
(*   entries  the revoked entries, each the sequence of its extensions     *)
(*   lexts    the extensions of the list                                   *)
(* (entries and lexts are empty for every kind but "crl")                  *)
(* ---------------------------------------------------------------------- *)
EnvDefects == {"none", "truncLast", "truncHalf", "empty", "outerTagSet", "outerLenPlus1", "trailingByte",
               "versionNonMinimal", "entryNotSequence", "extCriticalNonDERBool", "sigBitFlip"}
EnvBenign == {"none", "sigBitFlip"}

P(kind, env, entries, lexts) == [kind |-> kind, env |-> env, entries |-> entries, lexts |-> lexts]
C(e, arm, p) == [e |-> e, arm |-> arm, p |-> p]

SeqRange(s) == {s[n] : n \in 1..Len(s)}
AllExts(p) == UNION {SeqRange(p.entries[n]) : n \in 1..Len(p.entries)} \cup SeqRange(p.lexts)

CaseOK(x) == /\ x.e \in EntryPoints /\ x.arm \in ArmourNames
             /\ x.p.kind = KindOf(x.e) /\ x.p.env \in EnvDefects
             /\ \A n \in 1..Len(x.p.entries) : \A y \in SeqRange(x.p.entries[n]) : y \in EntryExts /\ WellTyped(y)
             /\ \A y \in SeqRange(x.p.lexts) : y \in ListExts /\ WellTyped(y)
             /\ (x.p.kind # "crl" => x.p.entries = <<>> /\ x.p.lexts = <<>>)
             /\ (x.p.env = "entryNotSequence" => x.p.entries # <<>>)
             /\ (x.p.env = "extCriticalNonDERBool" => \E y \in AllExts(x.p) : y.c)
ASSUME \A x \in Cases : CaseOK(x)

(* ---------------------------------------------------------------------- *)
(* the contract, stated at once                                            *)
(* ---------------------------------------------------------------------- *)
\* classes of the object's bytes handed to entry point e as they are
PayloadClasses(e, p) ==
  IF p.env \notin EnvBenign THEN {"fatal"}                                              \* C1
  ELSE IF p.kind # "crl" \/ ~Cracks(e) THEN {"ok"}
  ELSE IF \E x \in AllExts(p) : SureFatal(x) THEN {"fatal"}
  ELSE (IF \E x \in AllExts(p) : Warns(x) THEN {"nonFatal"} ELSE {"ok"})
       \cup (IF \E x \in AllExts(p) : MayFatal(x) THEN {"fatal"} ELSE {})

\* a chain reader makes every finding fatal; a pool answers yes ("ok") or no ("fatal")
Escalate(e, cls) == IF Reader(e) \in {"pemChain", "pemPool"} /\ cls = "nonFatal" THEN (IF Reader(e) = "pemChain" THEN "fatal" ELSE "ok") ELSE cls

Verdict(x) ==
  UNION {CASE v = "payload" -> {Escalate(x.e, cls) : cls \in PayloadClasses(x.e, x.p)}
           [] v = "nothing" -> {"empty"}
           [] OTHER         -> {"fatal"} : v \in Views(Reader(x.e), Armour(x.arm))}

(* ---------------------------------------------------------------------- *)
(* the machine                                                             *)
(* ---------------------------------------------------------------------- *)
VARIABLES
  lc,      \* the case
  lpc,     \* "armour", "der", "entries", "lexts", "return", "done", "panic"
  lview,   \* what the reader handed on
  li,      \* the entry at work / the list extension at work
  lj,      \* the extension of the entry at work
  lfind,   \* findings collected so far: a subset of {"warn", "fatal"}
  lobj,    \* "nil" | "obj"
  lerr     \* "nil" | "nonFatal" | "fatal"

lvars == <<lc, lpc, lview, li, lj, lfind, lobj, lerr>>

LInit == /\ lc \in Cases
         /\ lpc = "armour"
         /\ lview = "-"
         /\ li = 1 /\ lj = 1
         /\ lfind = {}
         /\ lobj = "nil" /\ lerr = "nil"

Arm == Armour(lc.arm)

Return(o, e) == lpc' = "done" /\ lobj' = o /\ lerr' = e /\ UNCHANGED <<lc, lview, li, lj, lfind>>

\* the reader.  Without the guard the tolerant reader takes "the input begins like a block" for "there is a block"
ArmourStep ==
  /\ lpc = "armour"
  /\ IF ~BlockGuard /\ Reader(lc.e) = "tolerant" /\ Arm.prefix /\ Arm.first = "none"
       THEN lpc' = "panic" /\ UNCHANGED <<lc, lview, li, lj, lfind, lobj, lerr>>
       ELSE \E v \in Views(Reader(lc.e), Arm) :
              /\ lview' = v
              /\ lpc' = "der"
              /\ UNCHANGED <<lc, li, lj, lfind, lobj, lerr>>

\* the DER stage: strict, no second attempt (C1); what is not the payload is not DER at all
DERStep ==
  /\ lpc = "der"
  /\ IF lview = "nothing" THEN Return("nil", "nil")                                     \* E1
     ELSE IF lview # "payload" \/ lc.p.env \notin EnvBenign THEN Return("nil", "fatal")
     ELSE IF lc.p.kind = "crl" /\ Cracks(lc.e)
       THEN lpc' = "entries" /\ UNCHANGED <<lc, lview, li, lj, lfind, lobj, lerr>>
     ELSE Return("obj", "nil")

Found(x) == (IF Warns(x) THEN {"warn"} ELSE {}) \cup (IF SureFatal(x) THEN {"fatal"} ELSE {})

\* one extension of one entry; an entry without (further) extensions is left behind
EntriesStep ==
  /\ lpc = "entries"
  /\ IF li > Len(lc.p.entries)
       THEN lpc' = "lexts" /\ li' = 1 /\ lj' = 1 /\ UNCHANGED <<lc, lview, lfind, lobj, lerr>>
     ELSE IF lj > Len(lc.p.entries[li])
       THEN li' = li + 1 /\ lj' = 1 /\ UNCHANGED <<lc, lpc, lview, lfind, lobj, lerr>>
     ELSE LET x == lc.p.entries[li][lj]
              last == lj = Len(lc.p.entries[li]) IN
          \E f \in (IF MayFatal(x) THEN {Found(x), Found(x) \cup {"fatal"}} ELSE {Found(x)}) :
            /\ lfind' = lfind \cup f
            /\ IF EntryPolicy = "giveUp" /\ last /\ (f # {} \/ \E m \in 1..(lj - 1) : Found(lc.p.entries[li][m]) # {})
                 \* the refuted variant: the entry is dropped and the walk ends with whatever was collected
                 THEN /\ lpc' = "done" /\ lobj' = "nil"
                      /\ lerr' = IF "fatal" \in (lfind \cup f) THEN "fatal" ELSE "nonFatal"
                      /\ UNCHANGED <<lc, lview, li, lj>>
                 ELSE lj' = lj + 1 /\ UNCHANGED <<lc, lpc, lview, li, lobj, lerr>>

ListExtsStep ==
  /\ lpc = "lexts"
  /\ IF li > Len(lc.p.lexts)
       THEN lpc' = "return" /\ UNCHANGED <<lc, lview, li, lj, lfind, lobj, lerr>>
     ELSE LET x == lc.p.lexts[li] IN
          \E f \in (IF MayFatal(x) THEN {Found(x), Found(x) \cup {"fatal"}} ELSE {Found(x)}) :
            /\ lfind' = lfind \cup f
            /\ li' = li + 1
            /\ UNCHANGED <<lc, lpc, lview, lj, lobj, lerr>>

\* the collection decides
ReturnStep ==
  /\ lpc = "return"
  /\ IF "fatal" \in lfind THEN Return("nil", "fatal")
     ELSE IF lfind = {} THEN Return("obj", "nil")
     ELSE Return("obj", "nonFatal")

LNext == ArmourStep \/ DERStep \/ EntriesStep \/ ListExtsStep \/ ReturnStep
LSpec == LInit /\ [][LNext]_lvars

(* ---------------------------------------------------------------------- *)
(* the property                                                            *)
(* ---------------------------------------------------------------------- *)
LTypeOK == /\ lpc \in {"armour", "der", "entries", "lexts", "return", "done", "panic"}
           /\ lview \in {"-", "payload", "text", "reject", "nothing"}
           /\ lfind \subseteq {"warn", "fatal"}
           /\ lobj \in {"nil", "obj"} /\ lerr \in {"nil", "nonFatal", "fatal"}

LResult == <<lobj, lerr>>
Good == {<<"obj", "nil">>, <<"obj", "nonFatal">>, <<"nil", "fatal">>}

\* totality: every armour, whatever it only begins like, is answered
Total == lpc # "panic"

\* the mixed outcomes are unreachable (E1: a chain reader that found no block returns the empty chain)
ListCoherent == lpc = "done" => \/ LResult \in Good
                                \/ (lview = "nothing" /\ LResult = <<"nil", "nil">>)

\* a warning never costs the object, wherever it was found and however many there are
WarningsKeepObject == (lpc = "done" /\ lview = "payload" /\ lc.p.env \in EnvBenign /\ "fatal" \notin lfind) => lobj = "obj"
\* ... and is never dropped
WarningsReported == (lpc = "done" /\ lobj = "obj" /\ "warn" \in lfind) => lerr = "nonFatal"
\* a fatal finding in any entry, at any position, is the rejection of the whole
FatalSurfaces == (lpc = "done" /\ "fatal" \in lfind) => LResult = <<"nil", "fatal">>
\* parsers that do not interpret the extensions have two outcomes
OpaqueIsBinary == (lpc = "done" /\ lc.e \in ListEntryPoints /\ ~Cracks(lc.e)) => lerr # "nonFatal"
\* nothing is collected before the input has been read as DER
NoFindingBeforeDER == lpc \in {"armour", "der"} => lfind = {} /\ lobj = "nil"

LClassRaw == IF LResult = <<"obj", "nil">> THEN "ok" ELSE IF LResult = <<"obj", "nonFatal">> THEN "nonFatal"
             ELSE IF LResult = <<"nil", "fatal">> THEN "fatal" ELSE IF LResult = <<"nil", "nil">> THEN "empty" ELSE "mixed"
LClass == Escalate(lc.e, LClassRaw)

\* the machine and the contract stated at once agree
MachineMeetsVerdict == lpc = "done" => LClass \in Verdict(lc)

\* the armour is transparent for a tolerant reader: a complete block at the start gives what its payload gives
ArmourTransparent == (lpc = "done" /\ Reader(lc.e) = "tolerant" /\ Arm.first = "block" /\ ~Arm.lead) =>
                        LClass \in PayloadClasses(lc.e, lc.p)
\* ... and whatever is not a block gives no object
NotABlockIsFatal == (lpc = "done" /\ Reader(lc.e) \in {"tolerant", "der"} /\ Arm.name # "der" /\ Arm.first # "block" /\ ~Arm.lead) =>
                        LResult = <<"nil", "fatal">>
=============================================================================
