\* quick tier: representatives of every code class
CONSTANTS
  KeyTypes = {"rsa1024", "rsa2048", "p256", "p384", "p521", "dsa1024", "ed25519"}
  CtorKeyTypes = {"rsa512", "rsa1024", "rsa2047", "rsa2048", "rsa3072", "rsa4096", "p224", "p256", "p384", "p521", "dsa1024", "ed25519", "x25519", "nil"}
  HashMutCodes = {0, 1, 2, 3, 4, 5, 6, 7, 8, 128, 255}
  SigMutCodes = {0, 1, 2, 3, 4, 7, 64, 255}
INIT Init
NEXT Next
INVARIANTS LawHolds Export
CHECK_DEADLOCK FALSE
