\* concatenation law (ParseCertificates): every sequence of at most MaxParts part classes
CONSTANTS
  Templates <- QuickTemplates
  MaxParts = 3
  PermAll = 3
  HistShapes <- MCHistShapesSmall
  HistMutNames <- MCHistMutNamesSmall
  HistSlots = {"iss"}
  HistDepth = 2
INIT ConcatInit
NEXT ConcatNext
INVARIANTS TypeOK ConcatLaw ExportConcat
CHECK_DEADLOCK FALSE
