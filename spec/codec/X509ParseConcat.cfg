\* concatenation law (ParseCertificates): every sequence of at most MaxParts part classes
CONSTANTS
  Templates <- QuickTemplates
  MaxParts = 3
INIT ConcatInit
NEXT ConcatNext
INVARIANTS TypeOK ConcatLaw ExportConcat
CHECK_DEADLOCK FALSE
