\* development aid: TLC must find a history on which an implementation that keeps what a refused call had emitted
\* (Residue) answers wrongly; run once per invariant (ResidueAgreesReject, ResidueAgreesAccept)
CONSTANTS
  KeyTypes = {"rsa1024", "rsa2048", "p256", "p384", "dsa1024", "ed25519"}
  CtorKeyTypes = {"rsa1024", "rsa2048", "p256", "p384", "dsa1024", "ed25519"}
  HashMutCodes = {0, 1, 2, 3, 4, 5, 6, 7, 8, 128, 255}
  SigMutCodes = {0, 1, 2, 3, 4, 7, 64, 255}
  Depth = 10
INIT HInit
NEXT SimNext
INVARIANTS HistLaw ResidueAgreesAccept
CHECK_DEADLOCK FALSE
