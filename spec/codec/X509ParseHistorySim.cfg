\* history machine, random walks (-simulate): HistDepth calls over six shapes, neighbours mostly; HIST export
CONSTANTS
  Templates <- QuickTemplates
  MaxParts = 3
  PermAll = 3
  HistShapes <- MCHistShapes
  HistMutNames <- MCHistMutNames
  HistSlots = {"iss", "sub", "san"}
  HistDepth = 12
INIT HistInit
NEXT HistSimNext
INVARIANTS HistTypeOK Functional PerCertificate ArgsIntact ExportHist
CHECK_DEADLOCK FALSE
