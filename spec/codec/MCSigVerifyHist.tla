-------------------------- MODULE MCSigVerifyHist --------------------------
(* Simulation instance of SigVerifyHist: TLC draws sessions (random walks over the calls of one signed object,   *)
(* with repetition), checks the laws of the history on every state and exports each finished walk with the      *)
(* verdict of every call and the set of coarse memos the walk exposes.  Run with -simulate, -workers 1.          *)
EXTENDS SigVerifyHist, Json, TLC

ASSUME KeyTypes \subseteq DOMAIN KeyInfo /\ CtorKeyTypes \subseteq DOMAIN KeyInfo
AllCodes == 0..255
ASSUME HashMutCodes \subseteq Codes /\ SigMutCodes \subseteq Codes
ASSUME Depth \in Nat /\ Depth >= 2
\* the exhaustive two-call instance (SigVerifyHistPairs.cfg) takes one non-standard value of either shape dimension
PairsIssuances == {"direct", "viaP"}
PairsOrders == {"std", "poisonBeforeAki"}

(* --- the walk: one successor per step (RandomElement bound once per step; a LET would re-draw per use) --- *)
\* Neighbours are what matters: consecutive calls that differ in ONE component.  A session starts with the object
\* as signed.  After a call that presented it unmutated: 11 in 20 a mutation (the component to change is drawn
\* first, the mutation of that component second, so that the many algorithm codes do not crowd out the signed
\* fields), 4 in 20 the same call with the opt-in flag toggled, 2 in 20 the same call again (call twice), else
\* unmutated again.  After a call that presented a mutation: 16 in 20 back to the unmutated object (valid - mutated
\* - valid on the same objects gives both directions for the mutated component), 2 in 20 the same call again,
\* 2 in 20 another mutation.  The flag only changes in the toggle step.
CompOf(mu) == CASE mu.m \in {"field", "unser"} -> mu.t  [] mu.m = "key-same-type" -> "keyid"
                 [] mu.m = "key-other-type" -> "keytype" [] mu.m = "value" -> "form"
                 [] mu.m = "norm" -> "dataform"
                 [] OTHER -> mu.m   \* "hash", "sig"
ProperMuts(b) == Muts(b.kind, b.key, b.hash, b.dform) \ {NoMut}
MutCompsOf(b) == {CompOf(mu) : mu \in ProperMuts(b)}
SimOpen ==
  \E k \in {RandomElement(Kinds)}, kt \in {RandomElement(KeyTypes)} :
    \E h \in {RandomElement(ObjHashes(k))}, sh \in {RandomElement(Shapes(k))} :
      \* (an object handed over as bytes: one session in two is about one signed in the plain form)
      \E r \in {RandomElement(1..2)}, d0 \in {RandomElement(DataForms(k))} :
        Open([kind |-> k, key |-> kt, hash |-> h, shape |-> sh, dform |-> IF r = 1 THEN "plain" ELSE d0])
\* Refusals: after a call that presented the unmutated object 1 step in 20, after a mutated one 1 in 20, is an
\* Interlude; unencodable presentations of the session's own object are mutations like the others.  After a refused
\* step (the ghost `residue` is up) of a session whose calls build signed bytes: 10 in 20 the unmutated object (a
\* Residue implementation rejects it), 7 in 20 the glued value (it accepts it), 1 in 20 another interlude, else
\* any mutation.
LastCall == LET idx == {i \in 1..Len(hist) : IsCall(hist[i])} IN
            IF idx = {} THEN 0 ELSE CHOOSE i \in idx : \A j \in idx : j <= i
SimCall ==
  /\ base # NoBase /\ Len(hist) < Depth
  /\ \E w \in {RandomElement(1..20)}, rot \in {RandomElement(0..3)}, a0 \in {RandomElement(Allows(base.kind))} :
       LET first == LastCall = 0
           prev == IF first THEN [mut |-> NoMut, allow |-> a0] ELSE hist[LastCall].call
           tog == IF ViaVerifier(base.kind) THEN ~prev.allow ELSE FALSE
           Mutated == \E x \in {RandomElement(MutCompsOf(base))} :
                        \E mu \in {RandomElement({m \in ProperMuts(base) : CompOf(m) = x})} :
                          Call([mut |-> mu, allow |-> prev.allow], rot)
           Unmutated == Call([mut |-> NoMut, allow |-> prev.allow], rot)
           Refusal == \E u \in {RandomElement(Unencodables)} : Interlude(u, rot)
       IN IF Len(hist) = 0 THEN Unmutated
          ELSE IF residue /\ Serializes(base.kind)
               THEN CASE w \in 1..10 -> Unmutated
                      [] w \in 11..17 -> Call([mut |-> Glued, allow |-> prev.allow], rot)
                      [] w = 18 -> Refusal
                      [] OTHER -> Mutated
          ELSE IF prev.mut = NoMut
               THEN CASE w \in 1..10 -> Mutated
                      [] w = 11 -> Refusal
                      [] w \in 12..15 -> Call([prev EXCEPT !.allow = tog], rot)
                      [] w \in 16..17 -> Call(prev, rot)
                      [] OTHER -> Unmutated
               ELSE CASE w \in 1..15 -> Unmutated
                      [] w = 16 -> Refusal
                      [] w \in 17..18 -> Call(prev, rot)
                      [] OTHER -> Mutated
\* Simulation evaluates invariants on every candidate successor: the export hangs on a unique closing step.
End == [op |-> "End"]
Finish == /\ Len(hist) = Depth
          /\ hist' = Append(hist, End)
          /\ UNCHANGED <<base, last, exposed, residue>>
SimNext == (base = NoBase /\ SimOpen) \/ SimCall \/ Finish

\* one exported call: the case in the shape of MCSigVerify's export (the harness reads both with one type), plus
\* `ctor0`: can a verifier be built for the presented key without the opt-in (the concurrent replay keeps the
\* process-wide flag off), and `rot`
\* (an interlude is exported as a row of its own shape: the unencodable object and the verdict "error")
Row(h) ==
  IF IsInterlude(h) THEN [interlude |-> h.interlude, expect |-> h.res, rot |-> h.rot]
  ELSE
  LET c == CaseOf(base, h.call) IN
  [c |-> c, expect |-> h.res[1], e2e |-> h.res[2],
   pkey |-> PKeyType(c), phash |-> PHash(c), psig |-> PSig(c), pform |-> PForm(c),
   list |-> IF c.kind = "LogList" THEN ListVerdict(c) ELSE h.res[1],
   stage |-> IF c.kind = "LogList" THEN ListStage(c) ELSE "none",
   ctor |-> Constructible(PKeyType(c), c.allow), ctor0 |-> Constructible(PKeyType(c), FALSE), rot |-> h.rot]
ExportWalk ==
  (Len(hist) = Depth + 1) =>
     PrintT(<<"WALK", ToJson([base |-> base, calls |-> [i \in 1..Depth |-> Row(hist[i])],
                              exposed |-> exposed, required |-> Required(base.kind)])>>)

\* model-level mutation test of the ghost (run once while developing, SigVerifyHistMemo.cfg): an implementation
\* that memoises on everything but the issuer key hash agrees with the function on every reachable history.
\* TLC must report this violated.
MemoIssuerAgrees == <<"issuerkeyhash", "accept">> \notin exposed
\* the same for Residue (SigVerifyHistResidue.cfg): TLC must find a history on which an implementation that keeps
\* what a refused call emitted answers wrongly in either direction
ResidueAgreesReject == <<"residue", "reject">> \notin exposed
ResidueAgreesAccept == <<"residue", "accept">> \notin exposed
=============================================================================
