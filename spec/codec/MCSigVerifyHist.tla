-------------------------- MODULE MCSigVerifyHist --------------------------
(* Simulation instance of SigVerifyHist: TLC draws sessions (random walks over the calls of one signed object,   *)
(* with repetition), checks the laws of the history on every state and exports each finished walk with the      *)
(* verdict of every call and the set of coarse memos the walk exposes.  Run with -simulate, -workers 1.          *)
EXTENDS SigVerifyHist, Json, TLC

ASSUME KeyTypes \subseteq DOMAIN KeyInfo /\ CtorKeyTypes \subseteq DOMAIN KeyInfo
AllCodes == 0..255
ASSUME HashMutCodes \subseteq Codes /\ SigMutCodes \subseteq Codes
ASSUME Depth \in Nat /\ Depth >= 2

(* --- the walk: one successor per step (RandomElement bound once per step; a LET would re-draw per use) --- *)
\* Neighbours are what matters: consecutive calls that differ in ONE component.  A session starts with the object
\* as signed.  After a call that presented it unmutated: 11 in 20 a mutation (the component to change is drawn
\* first, the mutation of that component second, so that the many algorithm codes do not crowd out the signed
\* fields), 4 in 20 the same call with the opt-in flag toggled, 2 in 20 the same call again (call twice), else
\* unmutated again.  After a call that presented a mutation: 16 in 20 back to the unmutated object (valid - mutated
\* - valid on the same objects gives both directions for the mutated component), 2 in 20 the same call again,
\* 2 in 20 another mutation.  The flag only changes in the toggle step.
CompOf(mu) == CASE mu.m = "field" -> mu.t            [] mu.m = "key-same-type" -> "keyid"
                 [] mu.m = "key-other-type" -> "keytype" [] mu.m = "value" -> "form"
                 [] OTHER -> mu.m   \* "hash", "sig"
ProperMuts(b) == Muts(b.kind, b.key, b.hash) \ {NoMut}
MutCompsOf(b) == {CompOf(mu) : mu \in ProperMuts(b)}
SimOpen ==
  \E k \in {RandomElement(Kinds)}, kt \in {RandomElement(KeyTypes)} :
    \E h \in {RandomElement(ObjHashes(k))} : Open([kind |-> k, key |-> kt, hash |-> h])
SimCall ==
  /\ base # NoBase /\ Len(hist) < Depth
  /\ \E w \in {RandomElement(1..20)}, rot \in {RandomElement(0..3)}, a0 \in {RandomElement(Allows(base.kind))} :
       LET first == Len(hist) = 0
           prev == IF first THEN [mut |-> NoMut, allow |-> a0] ELSE hist[Len(hist)].call
           tog == IF ViaVerifier(base.kind) THEN ~prev.allow ELSE FALSE
           Mutated == \E x \in {RandomElement(MutCompsOf(base))} :
                        \E mu \in {RandomElement({m \in ProperMuts(base) : CompOf(m) = x})} :
                          Call([mut |-> mu, allow |-> prev.allow], rot)
           Unmutated == Call([mut |-> NoMut, allow |-> prev.allow], rot)
       IN IF first THEN Unmutated
          ELSE IF prev.mut = NoMut
               THEN CASE w \in 1..11 -> Mutated
                      [] w \in 12..15 -> Call([prev EXCEPT !.allow = tog], rot)
                      [] w \in 16..17 -> Call(prev, rot)
                      [] OTHER -> Unmutated
               ELSE CASE w \in 1..16 -> Unmutated
                      [] w \in 17..18 -> Call(prev, rot)
                      [] OTHER -> Mutated
\* Simulation evaluates invariants on every candidate successor: the export hangs on a unique closing step.
End == [op |-> "End"]
Finish == /\ Len(hist) = Depth
          /\ hist' = Append(hist, End)
          /\ UNCHANGED <<base, last, exposed>>
SimNext == (base = NoBase /\ SimOpen) \/ SimCall \/ Finish

\* one exported call: the case in the shape of MCSigVerify's export (the harness reads both with one type), plus
\* `ctor0`: can a verifier be built for the presented key without the opt-in (the concurrent replay keeps the
\* process-wide flag off), and `rot`
Row(h) ==
  LET c == CaseOf(base, h.call) IN
  [c |-> c, expect |-> h.res[1], e2e |-> h.res[2],
   pkey |-> PKeyType(c), phash |-> PHash(c), psig |-> PSig(c),
   ctor |-> Constructible(PKeyType(c), c.allow), ctor0 |-> Constructible(PKeyType(c), FALSE), rot |-> h.rot]
ExportWalk ==
  (Len(hist) = Depth + 1) =>
     PrintT(<<"WALK", ToJson([base |-> base, calls |-> [i \in 1..Depth |-> Row(hist[i])],
                              exposed |-> exposed, required |-> Required(base.kind)])>>)

\* model-level mutation test of the ghost (run once while developing, SigVerifyHistMemo.cfg): an implementation
\* that memoises on everything but the issuer key hash agrees with the function on every reachable history.
\* TLC must report this violated.
MemoIssuerAgrees == <<"issuerkeyhash", "accept">> \notin exposed
=============================================================================
