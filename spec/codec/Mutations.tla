------------------------------ MODULE Mutations ------------------------------
(***************************************************************************)
(* Byte strings derived from a valid encoding, shared by the case          *)
(* enumerations of C09 (MCTLSCodec) and C04 (MCRFC6962Wire).               *)
(***************************************************************************)
EXTENDS TLSCodec, Integers

RECURSIVE LitPos(_, _)
LitPos(bs, off) == IF bs = <<>> THEN {}
                   ELSE (IF Head(bs).k = "lit" THEN (off + 1)..(off + Head(bs).n) ELSE {}) \cup LitPos(Tail(bs), off + Head(bs).n)
ByteAt(bs, p) == Expand(Take(Drop(bs, p - 1), 1))[1]
SetByte(bs, p, val) == Take(bs, p - 1) \o <<Lit(<<val>>)>> \o Drop(bs, p)
Trail == B(<<170>>)
In(m, p, d, b) == [m |-> m, p |-> p, d |-> d, b |-> b]

\* the literal positions of e (integers, enums, selectors, length prefixes - payloads are fills) number from..to
LitsBetween(e, from, to) ==
  LET all == LitPos(e, 0) IN {p \in all : LET o == Cardinality({q \in all : q < p}) + 1 IN o >= from /\ o <= to}

\* valid encoding e: itself, with a trailing byte, truncated (to fewer than `heads` bytes, and by one and two bytes),
\* and with each chosen literal byte moved by +1 / -1: length prefix +-1, > max, < min, selector without arm, ...
MutationsOf(e, heads, lits) ==
  LET L == BLen(e) IN
       {In("valid", 0, 0, e), In("trail", 0, 0, e \o Trail)}
  \cup {In("trunc", k, 0, Take(e, k)) : k \in {k \in (0..(heads - 1)) \cup ((L - 2)..(L - 1)) : k >= 0 /\ k < L}}
  \cup {In("bump", p, 1, SetByte(e, p, (ByteAt(e, p) + 1) % 256)) : p \in lits}
  \cup {In("bump", p, -1, SetByte(e, p, (ByteAt(e, p) + 255) % 256)) : p \in lits}
=============================================================================
