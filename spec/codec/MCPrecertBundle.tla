-------------------------- MODULE MCPrecertBundle --------------------------
(* Case enumeration for the reading clause of Precert (OwnOctetsOnly): one state per BUNDLE - a sequence of       *)
(* certificate kinds that differ in which optional parts they have (version element, unique identifiers,         *)
(* extensions field, an SCT list among the extensions, algorithm parameters) - in every order, with repetition.   *)
(* The clause as an invariant, the reader it excludes as a refutation run (Carry = TRUE must violate it), every   *)
(* bundle exported with what each position must read back and with the fields a carrying reader would get wrong;  *)
(* the kinds and the entry points exported once.  Replayed into x509.ParseCertificate / ParseCertificates /       *)
(* ParseTBSCertificate, x509util.CertificateFromPEM / CertificatesFromPEM / ParseSCTsFromCertificate (DER, PEM),  *)
(* ctutil.ContainsSCT.                                                                                            *)
EXTENDS Precert, Json

CONSTANTS
  MaxBundle,   \* bundles of 1..MaxBundle certificates
  Carry        \* FALSE: the specification; TRUE: the reader the clause excludes (refutation run)

RC(ver, uid, xf, ids, sct, sig, key) ==
  [ver |-> ver, uid |-> uid, xf |-> xf, sig |-> sig, key |-> key,
   exts |-> [i \in DOMAIN ids |-> Ext(ids[i], ids[i] = "BC", IF ids[i] = "SCTLIST" THEN sct ELSE IF ids[i] = "AKI" THEN "k1" ELSE "v1")]]

\* The kinds.  Two different embedded lists (A: two SCTs, B: one SCT) so that a list read back from a neighbour that
\* has one too is seen; the extensions field present and non-empty, present and empty (clause EmptyExtensionsKept
\* makes such certificates), absent; all three versions; unique identifiers; signature / key algorithms with and
\* without parameters.
KindTable ==
  [leafA   |-> RC("v3", "none", TRUE,  <<"SAN", "EKU", "SCTLIST", "AKI">>, "A", "p256", "p256"),
   leafB   |-> RC("v3", "none", TRUE,  <<"SCTLIST", "BC">>, "B", "rsa2048", "rsa2048"),
   uidsct  |-> RC("v3", "both", TRUE,  <<"U1", "SCTLIST">>, "B", "p256", "ed25519"),
   plain   |-> RC("v3", "none", TRUE,  <<"BC", "SAN", "U1">>, "none", "p256", "ed25519"),
   emptyx  |-> RC("v3", "none", TRUE,  <<>>, "none", "p256", "p256"),
   v3bare  |-> RC("v3", "none", FALSE, <<>>, "none", "p256", "p256"),
   v2uid   |-> RC("v2", "both", FALSE, <<>>, "none", "p256", "p256"),
   v1rsa   |-> RC("v1", "none", FALSE, <<>>, "none", "rsa2048", "rsa2048"),
   v1bare  |-> RC("v1", "none", FALSE, <<>>, "none", "p256", "ed25519")]
KindNames == DOMAIN KindTable
SctLists == [A |-> 2, B |-> 1]       \* number of SCTs of the named lists

Bundles == UNION {[1..n -> KindNames] : n \in 1..MaxBundle}
CertsOf(b) == [i \in DOMAIN b |-> KindTable[b[i]]]

\* the kinds are certificates: at most one SCT list, extensions only inside an extensions field, and "none" is the
\* list of exactly the kinds without an SCT list extension
ASSUME KindsWellFormed ==
  \A k \in KindNames : LET c == KindTable[k] IN
    /\ Count(c.exts, "SCTLIST") <= 1
    /\ (~c.xf => c.exts = <<>>)
    /\ (Read(c).sct = "none" <=> Count(c.exts, "SCTLIST") = 0)
    /\ (Read(c).sct # "none" => Read(c).sct \in DOMAIN SctLists)
\* the case space can tell the specified reader from a carrying one in EVERY reported field, already with two
\* certificates (if this fails, a dimension of the kinds is missing)
ASSUME EveryFieldDistinguished ==
  \A f \in ReportFields : \E k1, k2 \in KindNames : f \in CarriedAt(<<KindTable[k1], KindTable[k2]>>, 2)
\* a single certificate, and the first of a bundle, reads the same under both readers (nothing came before)
ASSUME FirstIsOwn == \A k1, k2 \in KindNames : CarriedAt(<<KindTable[k1], KindTable[k2]>>, 1) = {}

VARIABLE b
Init == b \in Bundles
Next == UNCHANGED b

BundleLaws ==
  LET cs == CertsOf(b)  out == ReadAll(ZeroTarget, cs, Carry) IN
  /\ OwnOctetsOnly(cs, Carry)
  /\ \A e \in DOMAIN EntryPoints :
        /\ CallsCover(e, cs)
        /\ \A i \in DOMAIN cs : ResultAt(e, cs, i) = View(EntryPoints[e].view, out[i])

\* sets as sequences for the export (a fixed order of the field names)
FieldOrder == <<"version", "iuid", "suid", "exts", "sct", "sigParams", "keyParams">>
ASSUME {FieldOrder[i] : i \in DOMAIN FieldOrder} = ReportFields
CarriedNames(cs, i) == LET ca == CarriedAt(cs, i) IN SelectSeq(FieldOrder, LAMBDA f : f \in ca)

BundleExport ==
  LET cs == CertsOf(b) IN
  PrintT(<<"BUNDLE", ToJson([b |-> b,
                             expect  |-> [i \in DOMAIN cs |-> Read(cs[i])],
                             carried |-> [i \in DOMAIN cs |-> CarriedNames(cs, i)]])>>)

Tri(exts) == [i \in DOMAIN exts |-> <<exts[i].id, exts[i].crit, exts[i].val>>]
ASSUME PrintT(<<"KINDS", ToJson([kinds |-> [k \in KindNames |-> [KindTable[k] EXCEPT !.exts = Tri(@)]],
                                 lists |-> SctLists,
                                 entrypoints |-> EntryPoints])>>)
=============================================================================
