CONSTANTS
  ShapeNames <- MCHistShapes
  HistShapes <- MCHistShapes
  HistWraps <- MCHistWraps
  Instances = {0, 1}
  Depth = 10
  Variants = {0, 1, 2, 3}
  LaxTolerated = {"nonMinimalInteger", "emptyOID", "printableIsLatin1", "printableIsT61"}
  AlwaysRejected = {"nonMinimalLength", "leadingZeroLength", "indefiniteLength", "nonMinimalTag", "truncated",
                    "wrongTag", "requiredFieldMissing", "explicitPrimitive", "emptyInteger", "integerTooLarge",
                    "oidTruncatedArc", "oidArcTooLarge", "printableIsNeither", "badUTF8", "badIA5", "badNumeric",
                    "badBool", "boolTwoOctets", "badBitStringPadding", "bitStringPadTooBig", "emptyBitString", "badTime"}
  DeliberateDiff = {"oidArcLeading80", "highTagLeading80", "genTimeFraction", "setOfUnsorted"}
  Benign = {"rawInnerNonDER", "trailingInSequence", "utcNoSeconds"}
  AncestorDefects = {}
  Wraps = {}
  TimeBoundaries = {1950, 2050}
  TimeMinutes <- MCTimeMinutes
  TimeOffsets <- MCTimeOffsets
  StringFormShapes = {}   \* (a constant of the case enumeration; the walks draw string forms wherever they apply)
INIT HInit
NEXT HNext
INVARIANTS HistTypeOK CallIsFunction FreshIsAlone KeepsOnlyAbsentOptional ElementsAreFresh FullWriteForgets
           SyncMeansSameVerdicts ExportFinished
CHECK_DEADLOCK FALSE
