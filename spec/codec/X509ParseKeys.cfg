\* the key containers as nested parsers: every (entry point, key kind, defect) case; -workers 1 (KCASE export)
CONSTANTS
  Wrapper = "discard"
INIT KInit
NEXT KNext
INVARIANTS KTypeOK KeyCoherent NoTypedNil RejectionSurfaces WellFormedKey FindingPolicy PrivateIsStrict ExportKeyCase
CHECK_DEADLOCK FALSE
