------------------------ MODULE MCX509ParseFirstUse ------------------------
(* Model-checking instances of X509ParseFirstUse and the PLANS replayed into the real parsers:   *)
(* which calls (entry point of X509ParseKeys.tla / X509Parse.tla, key kind) meet at the first    *)
(* use of which lazily built value, each plan in a fresh process.                                *)
EXTENDS X509ParseFirstUse, Json

\* the lazily built values behind the parsers: the parameters of the named curves (x509/curves.go builds
\* secp192r1 itself, crypto/elliptic the others); "-" stands for whatever else a first call sets up
PlanLazy == {"p192", "p224", "p256", "p384", "p521"}
Next5(l) == CASE l = "p192" -> "p256" [] l = "p224" -> "p192" [] l = "p256" -> "p192" [] l = "p384" -> "p192" [] OTHER -> "p192"

\* every entry point that resolves the curve of an EC key
CurveUsers == {"sec1", "pkcs8", "pkix", "csr", "cert", "tbs", "list"}
\* calls that need no curve: the other key kinds through every entry point that takes them, and the CRL parsers
Bystanders == {<<"pkcs1", "rsa">>, <<"pkcs8", "rsa">>, <<"pkcs8", "ed25519">>, <<"pkix", "rsa">>, <<"pkix", "ed25519">>, <<"pkix", "dsa">>,
               <<"csr", "rsa">>, <<"csr", "ed25519">>, <<"cert", "rsa">>, <<"cert", "ed25519">>, <<"cert", "dsa">>, <<"tbs", "rsa">>,
               <<"list", "ed25519">>, <<"crl", "rsa">>, <<"crllist", "rsa">>, <<"crlpem", "rsa">>, <<"csr", "dsa">>}

Plan(kind, l, calls, twice) == [kind |-> kind, lazy |-> l, calls |-> calls, twice |-> twice]

Plans ==
  \* every user of one curve at once, each call on two goroutines
  {Plan("all", l, {<<e, l>> : e \in CurveUsers}, TRUE) : l \in PlanLazy} \cup
  \* the private-key parsers alone (the shortest way to the curve), four goroutines each
  {Plan("priv", l, {<<"sec1", l>>, <<"pkcs8", l>>}, TRUE) : l \in PlanLazy} \cup
  \* the users of one curve among users of another and calls that need none
  {Plan("mixed", l, {<<e, l>> : e \in CurveUsers} \cup {<<e, Next5(l)>> : e \in {"sec1", "pkix", "cert"}} \cup Bystanders, FALSE) : l \in PlanLazy} \cup
  \* no curve at all: the first call of every other kind through every entry point
  {Plan("none", "-", Bystanders, TRUE)}

ASSUME \A p \in Plans :
         PrintT(<<"PLAN", ToJson([kind |-> p.kind, lazy |-> p.lazy, twice |-> p.twice,
                                  calls |-> {[e |-> c[1], k |-> c[2]] : c \in p.calls}])>>)
=============================================================================
