\* certificate lists and armour: every (entry point, armour, payload) case of the quick tier; -workers 1 (LCASE export)
CONSTANTS
  EntryPolicy = "collect"
  BlockGuard = TRUE
  Deep = FALSE
  Cases <- MCCases
INIT LInit
NEXT LNext
INVARIANTS LTypeOK Total ListCoherent WarningsKeepObject WarningsReported FatalSurfaces OpaqueIsBinary NoFindingBeforeDER MachineMeetsVerdict ArmourTransparent NotABlockIsFatal ExportListCase
CHECK_DEADLOCK FALSE
