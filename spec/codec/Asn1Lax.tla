------------------------------ MODULE Asn1Lax ------------------------------
(* C10 - the ASN.1 fork is as strict as upstream; lax mode only adds acceptances.

   A DECISION MODEL, not a byte-level parser.  A case is

       [shape, v, defect, path, mode, laxAt]

   shape   a Go target type, given as a tree of nodes [k, p, kids] (k = kind, p = set of field
           parameters as they appear in the `asn1:"..."` tag, kids = fields / element type)
   v       value variant: which optional fields are present, how many SEQUENCE OF elements, which
           leaf values, whether unconsumed bytes follow the value (the harness owns the concrete
           leaf values; every variant is a well-formed DER encoding that Marshal would produce)
           0: everything present, 2 elements   1: optional fields absent, 0 elements
           2: everything present, 3 elements, a remainder follows
           3: optional fields absent, 1 element (absent members INSIDE the elements of a SEQUENCE OF)
   tf      time form (NoTF = the variant's own times): every time leaf of the value is the wall-clock
           time `m` minutes from 1 January 00:00 of year `b`, written with the zone offset `off`
           minutes; b is one of the years at which Marshal changes between UTCTime and GeneralizedTime
   defect  "none" or ONE malformation of the encoding, placed at the node `path` of the value tree
   mode    strict      Unmarshal(b, &T)
           laxTop      UnmarshalWithParams(b, &T, "lax")
           laxAncestor UnmarshalWithParams(b, &W, "lax") where W embeds T in the containers `wrap`
                       (outermost first; struct field / SEQUENCE OF element / SET OF element /
                       EXPLICIT field / OPTIONAL field), the defect sits inside T: lax requested
                       on an ancestor must reach it through every kind of container
           fieldTag    Unmarshal(b, &T') where T' is T with `lax` added to the tag of the struct
                       field at path laxAt.  The property speaks about lax MODE, not about this
                       way of switching it on: the clause FieldTagLax is NAMED BUT NOT ASSERTED
                       (mode verdict "unasserted"; the harness records what the code does)

   top     the field parameters of the ROOT node of a shape (tag number, tag class, explicit, optional,
           default) are the TOP-LEVEL parameter string: UnmarshalWithParams(b, &T, "<parameters>[,lax]") in
           the fork and in encoding/asn1, MarshalWithParams for the way back.  Inside the containers of mode
           laxAncestor the same node is a struct member with the same parameters as its `asn1:"..."` tag.

   Verdict(case) says what three decoders must do with the bytes: the fork called strictly on T,
   the fork called as `mode` says, and the standard library's encoding/asn1 (upstream).  It is
   written from the property text, the fork's package documentation and X.690 - as a table of
   defects - and the laws below are checked on it by TLC; the harness realizes every case as bytes
   + reflect-built Go types and compares the real decoders with the verdict.                      *)
(* DeliberateDiff - derived from `diff $(go env GOROOT)/src/encoding/asn1 /repo/asn1` (go1.23.5) and each
   confirmed by running both decoders (harness/c10 re-confirms them on every run: the model's `std`
   column is checked against the real encoding/asn1, a mismatch is an infrastructure error):
     oidArcLeading80   parseBase128Int lost upstream's "integer is not minimally encoded" check: an OID
     highTagLeading80  arc / a high tag number may start with the padding group 0x80 (06 04 2a 80 03 04 is
                       1.2.3.4 for the fork, a syntax error upstream; 9f 80 28 is [40] for the fork)
     genTimeFraction   parseGeneralizedTime uses "20060102150405Z0700": fractions of a second, which upstream
                       accepts ("20060102150405.999999999Z0700"), are rejected ("20200102030405.5Z")
     setOfUnsorted     Marshal has no setEncoder: SET OF elements are written in slice order, upstream sorts
                       them (decoding is the same: neither checks the order)
   Outside the case space (not about byte strings): Unmarshal(b, nil) / Unmarshal(b, nonPointer) panics in
   the fork, upstream returns an invalidUnmarshalError; error texts carry the field name in the fork.
   Benign (named clauses, both decoders): RawValue contents are opaque; extra elements at the end of a
   SEQUENCE decoded into a struct are ignored; a UTCTime may leave out the seconds (X.680 allows it, DER
   does not).  Times written with a zone offset instead of "Z" are in the same class (clause ZoneOffset
   below): every decoder accepts them and Marshal writes the offset back.                              *)
EXTENDS Integers, Sequences, FiniteSets, TLC

CONSTANTS
  ShapeNames,      \* the shapes explored by this instance (subset of DOMAIN Shapes)
  Variants,        \* subset of 0..3
  LaxTolerated,    \* malformations that lax mode - and only lax mode - accepts (property text)
  AlwaysRejected,  \* malformations every decoder in every mode rejects
  DeliberateDiff,  \* documented differences fork vs. encoding/asn1 of the installed toolchain
  Benign,          \* not DER, accepted by every decoder in every mode (named clauses, see below)
  AncestorDefects, \* defects combined with mode laxAncestor (all of them in the thorough instance)
  Wraps,           \* container stacks of mode laxAncestor (sequences of container names, outermost first)
  TimeBoundaries,  \* time forms: the years at which the written form of a time changes (1950, 2050)
  TimeMinutes,     \* ... wall-clock minutes from 1 January 00:00 of the boundary year (negative: the year before)
  TimeOffsets,     \* ... zone offsets in minutes (0 is "Z", the only DER form)
  StringFormShapes \* the shapes in which the string forms (clause StringTable) are placed

VARIABLES c,       \* the case
          vd       \* its verdict, Verdict(c) (a variable so that the laws below evaluate it once per case)

N(k, p, kids) == [k |-> k, p |-> p, kids |-> kids]
L(k, p)       == N(k, p, <<>>)
Struct(p, fs) == N("struct", p, fs)
SeqOf(p, e)   == N("seqof", p, <<e>>)
SetOf(p, e)   == N("setof", p \cup {"set"}, <<e>>)
Expl(p, e)    == N("explicit", p, <<e>>)      \* the EXPLICIT wrapper is a node of its own (it has a header)

Opt == {"optional"}

(* ---- the catalogue of target types --------------------------------------------------------- *)
Shapes == [
  \* single values
  int      |-> L("int", {}),
  int32    |-> L("int32", {}),
  int64    |-> L("int64", {}),
  big      |-> L("bigint", {}),
  enum     |-> L("enum", {}),
  bool     |-> L("bool", {}),
  bits     |-> L("bitstring", {}),
  oid      |-> L("oid", {}),
  str      |-> L("str", {}),
  time     |-> L("utctime", {}),
  raw      |-> L("raw", {}),
  octets   |-> L("bytes", {}),
  anyv     |-> L("any", {"anyint"}),
  \* one struct per family of kinds
  ints     |-> Struct({}, <<L("int", {}), L("int32", {}), L("int64", {}), L("bigint", {}), L("enum", {})>>),
  strs     |-> Struct({}, <<L("str", {}), L("str", {"utf8"}), L("str", {"ia5"}), L("str", {"printable"}),
                             L("str", {"numeric"})>>),
  times    |-> Struct({}, <<L("utctime", {}), L("gentime", {"generalized"}), L("time2050", {})>>),
  misc     |-> Struct({}, <<L("bool", {}), L("bitstring", {}), L("oid", {}), L("bytes", {}), L("raw", {})>>),
  anys     |-> Struct({}, <<L("any", {"anyint"}), L("any", {"anyprintable"}), L("any", {"anyoid"})>>),
  \* optional / default / explicit / implicitly tagged fields
  opt      |-> Struct({}, <<L("int", {}), L("int", {"tag0"} \cup Opt), L("str", {"utf8"} \cup Opt),
                             L("int", {"default7", "tag1"} \cup Opt), L("oid", Opt), L("bool", {})>>),
  expl     |-> Struct({}, <<Expl({"tag0"}, L("int", {})), Expl({"tag1"} \cup Opt, L("str", {})),
                             Expl({"tag2"}, L("oid", {})), Expl({"tag3"}, L("bigint", {}))>>),
  impl     |-> Struct({}, <<L("int", {"tag0"}), L("str", {"tag1"}), L("str", {"tag2", "utf8"}),
                             L("oid", {"tag3"} \cup Opt), L("bitstring", {"tag4"}), L("enum", {"tag5"})>>),
  hightag  |-> Struct({}, <<L("int", {"tag40"}), Expl({"tag41"}, L("oid", {})), L("str", {"tag1000"})>>),
  flag     |-> Struct({}, <<L("flag", {"tag0"} \cup Opt), L("int", {})>>),
  \* SEQUENCE OF / SET OF
  seqint   |-> SeqOf({}, L("int", {})),
  seqoid   |-> Struct({}, <<SeqOf({}, L("oid", {})), L("int", {})>>),
  seqstr   |-> Struct({}, <<SeqOf({}, L("str", {}))>>),
  setint   |-> Struct({}, <<SetOf({}, L("int", {})), L("bool", {})>>),
  setstruct|-> Struct({}, <<SetOf({}, Struct({}, <<L("oid", {}), L("str", {})>>))>>),
  seqseq   |-> Struct({}, <<SeqOf({}, SeqOf({}, L("bigint", {})))>>),
  name     |-> N("seqof", {"goRDN"}, <<SetOf({}, Struct({}, <<L("oid", {}), L("any", {"anyprintable"})>>))>>),
  \* nesting (depth 3), SET structures, tagged containers
  nest3    |-> Struct({}, <<Struct({}, <<Struct({}, <<L("int", {}), L("oid", {}), L("str", {})>>),
                                           SeqOf({}, L("bigint", {}))>>), L("int", {})>>),
  nestseq  |-> Struct({}, <<SeqOf({}, Struct({}, <<L("int", {}), SeqOf({}, L("str", {}))>>))>>),
  setfld   |-> Struct({}, <<Struct({"set"}, <<L("int", {}), L("bool", {})>>), L("oid", {})>>),
  explseq  |-> Struct({}, <<Expl({"tag0"}, SeqOf({}, L("int", {}))),
                             Expl({"tag1"} \cup Opt, Struct({}, <<L("int", {}), L("str", {})>>))>>),
  optstruct|-> Struct({}, <<L("int", {}), Struct(Opt, <<L("oid", {}), L("int", {})>>),
                             SeqOf({"tag0"} \cup Opt, L("int", {}))>>),
  implcons |-> Struct({}, <<Struct({"tag0"}, <<L("int", {}), L("str", {})>>), SetOf({"tag1"}, L("oid", {}))>>),
  \* RawContent (first field of a struct keeps the struct's encoding for Marshal)
  rawc     |-> Struct({"rawcontent"}, <<L("int", {}), L("str", {}), L("oid", {}), SetOf({}, L("int", {}))>>),
  nestrawc |-> Struct({}, <<Struct({"rawcontent"}, <<L("int", {}), L("str", {})>>), L("bigint", {}),
                             L("raw", {})>>),
  \* ---- times: one shape per way a time reaches the decoder (UTCTime / GeneralizedTime on the wire, plain /
  \* `generalized` field, top level / struct field / SEQUENCE OF element / EXPLICIT), so that a time form can
  \* round-trip in each (`times` above mixes the three and round-trips only in its own variants)
  tgtop    |-> L("time2050", {}),
  tutc     |-> Struct({}, <<L("utctime", {}), L("int", {})>>),
  tgen     |-> Struct({}, <<L("gentime", {"generalized"})>>),
  tplain   |-> Struct({}, <<L("int", {}), L("time2050", {})>>),
  tseq     |-> SeqOf({}, L("utctime", {})),
  texpl    |-> Struct({}, <<Expl({"tag0"}, L("utctime", {})), Expl({"tag1"} \cup Opt, L("utctime", {}))>>),
  \* ---- elements of a SEQUENCE OF / SET OF with members that can be absent (X.509 Extension, AttributeTypeAndValue)
  seqopt   |-> SeqOf({}, Struct({}, <<L("oid", {}), L("bool", Opt), L("int", {"tag1"} \cup Opt), L("bytes", {})>>)),
  setopt   |-> Struct({}, <<SetOf({}, Struct({}, <<L("int", {}), L("str", {"utf8"} \cup Opt),
                                                    SeqOf(Opt, L("int", {}))>>)), L("int", Opt)>>),
  \* ---- length octets: content lengths at every boundary of the length forms (short form <= 127, 81 xx <= 255,
  \* 82 xx xx <= 65535, 83 xx xx xx above).  "lenN" = the leaf has N content octets (BIT STRING: including the
  \* padding-count octet, so N >= 1); "bodyN" = the SEQUENCE body has N octets (one OCTET STRING child of the
  \* stated length; body 0 is the empty SEQUENCE, body 1 does not exist in BER).  Decoder side: the defects
  \* nonMinimalLength / leadingZeroLength / indefiniteLength placed on these nodes are the forms 81 7f, 82 00 7f,
  \* 82 00 ff, 83 00 01 00, 83 00 ff ff, 84 00 01 00 00: not among the documented lax malformations, so rejected
  \* in every mode.  Encoder side: RoundTrip at these lengths, byte-exact, cross-checked with encoding/asn1's Marshal.
  oct0     |-> L("bytes", {"len0"}),        oct1     |-> L("bytes", {"len1"}),
  oct127   |-> L("bytes", {"len127"}),      oct128   |-> L("bytes", {"len128"}),
  oct255   |-> L("bytes", {"len255"}),      oct256   |-> L("bytes", {"len256"}),
  oct65535 |-> L("bytes", {"len65535"}),    oct65536 |-> L("bytes", {"len65536"}),
  bit1     |-> L("bitstring", {"len1"}),    bit127   |-> L("bitstring", {"len127"}),
  bit128   |-> L("bitstring", {"len128"}),  bit255   |-> L("bitstring", {"len255"}),
  bit256   |-> L("bitstring", {"len256"}),  bit65535 |-> L("bitstring", {"len65535"}),
  bit65536 |-> L("bitstring", {"len65536"}),
  seq0     |-> Struct({"body0"}, <<>>),
  seq2     |-> Struct({"body2"}, <<L("bytes", {"len0"})>>),
  seq127   |-> Struct({"body127"}, <<L("bytes", {"len125"})>>),
  seq128   |-> Struct({"body128"}, <<L("bytes", {"len126"})>>),
  seq255   |-> Struct({"body255"}, <<L("bytes", {"len252"})>>),
  seq256   |-> Struct({"body256"}, <<L("bytes", {"len253"})>>),
  seq65535 |-> Struct({"body65535"}, <<L("bytes", {"len65531"})>>),
  seq65536 |-> Struct({"body65536"}, <<L("bytes", {"len65532"})>>),
  \* ---- tag classes (clause ClassTable below): EXPLICIT / IMPLICIT x {no class option (context-specific), application,
  \* private, both options} x tag numbers (0 implied by the class option alone, 1.., 30 | 31 = last short / first long
  \* identifier, 40) x required / OPTIONAL / DEFAULT x primitive / constructed content, as struct members ...
  clsexpl  |-> Struct({}, <<Expl({"tag1"}, L("int", {})), Expl({"tag1", "application"}, L("int", {})),
                             Expl({"tag1", "application", "private"}, L("int", {}))>>),
  clsimpl  |-> Struct({}, <<L("int", {"tag1"}), L("int", {"tag1", "application"}), L("int", {"tag1", "private"})>>),
  clsmix   |-> Struct({}, <<Expl({"application"}, L("oid", {})), L("str", {"private", "utf8"}),
                             Expl({"tag30", "application"}, L("str", {})), L("bitstring", {"tag31", "private"}),
                             Expl({"tag40", "application", "private"}, SeqOf({}, L("int", {}))),
                             Struct({"tag2", "application"}, <<L("int", {}), L("bool", {})>>),
                             SetOf({"tag3", "private"}, L("oid", {})), L("raw", {"tag4", "private"})>>),
  clsopt   |-> Struct({}, <<L("int", {}), Expl({"tag1", "application"} \cup Opt, L("int", {})),
                             L("str", {"tag1", "private", "utf8"} \cup Opt),
                             Expl({"tag2", "application", "private", "default7"} \cup Opt, L("int", {"default7"})),
                             L("int", {"tag2", "private", "default7"} \cup Opt)>>),
  \* (the ClassQuirk members - Marshal writes another class than Unmarshal reads - in shapes of their own)
  clsexplP |-> Struct({}, <<Expl({"tag1", "private"}, L("int", {})), Expl({"tag1"}, L("int", {})),
                             Expl({"private"}, L("oid", {}))>>),
  clsimplAP|-> Struct({}, <<L("int", {"tag1", "application", "private"}), L("int", {"tag1", "application"}),
                             Struct({"tag31", "application", "private"}, <<L("bool", {})>>)>>),
  clsoptreq|-> Struct({}, <<Expl({"tag1", "private"} \cup Opt, L("int", {})),
                             L("int", {"tag1", "application", "private"} \cup Opt), L("bool", {})>>),
  \* ... and at top level (the root's parameters are the parameter string of UnmarshalWithParams / MarshalWithParams;
  \* inside the containers "struct" / "optional" of mode laxAncestor the same node is a struct member)
  topxC    |-> Expl({"tag1"}, L("int", {})),
  topxA    |-> Expl({"tag1", "application"}, L("int", {})),
  topxP    |-> Expl({"tag1", "private"}, L("int", {})),
  topxAP   |-> Expl({"tag31", "application", "private"}, L("str", {})),
  topxO    |-> Expl({"tag1", "private", "default7"} \cup Opt, L("int", {"default7"})),
  topiC    |-> L("int", {"tag1"}),
  topiA    |-> L("oid", {"application"}),
  topiP    |-> L("int", {"tag1", "private"}),
  topiAP   |-> Struct({"tag30", "application", "private"}, <<L("int", {}), L("str", {})>>),
  topiO    |-> L("int", {"tag1", "application", "default7"} \cup Opt),
  \* ---- strings of each tag (clause StringTable below): the string types a field parameter can name, behind an IMPLICIT
  \* tag (which hides the universal tag: the contents are read as the declared type) and inside EXPLICIT
  strtag   |-> Struct({}, <<L("str", {"tag0", "ia5"}), L("str", {"tag1", "numeric"}), L("str", {"tag2", "printable"} \cup Opt),
                             Expl({"tag3"}, L("str", {"utf8"}))>>),
  \* ---- EXPLICIT x target type (clause ExplicitTargets below): RawValue / Flag / []byte / struct / bool behind an EXPLICIT
  \* tag, context-specific / application / private, required / OPTIONAL, followed by a required member, by an OPTIONAL
  \* one (the wrapper is the last element when that one is absent), or last; and at top level
  xraw     |-> Struct({}, <<Expl({"tag0"}, L("raw", {})), L("int", {})>>),
  xrawopt  |-> Struct({}, <<L("int", {}), Expl({"tag1"} \cup Opt, L("raw", {})), L("int", Opt)>>),
  xrawcls  |-> Struct({}, <<Expl({"tag2", "application"}, L("raw", {})), Expl({"tag2", "private"}, L("raw", {})), L("bool", {})>>),
  xflag    |-> Struct({}, <<Expl({"tag0"}, L("flag", {})), L("int", {})>>),
  xflaglast|-> Struct({}, <<L("int", {}), Expl({"tag0"} \cup Opt, L("flag", {}))>>),
  xflagcls |-> Struct({}, <<Expl({"tag5", "application"} \cup Opt, L("flag", {})), Expl({"tag5", "private"} \cup Opt, L("flag", {})),
                             L("oid", {})>>),
  xbytes   |-> Struct({}, <<Expl({"tag0"}, L("bytes", {})), Expl({"tag1"} \cup Opt, Struct({}, <<L("int", {})>>)),
                             Expl({"tag2"} \cup Opt, L("bool", {}))>>),
  topxRaw  |-> Expl({"tag1"}, L("raw", {})),
  topxRawA |-> Expl({"application"} \cup Opt, L("raw", {})),
  topxFlag |-> Expl({"tag1"} \cup Opt, L("flag", {})),
  topxBytes|-> Expl({"tag2"}, L("bytes", {}))
]

LengthShapes == {"oct0", "oct1", "oct127", "oct128", "oct255", "oct256", "oct65535", "oct65536",
                 "bit1", "bit127", "bit128", "bit255", "bit256", "bit65535", "bit65536",
                 "seq0", "seq2", "seq127", "seq128", "seq255", "seq256", "seq65535", "seq65536"}
LengthFormDefects == {"nonMinimalLength", "leadingZeroLength", "indefiniteLength"}

Count(v) == CASE v = 0 -> 2 [] v = 1 -> 0 [] v = 3 -> 1 [] OTHER -> 3   \* elements of every SEQUENCE OF / SET OF

(* ---- tag classes (clause ClassTable) ---------------------------------------------------------
   X.680 31.2: a tag is a class (universal, application, private, context-specific) and a number.  The field
   parameters `application` / `private` choose the class of the EXPLICIT or IMPLICIT tag of a member, `tag:N` its
   number.  The property says "as strict as upstream", so the table is upstream's (encoding/asn1, asn1.go parseField,
   marshal.go makeField), every row of it re-confirmed against the real encoding/asn1 on every run:
     ReadClass    the class Unmarshal expects.  EXPLICIT: application if the option is there, else context-specific -
                  `private` is NOT consulted (ExplicitIgnoresPrivate).  IMPLICIT: private, else application, else
                  context-specific (ImplicitPrivateWins when both options are given).
     WriteClass   the class Marshal writes, EXPLICIT or IMPLICIT: application, else private, else context-specific
                  (MarshalApplicationWins).
     ClassImpliesTag0   a class option (or `explicit`) without `tag:N` means tag number 0.
   Where ReadClass # WriteClass (explicit+private; implicit application+private) Marshal does not reproduce an input
   Unmarshal accepts - in both packages alike: such a member is a ClassQuirk and RoundTrip is not asserted of a value
   that has one (MarshalAgrees still is).                                                                      *)
ClassOpts == {"application", "private"}
TagNames  == {"tag0", "tag1", "tag2", "tag3", "tag4", "tag5", "tag9", "tag30", "tag31", "tag40", "tag41", "tag1000"}
Tagged(n)  == n.k = "explicit" \/ n.p \cap (TagNames \cup ClassOpts) # {}
TagName(n) == IF n.p \cap TagNames = {} THEN "tag0" ELSE CHOOSE x \in n.p \cap TagNames : TRUE
ReadClass(n) ==
  IF n.k = "explicit" THEN (IF "application" \in n.p THEN "application" ELSE "context")
  ELSE IF "private" \in n.p THEN "private" ELSE IF "application" \in n.p THEN "application" ELSE "context"
WriteClass(n) == IF "application" \in n.p THEN "application" ELSE IF "private" \in n.p THEN "private" ELSE "context"
ClassQuirk(n) == Tagged(n) /\ ReadClass(n) # WriteClass(n)
\* the root carries field parameters: it can be a struct member or the top level, not an element / the inside of EXPLICIT
RootField(t) == Tagged(t) \/ "optional" \in t.p \/ "default7" \in t.p

(* ---- containers of mode laxAncestor: T sits at WrapAt(w) of Wrap(w, T) ---------------------- *)
Wrap(w, t) ==
  CASE w = "none"     -> t
    [] w = "struct"   -> Struct({}, <<L("int", {}), t>>)
    [] w = "seqof"    -> SeqOf({}, t)
    [] w = "setof"    -> Struct({}, <<SetOf({}, t)>>)
    [] w = "explicit" -> Struct({}, <<Expl({"tag9"}, t), L("int", {})>>)
    [] w = "optional" -> Struct({}, <<L("bool", {}), N(t.k, t.p \cup {"optional"}, t.kids)>>)
\* EXPLICIT in front of RawValue / interface{} is not unwrapped by either decoder (the wrapper itself is the
\* value); neither package can decode into []interface{} or marshal an absent interface{}
\* and both keep the EXPLICIT wrapper in the RawContent of a struct (which Marshal then wraps again): upstream
\* behaviour shared by the fork, outside this property
WrapOK(w, t) == /\ ~(w = "explicit" /\ (t.k \in {"raw", "any"} \/ "rawcontent" \in t.p))
                /\ ~(w \in {"seqof", "setof", "optional"} /\ t.k = "any")
                /\ ~(w = "optional" /\ t.k = "struct" /\ t.kids = <<>>)   \* a present empty struct is the zero value: Marshal omits it
                /\ ~(w \in {"seqof", "setof", "explicit"} /\ RootField(t))  \* elements / the inside of EXPLICIT have no parameters
\* paths of T's root inside the container (one per element for SEQUENCE OF / SET OF)
WrapRoots(w, v) ==
  CASE w = "none"     -> {<<>>}
    [] w = "struct"   -> {<<2>>}
    [] w = "seqof"    -> {<<i>> : i \in 1..Count(v)}
    [] w = "setof"    -> {<<1, i>> : i \in 1..Count(v)}
    [] w = "explicit" -> {<<1, 1>>}
    [] w = "optional" -> {<<2>>}

RECURSIVE WrapAll(_, _), WrapAllOK(_, _), RootsAll(_, _)
WrapAll(ws, t)   == IF ws = <<>> THEN t ELSE Wrap(Head(ws), WrapAll(Tail(ws), t))
WrapAllOK(ws, t) == ws = <<>> \/ (WrapAllOK(Tail(ws), t) /\ WrapOK(Head(ws), WrapAll(Tail(ws), t)))
RootsAll(ws, v)  == IF ws = <<>> THEN {<<>>} ELSE {r \o q : r \in WrapRoots(Head(ws), v), q \in RootsAll(Tail(ws), v)}

(* ---- value variants ------------------------------------------------------------------------- *)
IsOpt(n)      == "optional" \in n.p
Present(n, v) == ~(IsOpt(n) /\ v \in {1, 3})    \* variants 1 and 3 leave every optional field out
HasRest(v)    == v = 2                          \* unconsumed bytes follow the value

IsSeq(n) == n.k \in {"seqof", "setof"}

RECURSIVE PathsOf(_, _), NodeAt(_, _)
\* paths (child indices; element indices for SEQUENCE OF) of the nodes present in the value tree
PathsOf(t, v) ==
  IF ~Present(t, v) THEN {} ELSE      \* (an OPTIONAL root that is absent: the empty input)
  {<<>>} \cup
  IF IsSeq(t) THEN UNION {{<<i>> \o q : q \in PathsOf(t.kids[1], v)} : i \in 1..Count(v)}
  ELSE UNION {{<<i>> \o q : q \in PathsOf(t.kids[i], v)} : i \in {j \in DOMAIN t.kids : Present(t.kids[j], v)}}
NodeAt(t, p) == IF p = <<>> THEN t
                ELSE IF IsSeq(t) THEN NodeAt(t.kids[1], Tail(p)) ELSE NodeAt(t.kids[Head(p)], Tail(p))

Front(p) == SubSeq(p, 1, Len(p) - 1)
IsPrefix(q, p) == Len(q) <= Len(p) /\ SubSeq(p, 1, Len(q)) = q
Parent(t, p) == NodeAt(t, Front(p))

\* struct fields can carry an `asn1:"..."` tag (elements of a SEQUENCE OF and the inside of EXPLICIT cannot)
FieldPaths(t, v) == {p \in PathsOf(t, v) : p # <<>> /\ Parent(t, p).k = "struct"}

\* the content rules that govern a node's octets
Wire(n) ==
  CASE n.k \in {"int", "int32", "int64", "bigint", "enum"} -> "integer"
    [] n.k = "any" -> (IF "anyint" \in n.p THEN "integer" ELSE IF "anyoid" \in n.p THEN "oid" ELSE "printable")
    [] n.k = "str" -> (IF "utf8" \in n.p THEN "utf8" ELSE IF "ia5" \in n.p THEN "ia5"
                       ELSE IF "numeric" \in n.p THEN "numeric" ELSE "printable")
    [] n.k = "bool" -> "boolean"
    [] n.k = "bitstring" -> "bits"
    [] n.k = "oid" -> "oid"
    [] n.k = "utctime" -> "utc"
    [] n.k \in {"gentime", "time2050"} -> "gen"
    [] OTHER -> n.k

\* variant 2 of an untagged string without string type is not printable and travels as UTF8String
\* (an implicitly tagged string hides the string type: it is read as the declared one, PrintableString by default)
WireV(n, v) == IF n.k = "str" /\ v = 2 /\ n.p \cap {"utf8", "ia5", "numeric", "printable"} = {} /\ ~Tagged(n)
               THEN "utf8" ELSE Wire(n)

Fixed32(n) == n.k \in {"int32", "enum"}
Fixed64(n) == n.k \in {"int", "int64"} \/ (n.k = "any" /\ "anyint" \in n.p)
HighTag(n) == n.p \cap {"tag31", "tag40", "tag41", "tag1000"} # {}
MatchesAnyTag(n) == n.k \in {"raw", "any"}

\* a mismatching tag on an optional element is not an error of that element (it is taken as absent)
OptionalHere(t, p) == IsOpt(NodeAt(t, p)) \/ (p # <<>> /\ Parent(t, p).k = "explicit" /\ IsOpt(Parent(t, p)))

(* ---- defects -------------------------------------------------------------------------------- *)
HeaderDefects == {"nonMinimalLength", "leadingZeroLength", "indefiniteLength", "truncated"}

(* wire classes: the identifier of a tagged member is written with ANOTHER class than the one Unmarshal expects (same
   number, same constructed bit).  A required member: rejected by every decoder.  An OPTIONAL member: taken as absent
   (it gets its DEFAULT / stays zero) and the element is offered to the members after it: a required one rejects it,
   optional ones are absent in turn and the element - with everything behind it - is ignored like any extra element at
   the end of a SEQUENCE (clause trailingInSequence); at top level nothing is consumed.  Cases where a later member
   could take the element (same class and number, RawValue, interface{}) are left out.                          *)
ClassDefects == {"classUniversal", "classContext", "classApplication", "classPrivate"}
WireClass(d) == CASE d = "classUniversal" -> "universal" [] d = "classContext" -> "context"
                  [] d = "classApplication" -> "application" [] d = "classPrivate" -> "private"

(* ---- EXPLICIT x target type (clause ExplicitTargets) -------------------------------------------
   X.690 8.14: an EXPLICIT tag is a constructed wrapper around the complete encoding of the inner value.  What the
   decoder does with the wrapper depends on the Go type that receives it - upstream's table (encoding/asn1 parseField),
   every row re-confirmed against the real encoding/asn1 on every run:
     ExplicitOpaque    into a RawValue the wrapper is not opened: the RawValue IS the wrapper (its class, its number,
                       its constructed bit, its contents, its full encoding), whatever the wrapper holds - nothing at
                       all included; Marshal writes the full encoding back.
     ExplicitPresence  a wrapper of length 0 into a Flag says "present" (the Flag is true); into every other type
                       but RawValue it is rejected.  The constructed bit of a wrapper of length 0 is not looked at.
     ExplicitNoChild   a wrapper header that is the LAST thing in its buffer (the enclosing SEQUENCE body; at top level
                       the input, i.e. no remainder follows) is rejected before its tag is looked at - Flag and
                       RawValue included.
     a wrapper with contents whose constructed bit is not set does not match (explicitPrimitive: a required member
     is rejected; not generated for OPTIONAL members).                                                          *)
ExplicitEmptyDefects == {"explicitEmpty", "explicitEmptyPrimitive"}

(* ---- strings of each tag (clause StringTable) --------------------------------------------------
   X.680 41 / X.690 8.23: the restricted character string types.  A Go string (and an interface{}) receives every one
   of them; which one is on the wire is a dimension of the INPUT (the universal tag - behind an IMPLICIT tag the type the
   field parameter declares, PrintableString by default), and so are the contents.  A string form is [st, oct]: the
   string type and the content octets.  Whether a decoder accepts it and which Go string - given here as its code
   points ("runes") or, for the 8-bit-clean types, as its bytes ("raw") - it must yield:
     printable   every octet in the PrintableString set of X.680 41.4, plus '*' and '&' (PrintableAsteriskAmpersand:
                 upstream accepts both, "reflecting existing practice").  LAX (property text: "PrintableString contents
                 that are really ISO 8859-1 or T.61 text"): otherwise, when every octet is an ISO 8859-1 graphic
                 character (20..7E, A0..FF), the string is that Latin-1 text; otherwise, when no octet is NUL or one
                 of the positions T.61 leaves unassigned (T61Unassigned, the fork's documented list), the octets as
                 they are; otherwise rejected.
     utf8        well-formed UTF-8 (RFC 3629: shortest form, no surrogate code points, at most U+10FFFF)
     ia5         every octet below 80
     numeric     digits and space
     t61, general   8-bit clean: any octets, handed over unchanged (T61IsOpaque; no conversion is attempted)
     bmp         an even number of octets; big-endian 16-bit units; ONE trailing unit 0000 is dropped (BMPTerminator);
                 the units are read as UTF-16: a high surrogate followed by a low surrogate is ONE supplementary-plane
                 character, any other surrogate unit is U+FFFD (BMPAsUTF16 - named clause: X.680 knows no surrogates in
                 a BMPString, the property says "equal value" to upstream, upstream reads UTF-16)
   The verdicts are computed from these rules (not tabulated), the same for the fork and for upstream; Marshal never
   writes t61 / general / bmp, so RoundTrip is not asserted of a string form (MarshalAgrees is).                    *)
StringTag(st) == CASE st = "utf8" -> 12 [] st = "numeric" -> 18 [] st = "printable" -> 19 [] st = "t61" -> 20
                   [] st = "ia5" -> 22 [] st = "general" -> 27 [] st = "bmp" -> 30
SF(st, oct) == [st |-> st, oct |-> oct]
StringForms == [
  \* BMPString
  bmpText         |-> SF("bmp", <<0, 97, 0, 233, 32, 172, 48, 66>>),          \* a e-acute euro hiragana-a
  bmpEmpty        |-> SF("bmp", <<>>),
  bmpPair         |-> SF("bmp", <<216, 61, 222, 0>>),                        \* D83D DE00 = U+1F600
  bmpPairInText   |-> SF("bmp", <<0, 97, 216, 61, 222, 0, 0, 98>>),
  bmpPairEdges    |-> SF("bmp", <<216, 0, 220, 0, 219, 255, 223, 255>>),     \* U+10000, U+10FFFF
  bmpLoneHigh     |-> SF("bmp", <<216, 61, 0, 65>>),
  bmpLoneLow      |-> SF("bmp", <<0, 65, 222, 0, 0, 66>>),
  bmpReversedPair |-> SF("bmp", <<222, 0, 216, 61>>),
  bmpHighAtEnd    |-> SF("bmp", <<0, 65, 216, 61>>),
  bmpHighHighLow  |-> SF("bmp", <<216, 61, 216, 61, 222, 0>>),
  bmpLowLow       |-> SF("bmp", <<220, 0, 223, 255>>),
  bmpAroundSurr   |-> SF("bmp", <<215, 255, 224, 0>>),                       \* U+D7FF, U+E000
  bmpFFFF         |-> SF("bmp", <<255, 255, 255, 254, 255, 253>>),           \* U+FFFF, U+FFFE, U+FFFD
  bmpOdd          |-> SF("bmp", <<0, 97, 0>>),
  bmpOneOctet     |-> SF("bmp", <<97>>),
  bmpTerminator   |-> SF("bmp", <<0, 97, 0, 0>>),
  bmpOnlyTerm     |-> SF("bmp", <<0, 0>>),
  bmpTwoTerms     |-> SF("bmp", <<0, 97, 0, 0, 0, 0>>),
  bmpNulFirst     |-> SF("bmp", <<0, 0, 0, 97>>),
  bmpOddTerm      |-> SF("bmp", <<0, 97, 0, 0, 0>>),
  bmpPairTerm     |-> SF("bmp", <<216, 61, 222, 0, 0, 0>>),
  \* UTF8String
  utf8Edges2and3  |-> SF("utf8", <<127, 194, 128, 223, 191, 224, 160, 128, 237, 159, 191, 238, 128, 128, 239, 191, 191>>),
  utf8Four        |-> SF("utf8", <<240, 159, 152, 128>>),                    \* U+1F600
  utf8FourEdges   |-> SF("utf8", <<240, 144, 128, 128, 244, 143, 191, 191>>), \* U+10000, U+10FFFF
  utf8Nul         |-> SF("utf8", <<97, 0, 98>>),
  utf8Replacement |-> SF("utf8", <<239, 191, 189>>),                         \* U+FFFD written out
  utf8OverlongC0  |-> SF("utf8", <<192, 128>>),
  utf8OverlongC1  |-> SF("utf8", <<193, 191>>),
  utf8Overlong3   |-> SF("utf8", <<224, 159, 191>>),
  utf8Overlong4   |-> SF("utf8", <<240, 143, 191, 191>>),
  utf8SurrLow     |-> SF("utf8", <<237, 160, 128>>),                         \* U+D800
  utf8SurrHigh    |-> SF("utf8", <<97, 237, 191, 191>>),                     \* U+DFFF
  utf8SurrPair    |-> SF("utf8", <<237, 160, 189, 237, 184, 128>>),          \* CESU-8 for U+1F600
  utf8Above       |-> SF("utf8", <<244, 144, 128, 128>>),                    \* U+110000
  utf8F5          |-> SF("utf8", <<245, 128, 128, 128>>),
  utf8Trunc2      |-> SF("utf8", <<97, 194>>),
  utf8Trunc3      |-> SF("utf8", <<226, 130>>),
  utf8Trunc4      |-> SF("utf8", <<240, 159, 152>>),
  utf8LoneCont    |-> SF("utf8", <<128>>),
  utf8BadCont     |-> SF("utf8", <<226, 40, 161>>),
  utf8FE          |-> SF("utf8", <<254>>),
  \* PrintableString
  prAll           |-> SF("printable", <<65, 90, 97, 122, 48, 57, 32, 39, 40, 41, 43, 44, 45, 46, 47, 58, 61, 63>>),
  prAsterisk      |-> SF("printable", <<97, 42>>),
  prAmpersand     |-> SF("printable", <<38, 98>>),
  prBang          |-> SF("printable", <<97, 33>>),
  prQuote         |-> SF("printable", <<34>>),
  prHash          |-> SF("printable", <<97, 35>>),
  prPercent       |-> SF("printable", <<37, 36>>),
  prSemicolon     |-> SF("printable", <<59>>),
  prLessGreater   |-> SF("printable", <<60, 97, 62>>),
  prAt            |-> SF("printable", <<97, 64, 98>>),
  prBrackets      |-> SF("printable", <<91, 92, 93, 94>>),
  prUnderscore    |-> SF("printable", <<97, 95, 98>>),
  prBackquote     |-> SF("printable", <<96>>),
  prBraces        |-> SF("printable", <<123, 124, 125>>),
  prTilde         |-> SF("printable", <<126>>),
  prA0            |-> SF("printable", <<160, 97>>),
  prFF            |-> SF("printable", <<97, 255>>),
  pr7F            |-> SF("printable", <<97, 127>>),
  pr1F            |-> SF("printable", <<31, 97>>),
  pr80            |-> SF("printable", <<128>>),
  pr9F            |-> SF("printable", <<97, 159, 98>>),
  prTab           |-> SF("printable", <<97, 9, 98>>),
  prNul           |-> SF("printable", <<97, 0>>),
  pr7FandFF       |-> SF("printable", <<127, 255>>),
  pr1FandHash     |-> SF("printable", <<31, 35>>),
  pr80andA5       |-> SF("printable", <<128, 165>>),
  \* IA5String
  ia5Edges        |-> SF("ia5", <<0, 10, 64, 126, 127>>),
  ia5High80       |-> SF("ia5", <<128>>),
  ia5HighFF       |-> SF("ia5", <<97, 255>>),
  \* NumericString
  numAll          |-> SF("numeric", <<48, 49, 50, 51, 52, 53, 54, 55, 56, 57, 32>>),
  numSlash        |-> SF("numeric", <<48, 47>>),
  numColon        |-> SF("numeric", <<58, 57>>),
  numBang         |-> SF("numeric", <<33>>),
  num1F           |-> SF("numeric", <<49, 31>>),
  numPlus         |-> SF("numeric", <<43, 49>>),
  numDot          |-> SF("numeric", <<49, 46, 53>>),
  numHigh         |-> SF("numeric", <<176>>),
  \* T61String / GeneralString
  t61Text         |-> SF("t61", <<97, 98, 35>>),
  t61High         |-> SF("t61", <<128, 233, 255>>),
  t61Nul          |-> SF("t61", <<0, 97>>),
  t61Utf8         |-> SF("t61", <<195, 169>>),
  genText         |-> SF("general", <<97, 98>>),
  genEscape       |-> SF("general", <<27, 40, 66, 200, 0>>)
]
FormNames == DOMAIN StringForms

PrintableSet == (65..90) \cup (97..122) \cup (48..57) \cup {32, 39, 40, 41, 43, 44, 45, 46, 47, 58, 61, 63}
PrintableAsteriskAmpersand == {42, 38}
T61Unassigned == {0, 35, 36, 92, 94, 96, 123, 125, 126, 165, 166, 172, 173, 174, 175, 185, 186, 192, 201,
                  208, 209, 210, 211, 212, 213, 214, 215, 216, 217, 218, 219, 220, 222, 223, 229, 255}
Octets(s) == {s[i] : i \in DOMAIN s}
IsPrintableText(s) == Octets(s) \subseteq PrintableSet \cup PrintableAsteriskAmpersand
IsLatin1Text(s)    == \A b \in Octets(s) : (32 <= b /\ b <= 126) \/ (160 <= b /\ b <= 255)
IsT61Text(s)       == Octets(s) \cap T61Unassigned = {}

\* RFC 3629: the code points of a UTF-8 string; -1 marks an ill-formed sequence
RECURSIVE Utf8Dec(_)
Cont(b) == 128 <= b /\ b < 192
Utf8Dec(s) ==
  IF s = <<>> THEN <<>> ELSE
  LET b == s[1]
      n == Len(s)
  IN IF b < 128 THEN <<b>> \o Utf8Dec(Tail(s))
     ELSE IF 194 <= b /\ b < 224 /\ n >= 2 /\ Cont(s[2])
       THEN <<(b - 192) * 64 + (s[2] - 128)>> \o Utf8Dec(SubSeq(s, 3, n))
     ELSE IF 224 <= b /\ b < 240 /\ n >= 3 /\ Cont(s[2]) /\ Cont(s[3])
       THEN LET cp == (b - 224) * 4096 + (s[2] - 128) * 64 + (s[3] - 128) IN
            IF cp < 2048 \/ (55296 <= cp /\ cp < 57344) THEN <<-1>> ELSE <<cp>> \o Utf8Dec(SubSeq(s, 4, n))
     ELSE IF 240 <= b /\ b < 245 /\ n >= 4 /\ Cont(s[2]) /\ Cont(s[3]) /\ Cont(s[4])
       THEN LET cp == (b - 240) * 262144 + (s[2] - 128) * 4096 + (s[3] - 128) * 64 + (s[4] - 128) IN
            IF cp < 65536 \/ cp > 1114111 THEN <<-1>> ELSE <<cp>> \o Utf8Dec(SubSeq(s, 5, n))
     ELSE <<-1>>
WellFormed(r) == \A i \in DOMAIN r : r[i] >= 0

\* UTF-16 (BMPAsUTF16): a surrogate pair is one character, an unpaired surrogate is U+FFFD
IsHigh(u) == 55296 <= u /\ u < 56320
IsLow(u)  == 56320 <= u /\ u < 57344
RECURSIVE Utf16Dec(_)
Utf16Dec(u) ==
  IF u = <<>> THEN <<>>
  ELSE IF IsHigh(u[1]) /\ Len(u) >= 2 /\ IsLow(u[2])
    THEN <<65536 + (u[1] - 55296) * 1024 + (u[2] - 56320)>> \o Utf16Dec(SubSeq(u, 3, Len(u)))
  ELSE IF IsHigh(u[1]) \/ IsLow(u[1]) THEN <<65533>> \o Utf16Dec(Tail(u))
  ELSE <<u[1]>> \o Utf16Dec(Tail(u))
Units(s) == [i \in 1..(Len(s) \div 2) |-> s[2 * i - 1] * 256 + s[2 * i]]
\* BMPTerminator: one trailing unit 0000 is dropped
Unterminated(s) == IF Len(s) >= 2 /\ s[Len(s)] = 0 /\ s[Len(s) - 1] = 0 THEN SubSeq(s, 1, Len(s) - 2) ELSE s

NoStr == [kind |-> "", seq |-> <<>>]
Runes(r) == [kind |-> "runes", seq |-> r]
Raw(s)   == [kind |-> "raw", seq |-> s]
\* what a decoder yields for the contents `s` read as string type `st` (NoStr: rejected); lax = lax decoding in effect
StrValue(st, s, lax) ==
  CASE st = "printable" -> (IF IsPrintableText(s) THEN Runes(s)
                            ELSE IF lax /\ IsLatin1Text(s) THEN Runes(s)          \* Latin-1: code point = octet
                            ELSE IF lax /\ IsT61Text(s) THEN Raw(s)
                            ELSE NoStr)
    [] st = "utf8"      -> (IF WellFormed(Utf8Dec(s)) THEN Runes(Utf8Dec(s)) ELSE NoStr)
    [] st = "ia5"       -> (IF \A b \in Octets(s) : b < 128 THEN Runes(s) ELSE NoStr)
    [] st = "numeric"   -> (IF Octets(s) \subseteq (48..57) \cup {32} THEN Runes(s) ELSE NoStr)
    [] st \in {"t61", "general"} -> Raw(s)
    [] st = "bmp"       -> (IF Len(s) % 2 = 1 THEN NoStr ELSE Runes(Utf16Dec(Units(Unterminated(s)))))
FormValue(f, lax) == StrValue(StringForms[f].st, StringForms[f].oct, lax)
FormAccepted(f, lax) == FormValue(f, lax) # NoStr
\* the string forms only lax decoding accepts: by the rules above, PrintableStrings that are Latin-1 or T.61 text
LaxOnlyForms == {f \in FormNames : FormAccepted(f, TRUE) /\ ~FormAccepted(f, FALSE)}
Tolerated == LaxTolerated \cup LaxOnlyForms

Defects == LaxTolerated \cup AlwaysRejected \cup DeliberateDiff \cup Benign \cup ClassDefects \cup ExplicitEmptyDefects \cup FormNames

\* the members after the one at p in its struct
MembersAfter(t, p) == IF p = <<>> THEN {} ELSE {j \in DOMAIN Parent(t, p).kids : j > p[Len(p)]}
CouldTake(m, cls, tn) == MatchesAnyTag(m) \/ (Tagged(m) /\ ReadClass(m) = cls /\ TagName(m) = tn)

\* which string types reach a node: a Go string without an IMPLICIT tag takes whatever universal string tag is on the
\* wire, whatever type it declares; behind an IMPLICIT tag only the declared type is there; an interface{} takes every
\* string tag but GeneralString (which neither package decodes into an interface{}: the value stays nil)
FormApplies(f, n) ==
  LET st == StringForms[f].st IN
  \/ (n.k = "str" /\ ~Tagged(n))
  \/ (n.k = "str" /\ Tagged(n) /\ st = Wire(n))
  \/ (n.k = "any" /\ "anyprintable" \in n.p /\ st # "general")
\* ExplicitOpaque: the inside of an EXPLICIT wrapper received into a RawValue is not a node any decoder looks at
InsideOpaque(t, p) == p # <<>> /\ Parent(t, p).k = "explicit" /\ NodeAt(t, p).k = "raw"
\* ExplicitNoChild: nothing follows the element at p in its buffer
LastInBuffer(t, v, p) == IF p = <<>> THEN ~HasRest(v) ELSE \A j \in MembersAfter(t, p) : ~Present(Parent(t, p).kids[j], v)

Applicable(d, t, v, p) ==
  LET n == NodeAt(t, p)
      w == WireV(n, v)
  IN CASE d \in HeaderDefects -> ~InsideOpaque(t, p)
       [] d = "nonMinimalTag" -> ~HighTag(n) /\ ~InsideOpaque(t, p)   \* long identifier form for a tag number below 31
       [] d \in FormNames -> FormApplies(d, n)
       [] d = "explicitEmptyPrimitive" -> n.k = "explicit"
       [] d = "explicitPrimitive" -> n.k = "explicit" /\ ~IsOpt(n)
       [] d = "wrongTag" -> ~MatchesAnyTag(n) /\ ~OptionalHere(t, p)
       [] d = "requiredFieldMissing" ->        \* the last element of a SEQUENCE is required and missing
            p # <<>> /\ Parent(t, p).k = "struct" /\ p[Len(p)] = Len(Parent(t, p).kids) /\ ~IsOpt(n)
       [] d = "explicitEmpty" -> n.k = "explicit"
       [] d \in {"nonMinimalInteger", "emptyInteger"} -> w = "integer"
       [] d = "integerTooLarge" -> Fixed32(n) \/ Fixed64(n)
       [] d = "emptyOID" -> w = "oid"
       [] d \in {"oidTruncatedArc", "oidArcTooLarge", "oidArcLeading80"} -> w = "oid"
       [] d \in {"printableIsLatin1", "printableIsT61", "printableIsNeither"} -> w = "printable"
       [] d = "badUTF8" -> w = "utf8"
       [] d = "badIA5" -> w = "ia5"
       [] d = "badNumeric" -> w = "numeric"
       [] d \in {"badBool", "boolTwoOctets"} -> w = "boolean"
       [] d \in {"badBitStringPadding", "bitStringPadTooBig", "emptyBitString"} -> w = "bits"
       [] d = "badTime" -> w \in {"utc", "gen"}
       [] d = "genTimeFraction" -> w = "gen"
       [] d = "utcNoSeconds" -> w = "utc"
       [] d = "highTagLeading80" -> HighTag(n)
       [] d = "setOfUnsorted" -> n.k = "setof" /\ Count(v) >= 2
       [] d = "rawInnerNonDER" -> n.k = "raw" /\ ~Tagged(n)
       [] d = "trailingInSequence" -> n.k = "struct"
       [] d \in ClassDefects ->
            /\ Tagged(n) /\ WireClass(d) # ReadClass(n)
            /\ IsOpt(n) => /\ d # "classUniversal"
                           /\ \A j \in MembersAfter(t, p) : ~CouldTake(Parent(t, p).kids[j], WireClass(d), TagName(n))
       [] OTHER -> FALSE

(* ---- cases ---------------------------------------------------------------------------------- *)
NoTF == [b |-> 0, m |-> 0, off |-> 0]
Case(s, v, d, p, m, w, f) == [shape |-> s, v |-> v, defect |-> d, path |-> p, mode |-> m, wrap |-> w, laxAt |-> f,
                              tf |-> NoTF]
Tree(x) == WrapAll(x.wrap, Shapes[x.shape])

(* ---- time forms ------------------------------------------------------------------------------
   X.680 46.3 / 47.3: a UTCTime carries the two-digit year, a GeneralizedTime the four-digit year OF THE TIME
   AS WRITTEN (local time, followed by "Z" or by the difference from UTC).  RFC 5280 4.1.2.5 and both Marshal
   implementations write a time.Time as UTCTime exactly when that written year lies in 1950..2049, otherwise
   (or when the field says `generalized`) as GeneralizedTime.  For a time within |off| of 1 January 1950 / 2050
   the year as written and the year of the same instant in UTC differ ("straddle"): the form is still chosen -
   and the digits are still written - from the year as written, clause TagByWrittenYear.  Marshal consults the
   year at more than one site (tag, body, range check); they must agree, or an accepted input cannot be
   marshalled again at all.                                                                               *)
TimeKinds == {"utctime", "gentime", "time2050"}
TimeForms == {[b |-> b, m |-> m, off |-> o] : b \in TimeBoundaries, m \in TimeMinutes, o \in TimeOffsets}
LocalYear(tf) == IF tf.m >= 0 THEN tf.b ELSE tf.b - 1                 \* the year as written
UtcYear(tf)   == IF tf.m - tf.off >= 0 THEN tf.b ELSE tf.b - 1        \* the year of the instant in UTC
InUTCRange(y) == 1950 <= y /\ y < 2050
Straddles(tf) == LocalYear(tf) # UtcYear(tf)
WireForm(n)   == IF n.k = "utctime" THEN "utc" ELSE "gen"             \* how the harness writes the leaf
\* TagByWrittenYear: the form Marshal chooses for the decoded time
MarshalForm(n, tf) == IF "generalized" \in n.p \/ ~InUTCRange(LocalYear(tf)) THEN "gen" ELSE "utc"
TimeLeafPaths(t, v) == {p \in PathsOf(t, v) : NodeAt(t, p).k \in TimeKinds}
\* a UTCTime exists only for a written year in 1950..2049
TfOK(t, v, tf) == \A p \in TimeLeafPaths(t, v) : NodeAt(t, p).k = "utctime" => InUTCRange(LocalYear(tf))
\* Marshal(Unmarshal(b)) = b needs Marshal to choose the form that was on the wire
TimeRT(x) == x.tf = NoTF \/ \A p \in TimeLeafPaths(Tree(x), x.v) : MarshalForm(NodeAt(Tree(x), p), x.tf) = WireForm(NodeAt(Tree(x), p))
\* ClassQuirk: Marshal writes another class than Unmarshal reads for some member that is on the wire
ClassRT(x) == \A p \in PathsOf(Tree(x), x.v) : ~ClassQuirk(NodeAt(Tree(x), p))
RECURSIVE HasKind(_, _)
HasKind(t, ks) == t.k \in ks \/ \E i \in DOMAIN t.kids : HasKind(t.kids[i], ks)

PD(t, v) == {<<<<>>, "none">>} \cup {pd \in PathsOf(t, v) \X Defects : Applicable(pd[2], t, v, pd[1])}
\* the defects of mode laxAncestor sit inside T
PDInside(w, t, v) == {pd \in PD(WrapAll(w, t), v) :
                        /\ pd[2] \in AncestorDefects \cup {"none"}
                        /\ (pd[2] = "none" \/ \E r \in RootsAll(w, v) : IsPrefix(r, pd[1]))}

\* variant 3 differs from variant 1 only where there is a SEQUENCE OF / SET OF to hold an element
VariantOK(t, v) == v # 3 \/ HasKind(t, {"seqof", "setof"})
\* the string forms are placed in the shapes of StringFormShapes, in variant 0 and - where it adds something: the string
\* is the whole value and a remainder follows it, or it is an element and there is a third one - in variant 2
FormOK(s, v, d) == d \in FormNames =>
                     (s \in StringFormShapes /\ (v = 0 \/ (v = 2 /\ (Shapes[s].k # "struct" \/ HasKind(Shapes[s], {"seqof", "setof"})))))
CasesV(s, t, v) ==
  {Case(s, v, pd[2], pd[1], m, <<>>, <<>>) : pd \in {x \in PD(t, v) : VariantOK(t, v) /\ FormOK(s, v, x[2])}, m \in {"strict", "laxTop"}}
  \cup UNION {{Case(s, v, pd[2], pd[1], "laxAncestor", w, <<>>) : pd \in {x \in PDInside(w, t, v) : FormOK(s, v, x[2])}}
              : w \in {x \in Wraps : WrapAllOK(x, t) /\ VariantOK(WrapAll(x, t), v)}}
  \cup {Case(s, v, pd[2], pd[1], "fieldTag", <<>>, f) :
          pd \in {x \in PD(t, v) : x[2] \in LaxTolerated /\ VariantOK(t, v)}, f \in {g \in FieldPaths(t, v) : TRUE}}

\* time forms: well-formed values only, every mode, every container of mode laxAncestor
\* (inside the containers: the offsets of at most an hour, variant 0)
TimeCasesV(s, t, v) ==
  UNION {{[Case(s, v, "none", <<>>, m, <<>>, <<>>) EXCEPT !.tf = tf] : m \in {"strict", "laxTop"}}
         \cup {[Case(s, v, "none", <<>>, "laxAncestor", w, <<>>) EXCEPT !.tf = tf]
                 : w \in {x \in Wraps : WrapAllOK(x, t) /\ v = 0 /\ tf.off \in {-60, 0, 60}}}
         : tf \in {x \in TimeForms : TfOK(t, v, x)}}
TimeCases == UNION {UNION {TimeCasesV(s, Shapes[s], v) : v \in Variants \cap {0, 2}}
                    : s \in {x \in ShapeNames : HasKind(Shapes[x], TimeKinds)}}

Cases == UNION {UNION {CasesV(s, Shapes[s], v) : v \in Variants} : s \in ShapeNames} \cup TimeCases

(* ---- the verdict ---------------------------------------------------------------------------- *)
\* is lax decoding in effect at the node that carries the defect?
InEffect(x) == x.mode \in {"laxTop", "laxAncestor"}
\* named, NOT asserted: a `lax` field tag would put lax in effect for that field and everything inside it
FieldTagLax(x) == x.mode = "fieldTag" /\ IsPrefix(x.laxAt, x.path) /\ x.defect \in LaxTolerated

\* the defect table: what a strict DER decoder (X.690 + upstream's documented leniencies) does,
\* what lax decoding does where it is in effect, what upstream does
DefectTable(d) ==
  CASE d = "none"                -> [strict |-> "accept", lax |-> "accept", std |-> "accept"]
    \* property text: the documented malformations
    [] d = "nonMinimalInteger"   -> [strict |-> "reject", lax |-> "accept", std |-> "reject"]
    [] d = "emptyOID"            -> [strict |-> "reject", lax |-> "accept", std |-> "reject"]
    [] d = "printableIsLatin1"   -> [strict |-> "reject", lax |-> "accept", std |-> "reject"]
    [] d = "printableIsT61"      -> [strict |-> "reject", lax |-> "accept", std |-> "reject"]
    \* deliberate differences (fork source vs. encoding/asn1 of the installed toolchain)
    [] d = "oidArcLeading80"     -> [strict |-> "accept", lax |-> "accept", std |-> "reject"]
    [] d = "highTagLeading80"    -> [strict |-> "accept", lax |-> "accept", std |-> "reject"]
    [] d = "genTimeFraction"     -> [strict |-> "reject", lax |-> "reject", std |-> "accept"]
    [] d = "setOfUnsorted"       -> [strict |-> "accept", lax |-> "accept", std |-> "accept"]  \* differs on Marshal
    \* named clauses: both decoders are lenient here (the property is silent, the behaviour is definite)
    [] d = "rawInnerNonDER"      -> [strict |-> "accept", lax |-> "accept", std |-> "accept"]  \* RawValue is opaque
    [] d = "trailingInSequence"  -> [strict |-> "accept", lax |-> "accept", std |-> "accept"]  \* extra elements ignored
    [] d = "utcNoSeconds"        -> [strict |-> "accept", lax |-> "accept", std |-> "accept"]  \* YYMMDDhhmmZ
    [] OTHER                     -> [strict |-> "reject", lax |-> "reject", std |-> "reject"]

\* a wire class that is not the expected one (ClassDefects): the same for every decoder in every mode
ClassRow(x) ==
  LET t == Tree(x)
      absent == IsOpt(NodeAt(t, x.path)) /\ \A j \in MembersAfter(t, x.path) : IsOpt(Parent(t, x.path).kids[j])
  IN IF absent THEN [strict |-> "accept", lax |-> "accept", std |-> "accept"]
     ELSE [strict |-> "reject", lax |-> "reject", std |-> "reject"]
\* ExplicitNoChild reaches further than the wrapper itself: ANY element of length 0 that is the last thing in its buffer is
\* rejected by an EXPLICIT member it is offered to - the absent OPTIONAL EXPLICIT members between the last member on the wire
\* and the element's own (upstream's order of checks: "explicit tag has no child" comes before the tags are compared).
\* The malformations and string forms that leave an element without contents and are otherwise accepted:
ZeroLength(d) == d = "emptyOID" \/ (d \in FormNames /\ StringForms[d].oct = <<>>)
OfferedToExplicit(t, v, p) ==
  /\ p # <<>> /\ Parent(t, p).k = "struct"
  /\ LET kids == Parent(t, p).kids
         i    == p[Len(p)]
     IN \E j \in 1..(i - 1) : kids[j].k = "explicit" /\ \A k \in j..(i - 1) : ~Present(kids[k], v)
NoChild(x) == /\ ZeroLength(x.defect) /\ LastInBuffer(Tree(x), x.v, x.path) /\ OfferedToExplicit(Tree(x), x.v, x.path)
\* a wrapper of length 0 (ExplicitEmptyDefects): clauses ExplicitNoChild, ExplicitPresence, ExplicitOpaque - the same for
\* every decoder in every mode
Accepted3 == [strict |-> "accept", lax |-> "accept", std |-> "accept"]
Rejected3 == [strict |-> "reject", lax |-> "reject", std |-> "reject"]
InnerKind(x) == NodeAt(Tree(x), x.path).kids[1].k
ExplicitEmptyRow(x) ==
  IF LastInBuffer(Tree(x), x.v, x.path) THEN Rejected3
  ELSE IF InnerKind(x) \in {"flag", "raw"} THEN Accepted3 ELSE Rejected3
\* a string form: by the rules of clause StringTable; upstream has no lax decoding
FormRow(f) == [strict |-> IF FormAccepted(f, FALSE) THEN "accept" ELSE "reject",
               lax    |-> IF FormAccepted(f, TRUE) THEN "accept" ELSE "reject",
               std    |-> IF FormAccepted(f, FALSE) THEN "accept" ELSE "reject"]
Row(x) == IF NoChild(x) THEN Rejected3
          ELSE IF x.defect \in ClassDefects THEN ClassRow(x)
          ELSE IF x.defect \in ExplicitEmptyDefects THEN ExplicitEmptyRow(x)
          ELSE IF x.defect \in FormNames THEN FormRow(x.defect)
          ELSE DefectTable(x.defect)

\* which decoded value an accepting decoder must produce ("same" = the value the bytes were made from)
\* "absentFrom": the member at the path and every member after it in the same struct are absent (DEFAULT / zero)
ValueOf(d) == IF d \in ClassDefects THEN "absentFrom" ELSE
              IF d \in FormNames THEN "stringForm" ELSE          \* the string of Verdict(x).str
              IF d \in ExplicitEmptyDefects THEN "emptyWrapper" ELSE   \* Flag: true; RawValue: the wrapper
              IF d \in {"emptyOID", "printableIsLatin1", "printableIsT61", "genTimeFraction", "setOfUnsorted",
                        "rawInnerNonDER", "utcNoSeconds"} THEN d ELSE "same"

\* the defect sits in an element of a SET OF: its encoding changes, so the SET OF may no longer be sorted and
\* upstream's Marshal (which sorts, see setOfUnsorted) need not reproduce the input
ThroughSetOf(t, p) == \E q \in {SubSeq(p, 1, i) : i \in 0..(Len(p) - 1)} : NodeAt(t, q).k = "setof"
UnderRawContent(t, p) == \E q \in {SubSeq(p, 1, i) : i \in 0..Len(p)} : "rawcontent" \in NodeAt(t, q).p

Verdict(x) ==
  LET t   == Tree(x)
      row == Row(x)
      md  == IF FieldTagLax(x) THEN "unasserted" ELSE IF InEffect(x) THEN row.lax ELSE row.strict
      keeps == UnderRawContent(t, x.path)       \* Marshal re-emits the preserved encoding
      crt == ClassRT(x)
      der == x.defect \in {"none", "rawInnerNonDER"} /\ TimeRT(x)
      \* MarshalAgrees (named extension, asserted because the unchanged fork satisfies it on every case): when both
      \* packages decode the input, both marshal the decoded value to the same bytes - SET OF excepted (setOfUnsorted)
      agree == row.std = "accept" /\ ~HasKind(t, {"setof"})
      \* ExplicitOpaque: Marshal writes the RawValue's full encoding back, an empty wrapper included
      opaque == x.defect \in ExplicitEmptyDefects /\ InnerKind(x) = "raw"
      \* the string a string form decodes to, where the call accepts it (strict and lax agree where both accept)
      sv == IF x.defect \in FormNames /\ ~NoChild(x) THEN FormValue(x.defect, md = "accept" /\ row.strict = "reject") ELSE NoStr
  IN [ strict   |-> row.strict,                 \* fork, Unmarshal(b, &T)
       mode     |-> md,                         \* fork, called as x.mode says
       std      |-> row.std,                    \* encoding/asn1
       value    |-> ValueOf(x.defect),
       rest     |-> HasRest(x.v) /\ x.defect # "truncated",
       \* what the call consumes: the value, or nothing at all (an OPTIONAL top-level element taken as absent)
       takes    |-> IF x.defect \in ClassDefects /\ x.path = <<>> /\ row.strict = "accept" THEN "nothing" ELSE "value",
       \* Marshal(decoded) = consumed input bytes?  (asserted only where TRUE)
       rt       |-> row.strict = "accept" /\ crt /\ (der \/ keeps \/ opaque \/ x.defect = "setOfUnsorted"),
       rtMode   |-> md = "accept" /\ crt /\ (der \/ keeps \/ opaque \/ x.defect = "setOfUnsorted"),
       rtStd    |-> row.std = "accept" /\ crt /\ ((x.defect = "none" /\ TimeRT(x)) \/ ((der \/ keeps \/ opaque) /\ ~ThroughSetOf(t, x.path))),
       mEq      |-> row.strict = "accept" /\ agree,
       mEqMode  |-> md = "accept" /\ agree,
       inEffect |-> InEffect(x),
       \* string forms: the universal tag, the content octets and the Go string (code points or bytes) an accepting
       \* decoder yields
       str      |-> IF x.defect \in FormNames
                    THEN [tag |-> StringTag(StringForms[x.defect].st), oct |-> StringForms[x.defect].oct, kind |-> sv.kind, seq |-> sv.seq]
                    ELSE [tag |-> 0, oct |-> <<>>, kind |-> "", seq |-> <<>>] ]

(* ---- laws (checked by TLC on every case) ---------------------------------------------------- *)
E == vd

TypeOK == /\ (ClassDefects \cup ExplicitEmptyDefects \cup FormNames) \cap (LaxTolerated \cup AlwaysRejected \cup DeliberateDiff \cup Benign) = {}
          /\ c.mode \in {"strict", "laxTop", "laxAncestor", "fieldTag"} /\ c.defect \in Defects \cup {"none"}
          /\ c.tf \in TimeForms \cup {NoTF} /\ (c.tf # NoTF => (c.defect = "none" /\ TfOK(Tree(c), c.v, c.tf)))
          /\ LaxTolerated \cap AlwaysRejected = {} /\ LaxTolerated \cap DeliberateDiff = {}
          /\ AlwaysRejected \cap DeliberateDiff = {} /\ Benign \cap (LaxTolerated \cup AlwaysRejected \cup DeliberateDiff) = {}

\* lax accepts everything strict accepts (the value is the same by construction: Verdict has one value per case)
LaxSuperset == E.strict = "accept" => E.mode = "accept"
\* ... and additionally only the documented malformations, only where lax is in effect
LaxOnlyDocumented == (E.mode = "accept" /\ E.strict = "reject") => (c.defect \in Tolerated /\ InEffect(c))
\* ... and it reaches every nested field: wherever the defect sits below the point where lax was requested
LaxPropagates == (c.defect \in Tolerated /\ InEffect(c) /\ ~NoChild(c)) => E.mode = "accept"
\* ... through every container: the defect of a laxAncestor case lies strictly below the container
AncestorDepth == (c.mode = "laxAncestor" /\ c.defect # "none") =>
                    (Len(c.path) >= Len(c.wrap) /\ \E r \in RootsAll(c.wrap, c.v) : IsPrefix(r, c.path))
\* without lax a tolerated malformation is rejected (next to a lax-tagged field, too)
LaxIsLocal == (c.defect \in Tolerated /\ ~InEffect(c) /\ ~FieldTagLax(c)) => E.mode = "reject"
\* strict = upstream, except for the documented list, and every entry of the list is a real difference
StrictEqUpstream == c.defect \notin DeliberateDiff => E.strict = E.std
DiffsAreDiffs == (c.defect \in DeliberateDiff /\ ~UnderRawContent(Tree(c), c.path)) => (E.strict # E.std \/ E.rt # E.rtStd)
Rejected == c.defect \in AlwaysRejected => (E.strict = "reject" /\ E.mode = "reject" /\ E.std = "reject")
BenignAccepted == c.defect \in Benign => (E.strict = "accept" /\ E.mode = "accept" /\ E.std = "accept")
\* Marshal(Unmarshal(b)) = b for strict DER
RoundTrip == (c.defect = "none" /\ c.tf = NoTF /\ ClassRT(c)) => (E.rt /\ E.rtMode /\ E.rtStd)
\* ... times: strict DER is "Z"; the input round-trips when it is written in the form Marshal chooses for it
WireMatches == \A p \in TimeLeafPaths(Tree(c), c.v) : MarshalForm(NodeAt(Tree(c), p), c.tf) = WireForm(NodeAt(Tree(c), p))
TimeRoundTripDER == (c.tf # NoTF /\ c.tf.off = 0 /\ WireMatches) => (E.rt /\ E.rtMode /\ E.rtStd)
\* ZoneOffset (named clause: not DER, accepted by every decoder): the offset is written back
ZoneOffsetRoundTrip == (c.tf # NoTF /\ c.tf.off # 0 /\ WireMatches) => (E.rt /\ E.rtMode /\ E.rtStd)
TimeFormsAccepted == c.tf # NoTF => (E.strict = "accept" /\ E.mode = "accept" /\ E.std = "accept" /\ E.value = "same")
\* TagByWrittenYear: what is asserted of a time does not change when only its zone offset changes (the written
\* digits stay, the instant moves - across the year boundary for the straddling forms)
TagByWrittenYear == c.tf # NoTF => \A o \in TimeOffsets : Verdict([c EXCEPT !.tf.off = o]) = E
\* every straddle class is in the case space (checked once, on the constants)
StraddleClasses == {<<LocalYear(tf), UtcYear(tf)>> : tf \in {x \in TimeForms : Straddles(x)}}
\* length octets: strict DER round-trips byte-exactly at every length-form boundary (fork and upstream), and no
\* decoder in any mode accepts another length form
LengthRoundTrip == (c.shape \in LengthShapes /\ c.defect = "none") => (E.rt /\ E.rtMode /\ E.rtStd)
LengthFormsRejected == c.defect \in LengthFormDefects => (E.strict = "reject" /\ E.mode = "reject" /\ E.std = "reject")
RawContentKeeps == (E.mode = "accept" /\ UnderRawContent(Tree(c), c.path) /\ ClassRT(c)) => E.rtMode
(* tag classes *)
TaggedNodes == {NodeAt(Tree(c), p) : p \in {q \in PathsOf(Tree(c), c.v) : Tagged(NodeAt(Tree(c), q))}}
\* the quirks are exactly the two named combinations of options
ClassQuirkNamed == \A n \in TaggedNodes :
   ClassQuirk(n) <=> \/ (n.k = "explicit" /\ "private" \in n.p /\ "application" \notin n.p)
                     \/ (n.k # "explicit" /\ ClassOpts \subseteq n.p)
\* without a class option the tag is context-specific, read and written
ClassDefaultContext == \A n \in TaggedNodes : n.p \cap ClassOpts = {} => (ReadClass(n) = "context" /\ WriteClass(n) = "context")
\* strict DER round-trips wherever Marshal writes the class Unmarshal reads
ClassRoundTrip == (c.defect = "none" /\ c.tf = NoTF /\ \A n \in TaggedNodes : ReadClass(n) = WriteClass(n)) => (E.rt /\ E.rtMode /\ E.rtStd)
\* another class on the wire is never decoded as the member: rejected, or the OPTIONAL member is absent - alike in every
\* mode and upstream
ClassMismatch == c.defect \in ClassDefects =>
   LET n == NodeAt(Tree(c), c.path) IN
   /\ WireClass(c.defect) # ReadClass(n)
   /\ E.strict = E.std /\ (c.mode # "fieldTag" => E.mode = E.strict)
   /\ ~IsOpt(n) => E.strict = "reject"
   /\ E.strict = "accept" => (IsOpt(n) /\ E.value = "absentFrom" /\ ~E.rt /\ ~E.rtMode /\ ~E.rtStd)
   /\ E.takes = "nothing" => (c.path = <<>> /\ E.strict = "accept")

(* EXPLICIT x target type *)
\* a wrapper of length 0 is never decoded as a value of the inner type: it is a presence flag or an opaque RawValue, and only
\* when something follows it; every decoder agrees in every mode; the opaque RawValue round-trips
ExplicitEmptyLaw == c.defect \in ExplicitEmptyDefects =>
   /\ E.strict = E.std /\ (c.mode # "fieldTag" => E.mode = E.strict)
   /\ E.strict = "accept" <=> (InnerKind(c) \in {"flag", "raw"} /\ ~LastInBuffer(Tree(c), c.v, c.path))
   /\ (E.strict = "accept" /\ InnerKind(c) = "raw" /\ ClassRT(c)) => (E.rt /\ E.rtMode /\ (~ThroughSetOf(Tree(c), c.path) => E.rtStd))
   /\ (InnerKind(c) # "raw" /\ ~UnderRawContent(Tree(c), c.path)) => ~E.rt
(* strings of each tag *)
\* strict = upstream on every string form; lax differs only on the PrintableStrings that are Latin-1 / T.61 text, and then
\* yields a string; an accepted form has a value, a rejected one none
StringFormLaw == c.defect \in FormNames =>
   /\ E.strict = E.std
   /\ c.defect \notin LaxOnlyForms => (c.mode # "fieldTag" => E.mode = E.strict)
   /\ c.defect \in LaxOnlyForms => (StringForms[c.defect].st = "printable" /\ E.strict = "reject")
   /\ (E.mode = "accept") <=> (E.str.kind # "" /\ ~NoChild(c))
   /\ ~E.rt \/ UnderRawContent(Tree(c), c.path)
\* BMPAsUTF16: the code points of a BMPString are those of its units read as UTF-16 - as many as there are units, less
\* one per surrogate pair - and none of them is a surrogate
BmpIsUtf16 == (c.defect \in FormNames /\ StringForms[c.defect].st = "bmp" /\ E.str.kind = "runes") =>
   LET u == Units(Unterminated(StringForms[c.defect].oct))
       pairs == Cardinality({i \in 1..(Len(u) - 1) : IsHigh(u[i]) /\ IsLow(u[i + 1])}) IN
   /\ Len(E.str.seq) = Len(u) - pairs
   /\ \A i \in DOMAIN E.str.seq : ~IsHigh(E.str.seq[i]) /\ ~IsLow(E.str.seq[i])

Init == c \in Cases /\ vd = Verdict(c)
Next == UNCHANGED <<c, vd>>
=============================================================================
