\* exhaustive, history layer: every session of two calls over a reduced table (the laws of the history on all of them)
CONSTANTS
  KeyTypes = {"rsa1024", "p256", "p384", "ed25519"}
  CtorKeyTypes = {"rsa1024", "p256", "p384", "ed25519"}
  HashMutCodes = {0, 2, 4, 7}
  SigMutCodes = {0, 1, 3, 4}
  Depth = 2
  Issuances <- PairsIssuances
  Orders <- PairsOrders
INIT HInit
NEXT HNext
INVARIANTS HistLaw
CHECK_DEADLOCK FALSE
