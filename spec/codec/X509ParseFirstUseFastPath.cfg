\* the refuted variant: a caller that sees something published skips the gate - TLC must report ReadsOnlyReady violated
CONSTANTS
  Procs = {1, 2}
  Lazy = {"a"}
  BuildSteps = 2
  FastPath = TRUE
SPECIFICATION FSpec
INVARIANTS FTypeOK ReadsOnlyReady FirstUseFunctional
CHECK_DEADLOCK FALSE
