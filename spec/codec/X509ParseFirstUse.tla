-------------------------- MODULE X509ParseFirstUse --------------------------
(***************************************************************************)
(* First use.  The parsers of C11 are functions of their input: "return    *)
(* either a usable object ... or no object with a fatal error" is said of  *)
(* a byte string, not of a byte string and a moment.  Some of what a parse *)
(* needs is package state BUILT LAZILY, at the first use in the process    *)
(* (the parameters of a named curve: x509/curves.go for secp192r1, the     *)
(* standard library's tables for the others).  The first use is the one    *)
(* moment at which the callers of a pure function can meet: several        *)
(* goroutines, none of which has used the value before, parse at once.     *)
(*                                                                         *)
(* The protocol (sync.Once): a caller that needs a lazily built value L    *)
(* enters the gate of L; the first one builds L - in SEVERAL writes, the   *)
(* value is visible to others from the first write on and complete after   *)
(* the last -, everybody else waits until the builder has left the gate,   *)
(* and only then reads.  Properties:                                       *)
(*   ReadsOnlyReady      nobody reads a value that is not complete         *)
(*   FirstUseFunctional  every call returns what its input gives alone,    *)
(*                       whoever else makes a first use at the same time   *)
(*   BuiltOnce           one builder per value, nothing built twice        *)
(*   Termination         every call returns (under fairness; the parsers   *)
(*                       "terminate ... on every byte string")             *)
(* The refuted variant FastPath = TRUE (X509ParseFirstUseFastPath.cfg)     *)
(* lets a caller skip the gate when it SEES something already published    *)
(* (double-checked locking without a barrier): TLC reports ReadsOnlyReady  *)
(* and FirstUseFunctional violated - the defect class the binding looks    *)
(* for in the code.                                                        *)
(*                                                                         *)
(* Binding.  The interleaving inside sync.Once cannot be steered from      *)
(* outside, but WHO meets can: a PLAN is a set of concurrent calls (entry  *)
(* point, key kind) whose first uses of one lazily built value coincide    *)
(* (plus bystanders that use others); each plan is run in a FRESH PROCESS  *)
(* (there is one first use per process), with and without the race         *)
(* detector, and every call is compared with what the same bytes give      *)
(* alone (FirstUseFunctional); a report of the race detector is a          *)
(* violation of ReadsOnlyReady.                                            *)
(***************************************************************************)
EXTENDS Naturals, FiniteSets, TLC

CONSTANTS
  Procs,        \* the goroutines
  Lazy,         \* the lazily built package values
  BuildSteps,   \* writes the builder needs; the value is visible after the first and complete after the last
  FastPath      \* FALSE: the specification; TRUE: the refuted variant

ASSUME BuildSteps \in Nat /\ BuildSteps >= 2

VARIABLES
  needs,   \* needs[g]: the lazily built values the input of g's call depends on (the case)
  gate,    \* gate[l]: "idle", "running", "done"
  cell,    \* cell[l]: number of the builder's writes so far; 0 = nothing visible, BuildSteps = complete
  pc,      \* pc[g]: "start", "enter", "build", "wait", "read", "done"
  cur,     \* cur[g]: the value g is after
  todo,    \* todo[g]: values still to be fetched
  saw      \* saw[g]: <<l, cell[l] at the moment of the read>>

fvars == <<needs, gate, cell, pc, cur, todo, saw>>

NoLazy == "-"

FInit == /\ needs \in [Procs -> SUBSET Lazy]
         /\ gate = [l \in Lazy |-> "idle"]
         /\ cell = [l \in Lazy |-> 0]
         /\ pc = [g \in Procs |-> "start"]
         /\ cur = [g \in Procs |-> NoLazy]
         /\ todo = needs
         /\ saw = [g \in Procs |-> {}]

\* the call begins (or goes on to the next value it needs)
Start(g) == /\ pc[g] = "start"
            /\ IF todo[g] = {} THEN pc' = [pc EXCEPT ![g] = "done"] /\ UNCHANGED cur
               ELSE \E l \in todo[g] : cur' = [cur EXCEPT ![g] = l] /\ pc' = [pc EXCEPT ![g] = "enter"]
            /\ UNCHANGED <<needs, gate, cell, todo, saw>>

\* at the gate of cur[g]
Enter(g) == /\ pc[g] = "enter"
            /\ LET l == cur[g] IN
               IF FastPath /\ cell[l] # 0 THEN pc' = [pc EXCEPT ![g] = "read"] /\ UNCHANGED gate
               ELSE IF gate[l] = "idle" THEN gate' = [gate EXCEPT ![l] = "running"] /\ pc' = [pc EXCEPT ![g] = "build"]
               ELSE IF gate[l] = "running" THEN pc' = [pc EXCEPT ![g] = "wait"] /\ UNCHANGED gate
               ELSE pc' = [pc EXCEPT ![g] = "read"] /\ UNCHANGED gate
            /\ UNCHANGED <<needs, cell, cur, todo, saw>>

\* one write of the builder; after the last one it leaves the gate
Build(g) == /\ pc[g] = "build"
            /\ LET l == cur[g] IN
               /\ cell' = [cell EXCEPT ![l] = @ + 1]
               /\ IF cell[l] + 1 = BuildSteps
                    THEN gate' = [gate EXCEPT ![l] = "done"] /\ pc' = [pc EXCEPT ![g] = "read"]
                    ELSE UNCHANGED <<gate, pc>>
            /\ UNCHANGED <<needs, cur, todo, saw>>

Wake(g) == /\ pc[g] = "wait"
           /\ gate[cur[g]] = "done"
           /\ pc' = [pc EXCEPT ![g] = "read"]
           /\ UNCHANGED <<needs, gate, cell, cur, todo, saw>>

Read(g) == /\ pc[g] = "read"
           /\ saw' = [saw EXCEPT ![g] = @ \cup {<<cur[g], cell[cur[g]]>>}]
           /\ todo' = [todo EXCEPT ![g] = @ \ {cur[g]}]
           /\ pc' = [pc EXCEPT ![g] = "start"]
           /\ UNCHANGED <<needs, gate, cell, cur>>

FNext == \E g \in Procs : Start(g) \/ Enter(g) \/ Build(g) \/ Wake(g) \/ Read(g)
FSpec == FInit /\ [][FNext]_fvars /\ \A g \in Procs : WF_fvars(Start(g) \/ Enter(g) \/ Build(g) \/ Wake(g) \/ Read(g))

(* ---------------------------------------------------------------------- *)
FTypeOK == /\ \A l \in Lazy : gate[l] \in {"idle", "running", "done"} /\ cell[l] \in 0..BuildSteps
           /\ \A g \in Procs : pc[g] \in {"start", "enter", "build", "wait", "read", "done"}

\* what the call of g returns: what its input gives alone iff everything it read was complete
Res(g) == IF \A s \in saw[g] : s[2] = BuildSteps THEN "alone" ELSE "corrupt"

ReadsOnlyReady == \A g \in Procs : pc[g] = "read" => cell[cur[g]] = BuildSteps
FirstUseFunctional == \A g \in Procs : pc[g] = "done" => Res(g) = "alone" /\ {s[1] : s \in saw[g]} = needs[g]
BuiltOnce == \A l \in Lazy : /\ Cardinality({g \in Procs : pc[g] = "build" /\ cur[g] = l}) <= 1
                             /\ (gate[l] = "done" => cell[l] = BuildSteps)
                             /\ (gate[l] = "idle" => cell[l] = 0)
Termination == <>(\A g \in Procs : pc[g] = "done")
=============================================================================
