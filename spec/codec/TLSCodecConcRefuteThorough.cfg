\* thorough tier: three callers on one type (defective disciplines)
CONSTANTS
  Callers = {"g1", "g2", "g3"}
  Types = {"t1"}
  Args = {"a1", "a2"}
  NCells = 2
  Disciplines = {"publish-then-fill", "fill-while-walking", "shared-scratch"}
INIT Init
NEXT Next
INVARIANTS TypeOK ExposeProbe
CONSTRAINT StopAtRefutation
CHECK_DEADLOCK FALSE
