\* thorough tier: all subsets of at most four extension kinds x every applicable mutation
CONSTANTS
  Templates <- ThoroughTemplates
  MaxParts = 3
  PermAll = 4
  HistShapes <- MCHistShapesSmall
  HistMutNames <- MCHistMutNamesSmall
  HistSlots = {"iss"}
  HistDepth = 2
INIT Init
NEXT Next
INVARIANTS TypeOK Coherent WellFormedClean NoObjectBeforeDER FindingsReported UnhandledIsOrderFree OrderIsPermutation ExportCase
CHECK_DEADLOCK FALSE
