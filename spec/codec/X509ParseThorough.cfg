\* thorough tier: all subsets of at most four extension kinds x every applicable mutation
CONSTANTS
  Templates <- ThoroughTemplates
  MaxParts = 3
INIT Init
NEXT Next
INVARIANTS TypeOK Coherent WellFormedClean NoObjectBeforeDER FindingsReported ExportCase
CHECK_DEADLOCK FALSE
