---------------------------- MODULE MCAsn1Lax ----------------------------
(* Model-checking / export instance of Asn1Lax: TLC enumerates the cases, checks the laws on the
   decision model and prints every case with its verdict; the harness (harness/c10) realizes each
   case as bytes + Go types and compares the real decoders with the verdict. *)
EXTENDS Asn1Lax, Json

AllShapes == DOMAIN Shapes
\* quick instance: every shape, mode laxAncestor only with the tolerated malformations and a few others
QuickAncestorDefects == LaxTolerated \cup {"emptyInteger", "nonMinimalLength", "printableIsNeither", "oidArcLeading80",
                                            "genTimeFraction", "wrongTag"} \cup ClassDefects
AllDefects == Defects

Containers == {"struct", "seqof", "setof", "explicit", "optional"}
Wraps1 == {<<w>> : w \in Containers}
Wraps2 == {<<a, b>> : a \in Containers, b \in Containers}

\* time forms: 30 and 90 minutes on either side of 1 January 00:00 (as written); offsets of an hour either way (the
\* 30-minute forms straddle the year boundary, the 90-minute forms do not), the largest offsets in use (-12:00,
\* +14:00: every form on one side straddles), a half-hour zone, and "Z"
MCTimeMinutes == {-90, -30, 30, 90}
MCTimeOffsets == {-720, -60, 0, 60, 330, 840}
MCTimeOffsetsSmall == {-60, 0, 60}
ASSUME StraddleClasses = {<<2050, 2049>>, <<2049, 2050>>, <<1950, 1949>>, <<1949, 1950>>}

\* the type catalogue (plain and inside every container) is printed once
ASSUME \A s \in ShapeNames : \A w \in {x \in Wraps \cup {<<>>} : WrapAllOK(x, Shapes[s])} :
          PrintT(<<"SHAPE", ToJson([name |-> s, wrap |-> w, tree |-> WrapAll(w, Shapes[s])])>>)

Export == PrintT(<<"CASE", ToJson([c |-> c, e |-> vd])>>)
=============================================================================
