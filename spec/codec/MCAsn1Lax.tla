---------------------------- MODULE MCAsn1Lax ----------------------------
(* Model-checking / export instance of Asn1Lax: TLC enumerates the cases, checks the laws on the
   decision model and prints every case with its verdict; the harness (harness/c10) realizes each
   case as bytes + Go types and compares the real decoders with the verdict. *)
EXTENDS Asn1Lax, Json

AllShapes == DOMAIN Shapes
\* quick instance: every shape, mode laxAncestor only with the tolerated malformations and a few others
\* (mode laxAncestor: one string form of every string type and verdict class; the thorough instances have all of them)
QuickAncestorForms == {"bmpPairInText", "bmpOdd", "utf8Four", "utf8SurrLow", "prAt", "pr7F", "prNul", "ia5High80", "numSlash", "t61High"}
QuickAncestorDefects == LaxTolerated \cup {"emptyInteger", "nonMinimalLength", "printableIsNeither", "oidArcLeading80",
                                            "genTimeFraction", "wrongTag", "explicitEmpty"} \cup ClassDefects \cup QuickAncestorForms
\* quick instance: the string forms in one shape per way a string reaches the decoder (top level, struct members of every
\* declared type, SEQUENCE OF elements, interface{}, inside EXPLICIT, behind IMPLICIT tags, top-level EXPLICIT)
QuickStringShapes == {"str", "strs", "seqstr", "anys", "expl", "impl", "strtag", "topxAP"}
AllDefects == Defects

Containers == {"struct", "seqof", "setof", "explicit", "optional"}
Wraps1 == {<<w>> : w \in Containers}
Wraps2 == {<<a, b>> : a \in Containers, b \in Containers}

\* time forms: 30 and 90 minutes on either side of 1 January 00:00 (as written); offsets of an hour either way (the
\* 30-minute forms straddle the year boundary, the 90-minute forms do not), the largest offsets in use (-12:00,
\* +14:00: every form on one side straddles), a half-hour zone, and "Z"
MCTimeMinutes == {-90, -30, 30, 90}
MCTimeOffsets == {-720, -60, 0, 60, 330, 840}
MCTimeOffsetsSmall == {-60, 0, 60}
\* the two decoders of clause StringTable agree on the same character, and decode the boundary sequences as the standards say
ASSUME /\ Utf16Dec(<<55357, 56832>>) = <<128512>> /\ Utf8Dec(<<240, 159, 152, 128>>) = <<128512>>
       /\ Utf16Dec(<<56832, 55357>>) = <<65533, 65533>> /\ Utf16Dec(<<55296, 56320, 56319, 57343>>) = <<65536, 1114111>>
       /\ Utf8Dec(<<244, 143, 191, 191>>) = <<1114111>> /\ ~WellFormed(Utf8Dec(<<244, 144, 128, 128>>))
       /\ ~WellFormed(Utf8Dec(<<237, 160, 128>>)) /\ ~WellFormed(Utf8Dec(<<192, 128>>))
       /\ QuickAncestorForms \subseteq FormNames /\ QuickStringShapes \subseteq DOMAIN Shapes
\* the lax-only string forms are exactly the PrintableStrings named by the property text
ASSUME \A f \in LaxOnlyForms : StringForms[f].st = "printable"
ASSUME StraddleClasses = {<<2050, 2049>>, <<2049, 2050>>, <<1950, 1949>>, <<1949, 1950>>}

\* the type catalogue (plain and inside every container) is printed once
ASSUME \A s \in ShapeNames : \A w \in {x \in Wraps \cup {<<>>} : WrapAllOK(x, Shapes[s])} :
          PrintT(<<"SHAPE", ToJson([name |-> s, wrap |-> w, tree |-> WrapAll(w, Shapes[s])])>>)

Export == PrintT(<<"CASE", ToJson([c |-> c, e |-> vd])>>)
=============================================================================
