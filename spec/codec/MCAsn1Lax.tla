---------------------------- MODULE MCAsn1Lax ----------------------------
(* Model-checking / export instance of Asn1Lax: TLC enumerates the cases, checks the laws on the
   decision model and prints every case with its verdict; the harness (harness/c10) realizes each
   case as bytes + Go types and compares the real decoders with the verdict. *)
EXTENDS Asn1Lax, Json

AllShapes == DOMAIN Shapes
\* quick instance: every shape, mode laxAncestor only with the tolerated malformations and a few others
QuickAncestorDefects == LaxTolerated \cup {"emptyInteger", "nonMinimalLength", "printableIsNeither", "oidArcLeading80",
                                            "genTimeFraction", "wrongTag"}
AllDefects == Defects

Containers == {"struct", "seqof", "setof", "explicit", "optional"}
Wraps1 == {<<w>> : w \in Containers}
Wraps2 == {<<a, b>> : a \in Containers, b \in Containers}

\* the type catalogue (plain and inside every container) is printed once
ASSUME \A s \in ShapeNames : \A w \in {x \in Wraps \cup {<<>>} : WrapAllOK(x, Shapes[s])} :
          PrintT(<<"SHAPE", ToJson([name |-> s, wrap |-> w, tree |-> WrapAll(w, Shapes[s])])>>)

Export == PrintT(<<"CASE", ToJson([c |-> c, e |-> Verdict(c)])>>)
=============================================================================
