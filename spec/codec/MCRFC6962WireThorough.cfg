\* thorough tier: full products of the boundary values
CONSTANTS Tier = "thorough"
INIT Init
NEXT Next
INVARIANTS CheckAndExport
CHECK_DEADLOCK FALSE
