---------------------------- MODULE RFC6962Wire ----------------------------
(***************************************************************************)
(* The wire structures of RFC 6962 section 3 (and DigitallySigned of       *)
(* RFC 5246 section 4.7) as TLSCodec type descriptors, written from the    *)
(* RFC's struct definitions, and the functions the log and its clients     *)
(* compute from them.  The section numbers refer to RFC 6962.              *)
(***************************************************************************)
EXTENDS TLSCodec

N(n) == NumOf(n)

(* ---------- 3.1 / 3.2 / 3.4 primitive types ---------- *)
Version        == EnumMax(N(255))     \* enum { v1(0), (255) } Version;
LogEntryType   == EnumMax(N(65535))   \* enum { x509_entry(0), precert_entry(1), (65535) } LogEntryType;
MerkleLeafType == EnumMax(N(255))     \* enum { timestamped_entry(0), (255) } MerkleLeafType;
SignatureType  == EnumMax(N(255))     \* enum { certificate_timestamp(0), tree_hash(1), (255) } SignatureType;
ASN1Cert       == Vec(N(1), MaxNum(3), Byte)    \* opaque ASN.1Cert<1..2^24-1>;
TBSCertificate == Vec(N(1), MaxNum(3), Byte)    \* opaque TBSCertificate<1..2^24-1>;
CtExtensions   == Vec(N(0), MaxNum(2), Byte)    \* opaque CtExtensions<0..2^16-1>;
\* struct { opaque issuer_key_hash[32]; TBSCertificate tbs_certificate; } PreCert;
PreCert == Struct(<<Field("issuer_key_hash", Arr(32)), Field("tbs_certificate", TBSCertificate)>>)

X509EntryType == 0
PrecertEntryType == 1
JSONEntryType == 32768    \* experimental, not in the RFC (named deviation, see ImplTimestampedEntry)
CertificateTimestampSig == 0
TreeHashSig == 1

\* select(entry_type) { case x509_entry: ASN.1Cert; case precert_entry: PreCert; } signed_entry;
SignedEntryArms == << Arm("x509_entry", ASN1Cert, "entry_type", N(X509EntryType)),
                      Arm("precert_entry", PreCert, "entry_type", N(PrecertEntryType)) >>
\* Named deviation JSONEntry: the repository's types carry a third arm for the experimental add-json
\* entry type 32768 (opaque<0..1677215>).  The raw TLS decoder therefore accepts it; everything that
\* interprets an entry (signature input, entry parsers) refuses it like any other unknown type.
JSONArm == Arm("json_entry", Vec(N(0), N(1677215), Byte), "entry_type", N(JSONEntryType))

(* ---------- 3.4 Merkle tree leaves ---------- *)
TimestampedEntryOf(arms) ==
  Struct(<<Field("timestamp", U(8)), Field("entry_type", LogEntryType)>> \o arms \o <<Field("extensions", CtExtensions)>>)
TimestampedEntry == TimestampedEntryOf(SignedEntryArms)
ImplTimestampedEntry == TimestampedEntryOf(SignedEntryArms \o <<JSONArm>>)
MerkleTreeLeafOf(te) ==
  Struct(<<Field("version", Version), Field("leaf_type", MerkleLeafType), Arm("timestamped_entry", te, "leaf_type", N(0))>>)
MerkleTreeLeaf == MerkleTreeLeafOf(TimestampedEntry)
ImplMerkleTreeLeaf == MerkleTreeLeafOf(ImplTimestampedEntry)

(* ---------- 3.2 SCT, its signature input; RFC 5246 4.7 DigitallySigned ---------- *)
\* struct { SignatureAndHashAlgorithm algorithm; opaque signature<0..2^16-1>; } (hash and signature: one byte each)
DigitallySigned == Struct(<<Field("hash", EnumMax(N(255))), Field("signature_algorithm", EnumMax(N(255))),
                            Field("signature", Vec(N(0), MaxNum(2), Byte))>>)
SCT == Struct(<<Field("sct_version", Version), Field("id", Arr(32)), Field("timestamp", U(8)),
                Field("extensions", CtExtensions), Field("signature", DigitallySigned)>>)
\* digitally-signed struct { Version; SignatureType = certificate_timestamp; uint64 timestamp; LogEntryType; signed_entry; CtExtensions }
CertificateTimestampOf(arms) ==
  Struct(<<Field("sct_version", Version), Field("signature_type", SignatureType), Field("timestamp", U(8)),
           Field("entry_type", LogEntryType)>> \o arms \o <<Field("extensions", CtExtensions)>>)
CertificateTimestamp == CertificateTimestampOf(SignedEntryArms)
ImplCertificateTimestamp == CertificateTimestampOf(SignedEntryArms \o <<JSONArm>>)

(* ---------- 3.3 SCT lists ---------- *)
SerializedSCT == Vec(N(1), MaxNum(2), Byte)          \* opaque SerializedSCT<1..2^16-1>;
SCTList == Vec(N(1), MaxNum(2), SerializedSCT)       \* SerializedSCT sct_list <1..2^16-1>;

(* ---------- 3.5 tree head signature input ---------- *)
TreeHeadSignature == Struct(<<Field("version", Version), Field("signature_type", SignatureType), Field("timestamp", U(8)),
                              Field("tree_size", U(8)), Field("sha256_root_hash", Arr(32))>>)

(* ---------- 3.1 / 4.6 extra data ---------- *)
CertificateChain == Vec(N(0), MaxNum(3), ASN1Cert)   \* ASN.1Cert certificate_chain<0..2^24-1>;
PrecertChainEntry == Struct(<<Field("pre_certificate", ASN1Cert), Field("precertificate_chain", CertificateChain)>>)

(* ---------- values from field records ---------- *)
NumV(n) == VNum(N(n))
\* entry: [etype |-> 0 | 1 | other, cert |-> bytes (certificate, TBS or JSON data), ikh |-> 32 bytes]
SignedEntryVals(e) == << IF e.etype = X509EntryType THEN VBytes(e.cert) ELSE VNone,
                         IF e.etype = PrecertEntryType THEN VStruct(<<VBytes(e.ikh), VBytes(e.cert)>>) ELSE VNone >>
ImplSignedEntryVals(e) == SignedEntryVals(e) \o << IF e.etype = JSONEntryType THEN VBytes(e.cert) ELSE VNone >>
\* leaf: [version, leaf_type, ts (digits), entry, ext (bytes)]
TimestampedEntryVal(l, arms) == VStruct(<<VNum(l.ts), NumV(l.entry.etype)>> \o arms \o <<VBytes(l.ext)>>)
LeafVal(l) == VStruct(<<NumV(l.version), NumV(l.leaf_type),
                        IF l.leaf_type = 0 THEN TimestampedEntryVal(l, SignedEntryVals(l.entry)) ELSE VNone>>)
ImplLeafVal(l) == VStruct(<<NumV(l.version), NumV(l.leaf_type),
                            IF l.leaf_type = 0 THEN TimestampedEntryVal(l, ImplSignedEntryVals(l.entry)) ELSE VNone>>)
\* ds: [hash, sigalg, sig (bytes)];  sct: [version, id (32 bytes), ts, ext, ds]
DSVal(ds) == VStruct(<<NumV(ds.hash), NumV(ds.sigalg), VBytes(ds.sig)>>)
SCTVal(s) == VStruct(<<NumV(s.version), VBytes(s.id), VNum(s.ts), VBytes(s.ext), DSVal(s.ds)>>)
\* sth: [version, ts, size (digits), root (32 bytes)]
ChainVal(certs) == VList([i \in 1..Len(certs) |-> VBytes(certs[i])])

(* ---------- the encodings ---------- *)
EncMerkleTreeLeaf(l) == Enc(MerkleTreeLeaf, LeafVal(l))
EncDigitallySigned(ds) == Enc(DigitallySigned, DSVal(ds))
EncSCT(s) == Enc(SCT, SCTVal(s))
\* 2.1: the leaf hash is SHA-256(0x00 || MerkleTreeLeaf)
LeafHashInput(l) == LET e == EncMerkleTreeLeaf(l) IN IF e.ok THEN OkB(B(<<0>>) \o e.b) ELSE Fail
\* 3.2: only defined for v1 and for the two entry types the RFC knows
EncSCTSignatureInput(version, ts, entry, ext) ==
  IF version # 0 \/ entry.etype \notin {X509EntryType, PrecertEntryType} THEN Fail
  ELSE Enc(CertificateTimestamp, VStruct(<<NumV(0), NumV(CertificateTimestampSig), VNum(ts), NumV(entry.etype)>>
                                         \o SignedEntryVals(entry) \o <<VBytes(ext)>>))
\* 3.5: only defined for v1
EncSTHSignatureInput(sth) ==
  IF sth.version # 0 THEN Fail
  ELSE Enc(TreeHeadSignature, VStruct(<<NumV(0), NumV(TreeHashSig), VNum(sth.ts), VNum(sth.size), VBytes(sth.root)>>))
\* scts: a sequence of byte strings (each a serialized SCT)
EncSCTList(scts) == Enc(SCTList, ChainVal(scts))
EncCertificateChain(certs) == Enc(CertificateChain, ChainVal(certs))
EncPrecertChainEntry(pre, certs) == Enc(PrecertChainEntry, VStruct(<<VBytes(pre), ChainVal(certs)>>))

(* ---------- complete parses ---------- *)
\* "wherever the API promises a complete parse": the whole input is one structure
Complete(T, b) == LET d == Dec(T, b) IN IF d.ok /\ BLen(d.rest) = 0 THEN d ELSE DFail
\* 4.6: a get-entries leaf parses iff leaf_input is one MerkleTreeLeaf of a known entry type and extra_data is
\* one chain structure of the matching kind
EntryTypeOf(leafDec) == leafDec.v.x[3].x[2].x       \* digits of entry_type
EntryParse(leafInput, extraData) ==
  LET l == Complete(MerkleTreeLeaf, leafInput) IN
  IF ~l.ok THEN [ok |-> FALSE, leaf |-> VNone, extra |-> VNone]
  ELSE LET x == Complete(IF EntryTypeOf(l) = N(PrecertEntryType) THEN PrecertChainEntry ELSE CertificateChain, extraData) IN
       IF x.ok THEN [ok |-> TRUE, leaf |-> l.v, extra |-> x.v] ELSE [ok |-> FALSE, leaf |-> VNone, extra |-> VNone]

(* ---------- 4.6 / 3.1: the entry points that build the stored leaf of a log entry ---------- *)
\* A log keeps, per entry, leaf_input (the MerkleTreeLeaf) and extra_data.  What get-entries serves as
\* extra_data is CertificateChain (x509_entry) / PrecertChainEntry (precert_entry) for EVERY chain, the empty one
\* included: a lone certificate (a trusted root logged on its own) has certificate_chain<0..2^24-1> of length 0,
\* i.e. the three bytes 00 00 00.  The repository has four sibling builders of extra_data:
\*   ExtraDataForChain, BuildLogLeaf                    the RFC structures
\*   ExtraDataForChainHash, BuildLogLeafWithChainHash   the storage-private hash references
\* Named clause ChainHashStore (not in the RFC): a log that keeps issuance chains in a side store writes, in place
\* of the chain, opaque issuance_chain_hash<0..256> - alone for an x509 entry, after pre_certificate for a precert.
\* Named clause NoHashNoReference: BuildLogLeafWithChainHash without a hash (nil) has nothing to refer to and writes
\* the RFC structure with an empty chain (the documented selector of buildLogLeaf: "chainHash controls ...").
IssuanceChainHash == Vec(N(0), N(256), Byte)
CertificateChainHash == Struct(<<Field("issuance_chain_hash", IssuanceChainHash)>>)
PrecertChainEntryHash == Struct(<<Field("pre_certificate", ASN1Cert), Field("issuance_chain_hash", IssuanceChainHash)>>)
EncExtraRFC(isPre, cert, certs) == IF isPre THEN EncPrecertChainEntry(cert, certs) ELSE EncCertificateChain(certs)
EncExtraHash(isPre, cert, h) == IF isPre THEN Enc(PrecertChainEntryHash, VStruct(<<VBytes(cert), VBytes(h)>>))
                                ELSE Enc(CertificateChainHash, VStruct(<<VBytes(h)>>))
ChainBuilders == {"ExtraDataForChain", "BuildLogLeaf"}
HashBuilders == {"ExtraDataForChainHash", "BuildLogLeafWithChainHash"}
LeafBuilders == {"BuildLogLeaf", "BuildLogLeafWithChainHash"}     \* these also write leaf_input and the identity
Builders == ChainBuilders \cup HashBuilders
\* hash: [present |-> BOOLEAN, b |-> bytes]: the hash argument of the hash builders (absent = nil)
ExtraForm(builder, hash) == IF builder \in ChainBuilders THEN "rfc"
                            ELSE IF builder = "BuildLogLeafWithChainHash" /\ ~hash.present THEN "rfc"   \* NoHashNoReference
                            ELSE "hash"
\* the chain argument exists for the chain builders only
ExtraDataOf(builder, isPre, cert, certs, hash) ==
  IF ExtraForm(builder, hash) = "hash" THEN EncExtraHash(isPre, cert, hash.b)
  ELSE EncExtraRFC(isPre, cert, IF builder \in ChainBuilders THEN certs ELSE <<>>)
\* the stored leaf: leaf_input is the MerkleTreeLeaf, the identity (what duplicates are recognised by) is the
\* certificate's bytes (the log hashes them with SHA-256), the index is passed through
StoredLeaf(builder, l, isPre, cert, certs, hash) ==
  LET lv == EncMerkleTreeLeaf(l)  x == ExtraDataOf(builder, isPre, cert, certs, hash) IN
  IF x.ok /\ (builder \in LeafBuilders => lv.ok)
  THEN [ok |-> TRUE, leaf_value |-> IF builder \in LeafBuilders THEN lv.b ELSE <<>>, extra_data |-> x.b, identity |-> cert]
  ELSE [ok |-> FALSE, leaf_value |-> <<>>, extra_data |-> <<>>, identity |-> <<>>]
\* law: whatever an RFC-form builder stores is what an RFC client reads back (complete parse of both parts; the
\* chain it finds is the chain that was passed, the empty chain included)
ChainOfExtra(isPre, xv) == IF isPre THEN xv.x[2] ELSE xv
ServedReadsBack(builder, l, isPre, cert, certs, hash) ==
  LET s == StoredLeaf(builder, l, isPre, cert, certs, hash) IN
  (s.ok /\ ExtraForm(builder, hash) = "rfc") =>
     LET x == Complete(IF isPre THEN PrecertChainEntry ELSE CertificateChain, s.extra_data) IN
     /\ x.ok /\ ValEq(ChainOfExtra(isPre, x.v), ChainVal(IF builder \in ChainBuilders THEN certs ELSE <<>>))
     /\ (isPre => ValEq(x.v.x[1], VBytes(cert)))
     /\ (builder \in LeafBuilders /\ l.leaf_type = 0 /\ (l.entry.etype = PrecertEntryType) = isPre /\ l.entry.etype \in {0, 1}
           => EntryParse(s.leaf_value, s.extra_data).ok)
\* law: the two forms never coincide for an x509 entry (3-byte against 2-byte prefix): no reader can take one for
\* the other by accident when the chain / hash is empty
FormsDiffer(cert) == ~BytesEq(EncExtraRFC(FALSE, cert, <<>>).b, EncExtraHash(FALSE, cert, <<>>).b)

\* The log front end reaches the builders through its issuance-chain service: "direct" (chains in extra_data:
\* BuildLogLeaf with the tail of the validated chain, which is empty for a lone trusted root) or "indirect" (chains
\* in a side store: BuildLogLeafWithChainHash with the key the store gave).  Named clause ServedIsRFC: whatever the
\* store keeps, what get-entries serves as extra_data is the RFC structure with the whole chain (4.6).
FrontEndModes == {"direct", "indirect"}
FrontEndBuilder(mode) == IF mode = "direct" THEN "BuildLogLeaf" ELSE "BuildLogLeafWithChainHash"
StoredForm(mode) == ExtraForm(FrontEndBuilder(mode), [present |-> TRUE, b |-> <<>>])
ServedForm(mode) == "rfc"

(* ---------- 3.3: the entry points that read an SCT list ---------- *)
\* The list of 3.3 travels as the content of an OCTET STRING that is the value of the X.509v3 extension
\* 1.3.6.1.4.1.11129.2.4.2 (and of the OCSP / TLS extensions).  Every entry point that hands SCTs (or the list) out
\* of a certificate promises a complete parse: the extension value is exactly one OCTET STRING, its content exactly
\* one SignedCertificateTimestampList (<1..2^16-1>: never empty), and - where SCTs are handed out - every element
\* exactly one SignedCertificateTimestamp.  wrap: how the list sits in the extension value
\*   "octet"        one OCTET STRING holding the bytes            "octet+trail"  the same followed by a byte
\*   "notoctet"     the bytes under another tag (SEQUENCE)         "absent"       the certificate has no such extension
Wraps == {"octet", "octet+trail", "notoctet", "absent"}
ElemsOk(lv) == [i \in 1..Len(lv.x) |-> Complete(SCT, lv.x[i].x).ok]
SCTsOfListVal(lv) == IF \A i \in 1..Len(lv.x) : Complete(SCT, lv.x[i].x).ok
                     THEN [ok |-> TRUE, v |-> VList([i \in 1..Len(lv.x) |-> Complete(SCT, lv.x[i].x).v])]
                     ELSE [ok |-> FALSE, v |-> VNone]
\* the list an entry point of the certificate parser family hands out without any error
ListFromCert(wrap, b) ==
  CASE wrap = "absent" -> [ok |-> TRUE, v |-> VList(<<>>)]
    [] wrap = "octet" -> LET l == Complete(SCTList, b) IN [ok |-> l.ok, v |-> l.v]
    [] OTHER -> [ok |-> FALSE, v |-> VNone]
\* the SCTs an entry point hands out
SCTsFromCert(wrap, b) == LET l == ListFromCert(wrap, b) IN IF l.ok THEN SCTsOfListVal(l.v) ELSE [ok |-> FALSE, v |-> VNone]
\* law: nothing is handed out of bytes that are not one complete list of complete SCTs, and what is handed out
\* re-encodes to exactly the bytes that were read (no tail is dropped silently)
NoSilentTail(wrap, b) ==
  LET s == SCTsFromCert(wrap, b) IN
  (s.ok /\ wrap = "octet") =>
     LET again == EncSCTList([i \in 1..Len(s.v.x) |-> Enc(SCT, s.v.x[i]).b]) IN again.ok /\ BytesEq(again.b, b)

(* ---------- JSON messages (4.1, 4.3): the structures travel in base64 fields ---------- *)
\* add-chain response: [sct_version, id, timestamp, extensions, signature]: id / extensions / signature are the
\* bytes inside the base64 fields; signature is a serialized DigitallySigned
ToSCT(r) ==
  LET ds == Complete(DigitallySigned, r.signature) IN
  IF BLen(r.id) # 32 \/ ~ds.ok THEN [ok |-> FALSE, v |-> VNone]
  ELSE [ok |-> TRUE, v |-> VStruct(<<NumV(r.sct_version), VBytes(r.id), VNum(r.timestamp), VBytes(r.extensions), ds.v>>)]
FromSCT(s) == [sct_version |-> s.version, id |-> s.id, timestamp |-> s.ts, extensions |-> s.ext,
               signature |-> EncDigitallySigned(s.ds).b]
\* get-sth response: [tree_size, timestamp, sha256_root_hash, tree_head_signature]
ToSTH(r) ==
  LET ds == Complete(DigitallySigned, r.tree_head_signature) IN
  IF BLen(r.sha256_root_hash) # 32 \/ ~ds.ok THEN [ok |-> FALSE, v |-> VNone]
  ELSE [ok |-> TRUE, v |-> VStruct(<<VNum(r.tree_size), VNum(r.timestamp), VBytes(r.sha256_root_hash), ds.v>>)]

(* ---------- fixed-size base64 fields ---------- *)
\* A JSON field that carries a fixed-size structure (a SHA-256 value: sha256_root_hash, log_id, id) converts to the
\* internal value iff the text is base64 and decodes to exactly that many bytes; the internal value converts back to
\* the base64 of exactly those bytes.  field: [wf |-> the text is well-formed base64, b |-> the bytes it decodes to]
HashSize == 32
ToFixed(field, n) == IF field.wf /\ BLen(field.b) = n THEN [ok |-> TRUE, v |-> VBytes(field.b)] ELSE [ok |-> FALSE, v |-> VNone]
FromFixed(v) == [wf |-> TRUE, b |-> v.x]
ToHash(field) == ToFixed(field, HashSize)
\* the SignedTreeHead JSON object (the client-side form of 4.3 with sth_version and log_id):
\* [sth_version, tree_size, timestamp, sha256_root_hash (field), tree_head_signature (bytes), log_id (field)]
ToSTHObject(r) ==
  LET root == ToHash(r.sha256_root_hash)  id == ToHash(r.log_id)  ds == Complete(DigitallySigned, r.tree_head_signature) IN
  IF ~root.ok \/ ~id.ok \/ ~ds.ok THEN [ok |-> FALSE, v |-> VNone]
  ELSE [ok |-> TRUE, v |-> VStruct(<<NumV(r.sth_version), VNum(r.tree_size), VNum(r.timestamp), root.v, ds.v, id.v>>)]
\* without loss, in both directions: what converts back is what was read, and nothing of another length is read
FixedLossless(field, n) == LET t == ToFixed(field, n) IN
                           /\ (t.ok => BytesEq(FromFixed(t.v).b, field.b))
                           /\ (t.ok <=> (field.wf /\ BLen(field.b) = n))

(* ---------- laws (C04, model level) ---------- *)
RoundTrip(T, v) == LET e == Enc(T, v) IN e.ok => LET d == Dec(T, e.b) IN d.ok /\ ValEq(d.v, v) /\ BLen(d.rest) = 0
NoTrailing(T, v) == LET e == Enc(T, v) IN e.ok => ~Complete(T, e.b \o B(<<170>>)).ok
SCTJsonRoundTrip(s) == EncDigitallySigned(s.ds).ok /\ BLen(s.id) = 32 =>
                         LET t == ToSCT(FromSCT(s)) IN t.ok /\ ValEq(t.v, SCTVal(s))
=============================================================================
