---------------------------- MODULE RFC6962Wire ----------------------------
(***************************************************************************)
(* The wire structures of RFC 6962 section 3 (and DigitallySigned of       *)
(* RFC 5246 section 4.7) as TLSCodec type descriptors, written from the    *)
(* RFC's struct definitions, and the functions the log and its clients     *)
(* compute from them.  The section numbers refer to RFC 6962.              *)
(***************************************************************************)
EXTENDS TLSCodec

N(n) == NumOf(n)

(* ---------- 3.1 / 3.2 / 3.4 primitive types ---------- *)
Version        == EnumMax(N(255))     \* enum { v1(0), (255) } Version;
LogEntryType   == EnumMax(N(65535))   \* enum { x509_entry(0), precert_entry(1), (65535) } LogEntryType;
MerkleLeafType == EnumMax(N(255))     \* enum { timestamped_entry(0), (255) } MerkleLeafType;
SignatureType  == EnumMax(N(255))     \* enum { certificate_timestamp(0), tree_hash(1), (255) } SignatureType;
ASN1Cert       == Vec(N(1), MaxNum(3), Byte)    \* opaque ASN.1Cert<1..2^24-1>;
TBSCertificate == Vec(N(1), MaxNum(3), Byte)    \* opaque TBSCertificate<1..2^24-1>;
CtExtensions   == Vec(N(0), MaxNum(2), Byte)    \* opaque CtExtensions<0..2^16-1>;
\* struct { opaque issuer_key_hash[32]; TBSCertificate tbs_certificate; } PreCert;
PreCert == Struct(<<Field("issuer_key_hash", Arr(32)), Field("tbs_certificate", TBSCertificate)>>)

X509EntryType == 0
PrecertEntryType == 1
JSONEntryType == 32768    \* experimental, not in the RFC (named deviation, see ImplTimestampedEntry)
CertificateTimestampSig == 0
TreeHashSig == 1

\* select(entry_type) { case x509_entry: ASN.1Cert; case precert_entry: PreCert; } signed_entry;
SignedEntryArms == << Arm("x509_entry", ASN1Cert, "entry_type", N(X509EntryType)),
                      Arm("precert_entry", PreCert, "entry_type", N(PrecertEntryType)) >>
\* Named deviation JSONEntry: the repository's types carry a third arm for the experimental add-json
\* entry type 32768 (opaque<0..1677215>).  The raw TLS decoder therefore accepts it; everything that
\* interprets an entry (signature input, entry parsers) refuses it like any other unknown type.
JSONArm == Arm("json_entry", Vec(N(0), N(1677215), Byte), "entry_type", N(JSONEntryType))

(* ---------- 3.4 Merkle tree leaves ---------- *)
TimestampedEntryOf(arms) ==
  Struct(<<Field("timestamp", U(8)), Field("entry_type", LogEntryType)>> \o arms \o <<Field("extensions", CtExtensions)>>)
TimestampedEntry == TimestampedEntryOf(SignedEntryArms)
ImplTimestampedEntry == TimestampedEntryOf(SignedEntryArms \o <<JSONArm>>)
MerkleTreeLeafOf(te) ==
  Struct(<<Field("version", Version), Field("leaf_type", MerkleLeafType), Arm("timestamped_entry", te, "leaf_type", N(0))>>)
MerkleTreeLeaf == MerkleTreeLeafOf(TimestampedEntry)
ImplMerkleTreeLeaf == MerkleTreeLeafOf(ImplTimestampedEntry)

(* ---------- 3.2 SCT, its signature input; RFC 5246 4.7 DigitallySigned ---------- *)
\* struct { SignatureAndHashAlgorithm algorithm; opaque signature<0..2^16-1>; } (hash and signature: one byte each)
DigitallySigned == Struct(<<Field("hash", EnumMax(N(255))), Field("signature_algorithm", EnumMax(N(255))),
                            Field("signature", Vec(N(0), MaxNum(2), Byte))>>)
SCT == Struct(<<Field("sct_version", Version), Field("id", Arr(32)), Field("timestamp", U(8)),
                Field("extensions", CtExtensions), Field("signature", DigitallySigned)>>)
\* digitally-signed struct { Version; SignatureType = certificate_timestamp; uint64 timestamp; LogEntryType; signed_entry; CtExtensions }
CertificateTimestampOf(arms) ==
  Struct(<<Field("sct_version", Version), Field("signature_type", SignatureType), Field("timestamp", U(8)),
           Field("entry_type", LogEntryType)>> \o arms \o <<Field("extensions", CtExtensions)>>)
CertificateTimestamp == CertificateTimestampOf(SignedEntryArms)
ImplCertificateTimestamp == CertificateTimestampOf(SignedEntryArms \o <<JSONArm>>)

(* ---------- 3.3 SCT lists ---------- *)
SerializedSCT == Vec(N(1), MaxNum(2), Byte)          \* opaque SerializedSCT<1..2^16-1>;
SCTList == Vec(N(1), MaxNum(2), SerializedSCT)       \* SerializedSCT sct_list <1..2^16-1>;

(* ---------- 3.5 tree head signature input ---------- *)
TreeHeadSignature == Struct(<<Field("version", Version), Field("signature_type", SignatureType), Field("timestamp", U(8)),
                              Field("tree_size", U(8)), Field("sha256_root_hash", Arr(32))>>)

(* ---------- 3.1 / 4.6 extra data ---------- *)
CertificateChain == Vec(N(0), MaxNum(3), ASN1Cert)   \* ASN.1Cert certificate_chain<0..2^24-1>;
PrecertChainEntry == Struct(<<Field("pre_certificate", ASN1Cert), Field("precertificate_chain", CertificateChain)>>)

(* ---------- values from field records ---------- *)
NumV(n) == VNum(N(n))
\* entry: [etype |-> 0 | 1 | other, cert |-> bytes (certificate, TBS or JSON data), ikh |-> 32 bytes]
SignedEntryVals(e) == << IF e.etype = X509EntryType THEN VBytes(e.cert) ELSE VNone,
                         IF e.etype = PrecertEntryType THEN VStruct(<<VBytes(e.ikh), VBytes(e.cert)>>) ELSE VNone >>
ImplSignedEntryVals(e) == SignedEntryVals(e) \o << IF e.etype = JSONEntryType THEN VBytes(e.cert) ELSE VNone >>
\* leaf: [version, leaf_type, ts (digits), entry, ext (bytes)]
TimestampedEntryVal(l, arms) == VStruct(<<VNum(l.ts), NumV(l.entry.etype)>> \o arms \o <<VBytes(l.ext)>>)
LeafVal(l) == VStruct(<<NumV(l.version), NumV(l.leaf_type),
                        IF l.leaf_type = 0 THEN TimestampedEntryVal(l, SignedEntryVals(l.entry)) ELSE VNone>>)
ImplLeafVal(l) == VStruct(<<NumV(l.version), NumV(l.leaf_type),
                            IF l.leaf_type = 0 THEN TimestampedEntryVal(l, ImplSignedEntryVals(l.entry)) ELSE VNone>>)
\* ds: [hash, sigalg, sig (bytes)];  sct: [version, id (32 bytes), ts, ext, ds]
DSVal(ds) == VStruct(<<NumV(ds.hash), NumV(ds.sigalg), VBytes(ds.sig)>>)
SCTVal(s) == VStruct(<<NumV(s.version), VBytes(s.id), VNum(s.ts), VBytes(s.ext), DSVal(s.ds)>>)
\* sth: [version, ts, size (digits), root (32 bytes)]
ChainVal(certs) == VList([i \in 1..Len(certs) |-> VBytes(certs[i])])

(* ---------- the encodings ---------- *)
EncMerkleTreeLeaf(l) == Enc(MerkleTreeLeaf, LeafVal(l))
EncDigitallySigned(ds) == Enc(DigitallySigned, DSVal(ds))
EncSCT(s) == Enc(SCT, SCTVal(s))
\* 2.1: the leaf hash is SHA-256(0x00 || MerkleTreeLeaf)
LeafHashInput(l) == LET e == EncMerkleTreeLeaf(l) IN IF e.ok THEN OkB(B(<<0>>) \o e.b) ELSE Fail
\* 3.2: only defined for v1 and for the two entry types the RFC knows
EncSCTSignatureInput(version, ts, entry, ext) ==
  IF version # 0 \/ entry.etype \notin {X509EntryType, PrecertEntryType} THEN Fail
  ELSE Enc(CertificateTimestamp, VStruct(<<NumV(0), NumV(CertificateTimestampSig), VNum(ts), NumV(entry.etype)>>
                                         \o SignedEntryVals(entry) \o <<VBytes(ext)>>))
\* 3.5: only defined for v1
EncSTHSignatureInput(sth) ==
  IF sth.version # 0 THEN Fail
  ELSE Enc(TreeHeadSignature, VStruct(<<NumV(0), NumV(TreeHashSig), VNum(sth.ts), VNum(sth.size), VBytes(sth.root)>>))
\* scts: a sequence of byte strings (each a serialized SCT)
EncSCTList(scts) == Enc(SCTList, ChainVal(scts))
EncCertificateChain(certs) == Enc(CertificateChain, ChainVal(certs))
EncPrecertChainEntry(pre, certs) == Enc(PrecertChainEntry, VStruct(<<VBytes(pre), ChainVal(certs)>>))

(* ---------- complete parses ---------- *)
\* "wherever the API promises a complete parse": the whole input is one structure
Complete(T, b) == LET d == Dec(T, b) IN IF d.ok /\ BLen(d.rest) = 0 THEN d ELSE DFail
\* 4.6: a get-entries leaf parses iff leaf_input is one MerkleTreeLeaf of a known entry type and extra_data is
\* one chain structure of the matching kind
EntryTypeOf(leafDec) == leafDec.v.x[3].x[2].x       \* digits of entry_type
EntryParse(leafInput, extraData) ==
  LET l == Complete(MerkleTreeLeaf, leafInput) IN
  IF ~l.ok THEN [ok |-> FALSE, leaf |-> VNone, extra |-> VNone]
  ELSE LET x == Complete(IF EntryTypeOf(l) = N(PrecertEntryType) THEN PrecertChainEntry ELSE CertificateChain, extraData) IN
       IF x.ok THEN [ok |-> TRUE, leaf |-> l.v, extra |-> x.v] ELSE [ok |-> FALSE, leaf |-> VNone, extra |-> VNone]

(* ---------- JSON messages (4.1, 4.3): the structures travel in base64 fields ---------- *)
\* add-chain response: [sct_version, id, timestamp, extensions, signature]: id / extensions / signature are the
\* bytes inside the base64 fields; signature is a serialized DigitallySigned
ToSCT(r) ==
  LET ds == Complete(DigitallySigned, r.signature) IN
  IF BLen(r.id) # 32 \/ ~ds.ok THEN [ok |-> FALSE, v |-> VNone]
  ELSE [ok |-> TRUE, v |-> VStruct(<<NumV(r.sct_version), VBytes(r.id), VNum(r.timestamp), VBytes(r.extensions), ds.v>>)]
FromSCT(s) == [sct_version |-> s.version, id |-> s.id, timestamp |-> s.ts, extensions |-> s.ext,
               signature |-> EncDigitallySigned(s.ds).b]
\* get-sth response: [tree_size, timestamp, sha256_root_hash, tree_head_signature]
ToSTH(r) ==
  LET ds == Complete(DigitallySigned, r.tree_head_signature) IN
  IF BLen(r.sha256_root_hash) # 32 \/ ~ds.ok THEN [ok |-> FALSE, v |-> VNone]
  ELSE [ok |-> TRUE, v |-> VStruct(<<VNum(r.tree_size), VNum(r.timestamp), VBytes(r.sha256_root_hash), ds.v>>)]

(* ---------- fixed-size base64 fields ---------- *)
\* A JSON field that carries a fixed-size structure (a SHA-256 value: sha256_root_hash, log_id, id) converts to the
\* internal value iff the text is base64 and decodes to exactly that many bytes; the internal value converts back to
\* the base64 of exactly those bytes.  field: [wf |-> the text is well-formed base64, b |-> the bytes it decodes to]
HashSize == 32
ToFixed(field, n) == IF field.wf /\ BLen(field.b) = n THEN [ok |-> TRUE, v |-> VBytes(field.b)] ELSE [ok |-> FALSE, v |-> VNone]
FromFixed(v) == [wf |-> TRUE, b |-> v.x]
ToHash(field) == ToFixed(field, HashSize)
\* the SignedTreeHead JSON object (the client-side form of 4.3 with sth_version and log_id):
\* [sth_version, tree_size, timestamp, sha256_root_hash (field), tree_head_signature (bytes), log_id (field)]
ToSTHObject(r) ==
  LET root == ToHash(r.sha256_root_hash)  id == ToHash(r.log_id)  ds == Complete(DigitallySigned, r.tree_head_signature) IN
  IF ~root.ok \/ ~id.ok \/ ~ds.ok THEN [ok |-> FALSE, v |-> VNone]
  ELSE [ok |-> TRUE, v |-> VStruct(<<NumV(r.sth_version), VNum(r.tree_size), VNum(r.timestamp), root.v, ds.v, id.v>>)]
\* without loss, in both directions: what converts back is what was read, and nothing of another length is read
FixedLossless(field, n) == LET t == ToFixed(field, n) IN
                           /\ (t.ok => BytesEq(FromFixed(t.v).b, field.b))
                           /\ (t.ok <=> (field.wf /\ BLen(field.b) = n))

(* ---------- laws (C04, model level) ---------- *)
RoundTrip(T, v) == LET e == Enc(T, v) IN e.ok => LET d == Dec(T, e.b) IN d.ok /\ ValEq(d.v, v) /\ BLen(d.rest) = 0
NoTrailing(T, v) == LET e == Enc(T, v) IN e.ok => ~Complete(T, e.b \o B(<<170>>)).ok
SCTJsonRoundTrip(s) == EncDigitallySigned(s.ds).ok /\ BLen(s.id) = 32 =>
                         LET t == ToSCT(FromSCT(s)) IN t.ok /\ ValEq(t.v, SCTVal(s))
=============================================================================
