------------------------------ MODULE TLSCodec ------------------------------
(***************************************************************************)
(* The TLS presentation language of RFC 5246 section 4 as a pair of        *)
(* functions Enc / Dec over type descriptors, written from the RFC text:   *)
(*                                                                         *)
(*   4.4  numbers      U(w): w bytes, big endian (uint8/16/24/32/64)       *)
(*   4.5  enumerateds  Enum: as many bytes as the maximal declared value   *)
(*                     needs ("maxval:N"), or a stated width ("size:S")    *)
(*   4.3  vectors      Arr(n): opaque[n], no prefix                        *)
(*                     Vec(min, max, elem): <min..max>, prefixed with the  *)
(*                     byte length in as many bytes as max needs; the      *)
(*                     length must be a whole number of elements           *)
(*   4.6  structs      fields in declaration order, no padding             *)
(*   4.6.1 variants    select(sel) { case v: T }: exactly the arm whose    *)
(*                     value the selector (an earlier enum field of the    *)
(*                     same struct) carries; a selector value without arm  *)
(*                     is an error in both directions                      *)
(*                                                                         *)
(* Values: VNum(digits) | VBytes(segments) | VList(<<v...>>) |             *)
(* VStruct(<<v...>>) (one entry per field, VNone for an arm not chosen).   *)
(*                                                                         *)
(* Named clauses where RFC 5246 leaves room and tls/tls.go is definite:    *)
(*   EnumBoundIsWidth  an enum is bounded by its width, not by maxval      *)
(*                     (4.5: maxval only determines the width); both       *)
(*                     directions accept maxval < v < 2^(8w).              *)
(*   Uint24Overflow    the Go carrier of uint24 is 32 bits wide; a value   *)
(*                     >= 2^24 has no encoding (likewise an enum value     *)
(*                     that needs more than w bytes).                      *)
(*   MaxlenZeroIsWidth a vector whose declared maximum is 0 ("maxlen:0",   *)
(*                     then necessarily "minlen:0") has no declared range: *)
(*                     tls.go reads maxlen 0 as "no range given".  Its     *)
(*                     prefix is one byte (the lower edge of 4.3: never    *)
(*                     less than one byte) and it is bounded by that       *)
(*                     prefix only, in both directions (0..255 bytes).     *)
(*                                                                         *)
(* The lower edge of the width rule (4.3, 4.5): a bound of 0 ("maxval:0",  *)
(* "maxlen:0") still takes ONE byte - the width is what the maximum needs, *)
(* and never less than one byte.  EnumMax / Vec / VecForm state it.        *)
(*                                                                         *)
(* Tag forms of a vector (the documented grammar is a comma-separated list *)
(* of clauses in any order, "minlen" optional): "minmax" = minlen:N,       *)
(* maxlen:M; "maxmin" = maxlen:M,minlen:N; "max" = maxlen:M (min = 0).     *)
(* The form does not change Enc / Dec; it is carried so that the binding   *)
(* hands the real code every spelling of the same bound.                   *)
(***************************************************************************)
EXTENDS Bytes, FiniteSets

(* ---------- type descriptors ---------- *)
U(w) == [k |-> "u", w |-> w]
EnumSize(w) == [k |-> "enum", w |-> w, tag |-> "size", maxval |-> MaxNum(w)]
EnumMax(d) == [k |-> "enum", w |-> IF d = <<>> THEN 1 ELSE Len(d), tag |-> "maxval", maxval |-> d]    \* maxval:0 is one byte
Arr(n) == [k |-> "arr", n |-> n]
Byte == [k |-> "byte"]
\* min, max: digit sequences; the prefix is as wide as max needs (4.3)
BoundWidth(d) == IF d = <<>> THEN 1 ELSE Len(d)      \* bytes needed for values up to d: never less than one
VecForms == {"minmax", "maxmin", "max"}
VecForm(min, max, elem, form) == [k |-> "vec", min |-> min, max |-> max, w |-> BoundWidth(max), elem |-> elem, form |-> form]
Vec(min, max, elem) == VecForm(min, max, elem, "minmax")
\* <min..max> (4.3); MaxlenZeroIsWidth: no declared range when max = 0
InRange(T, n) == T.max = <<>> \/ (NumLE(T.min, n) /\ NumLE(n, T.max))
Field(name, t) == [name |-> name, t |-> t, sel |-> "", val |-> <<>>]
Arm(name, t, sel, val) == [name |-> name, t |-> t, sel |-> sel, val |-> val]    \* val: digit sequence
Struct(fields) == [k |-> "struct", fields |-> fields]

(* ---------- values ---------- *)
VNum(d) == [k |-> "num", x |-> d]
VBytes(bs) == [k |-> "bytes", x |-> bs]
VList(items) == [k |-> "list", x |-> items]
VStruct(fs) == [k |-> "struct", x |-> fs]
VNone == [k |-> "none", x |-> <<>>]

\* selector environment: <<name, digits>> pairs of the enum fields seen so far in this struct
HasKey(env, name) == \E i \in 1..Len(env) : env[i][1] = name
Lookup(env, name) == env[CHOOSE i \in 1..Len(env) : env[i][1] = name /\ \A j \in (i + 1)..Len(env) : env[j][1] # name][2]

(* ---------- Enc ---------- *)
Fail == [ok |-> FALSE, b |-> <<>>]
OkB(b) == [ok |-> TRUE, b |-> b]

\* checked = TRUE: the encoding function.  checked = FALSE: the same layout without the <min..max>
\* test, used only to state "no byte string decodes to a value that has no encoding".
RECURSIVE EncC(_, _, _), EncList(_, _, _), EncFields(_, _, _, _, _, _)
EncC(T, v, checked) ==
  CASE T.k \in {"u", "enum"} ->
         IF v.k = "num" /\ Len(v.x) <= T.w THEN OkB(<<Lit(Pad(v.x, T.w))>>) ELSE Fail
    [] T.k = "arr" ->
         IF v.k = "bytes" /\ BLen(v.x) = T.n THEN OkB(v.x) ELSE Fail
    [] T.k = "vec" ->
         LET body == IF T.elem.k = "byte" THEN (IF v.k = "bytes" THEN OkB(v.x) ELSE Fail)
                     ELSE (IF v.k = "list" THEN EncList(T.elem, v.x, checked) ELSE Fail)
         IN IF ~body.ok THEN Fail
            ELSE LET n == NumOf(BLen(body.b)) IN
                 IF Len(n) <= T.w /\ (~checked \/ InRange(T, n))
                 THEN OkB(<<Lit(Pad(n, T.w))>> \o body.b) ELSE Fail
    [] T.k = "struct" ->
         IF v.k = "struct" /\ Len(v.x) = Len(T.fields)
         THEN EncFields(T.fields, v.x, 1, <<>>, [b |-> <<>>, ref |-> {}, hit |-> {}], checked) ELSE Fail
    [] OTHER -> Fail

EncList(E, items, checked) ==
  IF items = <<>> THEN OkB(<<>>)
  ELSE LET h == EncC(E, Head(items), checked) t == EncList(E, Tail(items), checked) IN
       IF h.ok /\ t.ok THEN OkB(h.b \o t.b) ELSE Fail

EncFields(fs, vs, i, env, acc, checked) ==
  IF i > Len(fs) THEN (IF acc.ref \subseteq acc.hit THEN OkB(acc.b) ELSE Fail)   \* every select found its arm
  ELSE LET f == fs[i] x == vs[i] IN
    IF f.sel = "" THEN
      LET e == EncC(f.t, x, checked) IN
      IF ~e.ok THEN Fail
      ELSE EncFields(fs, vs, i + 1, IF f.t.k = "enum" THEN Append(env, <<f.name, x.x>>) ELSE env,
                     [acc EXCEPT !.b = @ \o e.b], checked)
    ELSE IF ~HasKey(env, f.sel) THEN Fail
    ELSE IF Lookup(env, f.sel) = f.val THEN
      (IF x.k = "none" \/ f.sel \in acc.hit THEN Fail
       ELSE LET e == EncC(f.t, x, checked) IN
            IF ~e.ok THEN Fail
            ELSE EncFields(fs, vs, i + 1, env, [b |-> acc.b \o e.b, ref |-> acc.ref \cup {f.sel}, hit |-> acc.hit \cup {f.sel}], checked))
    ELSE IF x.k # "none" THEN Fail
    ELSE EncFields(fs, vs, i + 1, env, [acc EXCEPT !.ref = @ \cup {f.sel}], checked)

Enc(T, v) == EncC(T, v, TRUE)
RawEnc(T, v) == EncC(T, v, FALSE)

(* ---------- Dec ---------- *)
DFail == [ok |-> FALSE, v |-> VNone, rest |-> <<>>]
DOk(v, rest) == [ok |-> TRUE, v |-> v, rest |-> rest]

RECURSIVE Dec(_, _), DecList(_, _, _), DecFields(_, _, _, _, _)
Dec(T, b) ==
  CASE T.k \in {"u", "enum"} ->
         IF BLen(b) < T.w THEN DFail ELSE DOk(VNum(Strip(Expand(Take(b, T.w)))), Drop(b, T.w))
    [] T.k = "arr" ->
         IF BLen(b) < T.n THEN DFail ELSE DOk(VBytes(Take(b, T.n)), Drop(b, T.n))
    [] T.k = "vec" ->
         IF BLen(b) < T.w THEN DFail
         ELSE LET n == Strip(Expand(Take(b, T.w)))
                  r == Drop(b, T.w) IN
              IF ~InRange(T, n) THEN DFail                              \* <min..max> (4.3)
              ELSE IF ~NumLE(n, NumOf(BLen(r))) THEN DFail              \* truncated
              ELSE LET m == IntOf(n) IN
                   IF T.elem.k = "byte" THEN DOk(VBytes(Take(r, m)), Drop(r, m))
                   ELSE LET l == DecList(T.elem, Take(r, m), <<>>) IN
                        IF l.ok THEN DOk(VList(l.items), Drop(r, m)) ELSE DFail
    [] T.k = "struct" -> DecFields(T.fields, 1, b, <<>>, [vals |-> <<>>, ref |-> {}, hit |-> {}])
    [] OTHER -> DFail

\* the body of a vector is a whole number of elements
DecList(E, body, acc) ==
  IF BLen(body) = 0 THEN [ok |-> TRUE, items |-> acc]
  ELSE LET d == Dec(E, body) IN
       IF ~d.ok \/ BLen(d.rest) >= BLen(body) THEN [ok |-> FALSE, items |-> <<>>]
       ELSE DecList(E, d.rest, Append(acc, d.v))

DecFields(fs, i, b, env, acc) ==
  IF i > Len(fs) THEN (IF acc.ref \subseteq acc.hit THEN DOk(VStruct(acc.vals), b) ELSE DFail)
  ELSE LET f == fs[i] IN
    IF f.sel = "" THEN
      LET d == Dec(f.t, b) IN
      IF ~d.ok THEN DFail
      ELSE DecFields(fs, i + 1, d.rest, IF f.t.k = "enum" THEN Append(env, <<f.name, d.v.x>>) ELSE env,
                     [acc EXCEPT !.vals = Append(@, d.v)])
    ELSE IF ~HasKey(env, f.sel) THEN DFail
    ELSE IF Lookup(env, f.sel) = f.val THEN
      (IF f.sel \in acc.hit THEN DFail
       ELSE LET d == Dec(f.t, b) IN
            IF ~d.ok THEN DFail
            ELSE DecFields(fs, i + 1, d.rest, env,
                           [vals |-> Append(acc.vals, d.v), ref |-> acc.ref \cup {f.sel}, hit |-> acc.hit \cup {f.sel}]))
    ELSE DecFields(fs, i + 1, b, env, [vals |-> Append(acc.vals, VNone), ref |-> acc.ref \cup {f.sel}, hit |-> acc.hit])

(* ---------- values up to the segmentation of their byte strings ---------- *)
RECURSIVE NormVal(_)
NormVal(v) == CASE v.k = "bytes" -> VBytes(Norm(v.x))
                [] v.k \in {"list", "struct"} -> [k |-> v.k, x |-> [i \in 1..Len(v.x) |-> NormVal(v.x[i])]]
                [] OTHER -> v
ValEq(a, b) == NormVal(a) = NormVal(b)

(* ---------- the laws (C09), stated for one type, one value, one byte string ---------- *)
\* Dec(T, Enc(T, v) \o r) = <<v, r>>
LawDecEnc(T, v, r) ==
  LET e == Enc(T, v) IN
  e.ok => LET d == Dec(T, e.b \o r) IN d.ok /\ ValEq(d.v, v) /\ BytesEq(d.rest, r)
\* Dec(T, b) = <<v, r>>  =>  Enc(T, v) \o r = b   (in particular Enc is defined: bounds agree)
LawEncDec(T, b) ==
  LET d == Dec(T, b) IN
  d.ok => LET e == Enc(T, d.v) IN e.ok /\ BytesEq(e.b \o d.rest, b)
\* a value without encoding is the image of no byte string: its would-be layout does not decode to it
LawBoundsAgree(T, v) ==
  LET e == Enc(T, v) raw == RawEnc(T, v) IN
  (~e.ok /\ raw.ok) => LET d == Dec(T, raw.b) IN ~(d.ok /\ ValEq(d.v, v) /\ BLen(d.rest) = 0)
=============================================================================
