\* thorough tier: the shapes and rounds of the concurrency layer (-workers 1: export order)
CONSTANTS Tier = "thorough"
INIT ConcInit
NEXT ConcNext
INVARIANTS ConcCheckAndExport
CHECK_DEADLOCK FALSE
