\* history machine, exhaustive (thorough tier): every history of two calls over the objects of one shape (all eight
\* variants x three mutations, every entry, every buffer mode): the result is a function of the arguments, the list gives each part's own outcome, arguments intact
CONSTANTS
  Templates <- QuickTemplates
  MaxParts = 3
  PermAll = 3
  HistShapes <- MCHistShapesSmall
  HistMutNames <- MCHistMutNamesSmall
  HistSlots = {"iss", "sub", "san"}
  HistDepth = 2
INIT HistInit
NEXT HistNext
INVARIANTS HistTypeOK Functional PerCertificate ArgsIntact
CHECK_DEADLOCK FALSE
