--------------------------- MODULE MCX509ParseList --------------------------
(* Model-checking instance of X509ParseList: the case space (entry point x armour x payload), the invariants on    *)
(* every state, and the export of the outcome classes the contract allows per case.                                *)
EXTENDS X509ParseList, Json

CONSTANT Deep      \* FALSE: quick tier; TRUE: lists of three entries over thirteen representatives, every pair of extensions

(* ---- entries ---- *)
EntryExtsWT == {x \in EntryExts : WellTyped(x)}
ListExtsWT == {x \in ListExts : WellTyped(x)}

NoExt == <<>>
Alphabet == {NoExt} \cup {<<x>> : x \in EntryExtsWT}
\* representatives: clean, clean with an extension, warning (critical where it should not be / not critical where it
\* should), fatal (value, unhandled critical), warning and fatal in one extension
Clean == <<X("reason", FALSE, "good")>>
WarnE == <<X("reason", TRUE, "good")>>
WarnE2 == <<X("certIssuer", FALSE, "good")>>
FatalE == <<X("invDate", FALSE, "bad")>>
FatalE2 == <<X("unknown", TRUE, "good")>>
BothE == <<X("reason", TRUE, "trailing")>>
Reduced == {NoExt, Clean, WarnE, WarnE2, FatalE, FatalE2, BothE}
ReducedExts == {X("reason", FALSE, "good"), X("reason", TRUE, "good"), X("invDate", TRUE, "good"), X("certIssuer", FALSE, "good"),
                X("certIssuer", TRUE, "bad"), X("unknown", TRUE, "good"), X("unknown", FALSE, "good"), X("reason", FALSE, "empty")}
\* thorough tier: both criticalities of every interpreted kind, every rank of value
Middle == Reduced \cup {<<X("invDate", TRUE, "good")>>, <<X("certIssuer", TRUE, "good")>>, <<X("certIssuer", TRUE, "bad")>>, <<X("reason", FALSE, "bad")>>,
                       <<X("unknown", FALSE, "good")>>, <<X("invDate", FALSE, "empty")>>}
TwoExt == {<<x, y>> : x, y \in (IF Deep THEN EntryExtsWT ELSE ReducedExts)}

SeqsOf(S, n) == [1..n -> S]
EntryLists ==
  {<<>>} \cup SeqsOf(Alphabet, 1) \cup SeqsOf(Alphabet, 2)
  \cup SeqsOf(IF Deep THEN Middle ELSE Reduced, 3)
  \cup {<<t>> : t \in TwoExt} \cup {<<NoExt, t>> : t \in TwoExt} \cup {<<t, Clean>> : t \in TwoExt}

(* ---- list extensions ---- *)
ReducedLExts == {X("crlNumber", FALSE, "good"), X("crlNumber", TRUE, "good"), X("delta", FALSE, "good"), X("idp", TRUE, "good"),
                 X("aki", FALSE, "bad"), X("unknown", TRUE, "good"), X("unknown", FALSE, "good"), X("crlNumber", FALSE, "big")}
LExtLists == {<<>>} \cup {<<x>> : x \in ListExtsWT} \cup {<<x, y>> : x, y \in (IF Deep THEN ListExtsWT ELSE ReducedLExts)}

ArmoursOfList(e) == IF Reader(e) = "tolerant" THEN {"der", "pem"} ELSE {"der"}

ListCases == UNION {{C(e, a, P("crl", "none", en, <<>>)) : a \in ArmoursOfList(e), en \in EntryLists} : e \in ListEntryPoints}
LExtCases == {C(e, "der", P("crl", "none", en, lx)) : e \in ListEntryPoints, en \in {<<>>, <<Clean>>, <<WarnE>>, <<FatalE>>}, lx \in {l \in LExtLists : Len(l) < 2}}
             \cup {C(e, "der", P("crl", "none", en, lx)) : e \in ListEntryPoints, en \in (IF Deep THEN {<<>>, <<WarnE>>} ELSE {<<>>, <<Clean>>, <<WarnE>>, <<FatalE>>}),
                                                           lx \in {l \in LExtLists : Len(l) = 2}}
EnvCases == UNION {{C(e, a, P("crl", d, en, <<>>)) : a \in ArmoursOfList(e), d \in EnvDefects, en \in {<<>>, <<WarnE>>, <<NoExt, WarnE2>>}} : e \in ListEntryPoints}
ArmourCases ==
  {C(e, a, P("crl", "none", en, <<>>)) : e \in ListEntryPoints, a \in ArmourNames, en \in {<<>>, <<WarnE>>, <<FatalE>>, <<Clean, WarnE2>>}}
  \cup {C(e, a, P(KindOf(e), d, <<>>, <<>>)) : e \in EntryPoints, a \in ArmourNames, d \in {"none", "truncHalf"}}

MCCases == {x \in ListCases \cup LExtCases \cup EnvCases \cup ArmourCases : CaseOK(x)}

\* the refuted variants are shown on the envelope and armour cases
MCSmallCases == {x \in EnvCases \cup ArmourCases : CaseOK(x)}

\* the armour table, once
ASSUME \A a \in ArmourTable : PrintT(<<"LARM", ToJson(a)>>)

\* one record per reachable final state: the union over a case is the set of classes the contract allows
ExportListCase == lpc = "done" =>
   PrintT(<<"LCASE", ToJson([e |-> lc.e, arm |-> lc.arm, p |-> lc.p, reader |-> Reader(lc.e), view |-> lview,
                             r |-> LClass, v |-> Verdict(lc)])>>)
=============================================================================
