\* first use of lazily built package state: three goroutines, two lazily built values, a builder of three writes;
\* every assignment of needs; safety, and termination under fairness.  The PLAN records are printed once.
CONSTANTS
  Procs = {1, 2, 3}
  Lazy = {"a", "b"}
  BuildSteps = 3
  FastPath = FALSE
SPECIFICATION FSpec
INVARIANTS FTypeOK ReadsOnlyReady FirstUseFunctional BuiltOnce
PROPERTIES Termination
CHECK_DEADLOCK FALSE
