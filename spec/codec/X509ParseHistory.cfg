\* history machine, exhaustive: every history of two calls over the objects of one shape (the issuer varying; every entry, every buffer
\* mode): the result is a function of the arguments, the list gives each part's own outcome, arguments intact
CONSTANTS
  Templates <- QuickTemplates
  MaxParts = 3
  PermAll = 3
  HistShapes <- MCHistShapesSmall
  HistMutNames <- MCHistMutNamesSmall
  HistSlots = {"iss"}
  HistDepth = 2
INIT HistInit
NEXT HistNext
INVARIANTS HistTypeOK Functional PerCertificate ArgsIntact
CHECK_DEADLOCK FALSE
