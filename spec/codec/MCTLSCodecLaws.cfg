\* laws only (parallel), no export
CONSTANTS
  Tier = "quick"
  Part = 0
  Parts = 1
INIT Init
NEXT Next
INVARIANTS LawsHold
CHECK_DEADLOCK FALSE
