\* quick tier: extension lists of length <= 4
CONSTANTS
  MaxExts = 4
  CritPats = {"std", "alt"}
  SctMax = 3
INIT Init
NEXT Next
INVARIANTS Laws Export
CHECK_DEADLOCK FALSE
