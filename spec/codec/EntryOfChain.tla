---------------------------- MODULE EntryOfChain ----------------------------
(***************************************************************************)
(* C04 - the signed / logged entry that RFC 6962 sections 3.1 and 3.2      *)
(* prescribe for a chain of REAL certificates: the values that go into     *)
(* the signed_entry arm of MerkleTreeLeaf (3.4) and of the SCT signature   *)
(* input (3.2), whose wire layout RFC6962Wire.tla gives.                   *)
(*                                                                         *)
(*   x509_entry:     "the leaf certificate" - the submitted bytes.         *)
(*   precert_entry:  issuer_key_hash = SHA-256 of the public key of the CA *)
(*                   that will issue the final certificate ("in the case   *)
(*                   of a Precertificate Signing Certificate [...] the key *)
(*                   hash of the CA that issued it" - not of the           *)
(*                   certificate that happened to sign the precertificate);*)
(*                   tbs_certificate = "the DER-encoded TBSCertificate     *)
(*                   component of the Precertificate - that is, without    *)
(*                   the signature and the poison extension", with issuer  *)
(*                   and authority key identifier changed to the final     *)
(*                   issuer's behind a Precertificate Signing Certificate. *)
(*   embedded SCT:   the same entry, reconstructed from the final          *)
(*                   certificate by deleting the SCT list (3.2, 3.3).      *)
(*                                                                         *)
(* Precert.tla (C03) holds the abstract TBSCertificate and the operations  *)
(* BuildPrecertTBS / Final / PrecertRouteEntry / EmbeddedRouteEntry; it    *)
(* treats validity, names and keys as opaque tags and the chain as two key *)
(* tokens.  This module opens those tokens - it is the dimensioned input   *)
(* space of "every field value" for entries made from certificates:        *)
(*                                                                         *)
(*   route   x509 | precert | embedded        (which function derives it)  *)
(*   api     parsed | raw                     (certificates / DER chain)   *)
(*   iss     who signed the (pre)certificate: the issuing CA directly, a   *)
(*           deeper CA, a Precertificate Signing Certificate (plain, with  *)
(*           a keyid+issuer+serial AKI, with the CT usage listed second)   *)
(*   cut     how much of the chain the caller passes: up to the last       *)
(*           intermediate, with the root, the leaf alone, up to the        *)
(*           Precertificate Signing Certificate only                       *)
(*   nb, na  notBefore / notAfter: a calendar year on either side of the   *)
(*           two years at which the written form of a time changes (1950,  *)
(*           2050; exactly 1949 / 1950 / 2049 / 2050 / 2051, and 9999) and *)
(*           the first / a middle / the last second of that year           *)
(*   key     the subject key type,  ikey  the CA hierarchy's key type      *)
(*   order   where the poison (the SCT list in the final certificate) sits *)
(*   ts      the timestamp,  ext  the SCT extensions length (they do not   *)
(*           enter the entry, only the structures around it)               *)
(*                                                                         *)
(* For every case the module says whether an entry exists and which one:   *)
(* whose key is hashed, whose name and key identifier the TBS carries, how *)
(* the two validity times are written, which extensions remain in which    *)
(* order.  TLC checks the laws at the end on every case and exports every  *)
(* case; harness/c04 builds each with real keys (std crypto/x509 as the CA)*)
(* and compares the repository's functions byte for byte with harness/ref. *)
(***************************************************************************)
EXTENDS Precert, Integers

(* ---------- the hierarchy ---------- *)
\* An authority key identifier names the key of `of`; form "keyid" carries the key identifier only, "full" also
\* authorityCertIssuer and authorityCertSerialNumber (the value is an opaque byte string either way).
\* A token (Precert.tla compares AKI values with the string "none"); AkiParts reads it back.
Aki(of, form) == form \o ":" \o of
\* a CA certificate: subject name = id, key = "k" \o id, issued by `issuer`; ct: carries the Certificate Transparency
\* extended key usage (a Precertificate Signing Certificate, 3.1); ctPos: position of that usage in the EKU list
CACert(id, issuer, akiForm, ct, ctPos) ==
  [id |-> id, subj |-> id, key |-> "k" \o id, issuer |-> issuer, aki |-> Aki(issuer, akiForm), ct |-> ct, ctPos |-> ctPos]
R1 == CACert("R1", "R1", "keyid", FALSE, 0)
I1 == CACert("I1", "R1", "keyid", FALSE, 0)
I2 == CACert("I2", "I1", "keyid", FALSE, 0)
P  == CACert("P",  "I1", "keyid", TRUE, 1)
Pf == CACert("Pf", "I1", "full",  TRUE, 1)
Pm == CACert("Pm", "I1", "keyid", TRUE, 2)      \* serverAuth first, then the CT usage
CAs == {R1, I1, I2, P, Pf, Pm}
CAOf(id) == CHOOSE x \in CAs : x.id = id
AkiTable == {[tok |-> Aki(x.id, f), of |-> x.id, form |-> f] : x \in CAs, f \in {"keyid", "full"}}
AkiParts(tok) == LET r == CHOOSE r \in AkiTable : r.tok = tok IN [of |-> r.of, form |-> r.form]

\* the certificates above the leaf, signer first, root last
Above == [underI1 |-> <<I1, R1>>, underI2 |-> <<I2, I1, R1>>, viaP |-> <<P, I1, R1>>, viaPf |-> <<Pf, I1, R1>>, viaPm |-> <<Pm, I1, R1>>]
Issuances == DOMAIN Above
Direct == {"underI1", "underI2"}
Signer(iss) == Above[iss][1]
ViaPre(iss) == Signer(iss).ct
\* the CA that issues the final certificate
FinalIssuer(iss) == IF ViaPre(iss) THEN Above[iss][2] ELSE Above[iss][1]

(* ---------- time forms (RFC 5280 4.1.2.5) ---------- *)
\* "CAs conforming to this profile MUST always encode certificate validity dates through the year 2049 as UTCTime;
\* certificate validity dates in 2050 or later MUST be encoded as GeneralizedTime."  UTCTime has a two-digit year that
\* reads as 19YY for YY >= 50: nothing before 1950 can be written with it.  (The predicate is Asn1Lax!InUTCRange, C10.)
Years == {1949, 1950, 1999, 2000, 2049, 2050, 2051, 9999}
Edges == {"first", "mid", "last"}      \* 1 January 00:00:00, 1 June 12:00:00, 31 December 23:59:59, all UTC
TimeForms == [y : Years, edge : Edges]
InUTCRange(y) == 1950 <= y /\ y < 2050
\* how a conforming CA writes the time, and therefore how it stands in the precertificate
Written(tf) == [tag |-> IF InUTCRange(tf.y) THEN "UTCTime" ELSE "GeneralizedTime",
                yd |-> IF InUTCRange(tf.y) THEN 2 ELSE 4, y |-> tf.y, edge |-> tf.edge]
EdgeRank == [first |-> 0, mid |-> 1, last |-> 2]
NotAfterOK(nb, na) == nb.y < na.y \/ (nb.y = na.y /\ EdgeRank[nb.edge] <= EdgeRank[na.edge])

(* ---------- the submitted leaf ---------- *)
Routes == {"x509", "precert", "embedded"}
Apis == {"parsed", "raw"}
Cuts == {"full", "withRoot", "leafOnly", "noFinal"}
Orders == {"std", "poisonBeforeAki", "poisonFirst"}      \* as EntryShapes!Orders (C06/C07), harness/pki Opts.ExtOrder
KeyTypes == {"p256", "p384", "rsa2048", "ed25519"}
IKeyTypes == {"p256", "p384", "rsa2048"}
\* around the entry, not in it: the timestamp (decimal; 0, 1, 2^32, 2^63, 2^64-1) and the length of the SCT extensions
Timestamps == {"0", "1", "4294967296", "9223372036854775808", "18446744073709551615"}
SctExtLens == {0, 1, 256}
\* extension identifiers in the order the issuing encoder writes them; M marks the poison's place
OrdinaryExts == <<"KU", "BC", "AKI", "SAN">>
WithMark(order, m) == CASE order = "std" -> <<"KU", "BC", "AKI", "SAN", m>>
                        [] order = "poisonBeforeAki" -> <<"KU", "BC", m, "AKI", "SAN">>
                        [] order = "poisonFirst" -> <<m, "KU", "BC", "AKI", "SAN">>
ExtOf(id, signer) == CASE id = "POISON" -> Ext("POISON", TRUE, "null")
                       [] id = "AKI" -> Ext("AKI", FALSE, Aki(signer.id, "keyid"))
                       [] id = "BC" -> Ext("BC", TRUE, "leaf")
                       [] id = "KU" -> Ext("KU", TRUE, "digitalSignature")
                       [] OTHER -> Ext(id, FALSE, "v")
\* the TBSCertificate of what the CA signs first: an ordinary certificate (route x509) or a precertificate
LeafTBS(c) ==
  LET s == Signer(c.iss)
      ids == IF c.route = "x509" THEN OrdinaryExts ELSE WithMark(c.order, "POISON") IN
  [k |-> "tbs", serial |-> "serial", sig |-> c.ikey, issuer |-> s.subj, validity |-> <<Written(c.nb), Written(c.na)>>,
   subject |-> "L", key |-> c.key, uid |-> "none", xf |-> TRUE, exts |-> [i \in DOMAIN ids |-> ExtOf(ids[i], s)]]
\* the Precertificate Signing Certificate as Precert!Rewrite wants it
PreOf(iss) == IF ViaPre(iss) THEN [k |-> "pre", issuer |-> Signer(iss).issuer, aki |-> Signer(iss).aki, eku |-> TRUE] ELSE None
\* the final certificate: the CA puts the SCT list where the poison was and issues under its own name (Precert!Final)
FinalTBS(c) == Final(LeafTBS(c), PreOf(c.iss), "scts")

(* ---------- what the caller passes ---------- *)
WithoutRoot(s) == SubSeq(s, 1, Len(s) - 1)
\* certificates after the leaf; for the embedded route the chain is that of the final certificate
AboveFor(c) == IF c.route = "embedded" /\ ViaPre(c.iss) THEN Tail(Above[c.iss]) ELSE Above[c.iss]
ChainAfterLeaf(c) == CASE c.cut = "full" -> WithoutRoot(AboveFor(c))
                       [] c.cut = "withRoot" -> AboveFor(c)
                       [] c.cut = "leafOnly" -> <<>>
                       [] c.cut = "noFinal" -> <<Above[c.iss][1]>>
ChainIds(c) == [i \in DOMAIN ChainAfterLeaf(c) |-> ChainAfterLeaf(c)[i].id]

(* ---------- the entry ---------- *)
X509Entry == [k |-> "x509"]          \* signed_entry = the submitted certificate, byte for byte
\* Named clause NoIssuerNoEntry.  The RFC defines the entry from the issuing CA's key; a caller that does not pass the
\* certificate carrying it gets no entry (an error), never an entry with some other key.
EntryOf(c) ==
  LET up == ChainAfterLeaf(c)  pre == PreOf(c.iss) IN
  CASE c.route = "x509" -> X509Entry
    [] c.route = "precert" ->
         IF Len(up) < 1 THEN Err("noIssuer")
         ELSE IF pre # None /\ Len(up) < 2 THEN Err("noFinalIssuer")
         ELSE PrecertRouteEntry(LeafTBS(c), pre, up[1].key, IF Len(up) >= 2 THEN up[2].key ELSE "nokey")
    [] c.route = "embedded" ->
         IF Len(up) < 1 THEN Err("noIssuer") ELSE EmbeddedRouteEntry(FinalTBS(c), up[1].key)

(* ---------- the observable expectation exported to the harness ---------- *)
IdsOf(exts) == [i \in DOMAIN exts |-> exts[i].id]
AkiOf(exts) == IF Count(exts, "AKI") = 0 THEN [of |-> "none", form |-> "none"] ELSE AkiParts(exts[First(exts, "AKI")].val)
KeyOwner(k) == (CHOOSE x \in CAs : x.key = k).id
Expect(c) ==
  LET e == EntryOf(c) IN
  IF IsErr(e) THEN [ok |-> FALSE, why |-> e.why]
  ELSE IF e.k = "x509" THEN [ok |-> TRUE, etype |-> 0]
  ELSE [ok |-> TRUE, etype |-> 1,
        ikhOf |-> KeyOwner(e.ikh),              \* whose SubjectPublicKeyInfo is hashed
        issuer |-> e.tbs.issuer,                \* whose subject name is the TBS' issuer
        aki |-> AkiOf(e.tbs.exts),              \* whose key the authority key identifier names, in which form
        validity |-> e.tbs.validity,            \* tag and year digits of notBefore / notAfter
        exts |-> IdsOf(e.tbs.exts)]

(* ---------- laws ---------- *)
IsCase(c) == /\ c.route \in Routes /\ c.api \in Apis /\ c.iss \in Issuances /\ c.cut \in Cuts /\ c.order \in Orders
             /\ c.nb \in TimeForms /\ c.na \in TimeForms /\ NotAfterOK(c.nb, c.na)
             /\ c.key \in KeyTypes /\ c.ikey \in IKeyTypes /\ c.ts \in Timestamps /\ c.ext \in SctExtLens
             /\ (c.route = "x509" => c.iss \in Direct /\ c.order = "std")
             /\ (c.route = "embedded" => c.api = "parsed")
             /\ (c.cut = "noFinal" => ViaPre(c.iss) /\ c.route = "precert")
Complete(c) == c.cut \in {"full", "withRoot"}

\* an entry exists exactly when the issuing CA's certificate was passed
ExistsIffIssuerPassed(c) ==
  LET need == IF c.route = "x509" THEN 0 ELSE IF c.route = "precert" /\ ViaPre(c.iss) THEN 2 ELSE 1 IN
  ~IsErr(EntryOf(c)) <=> Len(ChainAfterLeaf(c)) >= need

\* 3.2 "the TBSCertificate component of the Precertificate ... without the poison": the validity stands as the CA wrote
\* it, and a conforming CA writes UTCTime exactly through 2049
ValidityVerbatim(c) ==
  LET e == EntryOf(c) IN
  (c.route # "x509" /\ ~IsErr(e)) =>
     /\ e.tbs.validity = LeafTBS(c).validity
     /\ \A i \in 1..2 : LET w == e.tbs.validity[i] IN
          /\ (w.tag = "UTCTime" <=> (w.y >= 1950 /\ w.y <= 2049)) /\ (w.tag = "GeneralizedTime" <=> w.yd = 4)
          /\ (w.y = 2050 => w.tag = "GeneralizedTime") /\ (w.y = 2049 => w.tag = "UTCTime")
          /\ (w.y = 1949 => w.tag = "GeneralizedTime") /\ (w.y = 1950 => w.tag = "UTCTime")

\* the key that is hashed, the issuer name and the authority key identifier of the TBS all belong to one certificate:
\* the CA that issues the final certificate - never a Precertificate Signing Certificate, whatever the caller appends
IssuerCoherent(c) ==
  LET e == EntryOf(c)  x == Expect(c) IN
  (c.route # "x509" /\ ~IsErr(e)) =>
     /\ x.ikhOf = FinalIssuer(c.iss).id /\ x.issuer = x.ikhOf /\ x.aki.of = x.ikhOf
     /\ ~CAOf(x.ikhOf).ct
     /\ x.aki.form = (IF ViaPre(c.iss) THEN AkiParts(Signer(c.iss).aki).form ELSE "keyid")

\* only the poison / the SCT list goes; everything else keeps its place
OnlyMarkGone(c) ==
  LET e == EntryOf(c) IN
  (c.route # "x509" /\ ~IsErr(e)) =>
     /\ IdsOf(e.tbs.exts) = OrdinaryExts
     /\ OtherFieldsEqual(e.tbs, LeafTBS(c))

\* 3.2 / 3.3: the entry reconstructed from the final certificate is the entry the log signed
RoutesAgree(c) ==
  (c.route = "precert" /\ Complete(c) /\ c.api = "parsed") =>
     EntryOf(c) = EntryOf([c EXCEPT !.route = "embedded"]) /\ ~IsErr(EntryOf(c))

\* certificates beyond the issuing CA do not matter
TailIrrelevant(c) == Complete(c) => EntryOf([c EXCEPT !.cut = "full"]) = EntryOf([c EXCEPT !.cut = "withRoot"])

\* the entry is a function of the certificates, not of the form they are passed in, nor of timestamp / extensions
ApiIrrelevant(c) == c.route # "embedded" => EntryOf([c EXCEPT !.api = "parsed"]) = EntryOf([c EXCEPT !.api = "raw"])

EntryLaws(c) == /\ IsCase(c) /\ ExistsIffIssuerPassed(c) /\ ValidityVerbatim(c) /\ IssuerCoherent(c) /\ OnlyMarkGone(c)
                /\ RoutesAgree(c) /\ TailIrrelevant(c) /\ ApiIrrelevant(c)
=============================================================================
