\* the refuted variant: a wrapper that returns (key, err) as the inner parser gave them hands up a nil pointer inside an
\* interface - TLC must report NoTypedNil violated (the defect class the binding looks for in the code)
CONSTANTS
  Wrapper = "passthrough"
INIT KInit
NEXT KNext
INVARIANTS KTypeOK NoTypedNil
CHECK_DEADLOCK FALSE
