--------------------------- MODULE X509ParseKeys ---------------------------
(***************************************************************************)
(* The key parsers of the lenient X.509 package (C11): ParsePKCS8PrivateKey,*)
(* ParsePKCS1PrivateKey, ParseECPrivateKey, ParsePKIXPublicKey, and the    *)
(* parsers that carry a SubjectPublicKeyInfo inside a larger object        *)
(* (ParseCertificateRequest, ParseCertificate) as NESTED PARSERS.          *)
(*                                                                         *)
(* A key container is a wrapper around another encoding:                   *)
(*    pkcs8  PrivateKeyInfo { version, algorithm, OCTET STRING { inner } } *)
(*           inner = PKCS#1 RSAPrivateKey | SEC 1 ECPrivateKey | Ed25519   *)
(*           seed, chosen by the algorithm                                 *)
(*    pkix   SubjectPublicKeyInfo { algorithm, BIT STRING { inner } }      *)
(*           inner = RSAPublicKey | EC point | DSA y | Ed25519 key         *)
(*    csr / cert   ... { ..., SubjectPublicKeyInfo, ... }                  *)
(* so a parse is a descent through LAYERS, each a parser of its own with   *)
(* its own reasons to reject, followed by the return of (value, error)     *)
(* from each layer to the one that called it.  The contract of C11 is      *)
(* about what comes out at the top:                                        *)
(*      <<obj, nil>>   <<obj, nonFatal>>   <<nil, fatal>>                  *)
(* and never a mixed pair - whichever layer rejected.                      *)
(*                                                                         *)
(* Values.  A layer that returns a pointer (to an rsa.PrivateKey, ...) has one *)
(* "nothing": the nil pointer.  A layer that returns an INTERFACE (any     *)
(* key) has two candidates: the nil interface, and an interface that holds *)
(* the nil pointer of the layer below ("typednil").  The caller of an      *)
(* interface-typed parser can only test `key != nil`, so for it a typednil *)
(* IS an object: (typednil, fatal) is the mixed outcome obj+fatal and      *)
(* (typednil, nil) is an unusable object.  Hence                           *)
(*    NoTypedNil      no layer ever hands up a typednil                    *)
(* and the wrapper DISCARDS the value of a failed inner parse (constant    *)
(* Wrapper = "discard").  With Wrapper = "passthrough" (return key, err    *)
(* as the inner parser gave them) TLC refutes NoTypedNil and KeyCoherent:  *)
(* X509ParseKeysPassThrough.cfg, the named defect class.                   *)
(*                                                                         *)
(* Findings.  A layer may note a finding and go on (the fork's leniency):  *)
(*   L1 an integer of the RSA / DSA public key that is not minimally       *)
(*      encoded (lax reading), N1 RSA public key without NULL parameters / *)
(*      with a non-positive modulus, N5 the insecure curve secp192r1.      *)
(* What becomes of a finding is the POLICY of the entry point:             *)
(*   report    the finding is returned as a non-fatal error next to the    *)
(*             object (certificates)                                       *)
(*   escalate  there is no way to return both: findings are fatal          *)
(*             (ParsePKIXPublicKey, ParseCertificateRequest)               *)
(*   drop      private-key parsers take the curve and say nothing          *)
(* The private-key layers have no lax mode at all.                         *)
(*                                                                         *)
(* Case space: entry point x key kind x one structure-preserving defect    *)
(* of the catalogue below, placed in one layer.  Effects as in X509Parse:  *)
(*   fatal    the layer cannot produce its value                           *)
(*   finding  noted, the parse goes on (L1, N1, N5)                        *)
(*   benign   not an error at parse time (documented tolerance)            *)
(*   free     the contract is silent: any coherent outcome                 *)
(***************************************************************************)
EXTENDS Naturals, Sequences, FiniteSets, TLC

CONSTANT Wrapper      \* "discard" (the specification) | "passthrough" (the refuted variant)

Entries == {"pkcs8", "pkcs1", "sec1", "pkix", "csr", "cert"}
Curves == {"p192", "p224", "p256", "p384", "p521"}
KeyKinds == {"rsa", "rsa3", "ed25519", "dsa"} \cup Curves     \* rsa3: three primes (PKCS#1 version 1)
RSAKinds == {"rsa", "rsa3"}

\* the key kinds an entry point can be given
KeysOf(e) == CASE e = "pkcs1" -> RSAKinds
               [] e = "sec1"  -> Curves
               [] e = "pkcs8" -> RSAKinds \cup Curves \cup {"ed25519"}
               [] OTHER       -> {"rsa", "ed25519", "dsa"} \cup Curves

InnerPrivate(k) == IF k \in RSAKinds THEN "pkcs1" ELSE IF k \in Curves THEN "sec1" ELSE "seed"

\* the layers of a parse, outermost first
Layers(e, k) == CASE e = "pkcs8" -> <<"pkcs8", InnerPrivate(k)>>
                  [] e = "pkcs1" -> <<"pkcs1">>
                  [] e = "sec1"  -> <<"sec1">>
                  [] e = "pkix"  -> <<"pkix", "pub">>
                  [] e = "csr"   -> <<"csr", "pub">>
                  [] e = "cert"  -> <<"cert", "pub">>

\* what a layer returns: a pointer or an interface
LayerType(l) == IF l \in {"pkcs1", "sec1", "csr", "cert"} THEN "ptr" ELSE "iface"
NilOf(l) == IF LayerType(l) = "ptr" THEN "nilptr" ELSE "nil"

Policy(e) == CASE e = "cert" -> "report"
               [] e \in {"pkix", "csr"} -> "escalate"
               [] OTHER -> "drop"

\* the layer in which the curve of an EC key is resolved (N5 is noted there) ...
CurveLayer == {"sec1", "pub"}
\* ... unless the defect keeps the layer from reading the key at all (unknown algorithm: nothing is found in a key
\* that is not interpreted)
KeyNotRead == {"spkiAlgUnknownInside"}

(* ---------------------------------------------------------------------- *)
(* defects: name, layer, effect, the key kinds and entry points they need  *)
(* ({} = any that has the layer)                                           *)
(* ---------------------------------------------------------------------- *)
D(name, layer, effect, keys, ents) == [name |-> name, layer |-> layer, effect |-> effect, keys |-> keys, ents |-> ents]

PrivEntries == {"pkcs8", "pkcs1", "sec1"}

Catalogue == {
  D("none",                  "top",   "none",    {},         {}),
  \* the outer envelope of any container
  D("truncLast",             "top",   "fatal",   {},         {}),
  D("truncHalf",             "top",   "fatal",   {},         {}),
  D("empty",                 "top",   "fatal",   {},         {}),
  D("outerTagSet",           "top",   "fatal",   {},         {}),
  D("outerLenPlus1",         "top",   "fatal",   {},         {}),
  D("outerEmptySeq",         "top",   "fatal",   {},         {}),
  D("trailingByteStrict",    "top",   "fatal",   {},         {"pkcs1", "pkix", "csr", "cert"}),
  D("trailingByteIgnored",   "top",   "free",    {},         {"pkcs8", "sec1"}),
  \* the bytes of another private-key container ("use ParseX instead")
  D("bytesOfPKCS1",          "top",   "fatal",   RSAKinds,   {"pkcs8"}),
  D("bytesOfSEC1",           "top",   "fatal",   Curves,     {"pkcs8"}),
  D("bytesOfPKCS8",          "top",   "fatal",   {},         {"pkcs1", "sec1"}),
  D("bytesOfPKIX",           "top",   "fatal",   {},         PrivEntries),
  \* PKCS#8 wrapper
  D("p8VersionOne",          "pkcs8", "free",    {},         {}),
  D("p8VersionNonMinimal",   "pkcs8", "fatal",   {},         {}),
  D("p8AlgUnknown",          "pkcs8", "fatal",   {},         {}),
  D("p8AlgOIDEmpty",         "pkcs8", "fatal",   {},         {}),
  D("p8AlgNotSequence",      "pkcs8", "fatal",   {},         {}),
  D("p8KeyNotOctetString",   "pkcs8", "fatal",   {},         {}),
  D("p8KeyEmpty",            "pkcs8", "fatal",   {},         {}),
  D("p8KeyAbsent",           "pkcs8", "fatal",   {},         {}),
  D("p8AttributesPresent",   "pkcs8", "free",    {},         {}),
  D("p8RSAParamsAbsent",     "pkcs8", "free",    RSAKinds,   {}),
  D("p8ECParamsAbsent",      "pkcs8", "fatal",   Curves,     {}),      \* no curve named anywhere
  D("p8ECParamsNull",        "pkcs8", "fatal",   Curves,     {}),
  D("p8ECCurveUnknown",      "pkcs8", "fatal",   Curves,     {}),
  D("p8EdParamsNull",        "pkcs8", "fatal",   {"ed25519"}, {}),
  \* PKCS#1 RSAPrivateKey (top level or inside PKCS#8)
  D("rsaVersionTwo",         "pkcs1", "fatal",   {},         {}),
  D("rsaVersionMismatch",    "pkcs1", "free",    {},         {}),      \* version 1 with two primes / 0 with three
  D("rsaDInconsistent",      "pkcs1", "fatal",   {},         {}),      \* d + 2: d e = 1 fails for the primes
  D("rsaNInconsistent",      "pkcs1", "fatal",   {},         {}),      \* n + 2: not the product of the primes
  D("rsaPrimesEqual",        "pkcs1", "fatal",   {"rsa"},    {}),      \* q := p
  D("rsaDZero",              "pkcs1", "fatal",   {},         {}),
  D("rsaPZero",              "pkcs1", "fatal",   {},         {}),
  D("rsaQNegative",          "pkcs1", "fatal",   {},         {}),
  D("rsaNNegative",          "pkcs1", "fatal",   {},         {}),
  D("rsaEZero",              "pkcs1", "fatal",   {},         {}),
  D("rsaENegative",          "pkcs1", "fatal",   {},         {}),
  D("rsaNNonMinimal",        "pkcs1", "fatal",   {},         {}),      \* no lax mode for private keys
  D("rsaDNotInteger",        "pkcs1", "fatal",   {},         {}),
  D("rsaMissingPrimes",      "pkcs1", "fatal",   {},         {}),      \* SEQUENCE { version, n, e, d }
  D("rsaEmptySeq",           "pkcs1", "fatal",   {},         {}),
  D("rsaNotSequence",        "pkcs1", "fatal",   {},         {}),
  D("rsaInnerTrailing",      "pkcs1", "fatal",   {},         {}),      \* bytes after the RSAPrivateKey
  D("rsaInnerTruncated",     "pkcs1", "fatal",   {},         {}),
  D("rsaCRTAbsent",          "pkcs1", "free",    {"rsa"},    {}),      \* dP, dQ, qInv left out
  D("rsaCRTWrong",           "pkcs1", "free",    {"rsa"},    {}),      \* dP + 1: "rsa will calculate them"
  D("rsaExtraPrimeZero",     "pkcs1", "fatal",   {"rsa3"},   {}),
  D("rsaExtraPrimeWrong",    "pkcs1", "fatal",   {"rsa3"},   {}),      \* third prime + 2
  \* SEC 1 ECPrivateKey (top level or inside PKCS#8)
  D("ecVersionTwo",          "sec1",  "fatal",   {},         {}),
  D("ecVersionZero",         "sec1",  "fatal",   {},         {}),
  D("ecVersionNonMinimal",   "sec1",  "fatal",   {},         {}),
  D("ecScalarIsOrder",       "sec1",  "fatal",   {},         {}),
  D("ecScalarAboveOrder",    "sec1",  "fatal",   {},         {}),
  D("ecScalarAllOnes",       "sec1",  "fatal",   {},         {}),
  D("ecScalarTooLong",       "sec1",  "fatal",   {},         {}),      \* one more non-zero octet in front
  D("ecScalarZeroPadded",    "sec1",  "benign",  {},         {}),      \* S1: leading zero octets are ignored
  D("ecScalarStripped",      "sec1",  "benign",  {},         {}),      \* S1: so are stripped leading zeros
  D("ecScalarZero",          "sec1",  "free",    {},         {}),
  D("ecScalarEmpty",         "sec1",  "free",    {},         {}),
  D("ecScalarNotOctetString", "sec1", "fatal",   {},         {}),
  D("ecCurveUnknown",        "sec1",  "fatal",   {},         {"sec1"}),
  D("ecCurveAbsent",         "sec1",  "fatal",   {},         {"sec1"}),
  D("ecCurveOIDEmpty",       "sec1",  "fatal",   {},         {"sec1"}),
  D("ecInnerCurveOther",     "sec1",  "free",    {},         {"pkcs8"}),   \* the wrapper names one curve, the inner key another
  D("ecInnerCurveUnknown",   "sec1",  "free",    {},         {"pkcs8"}),
  D("ecPublicAbsent",        "sec1",  "benign",  {},         {"sec1"}),    \* OPTIONAL; the point is derived from the scalar
  D("ecPublicGarbage",       "sec1",  "free",    {},         {}),
  D("ecEmptySeq",            "sec1",  "fatal",   {},         {}),
  D("ecNotSequence",         "sec1",  "fatal",   {},         {}),
  D("ecInnerTruncated",      "sec1",  "fatal",   {},         {}),
  D("ecInnerTrailing",       "sec1",  "free",    {},         {"pkcs8"}),
  \* Ed25519 seed inside PKCS#8
  D("edSeedShort",           "seed",  "fatal",   {},         {}),
  D("edSeedLong",            "seed",  "fatal",   {},         {}),
  D("edSeedEmpty",           "seed",  "fatal",   {},         {}),
  D("edSeedNotOctetString",  "seed",  "fatal",   {},         {}),
  D("edSeedTruncated",       "seed",  "fatal",   {},         {}),
  D("edSeedTrailing",        "seed",  "free",    {},         {}),
  \* SubjectPublicKeyInfo as the object (ParsePKIXPublicKey)
  D("spkiAlgUnknown",        "pkix",  "fatal",   {},         {}),          \* no object can be returned
  D("spkiAlgOIDEmpty",       "pkix",  "fatal",   {},         {}),
  D("spkiKeyNotBitString",   "pkix",  "fatal",   {},         {}),
  D("spkiAlgNotSequence",    "pkix",  "fatal",   {},         {}),
  \* ... and inside a larger object
  D("spkiAlgUnknownInside",  "pub",   "benign",  {},         {"csr", "cert"}),   \* PublicKey stays nil, not an error
  D("csrSubjectNotSequence", "csr",   "fatal",   {},         {}),
  D("csrVersionNonMinimal",  "csr",   "fatal",   {},         {}),
  D("csrAttributesGarbage",  "csr",   "free",    {},         {}),
  D("csrSANNotSequence",     "csr",   "fatal",   {},         {}),
  D("csrSigAlgOIDEmpty",     "csr",   "fatal",   {},         {}),          \* no lax reading of a request
  D("csrSigBitFlip",         "csr",   "benign",  {},         {}),
  \* the public key itself
  D("rsaParamsAbsent",       "pub",   "finding", {"rsa"},    {}),          \* N1
  D("rsaModulusNonMinimal",  "pub",   "finding", {"rsa"},    {}),          \* L1
  D("rsaModulusNegative",    "pub",   "finding", {"rsa"},    {}),          \* N1
  D("rsaModulusZero",        "pub",   "finding", {"rsa"},    {}),          \* N1
  D("rsaExponentZero",       "pub",   "fatal",   {"rsa"},    {}),
  D("rsaExponentNegative",   "pub",   "fatal",   {"rsa"},    {}),
  D("rsaKeyTrailing",        "pub",   "fatal",   {"rsa"},    {}),
  D("rsaPubEmptySeq",        "pub",   "fatal",   {"rsa"},    {}),
  D("rsaPubNotSequence",     "pub",   "fatal",   {"rsa"},    {}),
  D("ecPointBadForm",        "pub",   "fatal",   Curves,     {}),
  D("ecPointShort",          "pub",   "fatal",   Curves,     {}),
  D("ecPointLong",           "pub",   "fatal",   Curves,     {}),
  D("ecPointOffCurve",       "pub",   "fatal",   Curves,     {}),
  D("ecPointEmpty",          "pub",   "fatal",   Curves,     {}),
  D("ecPointInfinity",       "pub",   "fatal",   Curves,     {}),
  D("ecPointCompressed",     "pub",   "free",    Curves,     {}),
  D("ecCurveUnknownPub",     "pub",   "fatal",   Curves,     {}),
  D("ecParamsNotOID",        "pub",   "fatal",   Curves,     {}),
  D("ecParamsAbsent",        "pub",   "fatal",   Curves,     {}),
  D("ecCurveOIDEmptyPub",    "pub",   "fatal",   Curves,     {}),
  D("edKeyShort",            "pub",   "free",    {"ed25519"}, {}),
  D("edKeyEmpty",            "pub",   "free",    {"ed25519"}, {}),
  D("edParamsNull",          "pub",   "free",    {"ed25519"}, {}),
  D("dsaYZero",              "pub",   "fatal",   {"dsa"},    {}),
  D("dsaYNegative",          "pub",   "fatal",   {"dsa"},    {}),
  D("dsaPZero",              "pub",   "fatal",   {"dsa"},    {}),
  D("dsaGNegative",          "pub",   "fatal",   {"dsa"},    {}),
  D("dsaParamsAbsent",       "pub",   "fatal",   {"dsa"},    {}),
  D("dsaParamsNull",         "pub",   "fatal",   {"dsa"},    {}),
  D("dsaParamsShort",        "pub",   "fatal",   {"dsa"},    {}),
  D("dsaYNotInteger",        "pub",   "fatal",   {"dsa"},    {}),
  D("dsaYTrailing",          "pub",   "fatal",   {"dsa"},    {}),
  D("dsaYNonMinimal",        "pub",   "finding", {"dsa"},    {})           \* L1
}

LayerSet(e, k) == {Layers(e, k)[n] : n \in 1..Len(Layers(e, k))}

\* "top" stands for the outermost layer of whatever entry point is used
LayerOf(d, e, k) == IF d.layer = "top" THEN Layers(e, k)[1] ELSE d.layer

Applicable(e, k, d) == /\ k \in KeysOf(e)
                       /\ LayerOf(d, e, k) \in LayerSet(e, k)
                       /\ (d.keys = {} \/ k \in d.keys)
                       /\ (d.ents = {} \/ e \in d.ents)
                       \* a certificate's outer envelope and its generic fields belong to X509Parse.tla
                       /\ (e = "cert" => d.layer = "pub" \/ d.name = "none")

Cases == {x \in [e : Entries, k : KeyKinds, d : Catalogue] : Applicable(x.e, x.k, x.d)}

(* ---------------------------------------------------------------------- *)
(* the machine                                                             *)
(* ---------------------------------------------------------------------- *)
VARIABLES
  kc,      \* the case
  kpc,     \* "down" (a layer decodes its envelope and calls the next), "up" (a layer has returned), "done"
  kl,      \* the layer at work (down) / the layer that has just returned (up)
  kval,    \* the value being returned: "nil", "nilptr", "typednil", "obj"
  kerr,    \* "nil", "nonFatal", "fatal"
  kfind    \* findings: <<layer, sure>>

kvars == <<kc, kpc, kl, kval, kerr, kfind>>

KInit == /\ kc \in Cases
         /\ kpc = "down"
         /\ kl = 1
         /\ kval = "nil"
         /\ kerr = "nil"
         /\ kfind = {}

Ls == Layers(kc.e, kc.k)
Hit(l) == LayerOf(kc.d, kc.e, kc.k) = l

\* a layer rejects: it returns its own "nothing" and a fatal error to its caller
Reject == /\ kpc' = "up"
          /\ kval' = NilOf(Ls[kl])
          /\ kerr' = "fatal"
          /\ UNCHANGED <<kc, kl, kfind>>

\* a layer decodes what is its own, notes what it finds, and hands the rest to the next layer;
\* the innermost one builds the key
Down ==
  /\ kpc = "down"
  /\ LET l == Ls[kl]
         hit == Hit(l) IN
     \/ /\ hit /\ kc.d.effect \in {"fatal", "free"}
        /\ Reject
     \/ /\ ~(hit /\ kc.d.effect = "fatal")
        /\ kfind' = kfind \cup (IF hit /\ kc.d.effect = "finding" THEN {<<l, TRUE>>}
                                ELSE IF hit /\ kc.d.effect = "free" THEN {<<l, FALSE>>} ELSE {})
                          \cup (IF l \in CurveLayer /\ kc.k = "p192" /\ kc.d.name \notin KeyNotRead THEN {<<l, TRUE>>} ELSE {})     \* N5
        /\ IF kl < Len(Ls) THEN kl' = kl + 1 /\ UNCHANGED <<kpc, kval, kerr>>
           ELSE kpc' = "up" /\ kval' = "obj" /\ kerr' = "nil" /\ UNCHANGED kl
        /\ UNCHANGED kc

\* what a wrapper of type t makes of the value v of a failed inner parse
Discarded(t) == IF t = "ptr" THEN "nilptr" ELSE "nil"
PassedThrough(t, v) == IF t = "ptr" THEN "nilptr"
                       ELSE IF v = "nilptr" THEN "typednil"      \* a nil pointer stored in an interface
                       ELSE v

\* layer kl has returned (kval, kerr) to layer kl - 1
Up ==
  /\ kpc = "up"
  /\ kl > 1
  /\ LET t == LayerType(Ls[kl - 1]) IN
       kval' = IF kerr = "fatal"
                 THEN (IF Wrapper = "discard" THEN Discarded(t) ELSE PassedThrough(t, kval))
                 ELSE "obj"
  /\ kl' = kl - 1
  /\ UNCHANGED <<kc, kpc, kerr, kfind>>

Sure == \E f \in kfind : f[2]

\* the outermost layer returns to the caller: the findings meet the policy of the entry point
Top ==
  /\ kpc = "up"
  /\ kl = 1
  /\ kpc' = "done"
  /\ \/ /\ kerr = "fatal" \/ kfind = {} \/ Policy(kc.e) = "drop"
        /\ UNCHANGED <<kval, kerr>>
     \/ /\ kerr # "fatal" /\ kfind # {} /\ Policy(kc.e) = "report"
        /\ kval' = kval
        /\ kerr' \in IF Sure THEN {"nonFatal"} ELSE {"nil", "nonFatal"}
     \/ /\ kerr # "fatal" /\ kfind # {} /\ Policy(kc.e) = "escalate"
        /\ \/ kval' = NilOf(Ls[1]) /\ kerr' = "fatal"
           \/ ~Sure /\ UNCHANGED <<kval, kerr>>
  /\ UNCHANGED <<kc, kl, kfind>>

KNext == Down \/ Up \/ Top
KSpec == KInit /\ [][KNext]_kvars

(* ---------------------------------------------------------------------- *)
(* the property                                                            *)
(* ---------------------------------------------------------------------- *)
KTypeOK == /\ kpc \in {"down", "up", "done"}
           /\ kl \in 1..2
           /\ kval \in {"nil", "nilptr", "typednil", "obj"}
           /\ kerr \in {"nil", "nonFatal", "fatal"}

\* what the caller of the entry point can see: an interface that is not nil is an object
TopType == LayerType(Ls[1])
HasObject == IF TopType = "iface" THEN kval # "nil" ELSE kval = "obj"
KResult == <<IF HasObject THEN "obj" ELSE "nil", kerr>>
Good == {<<"obj", "nil">>, <<"obj", "nonFatal">>, <<"nil", "fatal">>}

KeyCoherent == kpc = "done" => /\ KResult \in Good
                               /\ (HasObject => kval = "obj")          \* ... and the object is one
NoTypedNil == kval # "typednil"

\* a rejection by any layer is the rejection of the whole
RejectionSurfaces == (kpc = "done" /\ kc.d.effect = "fatal") => KResult = <<"nil", "fatal">>

\* a well-formed key parses with no error at all - but for the insecure curve, which meets the policy
Insecure == kc.k = "p192" /\ kc.d.name \notin KeyNotRead
WellFormedKey == (kpc = "done" /\ kc.d.effect \in {"none", "benign"}) =>
                    KResult = IF ~Insecure \/ Policy(kc.e) = "drop" THEN <<"obj", "nil">>
                              ELSE IF Policy(kc.e) = "report" THEN <<"obj", "nonFatal">>
                              ELSE <<"nil", "fatal">>

\* a finding the contract is sure about meets the policy
FindingPolicy == (kpc = "done" /\ kc.d.effect = "finding") =>
                    KResult = CASE Policy(kc.e) = "report" -> <<"obj", "nonFatal">>
                                [] Policy(kc.e) = "escalate" -> <<"nil", "fatal">>
                                [] OTHER -> <<"obj", "nil">>

\* private keys have no non-fatal outcome
PrivateIsStrict == (kpc = "done" /\ kc.e \in PrivEntries) => kerr # "nonFatal"

KClass == IF KResult = <<"obj", "nil">> THEN "ok" ELSE IF KResult = <<"obj", "nonFatal">> THEN "nonFatal"
          ELSE IF KResult = <<"nil", "fatal">> THEN "fatal" ELSE "mixed"
=============================================================================
