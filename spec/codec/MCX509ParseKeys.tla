-------------------------- MODULE MCX509ParseKeys --------------------------
(* Model-checking instance of X509ParseKeys: every (entry point, key kind, defect) case, the      *)
(* invariants on every state, and the export of the outcome classes the contract allows per case. *)
EXTENDS X509ParseKeys, Json

\* the catalogue, once
ASSUME \A d \in Catalogue :
         PrintT(<<"KDEF", ToJson([name |-> d.name, layer |-> d.layer, effect |-> d.effect])>>)

\* one record per reachable final state: the union over a case is the set of classes the contract allows
ExportKeyCase == kpc = "done" =>
   PrintT(<<"KCASE", ToJson([e |-> kc.e, k |-> kc.k, d |-> kc.d.name, layer |-> LayerOf(kc.d, kc.e, kc.k),
                             effect |-> kc.d.effect, policy |-> Policy(kc.e), r |-> KClass])>>)
=============================================================================
