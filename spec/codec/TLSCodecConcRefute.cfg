\* the defective disciplines: every one is refuted; ExposeProbe prints the classes of the refuting rounds
CONSTANTS
  Callers = {"g1", "g2"}
  Types = {"t1", "t2"}
  Args = {"a1", "a2"}
  NCells = 2
  Disciplines = {"publish-then-fill", "fill-while-walking", "shared-scratch"}
INIT Init
NEXT Next
INVARIANTS TypeOK ExposeProbe
CONSTRAINT StopAtRefutation
CHECK_DEADLOCK FALSE
