\* every call of a round returns (weak fairness): nobody waits for anybody, under every discipline
CONSTANTS
  Callers = {"g1", "g2"}
  Types = {"t1"}
  Args = {"a1"}
  NCells = 2
  Disciplines = {"stateless", "fill-then-publish", "publish-then-fill", "fill-while-walking", "shared-scratch"}
SPECIFICATION Spec
INVARIANTS TypeOK Returned
PROPERTY Completes
CHECK_DEADLOCK FALSE
