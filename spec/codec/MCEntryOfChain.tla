--------------------------- MODULE MCEntryOfChain ---------------------------
(***************************************************************************)
(* Case enumeration for EntryOfChain (C04): one TLC state per case, the    *)
(* laws as an invariant, every case exported with the expected entry.      *)
(* quick: every (route, issuance) x the validity forms (all pairs of years *)
(* at mid-year, and the first / last seconds around 1950 and 2050), plus   *)
(* every single deviation of the other dimensions from the base case, on a *)
(* validity inside the UTCTime range and on one that crosses into 2050.    *)
(* thorough: every pair of time forms x api x order, and every pair of     *)
(* deviations.                                                             *)
(***************************************************************************)
EXTENDS EntryOfChain, Json

CONSTANT Tier
VARIABLE c
Thorough == Tier = "thorough"

TF(y, e) == [y |-> y, edge |-> e]
RouteIss == {<<"x509", i>> : i \in Direct} \cup {<<"precert", i>> : i \in Issuances} \cup {<<"embedded", i>> : i \in Issuances}
V0 == <<TF(2000, "mid"), TF(2049, "mid")>>      \* both UTCTime
V1 == <<TF(2000, "mid"), TF(2050, "mid")>>      \* UTCTime, then the first year that is not
Base(ri, v) == [route |-> ri[1], api |-> "parsed", iss |-> ri[2], cut |-> "full", order |-> "std", nb |-> v[1], na |-> v[2],
                key |-> "p256", ikey |-> "p256", ts |-> "1", ext |-> 0]

\* validity forms
MidPairs == {<<TF(a, "mid"), TF(b, "mid")>> : a \in Years, b \in Years}
EdgePairs == {<<a, b>> : a \in {TF(1949, "last"), TF(1950, "first"), TF(2049, "last"), TF(2050, "first"), TF(2050, "last")},
                         b \in {TF(1950, "first"), TF(2049, "last"), TF(2050, "first"), TF(2050, "last"), TF(2051, "first"), TF(9999, "last")}}
AllPairs == {<<a, b>> : a \in TimeForms, b \in TimeForms}
Validities == {v \in (IF Thorough THEN AllPairs ELSE MidPairs \cup EdgePairs) : NotAfterOK(v[1], v[2])}

\* single deviations from a base case
Devs(b) == {[b EXCEPT !.api = x] : x \in Apis} \cup {[b EXCEPT !.cut = x] : x \in Cuts} \cup {[b EXCEPT !.order = x] : x \in Orders}
           \cup {[b EXCEPT !.key = x] : x \in KeyTypes} \cup {[b EXCEPT !.ikey = x] : x \in IKeyTypes}
           \cup {[b EXCEPT !.ts = x] : x \in Timestamps} \cup {[b EXCEPT !.ext = x] : x \in SctExtLens}
Devs2(b) == UNION {Devs(d) : d \in Devs(b)}

Cases == {x \in
            {Base(ri, v) : ri \in RouteIss, v \in Validities}
            \cup UNION {Devs(Base(ri, v)) : ri \in RouteIss, v \in {V0, V1}}
            \cup (IF Thorough THEN UNION {Devs2(Base(ri, v)) : ri \in RouteIss, v \in {V0, V1}}
                                   \cup UNION {{[Base(ri, v) EXCEPT !.api = a, !.order = o] : a \in Apis, o \in Orders} : ri \in RouteIss, v \in Validities}
                  ELSE {})
          : IsCase(x)}

CaseRec(x) == [c |-> x, chain |-> ChainIds(x), signer |-> Signer(x.iss).id, finalIssuer |-> FinalIssuer(x.iss).id,
               viaPre |-> ViaPre(x.iss), leafexts |-> IdsOf(LeafTBS(x).exts),
               finalexts |-> IF x.route = "x509" THEN <<>> ELSE IdsOf(FinalTBS(x).exts),
               written |-> LeafTBS(x).validity, expect |-> Expect(x)]

Init == c \in Cases
Next == UNCHANGED c
CheckAndExport == EntryLaws(c) /\ PrintT(<<"ENTRY", ToJson(CaseRec(c))>>)
=============================================================================
