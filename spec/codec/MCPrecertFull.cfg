\* thorough tier: extension lists of length <= 5
CONSTANTS
  MaxExts = 5
  CritPats = {"std", "alt"}
  SctMax = 3
INIT Init
NEXT Next
INVARIANTS Laws Export
CHECK_DEADLOCK FALSE
