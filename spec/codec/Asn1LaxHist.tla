---------------------------- MODULE Asn1LaxHist ----------------------------
(* C10, history layer - Unmarshal / UnmarshalWithParams / Marshal are FUNCTIONS of their arguments.

   The property quantifies over inputs and target types: "accepts an input if and only if ... and then yields
   an equal value and the same unconsumed remainder".  An outcome that also depended on what the process did
   before (a memo keyed too coarsely, a pooled or re-used buffer, parsed field parameters cached per type, the
   slice a destination already holds) would make that sentence meaningless, so the property implies, for every
   SEQUENCE of calls made by one process:

     CallIsFunction     every call has the verdict, the value, the remainder and the re-marshalled bytes that
                        Asn1Lax!Verdict gives for its case ALONE - whatever was decoded before, with whatever
                        mode, into this or another variable, from this or another buffer;
     ArgumentsKept      the input bytes (and what lies behind them in the caller's buffer) are not modified;
     ResultStable       a value handed out by an earlier call (the caller's copy of the destination, the bytes
                        returned by Marshal) is not modified by a later call;
     ElementsAreFresh   the elements of a SEQUENCE OF / SET OF are created by the call: nothing of what the
                        destination's slice held before shows through, however many elements it had.

   One thing does legitimately show through, in encoding/asn1 as in the fork, and the specification has a
   named clause for it because the property is silent and the behaviour is definite:

     AbsentOptionalKeeps  a struct member that is OPTIONAL without DEFAULT and absent from the input (or lies
                        below such a member) is not touched: in a destination variable that is used again it
                        keeps the value of the last call that wrote it.  Members with DEFAULT get the default.

   The destination variable is modelled by its SLOTS: the members that exist before the call (the nodes of the
   type tree that do not lie below a SEQUENCE OF / SET OF); d.holds says for every slot which call of the
   history wrote the value it holds (0: the zero value; -1: unspecified, after a rejected call).  About the
   destination of a REJECTED call nothing is asserted: it may hold any prefix of the members and a partially
   decoded member, and the two packages differ there in the unchanged code (an OBJECT IDENTIFIER with a bad arc
   leaves other partial arcs in the fork than in encoding/asn1).  ResultStable still applies to it: what the
   caller copied out of the destination before - which shares the slices the destination held - is untouched.
   d.sholds is the same model for encoding/asn1's destination after the same history (its verdicts differ on
   the DeliberateDiff list and on lax calls); while holds = sholds without unspecified slots, the two
   destinations are specified to be equal and are compared (sync).

   TLC generates the histories (random walks over the cases of one target type with repetition: other
   variants, other instances of the same variant - same structure and lengths, other leaf contents -, a defect
   and then none again, strict and lax calls mixed, fresh or re-used destination, fresh or re-used input
   buffer, the same call again); harness/c10 (TestHistory) replays them and compares, after every call, the
   real destination with the composition of the value trees that d.holds names.                            *)
EXTENDS Asn1Lax

CONSTANTS
  HistShapes,   \* shapes whose histories are explored
  HistWraps,    \* container stacks put around them (<<>> = none)
  Instances,    \* instances of a value variant: same structure and lengths, other leaf contents
  Depth         \* calls per history

VARIABLES
  key,   \* [shape, wrap]: the Go type shared by every call of the history
  d,     \* the caller's destination variable: [holds, sholds: slot index -> call number] (fork, encoding/asn1)
  hist   \* the calls made so far

hvars == <<c, vd, key, d, hist>>

HTree == WrapAll(key.wrap, Shapes[key.shape])

\* the slots of a type tree in depth-first order: the root and, recursively, the members of structs and the
\* inside of EXPLICIT wrappers - not the elements of a SEQUENCE OF / SET OF, which every call creates
RECURSIVE SlotSeq(_, _), KidSlots(_, _, _)
SlotSeq(t, p) == <<p>> \o (IF IsSeq(t) THEN <<>> ELSE KidSlots(t, p, 1))
KidSlots(t, p, i) == IF i > Len(t.kids) THEN <<>> ELSE SlotSeq(t.kids[i], Append(p, i)) \o KidSlots(t, p, i + 1)

HasDefault(n) == "default7" \in n.p
OnWire(t, v, p) == \A i \in 0..Len(p) : Present(NodeAt(t, SubSeq(p, 1, i)), v)
\* does an accepted call with variant v write slot p?  (AbsentOptionalKeeps: an absent OPTIONAL member without
\* DEFAULT, and everything below an absent member, is not written)
\* the first absent node on the way decides: with DEFAULT the member (and the inside of its EXPLICIT wrapper) is set
Written(t, v, p) == LET gone == {i \in 0..Len(p) : ~Present(NodeAt(t, SubSeq(p, 1, i)), v)} IN
                    gone = {} \/ HasDefault(NodeAt(t, SubSeq(p, 1, CHOOSE i \in gone : \A j \in gone : i <= j)))

Zero(t) == [i \in 1..Len(SlotSeq(t, <<>>)) |-> 0]

Keys == {[shape |-> s, wrap |-> w] : s \in HistShapes, w \in HistWraps}
KeyOK(k) == WrapAllOK(k.wrap, Shapes[k.shape])

HInit == /\ key \in {k \in Keys : KeyOK(k)}
         /\ c = Case(key.shape, 0, "none", <<>>, "strict", key.wrap, <<>>)
         /\ vd = Verdict(c)
         /\ d = [holds |-> Zero(HTree), sholds |-> Zero(HTree)]
         /\ hist = <<>>

\* one call: case x, instance inst, into a fresh or the re-used destination, from a fresh or the re-used buffer
Call(x, inst, dest, buf) ==
  LET t     == HTree
      slots == SlotSeq(t, <<>>)
      ev    == Verdict(x)
      n     == Len(hist) + 1
      After(verdict, base) == IF verdict = "accept"
                              THEN [i \in DOMAIN base |-> IF Written(t, x.v, slots[i]) THEN n ELSE base[i]]
                              ELSE [i \in DOMAIN base |-> -1]
      holds  == After(ev.mode, IF dest = "fresh" THEN Zero(t) ELSE d.holds)
      sholds == After(ev.std, IF dest = "fresh" THEN Zero(t) ELSE d.sholds)
      sync   == holds = sholds /\ \A i \in DOMAIN holds : holds[i] >= 0
  IN /\ c' = x
     /\ vd' = ev
     /\ d' = [holds |-> holds, sholds |-> sholds]
     /\ hist' = Append(hist, [op |-> "Call", c |-> x, e |-> ev, inst |-> inst, dest |-> dest, buf |-> buf,
                              holds |-> holds, sync |-> sync])
     /\ UNCHANGED key

LaxMode == IF key.wrap = <<>> THEN "laxTop" ELSE "laxAncestor"

\* the random walk: one successor per step (RandomElement bound once per choice)
Walk ==
  /\ Len(hist) < Depth
  /\ \E coin \in {RandomElement(1..12)}, v \in {RandomElement(Variants)}, inst \in {RandomElement(Instances)},
        mode \in {RandomElement({"strict", LaxMode})}, dest \in {IF RandomElement(1..4) = 1 THEN "fresh" ELSE "reuse"},
        buf \in {RandomElement({"fresh", "reuse"})} :
       IF coin = 12 /\ hist # <<>>
       THEN Call(c, hist[Len(hist)].inst, dest, buf)                 \* the same call again
       ELSE LET t  == HTree
                \* as in mode laxAncestor, a defect sits inside the shape, not in the containers put around it
                ps == {q \in PathsOf(t, v) : \E r \in RootsAll(key.wrap, v) : IsPrefix(r, q)} IN
            \E p \in {IF ps = {} THEN <<>> ELSE RandomElement(ps)} :
            LET ds == IF ps = {} THEN {}
                      ELSE {x \in Defects : Applicable(x, t, v, p)
                                            /\ ~(x = "setOfUnsorted" /\ key.shape \in LengthShapes)   \* (equal elements)
                                            \* (an OPTIONAL member taken as absent is not in the slot model)
                                            /\ ~(x \in ClassDefects /\ IsOpt(NodeAt(t, p)))} IN
            \E df \in {IF coin <= 6 \/ ds = {} THEN "none" ELSE RandomElement(ds)} :
            LET tfs == IF df = "none" /\ coin <= 2 /\ HasKind(t, TimeKinds) /\ v \in {0, 2}
                       THEN {x \in TimeForms : TfOK(t, v, x)} ELSE {} IN
            \E tf \in {IF tfs = {} THEN NoTF ELSE RandomElement(tfs)} :
              Call([Case(key.shape, v, df, IF df = "none" THEN <<>> ELSE p, mode, key.wrap, <<>>) EXCEPT !.tf = tf],
                   inst, dest, buf)

End == [op |-> "End"]
Finish == Len(hist) = Depth /\ hist' = Append(hist, End) /\ UNCHANGED <<c, vd, key, d>>
HNext == Walk \/ Finish

(* ---- laws (checked by TLC on every state of every walk) ------------------------------------- *)
Calls == {i \in DOMAIN hist : hist[i].op = "Call"}
Slots == SlotSeq(HTree, <<>>)

\* the expected outcome of a call inside a history is the outcome of the call alone
CallIsFunction == \A i \in Calls : hist[i].e = Verdict(hist[i].c)
\* into a fresh destination the value is the call's own value: every slot is written by the call or zero, and a
\* zero slot is one the call does not write
FreshIsAlone == \A i \in Calls : (hist[i].dest = "fresh" /\ hist[i].e.mode = "accept") =>
                   \A k \in DOMAIN hist[i].holds : /\ hist[i].holds[k] \in {0, i}
                                                     /\ (hist[i].holds[k] = 0 <=> ~Written(HTree, hist[i].c.v, Slots[k]))
\* AbsentOptionalKeeps, and nothing else: a slot that shows an older value after an accepted call is one the call
\* does not write - an absent OPTIONAL member without DEFAULT or something below one
KeepsOnlyAbsentOptional ==
  \A i \in Calls : hist[i].e.mode = "accept" =>
     \A k \in DOMAIN hist[i].holds :
        hist[i].holds[k] # i => \E j \in 0..Len(Slots[k]) :
                                   LET n == NodeAt(HTree, SubSeq(Slots[k], 1, j)) IN IsOpt(n) /\ ~Present(n, hist[i].c.v) /\ ~HasDefault(n)
\* ElementsAreFresh: no slot lies below a SEQUENCE OF / SET OF (so nothing below one can be kept)
ElementsAreFresh == \A k \in DOMAIN Slots : \A j \in 0..(Len(Slots[k]) - 1) : ~IsSeq(NodeAt(HTree, SubSeq(Slots[k], 1, j)))
\* a call that writes every slot leaves no trace of the history in the destination
FullWriteForgets == \A i \in Calls : (hist[i].e.mode = "accept" /\ \A k \in DOMAIN Slots : Written(HTree, hist[i].c.v, Slots[k])) =>
                       \A k \in DOMAIN hist[i].holds : hist[i].holds[k] = i
\* the comparison with encoding/asn1's destination is made only after a call both accept, into fully specified
\* destinations
SyncMeansSameVerdicts == \A i \in Calls : hist[i].sync => (hist[i].e.mode = "accept" /\ hist[i].e.std = "accept"
                                                            /\ \A k \in DOMAIN hist[i].holds : hist[i].holds[k] >= 0)
HistTypeOK == /\ Len(hist) <= Depth + 1 /\ KeyOK(key) /\ DOMAIN d.holds = DOMAIN Slots
              /\ \A i \in Calls : hist[i].dest \in {"fresh", "reuse"} /\ hist[i].buf \in {"fresh", "reuse"} /\ hist[i].inst \in Instances
=============================================================================
