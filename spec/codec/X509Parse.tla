----------------------------- MODULE X509Parse -----------------------------
(***************************************************************************)
(* The lenient X.509 certificate parser (x509/x509.go ParseCertificate,    *)
(* ParseTBSCertificate, ParseCertificates) as a parse pipeline, and its    *)
(* contract (C11): the parser is total, error-coherent and exact on        *)
(* well-formed input.                                                      *)
(*                                                                         *)
(*   StrictDER -> (on error) LaxDER -> TrailingCheck ->                    *)
(*   FieldParse(spki, subject, issuer, extension_1 .. extension_n) -> Done *)
(*                                                                         *)
(* Every stage ends in ok / nonFatal / fatal.  A non-fatal finding is      *)
(* recorded and the parse goes on; a fatal one ends it without an object.  *)
(* The result is one of                                                    *)
(*      <<obj, nil>>   <<obj, nonFatal>>   <<nil, fatal>>                  *)
(* and never a mixed pair; callers rely on IsFatal(err) <=> obj = nil.     *)
(*                                                                         *)
(* Case space.  An input is a certificate TEMPLATE, as a conforming        *)
(* encoder issues it (a subset of the extension kinds the parser           *)
(* interprets, a name string type, a key type, validity before / after     *)
(* 2050), with at most one STRUCTURE-PRESERVING MUTATION: one field is     *)
(* edited, the enclosing lengths are rebuilt.  The mutation table says     *)
(* which stage a mutation hits and what the stage makes of it; the         *)
(* pipeline turns that into the set of outcome classes the contract        *)
(* allows.  The table is the contract in the small: it is written from     *)
(* the documented leniency of the fork                                     *)
(*   L1 asn1 "lax": integers that are not minimally encoded                *)
(*   L2 asn1 "lax": PrintableString with other (ISO 8859-1 / T.61) octets  *)
(*   L3 asn1 "lax": zero-length OBJECT IDENTIFIER                          *)
(*   N1 RSA key without NULL parameters, non-positive RSA modulus          *)
(*   N2 subjectAltName iPAddress of a length other than 4 / 16             *)
(*   N3 name-constraint dNSName / rfc822Name / URI that does not parse     *)
(*   N4 empty ExtendedKeyUsage / AuthorityInfoAccess                       *)
(* (each is "collected in NonFatalErrors, parsing continues") - lax mode   *)
(* is available to the DER stage, to names, to the RSA key and to          *)
(* ExtendedKeyUsage only - and from RFC 5280 / X.690 for everything else:  *)
(* any other defect of the edited field is fatal.                          *)
(*                                                                         *)
(* Exactness.  For the unmutated template the object must carry exactly    *)
(* the field values the standard library's parser reports for the same     *)
(* bytes (names, SANs, key usages, EKUs, basic constraints, name           *)
(* constraints, policies, AIA/OCSP, CRL distribution points, SKI/AKI,      *)
(* unknown and unhandled-critical extensions, validity, serial, version,   *)
(* algorithms, public key, signature, raw fields); the field map is in     *)
(* harness/c11/fields.go.  Deliberate differences of the fork are named:   *)
(*   D1 the RFC 6962 precertificate-signing EKU 1.3.6.1.4.1.11129.2.4.4    *)
(*      is ExtKeyUsageCertificateTransparency in the fork (x509.go,        *)
(*      extKeyUsageOIDs) and an UnknownExtKeyUsage in crypto/x509.         *)
(* No other difference exists on the explored templates.                   *)
(*                                                                         *)
(* Extension order.  RFC 5280 gives the extensions of a certificate as a   *)
(* SEQUENCE with no prescribed order; the order the standard library's     *)
(* encoder happens to emit (unknown extensions last) is one of n!.  The    *)
(* ORDER is a dimension of the well-formed case space: the case carries    *)
(* the sequence FieldParse walks through (c.ord, a permutation of the      *)
(* template's extensions).  What is decided about one extension is local   *)
(* to it: the outcome, every field value and in particular the set of      *)
(* unhandled critical extensions (uce) are functions of the SET of         *)
(* extensions (invariant UnhandledIsOrderFree, WellFormedClean for every   *)
(* order).                                                                 *)
(*                                                                         *)
(* History.  Parsing is a FUNCTION of the bytes handed in (third machine,  *)
(* "history" below): for every sequence of calls, every call returns what  *)
(* it returns alone (Functional, PerCertificate); the arguments are not    *)
(* modified and nothing of a call survives it, whichever buffer the        *)
(* caller used and whatever that buffer held before (ArgsIntact).  The     *)
(* machine has no variable a call could leave anything in - that IS the    *)
(* specification; TLC's part is to generate the call sequences (random     *)
(* walks over objects that differ in one slot, with repetition, through    *)
(* re-used buffers) that are replayed into the implementation.             *)
(***************************************************************************)
EXTENDS Naturals, Sequences, FiniteSets, TLC

CONSTANTS
  Templates      \* the certificate templates to explore (MC module)

None == [k |-> "none"]

(* ---------------------------------------------------------------------- *)
(* templates                                                               *)
(* ---------------------------------------------------------------------- *)
SANKinds == {"sanDNS", "sanEmail", "sanIP", "sanURI"}     \* payloads of the one subjectAltName extension
ExtKinds == SANKinds \cup {"nc", "ku", "eku", "bc", "pol", "aia", "crldp", "ski", "aki", "unkCrit", "unkNon"}
NameKinds == {"printable", "utf8", "ia5", "t61bmp", "empty"}
KeyKinds == {"rsa", "ecdsa", "ed25519"}
ValidityKinds == {"utc", "gen"}                            \* notAfter before 2050 (UTCTime) / from 2050 on (GeneralizedTime)

TemplateSpace == [exts : SUBSET ExtKinds, name : NameKinds, key : KeyKinds, validity : ValidityKinds]

\* the extensions of a template in the order a conforming encoder emits them; SAN payload kinds share one extension
ExtOrder == <<"ku", "eku", "bc", "ski", "aki", "aia", "san", "pol", "nc", "crldp", "unkCrit", "unkNon">>
HasExt(t, e) == IF e = "san" THEN t.exts \cap SANKinds # {} ELSE e \in t.exts
ExtSeq(t) == SelectSeq(ExtOrder, LAMBDA e : HasExt(t, e))
\* what FieldParse walks through (extensions in the encoder's order; a case carries its own order, c.ord)
Components(t) == <<"spki", "subject", "issuer">> \o ExtSeq(t)

(* ---------------------------------------------------------------------- *)
(* extension order                                                         *)
(* ---------------------------------------------------------------------- *)
CONSTANT PermAll      \* templates with at most PermAll extensions are explored in every order

\* extensions the parser does not interpret: recorded in UnhandledCriticalExtensions iff marked critical
Uninterpreted == {"unkCrit", "unkNon"}

Rev(s) == [i \in 1..Len(s) |-> s[Len(s) + 1 - i]]
Rot(s) == IF s = <<>> THEN s ELSE Tail(s) \o <<Head(s)>>
KnownOf(s) == SelectSeq(s, LAMBDA e : e \notin Uninterpreted)
UnkOf(s) == SelectSeq(s, LAMBDA e : e \in Uninterpreted)
UnkFirst(s) == UnkOf(s) \o KnownOf(s)                       \* every uninterpreted extension before every interpreted one
UnkMid(s) == LET k == KnownOf(s)
                 h == Len(k) \div 2
             IN SubSeq(k, 1, h) \o UnkOf(s) \o SubSeq(k, h + 1, Len(k))
Perms(s) == {p \in [1..Len(s) -> {s[i] : i \in 1..Len(s)}] : \A i, j \in 1..Len(s) : i # j => p[i] # p[j]}

\* the orders explored for a well-formed template: all of them when there are few extensions, otherwise the
\* encoder's, its reverse, a rotation, and the uninterpreted extensions first / in the middle (both directions)
Orders(t) == LET s == ExtSeq(t) IN
  IF Len(s) <= PermAll THEN Perms(s)
  ELSE {s, Rev(s), Rot(s), UnkFirst(s), UnkMid(s), Rev(UnkMid(s))}

(* ---------------------------------------------------------------------- *)
(* mutations                                                               *)
(*   stage   DER: the field is decoded by the generic ASN.1 stage          *)
(*           Trailing: bytes after the outer TLV                           *)
(*           Field: the field is decoded while filling component `comp`    *)
(*   effect  break     no ASN.1 reading of the input exists (strict and    *)
(*                     lax fail)                     -> fatal              *)
(*           laxOK     strict fails, lax succeeds (L1-L3) -> nonFatal      *)
(*           trailing  data after the object          -> fatal             *)
(*           fatal     the component cannot be filled -> fatal             *)
(*           nonFatal  recorded, parsing continues (N1-N4, L1-L3 in a      *)
(*                     component with a lax fallback) -> nonFatal          *)
(*           benign    not an error at parse time (unknown algorithm /     *)
(*                     extension, signature value)    -> ok                *)
(*           tolerated an encoding the standard forbids whose acceptance   *)
(*                     the contract does not pin      -> ok or nonFatal    *)
(*           free      the contract is silent         -> any coherent one  *)
(*   needs   what the template must contain for the mutation to apply      *)
(*   scope   tbs: inside the TBSCertificate (both entry points)            *)
(*           cert: outer signature fields (ParseCertificate only)          *)
(*   envelope TRUE when the outer TLV still delimits the object (it can    *)
(*           be a part of a concatenation)                                 *)
(* ---------------------------------------------------------------------- *)
M(name, stage, comp, effect, needs, scope, envelope) ==
  [name |-> name, stage |-> stage, comp |-> comp, effect |-> effect, needs |-> needs, scope |-> scope, envelope |-> envelope]

MutationTable == {
  M("none",                     "none",     "-",       "none",      {},            "tbs",  TRUE),
  \* outer envelope
  M("truncLast",                "DER",      "-",       "break",     {},            "tbs",  FALSE),
  M("truncHalf",                "DER",      "-",       "break",     {},            "tbs",  FALSE),
  M("empty",                    "DER",      "-",       "break",     {},            "tbs",  FALSE),
  M("outerTagSet",              "DER",      "-",       "break",     {},            "tbs",  FALSE),
  M("outerLenPlus1",            "DER",      "-",       "break",     {},            "tbs",  FALSE),
  M("outerLenMinus1",           "DER",      "-",       "break",     {},            "tbs",  FALSE),
  M("outerIndefinite",          "DER",      "-",       "break",     {},            "tbs",  FALSE),
  M("outerLenNonMinimal",       "DER",      "-",       "break",     {},            "tbs",  FALSE),
  M("trailingByte",             "Trailing", "-",       "trailing",  {},            "tbs",  FALSE),
  M("trailingTLV",              "Trailing", "-",       "trailing",  {},            "tbs",  FALSE),
  \* fields the DER stage decodes itself
  M("serialNonMinimal",         "DER",      "-",       "laxOK",     {},            "tbs",  TRUE),    \* L1
  M("versionNonMinimal",        "DER",      "-",       "laxOK",     {},            "tbs",  TRUE),    \* L1
  M("sigAlgOIDEmpty",           "DER",      "-",       "laxOK",     {},            "tbs",  TRUE),    \* L3
  M("extOIDEmpty",              "DER",      "-",       "laxOK",     {"unkNon"},    "tbs",  TRUE),    \* L3
  M("outerSigAlgOIDEmpty",      "DER",      "-",       "laxOK",     {},            "cert", TRUE),    \* L3
  M("serialEmpty",              "DER",      "-",       "break",     {},            "tbs",  TRUE),
  M("notBeforeBadMonth",        "DER",      "-",       "break",     {},            "tbs",  TRUE),
  M("notAfterNoZ",              "DER",      "-",       "break",     {},            "tbs",  TRUE),
  M("extCriticalNonDERBool",    "DER",      "-",       "break",     {"anyExt"},    "tbs",  TRUE),
  M("sigBadPadding",            "DER",      "-",       "break",     {},            "cert", TRUE),
  M("notAfterUTCAsGeneralized", "DER",      "-",       "tolerated", {"utc"},       "tbs",  TRUE),
  M("extCriticalExplicitFalse", "DER",      "-",       "tolerated", {"nonCritExt"}, "tbs", TRUE),
  M("extDuplicate",             "DER",      "-",       "free",      {"anyExt"},    "tbs",  TRUE),
  M("sigBitFlip",               "DER",      "-",       "benign",    {},            "cert", TRUE),
  \* subject public key
  M("spkiAlgUnknown",           "Field",    "spki",    "benign",    {},            "tbs",  TRUE),
  M("rsaModulusNonMinimal",     "Field",    "spki",    "nonFatal",  {"rsa"},       "tbs",  TRUE),    \* L1
  M("rsaModulusNegative",       "Field",    "spki",    "nonFatal",  {"rsa"},       "tbs",  TRUE),    \* N1
  M("rsaParamsAbsent",          "Field",    "spki",    "nonFatal",  {"rsa"},       "tbs",  TRUE),    \* N1
  M("rsaExponentZero",          "Field",    "spki",    "fatal",     {"rsa"},       "tbs",  TRUE),
  M("rsaKeyTrailing",           "Field",    "spki",    "fatal",     {"rsa"},       "tbs",  TRUE),
  M("ecPointBadForm",           "Field",    "spki",    "fatal",     {"ecdsa"},     "tbs",  TRUE),
  M("ecCurveUnknown",           "Field",    "spki",    "fatal",     {"ecdsa"},     "tbs",  TRUE),
  M("ecParamsNotOID",           "Field",    "spki",    "fatal",     {"ecdsa"},     "tbs",  TRUE),
  M("edKeyShort",               "Field",    "spki",    "free",      {"ed25519"},   "tbs",  TRUE),
  \* names
  M("subjectPrintableAt",       "Field",    "subject", "nonFatal",  {"printable"}, "tbs",  TRUE),    \* L2
  M("subjectPrintableLatin1",   "Field",    "subject", "nonFatal",  {"printable"}, "tbs",  TRUE),    \* L2
  M("issuerPrintableAt",        "Field",    "issuer",  "nonFatal",  {"printable"}, "tbs",  TRUE),    \* L2
  M("subjectAttrOIDEmpty",      "Field",    "subject", "nonFatal",  {"nonEmptyName"}, "tbs", TRUE),  \* L3
  M("subjectUTF8Invalid",       "Field",    "subject", "fatal",     {"utf8"},      "tbs",  TRUE),
  M("subjectIA5HighBit",        "Field",    "subject", "fatal",     {"ia5"},       "tbs",  TRUE),
  M("issuerNotSequence",        "Field",    "issuer",  "fatal",     {},            "tbs",  TRUE),
  \* extension payloads
  M("kuTrailing",               "Field",    "ku",      "fatal",     {"ku"},        "tbs",  TRUE),
  M("kuNotBitString",           "Field",    "ku",      "fatal",     {"ku"},        "tbs",  TRUE),
  M("kuBadPadding",             "Field",    "ku",      "fatal",     {"ku"},        "tbs",  TRUE),
  M("bcTrailing",               "Field",    "bc",      "fatal",     {"bc"},        "tbs",  TRUE),
  M("bcNotSequence",            "Field",    "bc",      "fatal",     {"bc"},        "tbs",  TRUE),
  M("sanIPLen5",                "Field",    "san",     "nonFatal",  {"sanIP"},     "tbs",  TRUE),    \* N2
  M("sanURIUnparsable",         "Field",    "san",     "fatal",     {"sanURI"},    "tbs",  TRUE),
  M("sanURIBadHost",            "Field",    "san",     "fatal",     {"sanURI"},    "tbs",  TRUE),
  M("sanNotSequence",           "Field",    "san",     "fatal",     {"san"},       "tbs",  TRUE),
  M("sanTrailing",              "Field",    "san",     "fatal",     {"san"},       "tbs",  TRUE),
  M("sanEmptySequence",         "Field",    "san",     "tolerated", {"san"},       "tbs",  TRUE),
  M("sanOtherNameOnly",         "Field",    "san",     "tolerated", {"san"},       "tbs",  TRUE),
  M("ncBaseDNSSpace",           "Field",    "nc",      "nonFatal",  {"nc"},        "tbs",  TRUE),    \* N3
  M("ncBaseEmailBad",           "Field",    "nc",      "nonFatal",  {"nc"},        "tbs",  TRUE),    \* N3
  M("ncBaseURIBad",             "Field",    "nc",      "nonFatal",  {"nc"},        "tbs",  TRUE),    \* N3
  M("ncBaseDNSNonIA5",          "Field",    "nc",      "fatal",     {"nc"},        "tbs",  TRUE),
  M("ncBaseURIIsIP",            "Field",    "nc",      "fatal",     {"nc"},        "tbs",  TRUE),
  M("ncBaseIPBadMask",          "Field",    "nc",      "fatal",     {"nc"},        "tbs",  TRUE),
  M("ncBaseIPLen5",             "Field",    "nc",      "fatal",     {"nc"},        "tbs",  TRUE),
  M("ncEmptySequence",          "Field",    "nc",      "fatal",     {"nc"},        "tbs",  TRUE),
  M("ncTrailing",               "Field",    "nc",      "fatal",     {"nc"},        "tbs",  TRUE),
  M("ncBaseDirName",            "Field",    "nc",      "tolerated", {"nc"},        "tbs",  TRUE),
  M("ekuValueEmpty",            "Field",    "eku",     "nonFatal",  {"eku"},       "tbs",  TRUE),    \* N4
  M("ekuOIDEmpty",              "Field",    "eku",     "nonFatal",  {"eku"},       "tbs",  TRUE),    \* L3
  M("ekuTrailing",              "Field",    "eku",     "fatal",     {"eku"},       "tbs",  TRUE),
  M("ekuNotSequence",           "Field",    "eku",     "fatal",     {"eku"},       "tbs",  TRUE),
  M("polTrailing",              "Field",    "pol",     "fatal",     {"pol"},       "tbs",  TRUE),
  M("polOIDEmpty",              "Field",    "pol",     "fatal",     {"pol"},       "tbs",  TRUE),    \* no lax fallback for policies
  M("aiaEmptySequence",         "Field",    "aia",     "nonFatal",  {"aia"},       "tbs",  TRUE),    \* N4
  M("aiaTrailing",              "Field",    "aia",     "fatal",     {"aia"},       "tbs",  TRUE),
  M("aiaMethodNotOID",          "Field",    "aia",     "fatal",     {"aia"},       "tbs",  TRUE),
  M("aiaLocationDNS",           "Field",    "aia",     "tolerated", {"aia"},       "tbs",  TRUE),
  M("crldpTrailing",            "Field",    "crldp",   "fatal",     {"crldp"},     "tbs",  TRUE),
  M("crldpNotSequence",         "Field",    "crldp",   "fatal",     {"crldp"},     "tbs",  TRUE),
  M("crldpEmptySeq",            "Field",    "crldp",   "tolerated", {"crldp"},     "tbs",  TRUE),
  M("skiTrailing",              "Field",    "ski",     "fatal",     {"ski"},       "tbs",  TRUE),
  M("skiNotOctetString",        "Field",    "ski",     "fatal",     {"ski"},       "tbs",  TRUE),
  M("akiTrailing",              "Field",    "aki",     "fatal",     {"aki"},       "tbs",  TRUE),
  M("akiNotSequence",           "Field",    "aki",     "fatal",     {"aki"},       "tbs",  TRUE),
  \* degenerate payloads: well-formed DER of the right outer type with nothing (or the least possible) inside.
  \* The contract does not pin the outcome; totality (no panic) and coherence do apply
  M("kuEmptyBits",              "Field",    "ku",      "free",      {"ku"},        "tbs",  TRUE),    \* BIT STRING with no bits
  M("kuNineBits",               "Field",    "ku",      "free",      {"ku"},        "tbs",  TRUE),    \* only decipherOnly (second octet)
  M("kuOneBit",                 "Field",    "ku",      "free",      {"ku"},        "tbs",  TRUE),
  M("bcEmptySequence",          "Field",    "bc",      "free",      {"bc"},        "tbs",  TRUE),
  M("ekuEmptySequence",         "Field",    "eku",     "free",      {"eku"},       "tbs",  TRUE),
  M("polEmptySequence",         "Field",    "pol",     "free",      {"pol"},       "tbs",  TRUE),
  M("polEmptyInfo",             "Field",    "pol",     "free",      {"pol"},       "tbs",  TRUE),
  M("skiEmpty",                 "Field",    "ski",     "free",      {"ski"},       "tbs",  TRUE),
  M("akiEmptySequence",         "Field",    "aki",     "free",      {"aki"},       "tbs",  TRUE),
  M("akiEmptyKeyId",            "Field",    "aki",     "free",      {"aki"},       "tbs",  TRUE),
  M("aiaEmptyDescription",      "Field",    "aia",     "free",      {"aia"},       "tbs",  TRUE),
  M("crldpEmptyPoint",          "Field",    "crldp",   "free",      {"crldp"},     "tbs",  TRUE),
  M("crldpEmptyFullName",       "Field",    "crldp",   "free",      {"crldp"},     "tbs",  TRUE),
  M("ncEmptySubtrees",          "Field",    "nc",      "free",      {"nc"},        "tbs",  TRUE),
  M("ncEmptySubtree",           "Field",    "nc",      "free",      {"nc"},        "tbs",  TRUE),
  M("sanEmptyName",             "Field",    "san",     "free",      {"san"},       "tbs",  TRUE),
  M("subjectEmptyRDN",          "Field",    "subject", "free",      {"nonEmptyName"}, "tbs", TRUE),
  M("subjectEmptyAttrValue",    "Field",    "subject", "free",      {"nonEmptyName"}, "tbs", TRUE),
  M("extValueEmpty",            "DER",      "-",       "free",      {"anyExt"},    "tbs",  TRUE),    \* every extnValue emptied in turn
  M("unkNonMadeCritical",       "Field",    "unkNon",  "benign",    {"unkNon"},    "tbs",  TRUE),
  M("unkCritGarbage",           "Field",    "unkCrit", "benign",    {"unkCrit"},   "tbs",  TRUE)
}

Needs(t, n) ==
  CASE n \in ExtKinds        -> n \in t.exts
    [] n = "san"             -> t.exts \cap SANKinds # {}
    [] n = "anyExt"          -> t.exts # {}
    [] n = "nonCritExt"      -> (t.exts \cap {"eku", "ski", "aki", "aia", "pol", "crldp", "unkNon"}) # {}
    [] n \in KeyKinds        -> t.key = n
    [] n = "nonEmptyName"    -> t.name # "empty"
    [] n \in NameKinds       -> t.name = n
    [] n \in ValidityKinds   -> t.validity = n
Applicable(t, m) == \A n \in m.needs : Needs(t, n)

\* a case: a template with one applicable mutation ("none" included)
IsCase(x) == x.tpl \in Templates /\ x.mut \in MutationTable /\ Applicable(x.tpl, x.mut)

\* the orders a case is explored in: every order of Orders for the well-formed template; a defect inside one
\* extension whose outcome the contract pins (fatal / nonFatal) is met in the encoder's order and in the reverse
\* one (the extensions before / after it swap sides)
OrdersFor(t, m) ==
  IF m.name = "none" THEN Orders(t)
  ELSE IF m.stage = "Field" /\ m.comp \notin {"spki", "subject", "issuer"} /\ m.effect \in {"fatal", "nonFatal"}
         THEN {ExtSeq(t), Rev(ExtSeq(t))}
  ELSE {ExtSeq(t)}

(* ---------------------------------------------------------------------- *)
(* the pipeline (one object)                                               *)
(* ---------------------------------------------------------------------- *)
VARIABLES
  c,       \* the input: template, mutation and the order of the extensions
  stage,   \* StrictDER, LaxDER, Trailing, Field, Done ("off" while the concatenation machine runs)
  todo,    \* components FieldParse still has to fill
  nfe,     \* non-fatal findings: <<where, sure>>; sure = FALSE when the contract leaves reporting open
  uce,     \* extensions recorded as unhandled critical so far
  obj,     \* "obj" once the object under construction exists, "nil" otherwise
  err      \* "nil", "nonFatal", "fatal" - meaningful in stage Done

vars == <<c, stage, todo, nfe, uce, obj, err>>

PipeInit ==
  /\ \E t \in Templates, m \in MutationTable :
        Applicable(t, m) /\ \E o \in OrdersFor(t, m) : c = [tpl |-> t, mut |-> m, ord |-> o]
  /\ stage = "StrictDER"
  /\ todo = <<>>
  /\ nfe = {}
  /\ uce = {}
  /\ obj = "nil"
  /\ err = "nil"

PipeOff == c = None /\ stage = "off" /\ todo = <<>> /\ nfe = {} /\ uce = {} /\ obj = "nil" /\ err = "nil"

HitsDER == c.mut.stage = "DER" /\ c.mut.effect \in {"break", "laxOK"}
Open == {"tolerated", "free"}

Fail == /\ stage' = "Done"
        /\ obj' = "nil"
        /\ err' = "fatal"
        /\ UNCHANGED <<c, todo, nfe, uce>>

\* strict DER decoding of the whole object
StrictDER ==
  /\ stage = "StrictDER"
  /\ IF HitsDER THEN stage' = "LaxDER" /\ UNCHANGED nfe
     ELSE /\ stage' = "Trailing"
          /\ nfe' = IF c.mut.stage = "DER" /\ c.mut.effect \in Open THEN {<<"der", FALSE>>} ELSE nfe
  /\ UNCHANGED <<c, todo, uce, obj, err>>

\* second attempt with the relaxed decoder; the strict error is kept as a non-fatal finding
LaxDER ==
  /\ stage = "LaxDER"
  /\ IF c.mut.effect = "break" THEN Fail
     ELSE /\ stage' = "Trailing"
          /\ nfe' = nfe \cup {<<"der", TRUE>>}
          /\ UNCHANGED <<c, todo, uce, obj, err>>

\* "free" at the DER stage: the contract does not say whether a reading exists
FreeDER ==
  /\ stage = "StrictDER"
  /\ c.mut.stage = "DER" /\ c.mut.effect = "free"
  /\ Fail

TrailingCheck ==
  /\ stage = "Trailing"
  /\ IF c.mut.stage = "Trailing" THEN Fail
     ELSE /\ stage' = "Field"
          /\ todo' = <<"spki", "subject", "issuer">> \o c.ord
          /\ obj' = "obj"
          /\ UNCHANGED <<c, nfe, uce, err>>

\* an uninterpreted extension is critical when the encoder marked it so (or the mutation did)
MarkedCritical(h) == h = "unkCrit" \/ (h = "unkNon" /\ c.mut.name = "unkNonMadeCritical")

\* one component; the mutation, if it lives here, decides.  Whether an extension is recorded as unhandled
\* critical is decided by that extension alone - nothing is carried from one component to the next.
FieldParse ==
  /\ stage = "Field"
  /\ todo # <<>>
  /\ LET h == Head(todo)
         hit == c.mut.stage = "Field" /\ c.mut.comp = h IN
     \/ /\ hit /\ c.mut.effect \in {"fatal", "free"}
        /\ Fail
     \/ /\ ~(hit /\ c.mut.effect = "fatal")
        /\ todo' = Tail(todo)
        /\ nfe' = IF hit /\ c.mut.effect = "nonFatal" THEN nfe \cup {<<h, TRUE>>}
                  ELSE IF hit /\ c.mut.effect \in Open THEN nfe \cup {<<h, FALSE>>}
                  ELSE nfe
        /\ uce' = IF h \in Uninterpreted /\ MarkedCritical(h) THEN uce \cup {h} ELSE uce
        /\ UNCHANGED <<c, stage, obj, err>>

\* all components filled: the findings become the (non-fatal) error
Finish ==
  /\ stage = "Field"
  /\ todo = <<>>
  /\ stage' = "Done"
  /\ err' \in IF nfe = {} THEN {"nil"}
              ELSE IF \E f \in nfe : f[2] THEN {"nonFatal"}
              ELSE {"nil", "nonFatal"}
  /\ UNCHANGED <<c, todo, nfe, uce, obj>>

PipeNext == StrictDER \/ LaxDER \/ FreeDER \/ TrailingCheck \/ FieldParse \/ Finish

(* ---------------------------------------------------------------------- *)
(* the property                                                            *)
(* ---------------------------------------------------------------------- *)
Result == <<obj, err>>
Good == {<<"obj", "nil">>, <<"obj", "nonFatal">>, <<"nil", "fatal">>}
IsFatal(e) == e = "fatal"

TypeOK == /\ stage \in {"StrictDER", "LaxDER", "Trailing", "Field", "Done", "off"}
          /\ obj \in {"nil", "obj"}
          /\ err \in {"nil", "nonFatal", "fatal"}

\* the mixed outcomes are unreachable
Coherent == stage = "Done" => /\ Result \in Good
                              /\ (IsFatal(err) <=> obj = "nil")

\* a well-formed certificate parses with no error at all (in whichever order its extensions come)
WellFormedClean == (stage = "Done" /\ c.mut.name = "none") => Result = <<"obj", "nil">>

\* no object exists before the input has been read as DER and found to end where the object ends
NoObjectBeforeDER == stage \in {"StrictDER", "LaxDER", "Trailing"} => obj = "nil"

\* a finding the contract is sure about is never dropped
FindingsReported == (stage = "Done" /\ obj = "obj" /\ \E f \in nfe : f[2]) => err = "nonFatal"

\* the unhandled critical extensions of a well-formed certificate are a function of the SET of its extensions:
\* exactly the uninterpreted ones the encoder marked critical, wherever they stand
UCE(t) == {e \in Uninterpreted \cap t.exts : e = "unkCrit"}
UnhandledIsOrderFree == (stage = "Done" /\ c.mut.name = "none") => uce = UCE(c.tpl)

\* the order is a permutation of the template's extensions
OrderIsPermutation == stage = "StrictDER" =>   \* (c never changes: checked where a case starts)
                                  /\ Len(c.ord) = Len(ExtSeq(c.tpl))
                                  /\ {c.ord[k] : k \in 1..Len(c.ord)} = {ExtSeq(c.tpl)[k] : k \in 1..Len(c.ord)}

Class(r) == IF r = <<"obj", "nil">> THEN "ok" ELSE IF r = <<"obj", "nonFatal">> THEN "nonFatal" ELSE "fatal"

(* ---------------------------------------------------------------------- *)
(* concatenation (ParseCertificates): parts that keep their envelope       *)
(* ---------------------------------------------------------------------- *)
\* class of a case as a part of a concatenation; "" when it cannot be one
PartOf(m) ==
  IF ~m.envelope THEN ""
  ELSE CASE m.name = "none"        -> "ok"
         [] m.effect = "laxOK"     -> "laxDER"
         [] m.effect = "nonFatal"  -> "nfField"
         [] m.effect = "break"     -> "fatalDER"
         [] m.effect = "fatal"     -> "fatalField"
         [] OTHER                  -> ""

PartClasses == {"ok", "laxDER", "nfField", "fatalDER", "fatalField", "garbage"}
\* what the single-object pipeline makes of a part
PartAlone(p) == CASE p = "ok" -> "ok"
                  [] p \in {"laxDER", "nfField"} -> "nonFatal"
                  [] OTHER -> "fatal"

CONSTANT MaxParts

VARIABLES
  parts,   \* the input: a sequence of part classes
  phase,   \* "der" (cut the input into objects), "fields" (fill each), "done"
  i,       \* next part
  lnfe,    \* non-fatal findings so far
  list,    \* NilList or Certs(n)
  lerr

cvars == <<parts, phase, i, lnfe, list, lerr>>

NilList == [nil |-> TRUE, n |-> 0]
Certs(k) == [nil |-> FALSE, n |-> k]

ConcatOff == parts = <<>> /\ phase = "off" /\ i = 0 /\ lnfe = FALSE /\ list = NilList /\ lerr = "nil"

ConcatStart ==
  /\ parts \in UNION {[1..n -> PartClasses] : n \in 1..MaxParts}
  /\ phase = "der"
  /\ i = 1
  /\ lnfe = FALSE
  /\ list = NilList
  /\ lerr = "nil"

ConcatFail == phase' = "done" /\ list' = NilList /\ lerr' = "fatal" /\ UNCHANGED <<parts, i, lnfe>>

\* first loop: strict, then lax DER decoding of the next object; anything that is not an object is fatal
ConcatDER ==
  /\ phase = "der"
  /\ IF i > Len(parts) THEN phase' = "fields" /\ i' = 1 /\ UNCHANGED <<parts, lnfe, list, lerr>>
     ELSE IF parts[i] \in {"fatalDER", "garbage"} THEN ConcatFail
     ELSE /\ i' = i + 1
          /\ lnfe' = (lnfe \/ parts[i] = "laxDER")
          /\ UNCHANGED <<parts, phase, list, lerr>>

\* second loop: fill each certificate
ConcatFields ==
  /\ phase = "fields"
  /\ IF i > Len(parts)
       THEN /\ phase' = "done"
            /\ list' = Certs(Len(parts))
            /\ lerr' = IF lnfe THEN "nonFatal" ELSE "nil"
            /\ UNCHANGED <<parts, i, lnfe>>
     ELSE IF parts[i] = "fatalField" THEN ConcatFail
     ELSE /\ i' = i + 1
          /\ lnfe' = (lnfe \/ parts[i] = "nfField")
          /\ UNCHANGED <<parts, phase, list, lerr>>

Join(a, b) == IF "fatal" \in {a, b} THEN "fatal" ELSE IF "nonFatal" \in {a, b} THEN "nonFatal" ELSE "ok"
RECURSIVE JoinAll(_)
JoinAll(s) == IF s = <<>> THEN "ok" ELSE Join(PartAlone(Head(s)), JoinAll(Tail(s)))

(* ---------------------------------------------------------------------- *)
(* history: parsing is a function of the bytes handed in                   *)
(*                                                                         *)
(* An OBJECT is a certificate of one of a few shapes (templates) in one of *)
(* eight variants - the issuer name, the subject name and the alternative  *)
(* names each in one of two spellings OF EQUAL LENGTH, everything else     *)
(* byte for byte the same - with at most one mutation of the table.  Two   *)
(* objects of a shape share whatever a too-coarse key could be made of:    *)
(* length, layout, offsets, every field but one.                           *)
(* A CALL hands one object (entry "cert": ParseCertificate, "tbs":         *)
(* ParseTBSCertificate on its TBSCertificate) or the concatenation of the  *)
(* previous call's last object and a new one (entry "list":                *)
(* ParseCertificates) to the parser                                        *)
(*    buf = "fresh"   in a slice of its own, never seen before             *)
(*    buf = "own"     in the slice this object is kept in for the whole    *)
(*                    history (a second call sees the very same slice)     *)
(*    buf = "shared"  in the caller's one re-used buffer, overwritten for  *)
(*                    the purpose (a network reader's buffer).             *)
(* The machine has no variable in which a call could leave anything: the   *)
(* result is Parse(entry, objects).                                        *)
(* ---------------------------------------------------------------------- *)
CONSTANTS
  HistShapes,     \* templates the objects are issued from (MC module)
  HistMutNames,   \* mutations an object may carry; each keeps the envelope and has one sure outcome class
  HistSlots,      \* the slots in which the objects of a shape vary (a subset of Slots; the others stay 0)
  HistDepth       \* calls per history

Slots == {"iss", "sub", "san"}
ASSUME HistSlots \subseteq Slots
BufModes == {"fresh", "own", "shared"}
EntryModes == {"cert", "tbs", "list"}

MutByName(n) == CHOOSE m \in MutationTable : m.name = n
ASSUME \A n \in HistMutNames : (\E m \in MutationTable : m.name = n) /\ PartOf(MutByName(n)) # "" /\ MutByName(n).scope = "tbs"

\* the objects of a history: built once (HistStart) and carried in the variable world, so that the mutation table is
\* consulted once and not in every state; an object carries its class as a part of a concatenation
ObjectsOf(shapes, names) ==
  UNION {{[shape |-> s, iss |-> v[1], sub |-> v[2], san |-> v[3], mut |-> m.name, part |-> PartOf(m)] :
            v \in (IF "iss" \in HistSlots THEN {0, 1} ELSE {0}) \X (IF "sub" \in HistSlots THEN {0, 1} ELSE {0})
                     \X (IF "san" \in HistSlots THEN {0, 1} ELSE {0}),
            m \in {x \in MutationTable : x.name \in names /\ Applicable(s, x)}} : s \in shapes}

PartClass(o) == o.part
ClassAlone(o) == PartAlone(o.part)
\* what a result says about the slots of the object it was parsed from
Ident(o) == [iss |-> o.iss, sub |-> o.sub, san |-> o.san]

\* THE function.  One object: its own outcome.  A list: the join of the parts' outcomes and, unless fatal,
\* one certificate per part, each what the part gives alone (ConcatLaw, here with the identity of the fields)
Parse(entry, objs) ==
  LET cls == JoinAll([k \in 1..Len(objs) |-> PartClass(objs[k])])
  IN [cls |-> cls, certs |-> IF cls = "fatal" THEN <<>> ELSE [k \in 1..Len(objs) |-> Ident(objs[k])]]

VARIABLES
  world,    \* the objects calls are made with
  hist,     \* the calls so far: [entry, objs, buf, ret]
  shared,   \* what the caller's re-used buffer holds (the objects last written to it)
  closed    \* the history is complete (export marker)

hvars == <<world, hist, shared, closed>>

HistOff == world = {} /\ hist = <<>> /\ shared = <<>> /\ closed = FALSE
HistStart == world = ObjectsOf(HistShapes, HistMutNames) /\ hist = <<>> /\ shared = <<>> /\ closed = FALSE

LastObj == hist[Len(hist)].objs[Len(hist[Len(hist)].objs)]

\* the caller puts the bytes where it wants them and calls; the parser reads them and writes nowhere
Call(entry, o, buf) ==
  /\ Len(hist) < HistDepth
  /\ LET objs == IF entry = "list" /\ hist # <<>> THEN <<LastObj, o>> ELSE <<o>>
     IN /\ hist' = Append(hist, [entry |-> entry, objs |-> objs, buf |-> buf, ret |-> Parse(entry, objs)])
        /\ shared' = IF buf = "shared" THEN objs ELSE shared
  /\ UNCHANGED <<world, closed>>

HistFinish == Len(hist) = HistDepth /\ ~closed /\ closed' = TRUE /\ UNCHANGED <<world, hist, shared>>

HistNextAll == \E e \in EntryModes, o \in world, b \in BufModes : Call(e, o, b)

\* every call returns what it returns alone: equal arguments, equal results - wherever in the history, through
\* whichever buffer, after whatever else
Functional == \A a, b \in 1..Len(hist) :
                (hist[a].entry = hist[b].entry /\ hist[a].objs = hist[b].objs) => hist[a].ret = hist[b].ret
\* ... and what it returns alone is the object's own outcome, with the object's own names
PerCertificate == \A a \in 1..Len(hist) :
                    LET h == hist[a] IN
                    /\ h.ret.cls = JoinAll([k \in 1..Len(h.objs) |-> PartClass(h.objs[k])])
                    /\ (Len(h.objs) = 1 => h.ret.cls = ClassAlone(h.objs[1]))
                    /\ (h.ret.cls # "fatal" => /\ Len(h.ret.certs) = Len(h.objs)
                                               /\ \A k \in 1..Len(h.objs) : h.ret.certs[k] = Parse("cert", <<h.objs[k]>>).certs[1])
\* the arguments are not modified: the re-used buffer holds what the caller last wrote to it
SharedWrites == {a \in 1..Len(hist) : hist[a].buf = "shared"}
ArgsIntact == shared = IF SharedWrites = {} THEN <<>>
                       ELSE hist[CHOOSE a \in SharedWrites : \A b \in SharedWrites : b <= a].objs

HistTypeOK == /\ Len(hist) <= HistDepth
              /\ \A a \in 1..Len(hist) : hist[a].entry \in EntryModes /\ hist[a].buf \in BufModes /\ Len(hist[a].objs) \in {1, 2}

\* the three machines share the module; each run drives one of them
Init == PipeInit /\ ConcatOff /\ HistOff
Next == PipeNext /\ UNCHANGED <<cvars, hvars>>
Spec == Init /\ [][Next]_<<vars, cvars, hvars>>

ConcatInit == PipeOff /\ ConcatStart /\ HistOff
ConcatNext == (ConcatDER \/ ConcatFields) /\ UNCHANGED <<vars, hvars>>

HistInit == PipeOff /\ ConcatOff /\ HistStart
HistNext == HistNextAll /\ UNCHANGED <<vars, cvars>>

ListClass == IF list.nil THEN "fatal" ELSE IF lerr = "nil" THEN "ok" ELSE "nonFatal"

\* the list outcome is the join of the parts' own outcomes, and coherent
ConcatLaw == phase = "done" =>
               /\ ListClass = JoinAll(parts)
               /\ (list.nil <=> lerr = "fatal")
               /\ (~list.nil => list.n = Len(parts))
=============================================================================
